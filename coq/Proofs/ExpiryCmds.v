(** C04, part 2: the model of every deadline command *is* the declarative reference of
    [Spec/SpecExpiry.v] — reply, new deadline, and nothing else touched — for all states, times and
    argument vectors (well-formed or not). *)
From stdpp Require Import gmap strings.
From Coq Require Import ZifyBool.
From RecordUpdate Require Import RecordSet.
Import RecordSetNotations.
From EV Require Import Base.Str Model.Value Model.Adapt Model.Keyspace Model.Reply Model.Prog Model.CmdGeneric.
From EV Require Import Proofs.KeyspaceLemmas Proofs.ProgLemmas Proofs.ExpiryProofs.
From EV Require Spec.SpecExpiry.
Local Open Scope Z_scope.

Definition scalar (v : value) : bool := match v with VScal _ => true | _ => false end.
Definition mkval (s : string) : value := VScal (adapt_value s).

Definition render (r : SE.sreply value) : reply :=
  match r with
  | SE.SInt z => RInt z
  | SE.SOk => ROk
  | SE.SNil => RNil
  | SE.SErr => RErr
  | SE.SVal v => encode_value (Some v)
  end.

(** What a client sees of a reference entry. *)
Definition vis (now : Z) (o : option (SE.sentry value)) : option entry :=
  match o with
  | Some e => if SE.expired now e then None else Some (Entry (SE.se_tok e) (SE.se_dl e))
  | None => None
  end.

Definition cur_of (s : state) (d : Z) (k : string) : option (SE.sentry value) := abs_entry <$> lentry s d k.

(** [res] (state and reply of the model) is what the reference prescribes for command [c] on key
    [k] of database [d]: the reply, the entry of [k] as clients see it afterwards, and every other
    key of every database as before. *)
Definition refines (s : state) (d : Z) (k : string) (c : SE.dcmd value) (res : state * reply) : Prop :=
  snd res = render (snd (SE.spec_key scalar (st_now s) (cur_of s d k) c)) /\
  (forall d' k', lentry (fst res) d' k' =
     if decide (d = d' /\ k = k') then vis (st_now s) (fst (SE.spec_key scalar (st_now s) (cur_of s d k) c))
     else lentry s d' k') /\
  st_now (fst res) = st_now s /\ st_maxmem (fst res) = st_maxmem s /\ st_noevict (fst res) = st_noevict s.

Lemma lentry_not_expired s d k e : lentry s d k = Some e -> expired (st_now s) e = false.
Proof.
  unfold lentry. destruct (get_db s d !! k) as [e0|]; [|done].
  destruct (expired (st_now s) e0) eqn:Hx; [done|]. by intros [= <-].
Qed.

Lemma vis_cur s d k : vis (st_now s) (cur_of s d k) = lentry s d k.
Proof.
  unfold cur_of, vis. destruct (lentry s d k) as [e|] eqn:He; simpl; [|done].
  rewrite expired_abs, (lentry_not_expired _ _ _ _ He). by destruct e.
Qed.

Lemma lentry_deadline_ge s d k e t : lentry s d k = Some e -> e_dl e = Some t -> st_now s <= t.
Proof.
  intros He Ht. apply lentry_not_expired in He. unfold expired in He. rewrite Ht in He. lia.
Qed.

(** A step that leaves the view alone. *)
Lemma refines_unchanged s s' d k c r :
  same_view s s' ->
  SE.spec_key scalar (st_now s) (cur_of s d k) c = (cur_of s d k, r) ->
  refines s d k c (s', render r).
Proof.
  intros (Hl & Hn & Hm & He) Hs. unfold refines. rewrite Hs. simpl. split; [done|]. split; [|done].
  intros d' k'. rewrite Hl. destruct (decide _) as [[<- <-]|]; [by rewrite vis_cur|done].
Qed.

Lemma refines_absent_unchanged s s' d k c r :
  same_view s s' -> lentry s d k = None ->
  SE.spec_key scalar (st_now s) None c = (None, r) ->
  refines s d k c (s', render r).
Proof.
  intros Hv Hk Hs. apply refines_unchanged; [done|]. unfold cur_of. by rewrite Hk.
Qed.

(** A step that rewrites the deadline of a visible key with [SetExpiry]. *)
Lemma refines_set_expiry s d k c e t r :
  lentry s d k = Some e ->
  SE.spec_key scalar (st_now s) (Some (abs_entry e)) c = (Some (SE.SEntry (e_val e) t), r) ->
  refines s d k c (set_expiry s d k t, render r).
Proof.
  intros He Hs. unfold refines, cur_of. rewrite He. simpl. rewrite Hs. simpl.
  destruct (set_expiry_fields s d k t) as (N & M & E). split; [done|]. split; [|done].
  intros d' k'. rewrite set_expiry_lentry. destruct (decide _) as [[<- <-]|]; [|done].
  rewrite He. simpl. unfold SE.expired, expired. simpl. by destruct t as [t0|]; [destruct (t0 <? st_now s)|].
Qed.

Lemma keys_exist_present s d k e : lentry s d k = Some e -> keys_exist s d [k] k = true.
Proof. intros H. rewrite keys_exist_single, H. by apply bool_decide_eq_true_2. Qed.
Lemma keys_exist_absent s d k : lentry s d k = None -> keys_exist s d [k] k = false.
Proof. intros H. rewrite keys_exist_single, H. apply bool_decide_eq_false_2. by intros [? ?]. Qed.

(** * EXPIRE, PEXPIRE, EXPIREAT, PEXPIREAT *)
Lemma expire_with_option_refines s d k e t w ts :
  lentry s d k = Some e -> SE.deadline_of (st_now s) ts = t ->
  refines s d k (SE.DExpire ts (SE.parse_cond w))
          (run_seq d (expire_with_option k t w (dl_of (lentry s d k))) s).
Proof.
  intros He Ht. unfold expire_with_option, SE.parse_cond. rewrite He. simpl dl_of.
  assert (Hset : forall r, SE.spec_key scalar (st_now s) (Some (abs_entry e)) (SE.DExpire ts (SE.parse_cond w)) =
                           (Some (SE.SEntry (e_val e) (Some t)), r) ->
                 refines s d k (SE.DExpire ts (SE.parse_cond w)) (set_expiry s d k (Some t), render r)).
  { intros r Hr. by apply (refines_set_expiry s d k _ e (Some t) r). }
  assert (Hkeep : forall r, SE.spec_key scalar (st_now s) (Some (abs_entry e)) (SE.DExpire ts (SE.parse_cond w)) =
                            (Some (abs_entry e), r) ->
                  refines s d k (SE.DExpire ts (SE.parse_cond w)) (s, render r)).
  { intros r Hr. apply refines_unchanged; [apply same_view_refl|]. unfold cur_of. by rewrite He. }
  unfold SE.parse_cond in *.
  destruct (String.eqb (lower w) "nx").
  { destruct (e_dl e) as [c|] eqn:Hd; cbn [run_seq].
    - apply (Hkeep (SE.SInt 0)). simpl. by rewrite Hd.
    - apply (Hset (SE.SInt 1)). simpl. by rewrite Hd, Ht. }
  destruct (String.eqb (lower w) "xx").
  { destruct (e_dl e) as [c|] eqn:Hd; cbn [run_seq].
    - apply (Hset (SE.SInt 1)). simpl. by rewrite Hd, Ht.
    - apply (Hkeep (SE.SInt 0)). simpl. by rewrite Hd. }
  destruct (String.eqb (lower w) "gt").
  { destruct (e_dl e) as [c|] eqn:Hd; cbn [run_seq].
    - destruct (t <=? c) eqn:E; cbn [run_seq].
      + apply (Hkeep (SE.SInt 0)). simpl. rewrite Hd, Ht. simpl. replace (c <? t) with false by lia. done.
      + apply (Hset (SE.SInt 1)). simpl. rewrite Hd, Ht. simpl. replace (c <? t) with true by lia. done.
    - apply (Hkeep (SE.SInt 0)). simpl. by rewrite Hd. }
  destruct (String.eqb (lower w) "lt").
  { destruct (e_dl e) as [c|] eqn:Hd; cbn [run_seq].
    - destruct (c <=? t) eqn:E; cbn [run_seq].
      + apply (Hkeep (SE.SInt 0)). simpl. rewrite Hd, Ht. simpl. replace (t <? c) with false by lia. done.
      + (* the Go code calls SetExpiry twice here *)
        assert (Hs2 : set_expiry (set_expiry s d k (Some t)) d k (Some t) = set_expiry s d k (Some t) \/ True) by (by right).
        pose proof (Hset (SE.SInt 1)) as H1.
        assert (Hspec : SE.spec_key scalar (st_now s) (Some (abs_entry e)) (SE.DExpire ts SE.CLT) =
                        (Some (SE.SEntry (e_val e) (Some t)), SE.SInt 1)).
        { simpl. rewrite Hd, Ht. simpl. replace (t <? c) with true by lia. done. }
        specialize (H1 Hspec). destruct H1 as (R1 & L1 & N1 & M1 & E1). simpl in *.
        destruct (set_expiry_fields (set_expiry s d k (Some t)) d k (Some t)) as (N2 & M2 & E2).
        unfold refines. simpl. unfold cur_of. rewrite He. simpl. rewrite Hd, Ht. simpl.
        replace (t <? c) with true by lia. simpl.
        split; [done|]. split; [|repeat split; congruence].
        intros d' k'. rewrite set_expiry_lentry. destruct (decide _) as [[<- <-]|].
        * rewrite L1, decide_True by done. unfold cur_of. rewrite He. simpl. rewrite Hd, Ht. simpl.
          replace (t <? c) with true by lia. simpl. rewrite N1.
          unfold SE.expired, expired. simpl. by destruct (t <? st_now s).
        * rewrite L1. rewrite decide_False by done. done.
    - apply (Hset (SE.SInt 1)). simpl. by rewrite Hd, Ht. }
  cbn [run_seq]. apply (Hkeep SE.SErr). done.
Qed.

Lemma expire_gen_refines mk ts name k nstr n rest cnd s d :
  parse_int nstr = Some n ->
  (forall now, mk now n = SE.deadline_of now (ts n)) ->
  (rest = [] /\ cnd = SE.CAlways) \/ (exists w, rest = [w] /\ cnd = SE.parse_cond w) ->
  refines s d k (SE.DExpire (ts n) cnd) (run_seq d (handle_expire_gen mk (name :: k :: nstr :: rest)) s).
Proof.
  intros Hn Hmk Hrest. unfold handle_expire_gen.
  assert (Hlen : ((length (name :: k :: nstr :: rest) <? 3)%nat || (4 <? length (name :: k :: nstr :: rest))%nat) = false).
  { destruct Hrest as [[-> _]|(w & -> & _)]; reflexivity. }
  rewrite Hlen. cbn [arg nth run_seq]. rewrite Hn. cbn [run_seq].
  destruct (lentry s d k) as [e|] eqn:He.
  - rewrite (keys_exist_present _ _ _ _ He). cbn [negb].
    destruct Hrest as [[-> ->]|(w & -> & ->)]; cbn [length Nat.eqb run_seq].
    + apply (refines_set_expiry s d k _ e (Some (mk (st_now s) n)) (SE.SInt 1)); [done|]. simpl. by rewrite <- Hmk.
    + rewrite get_expiry_lentry. apply (expire_with_option_refines s d k e); [done|]. by rewrite <- Hmk.
  - rewrite (keys_exist_absent _ _ _ He). cbn [negb run_seq].
    apply (refines_absent_unchanged s s d k _ (SE.SInt 0)); [apply same_view_refl|done|done].
Qed.

(** * PERSIST *)
Lemma persist_refines name k s d :
  refines s d k SE.DPersist (run_seq d (handle_persist [name; k]) s).
Proof.
  unfold handle_persist. cbn [length Nat.eqb negb arg nth run_seq].
  destruct (lentry s d k) as [e|] eqn:He.
  - rewrite (keys_exist_present _ _ _ _ He). cbn [negb run_seq]. rewrite get_expiry_lentry, He. simpl dl_of.
    destruct (e_dl e) as [t|] eqn:Hd; cbn [run_seq].
    + apply (refines_set_expiry s d k _ e None (SE.SInt 1)); [done|]. simpl. by rewrite Hd.
    + apply (refines_unchanged s s d k _ (SE.SInt 0)); [apply same_view_refl|]. unfold cur_of. rewrite He. simpl. by rewrite Hd.
  - rewrite (keys_exist_absent _ _ _ He). cbn [negb run_seq].
    apply (refines_absent_unchanged s s d k _ (SE.SInt 0)); [apply same_view_refl|done|done].
Qed.

(** * TTL, PTTL, EXPIRETIME, PEXPIRETIME *)
Lemma ttl_refines name k u s d :
  String.eqb (lower name) "pttl" = match u with SE.Msec => true | SE.Sec => false end ->
  refines s d k (SE.DTtl u) (run_seq d (handle_ttl [name; k]) s).
Proof.
  intros Hu. unfold handle_ttl. cbn [length Nat.eqb negb arg nth run_seq].
  destruct (lentry s d k) as [e|] eqn:He.
  - rewrite (keys_exist_present _ _ _ _ He). cbn [negb run_seq]. rewrite get_expiry_lentry, He. simpl dl_of.
    destruct (e_dl e) as [t|] eqn:Hd; cbn [run_seq].
    + pose proof (lentry_deadline_ge _ _ _ _ _ He Hd) as Hge.
      rewrite Hu.
      assert (Hr : (let dd := if match u with SE.Msec => true | SE.Sec => false end then t - st_now s
                              else t / 1000 - st_now s / 1000 in if dd <=? 0 then 0 else dd)
                   = SE.remaining u (st_now s) t).
      { unfold SE.remaining, SE.of_ms. destruct u; simpl.
        - pose proof (Z.div_le_mono (st_now s) t 1000 ltac:(lia) Hge). destruct (_ <=? 0) eqn:E; lia.
        - destruct (_ <=? 0) eqn:E; lia. }
      cbv zeta in Hr. rewrite Hr.
      apply (refines_unchanged s s d k _ (SE.SInt (SE.remaining u (st_now s) t))); [apply same_view_refl|].
      unfold cur_of. rewrite He. simpl. by rewrite Hd.
    + apply (refines_unchanged s s d k _ (SE.SInt (-1))); [apply same_view_refl|]. unfold cur_of. rewrite He. simpl. by rewrite Hd.
  - rewrite (keys_exist_absent _ _ _ He). cbn [negb run_seq].
    apply (refines_absent_unchanged s s d k _ (SE.SInt (-2))); [apply same_view_refl|done|done].
Qed.

Lemma expiretime_refines name k u s d :
  String.eqb (lower name) "pexpiretime" = match u with SE.Msec => true | SE.Sec => false end ->
  refines s d k (SE.DExpireTime u) (run_seq d (handle_expiretime [name; k]) s).
Proof.
  intros Hu. unfold handle_expiretime. cbn [length Nat.eqb negb arg nth run_seq].
  destruct (lentry s d k) as [e|] eqn:He.
  - rewrite (keys_exist_present _ _ _ _ He). cbn [negb run_seq]. rewrite get_expiry_lentry, He. simpl dl_of.
    destruct (e_dl e) as [t|] eqn:Hd; cbn [run_seq].
    + rewrite Hu.
      replace (if match u with SE.Msec => true | SE.Sec => false end then t else t / 1000) with (SE.of_ms u t) by (by destruct u).
      apply (refines_unchanged s s d k _ (SE.SInt (SE.of_ms u t))); [apply same_view_refl|].
      unfold cur_of. rewrite He. simpl. by rewrite Hd.
    + apply (refines_unchanged s s d k _ (SE.SInt (-1))); [apply same_view_refl|]. unfold cur_of. rewrite He. simpl. by rewrite Hd.
  - rewrite (keys_exist_absent _ _ _ He). cbn [negb run_seq].
    apply (refines_absent_unchanged s s d k _ (SE.SInt (-2))); [apply same_view_refl|done|done].
Qed.

(** * GETEX *)
Lemma encode_value_scalar v : scalar v = true -> encode_value (Some v) <> RErr.
Proof. destruct v as [|[s|z|f]| | | |]; simpl; try done. by destruct (fl_text f). Qed.
Lemma encode_value_nonscalar v : scalar v = false -> encode_value (Some v) = RErr.
Proof. by destruct v as [|[s|z|f]| | | |]. Qed.

Definition getex_opt_of (now : Z) (rest : list string) : SE.getex_opt :=
  match rest with
  | [] => SE.GxNone
  | [w] => if String.eqb (upper w) "PERSIST" then SE.GxPersist else SE.GxNone
  | w :: n :: _ =>
      if String.eqb (upper w) "PERSIST" then SE.GxPersist else
      match parse_int n with
      | Some n => match SE.time_word w n with Some t => SE.GxSet t | None => SE.GxBad end
      | None => SE.GxBad
      end
  end.

Lemma get_values_single s d k :
  let '(s', f) := get_values s d [k] in same_view s s' /\ f k = live s d k.
Proof.
  pose proof (get_values_spec s d [k]) as H. destruct (get_values s d [k]) as [s' f].
  destruct H as [H1 H2]. split; [done|]. apply H2. set_solver.
Qed.

(** Upper- and lower-casing a word agree on whether it is one of the option words. *)
Lemma lower_ascii_upper c : lower_ascii (upper_ascii c) = lower_ascii c.
Proof.
  unfold lower_ascii, upper_ascii.
  destruct c as [[] [] [] [] [] [] [] []]; vm_compute; reflexivity.
Qed.
Lemma lower_upper w : lower (upper w) = lower w.
Proof. induction w as [|c r IH]; simpl; [done|]. by rewrite lower_ascii_upper, IH. Qed.
Lemma upper_ascii_lower c : upper_ascii (lower_ascii c) = upper_ascii c.
Proof.
  unfold lower_ascii, upper_ascii.
  destruct c as [[] [] [] [] [] [] [] []]; vm_compute; reflexivity.
Qed.
Lemma upper_lower w : upper (lower w) = upper w.
Proof. induction w as [|c r IH]; simpl; [done|]. by rewrite upper_ascii_lower, IH. Qed.

Lemma upper_eqb_lower w (U L : string) :
  upper L = U -> lower U = L -> String.eqb (upper w) U = String.eqb (lower w) L.
Proof.
  intros HU HL. destruct (String.eqb (upper w) U) eqn:E1.
  - apply String.eqb_eq in E1. symmetry. apply String.eqb_eq. by rewrite <- HL, <- E1, lower_upper.
  - destruct (String.eqb (lower w) L) eqn:E2; [|done].
    apply String.eqb_eq in E2. apply String.eqb_neq in E1. exfalso. apply E1. by rewrite <- HU, <- E2, upper_lower.
Qed.

Lemma time_chain {A} w z now (go : Z -> A) (dflt : A) :
  (if String.eqb (upper w) "EX" then go (now + z * 1000)
   else if String.eqb (upper w) "PX" then go (now + z)
   else if String.eqb (upper w) "EXAT" then go (z * 1000)
   else if String.eqb (upper w) "PXAT" then go z else dflt) =
  match SE.time_word w z with Some t => go (SE.deadline_of now t) | None => dflt end.
Proof.
  unfold SE.time_word.
  rewrite <- (upper_eqb_lower w "EX" "ex") by reflexivity.
  rewrite <- (upper_eqb_lower w "PX" "px") by reflexivity.
  rewrite <- (upper_eqb_lower w "EXAT" "exat") by reflexivity.
  rewrite <- (upper_eqb_lower w "PXAT" "pxat") by reflexivity.
  repeat match goal with |- context [if ?b then _ else _] => destruct b end; reflexivity.
Qed.

Ltac getex_tail s s1 d k e rest Hsc Hkeep Hset Hnow Hlen :=
  destruct rest as [|w [|n [|c0 r0]]]; simpl in Hlen; try lia; cbn [length Nat.eqb run_seq getex_opt_of] in *;
  [ apply (Hkeep (SE.SVal (e_val e))); simpl; by rewrite Hsc
  | cbn [arg nth]; destruct (String.eqb (upper w) "PERSIST") eqn:Ep; cbn [run_seq];
    [ apply (Hset None (SE.SVal (e_val e))); simpl; by rewrite Hsc
    | apply (Hkeep (SE.SVal (e_val e))); simpl; by rewrite Hsc ]
  | cbn [arg nth]; destruct (String.eqb (upper w) "PERSIST") eqn:Ep; cbn [run_seq];
    [ apply (Hset None (SE.SVal (e_val e))); simpl; by rewrite Hsc
    | destruct (parse_int n) as [zz|] eqn:Hz; cbn [run_seq];
      [ rewrite Hnow;
        pose proof (time_chain w zz (st_now s) (fun t => SetExpiry k (Some t) false (Ret (encode_value (Some (e_val e))))) (Ret RErr)) as Htc;
        cbv beta in Htc; rewrite Htc; clear Htc;
        destruct (SE.time_word w zz) as [tw|] eqn:Etw; rewrite ?Etw in Hkeep, Hset; cbn [run_seq];
        [ apply (Hset (Some (SE.deadline_of (st_now s) tw)) (SE.SVal (e_val e))); simpl; by rewrite Hsc
        | apply (Hkeep SE.SErr); simpl; by rewrite Hsc ]
      | apply (Hkeep SE.SErr); simpl; by rewrite Hsc ] ] ].

Lemma getex_refines name k rest s d :
  (length rest <= 2)%nat ->
  refines s d k (SE.DGetex (getex_opt_of (st_now s) rest)) (run_seq d (handle_getex (name :: k :: rest)) s).
Proof.
  intros Hlen. unfold handle_getex.
  assert (Hl : ((length (name :: k :: rest) <? 2)%nat || (4 <? length (name :: k :: rest))%nat) = false).
  { destruct rest as [|a [|b [|c r]]]; simpl in *; try reflexivity. lia. }
  rewrite Hl. cbn [arg nth run_seq].
  destruct (lentry s d k) as [e|] eqn:He.
  2: { rewrite (keys_exist_absent _ _ _ He). cbn [negb run_seq].
       apply (refines_absent_unchanged s s d k _ SE.SNil); [apply same_view_refl|done|done]. }
  rewrite (keys_exist_present _ _ _ _ He). cbn [negb run_seq].
  pose proof (get_values_single s d k) as Hg. destruct (get_values s d [k]) as [s1 f].
  destruct Hg as [Hv Hf]. rewrite Hf. unfold live. rewrite He. change (e_val <$> Some e) with (Some (e_val e)).
  assert (He1 : lentry s1 d k = Some e) by (destruct Hv as (-> & _); done).
  assert (Hnow : st_now s1 = st_now s) by apply Hv.
  destruct (scalar (e_val e)) eqn:Hsc.
  2: { rewrite (encode_value_nonscalar _ Hsc). cbn [run_seq].
       apply (refines_unchanged s s1 d k _ SE.SErr); [done|]. unfold cur_of. rewrite He. simpl. by rewrite Hsc. }
  pose proof (encode_value_scalar _ Hsc) as Hne.
  (* what remains is the option part, run from [s1] *)
  assert (Hfin : forall (p : prog reply) o,
     SE.spec_key scalar (st_now s) (Some (abs_entry e)) (SE.DGetex o) = (fst (SE.spec_key scalar (st_now s) (Some (abs_entry e)) (SE.DGetex o)), snd (SE.spec_key scalar (st_now s) (Some (abs_entry e)) (SE.DGetex o))) ->
     True) by done.
  clear Hfin.
  assert (Hkeep : forall r, SE.spec_key scalar (st_now s) (Some (abs_entry e)) (SE.DGetex (getex_opt_of (st_now s) rest)) = (Some (abs_entry e), r) ->
                  refines s d k (SE.DGetex (getex_opt_of (st_now s) rest)) (s1, render r)).
  { intros r Hr. apply refines_unchanged; [done|]. unfold cur_of. by rewrite He. }
  assert (Hset : forall t r, SE.spec_key scalar (st_now s) (Some (abs_entry e)) (SE.DGetex (getex_opt_of (st_now s) rest)) =
                             (Some (SE.SEntry (e_val e) t), r) ->
                 refines s d k (SE.DGetex (getex_opt_of (st_now s) rest)) (set_expiry s1 d k t, render r)).
  { intros t r Hr. pose proof (refines_set_expiry s1 d k (SE.DGetex (getex_opt_of (st_now s) rest)) e t r He1) as H.
    unfold refines, cur_of in H. rewrite He1, !Hnow in H. specialize (H Hr).
    unfold refines, cur_of. rewrite He.
    change (abs_entry <$> Some e) with (Some (abs_entry e)) in H |- *.
    destruct H as (R & L & N & M & E). cbn [fst snd] in *.
    split; [exact R|]. split.
    - intros d' k'. rewrite L. destruct (decide _); [done|]. by destruct Hv as (-> & _).
    - destruct Hv as (_ & ? & ? & ?). repeat split; congruence. }
  destruct (encode_value (Some (e_val e))) eqn:Henc; try congruence; rewrite <- Henc;
    getex_tail s s1 d k e rest Hsc Hkeep Hset Hnow Hlen.
Qed.

(** * SET key value [NX|XX] [GET] [EX|PX|EXAT|PXAT n] *)
Definition opts_of (now : Z) (o : SE.set_spec) : set_opts :=
  SetOpts (match SE.ss_ex o with SE.ENone => "" | SE.ENX => "NX" | SE.EXX => "XX" end) (SE.ss_get o)
          (SE.deadline_of now <$> SE.ss_time o).

Lemma parse_set_equiv now : forall fuel ws o, (length ws < fuel)%nat ->
  parse_set_opts fuel now ws (opts_of now o) = opts_of now <$> SE.parse_set_words ws o.
Proof.
  induction fuel as [|fuel IH]; intros ws o Hlen; [lia|].
  destruct ws as [|w rest]; [done|]. cbn [parse_set_opts SE.parse_set_words]. simpl in Hlen.
  destruct (String.eqb (lower w) "get").
  { rewrite <- IH by lia. done. }
  destruct (String.eqb (lower w) "nx").
  { destruct o as [[] g t]; cbn [opts_of so_exists SE.ss_ex String.eqb Ascii.eqb Bool.eqb]; try done.
    rewrite <- IH by lia. done. }
  destruct (String.eqb (lower w) "xx").
  { destruct o as [[] g t]; cbn [opts_of so_exists SE.ss_ex String.eqb Ascii.eqb Bool.eqb]; try done.
    rewrite <- IH by lia. done. }
  unfold SE.time_word.
  destruct rest as [|v rest'].
  { repeat match goal with |- context [if ?b then _ else _] => destruct b end; done. }
  simpl in Hlen.
  destruct o as [ex g [t|]]; cbn [opts_of so_expire SE.ss_time fmap option_fmap option_map].
  { repeat match goal with |- context [if ?b then _ else _] => destruct b end; done. }
  destruct (parse_int v) as [n|].
  2: { repeat match goal with |- context [if ?b then _ else _] => destruct b end; done. }
  destruct (String.eqb (lower w) "ex"); [rewrite <- IH by lia; done|].
  destruct (String.eqb (lower w) "px"); [rewrite <- IH by lia; done|].
  destruct (String.eqb (lower w) "exat"); [rewrite <- IH by lia; done|].
  destruct (String.eqb (lower w) "pxat"); [rewrite <- IH by lia; done|].
  done.
Qed.

Lemma set_values_single s d k v :
  st_maxmem s = 0 ->
  let '(s', ok) := set_values s d [(k, v)] in
  ok = true /\
  (forall d' k', lentry s' d' k' =
     if decide (d = d' /\ k = k') then Some (Entry v (dl_of (lentry s d k))) else lentry s d' k') /\
  st_now s' = st_now s /\ st_maxmem s' = st_maxmem s /\ st_noevict s' = st_noevict s.
Proof.
  intros Hm. pose proof (set_values_spec s d [(k, v)] Hm) as H.
  destruct (set_values s d [(k, v)]) as [s' ok]. destruct H as (Hok & L & F). split; [done|]. split; [|done].
  intros d' k'. rewrite L. destruct (decide (d = d')) as [<-|Hd].
  - simpl. destruct (String.eqb k' k) eqn:E.
    + apply String.eqb_eq in E. subst. by rewrite decide_True.
    + apply String.eqb_neq in E. rewrite decide_False; [done|]. intros [_ ?]. congruence.
  - rewrite decide_False; [done|]. intros [? _]. done.
Qed.

(** The part of [handle_set] after the options have been parsed and the old value fetched. *)
Definition set_tail (key : string) (value : string) (o : set_opts) (ex : bool) (res : reply) : prog reply :=
  if String.eqb (so_exists o) "XX" && negb ex then Ret RErr
  else if String.eqb (so_exists o) "NX" && ex then Ret RErr
  else SetValues [(key, VScal (adapt_value value))] (fun ok =>
       if negb ok then Ret RErr else
       match so_expire o with
       | Some t => SetExpiry key (Some t) false (Ret res)
       | None => Ret res
       end).

Definition cond_refused (ex : SE.excond) (present : bool) : bool :=
  match ex with SE.ENX => present | SE.EXX => negb present | SE.ENone => false end.

Lemma set_tail_run s0 s d k v ss res :
  same_view s0 s -> st_maxmem s0 = 0 ->
  let present := bool_decide (is_Some (lentry s0 d k)) in
  let out := run_seq d (set_tail k v (opts_of (st_now s0) ss) present res) s in
  if cond_refused (SE.ss_ex ss) present then snd out = RErr /\ same_view s0 (fst out)
  else
    snd out = res /\
    (forall d' k', lentry (fst out) d' k' =
       if decide (d = d' /\ k = k')
       then vis (st_now s0) (Some (SE.SEntry (mkval v)
              match SE.ss_time ss with
              | Some t => Some (SE.deadline_of (st_now s0) t)
              | None => dl_of (lentry s0 d k)
              end))
       else lentry s0 d' k') /\
    st_now (fst out) = st_now s0 /\ st_maxmem (fst out) = st_maxmem s0 /\ st_noevict (fst out) = st_noevict s0.
Proof.
  intros Hv Hm present out. subst out. unfold set_tail.
  destruct Hv as (Hl & Hn & Hmm & Hne).
  assert (Hms : st_maxmem s = 0) by congruence.
  destruct ss as [ex g t]. cbn [opts_of so_exists so_expire SE.ss_ex SE.ss_time cond_refused].
  assert (Hrun : forall (o_ex : string),
     String.eqb o_ex "XX" && negb present = false -> String.eqb o_ex "NX" && present = false ->
     let out := run_seq d (SetValues [(k, VScal (adapt_value v))] (fun ok =>
         if negb ok then Ret RErr else
         match SE.deadline_of (st_now s0) <$> t with
         | Some t0 => SetExpiry k (Some t0) false (Ret res)
         | None => Ret res
         end)) s in
     snd out = res /\
     (forall d' k', lentry (fst out) d' k' =
       if decide (d = d' /\ k = k')
       then vis (st_now s0) (Some (SE.SEntry (mkval v)
              match t with Some t => Some (SE.deadline_of (st_now s0) t) | None => dl_of (lentry s0 d k) end))
       else lentry s0 d' k') /\
     st_now (fst out) = st_now s0 /\ st_maxmem (fst out) = st_maxmem s0 /\ st_noevict (fst out) = st_noevict s0).
  { intros _ _ _. cbn [run_seq].
    pose proof (set_values_single s d k (VScal (adapt_value v)) Hms) as H.
    destruct (set_values s d [(k, VScal (adapt_value v))]) as [s' ok].
    destruct H as (-> & L & N & M & E). cbn [negb].
    destruct t as [t|]; cbn [fmap option_fmap option_map run_seq fst snd].
    - destruct (set_expiry_fields s' d k (Some (SE.deadline_of (st_now s0) t))) as (N2 & M2 & E2).
      split; [done|]. split; [|repeat split; congruence].
      intros d' k'. rewrite set_expiry_lentry. destruct (decide _) as [[<- <-]|Hne'].
      + rewrite L, decide_True by done. cbn -[SE.deadline_of]. rewrite N, Hn.
        unfold SE.expired, expired, mkval. cbn -[SE.deadline_of]. by destruct (_ <? _).
      + rewrite L, decide_False by done. by rewrite Hl.
    - split; [done|]. split; [|repeat split; congruence].
      intros d' k'. rewrite L, !Hl. destruct (decide _) as [[<- <-]|]; [|done].
      unfold vis, SE.expired, mkval. simpl.
      destruct (lentry s0 d k) as [e0|] eqn:He0; simpl; [|done].
      destruct (e_dl e0) as [t0|] eqn:Hd0; [|done].
      pose proof (lentry_deadline_ge _ _ _ _ _ He0 Hd0). replace (t0 <? st_now s0) with false by lia. done. }
  destruct ex; cbn [String.eqb Ascii.eqb Bool.eqb andb].
  - apply (Hrun ""); done.
  - destruct present eqn:Hp; cbn [andb negb].
    + cbn [run_seq]. split; [done|]. by repeat split.
    + apply (Hrun "NX"); done.
  - destruct present eqn:Hp; cbn [andb negb].
    + apply (Hrun "XX"); done.
    + cbn [run_seq]. split; [done|]. by repeat split.
Qed.

Lemma handle_set_unfold name k v ws :
  (length ws <= 4)%nat ->
  handle_set (name :: k :: v :: ws) =
  KeysExist [k] (fun ex => Now (fun now =>
  match parse_set_opts (S (length (name :: k :: v :: ws))) now ws (SetOpts "" false None) with
  | None => Ret RErr
  | Some o =>
      if so_get o then
        if negb (ex k) then set_tail k v o (ex k) RNil
        else GetValues [k] (fun vals =>
             match encode_value (vals k) with
             | RErr => Ret RErr
             | r => set_tail k v o (ex k) r
             end)
      else set_tail k v o (ex k) ROk
  end)).
Proof.
  intros Hlen. unfold handle_set.
  replace ((length (name :: k :: v :: ws) <? 3)%nat || (7 <? length (name :: k :: v :: ws))%nat) with false.
  2: { symmetry. apply orb_false_iff. split; apply Nat.ltb_ge; simpl; lia. }
  reflexivity.
Qed.

Definition get_refused (get : bool) (cur : option entry) : bool :=
  get && match cur with Some e => negb (scalar (e_val e)) | None => false end.

Lemma spec_key_set now cur v ex get t :
  SE.spec_key scalar now (abs_entry <$> cur) (SE.DSet (mkval v) ex get t) =
  if cond_refused ex (match cur with Some _ => true | None => false end) || get_refused get cur
  then (abs_entry <$> cur, SE.SErr)
  else (Some (SE.SEntry (mkval v) match t with Some t => Some (SE.deadline_of now t) | None => dl_of cur end),
        if get then match cur with Some e => SE.SVal (e_val e) | None => SE.SNil end else SE.SOk).
Proof.
  unfold get_refused. destruct cur as [e|], ex, get; cbn; try reflexivity; by destruct (scalar (e_val e)).
Qed.

Lemma set_finish s s1 d k v ss res :
  same_view s s1 -> st_maxmem s = 0 ->
  get_refused (SE.ss_get ss) (lentry s d k) = false ->
  res = render (if SE.ss_get ss then match lentry s d k with Some e => SE.SVal (e_val e) | None => SE.SNil end else SE.SOk) ->
  refines s d k (SE.DSet (mkval v) (SE.ss_ex ss) (SE.ss_get ss) (SE.ss_time ss))
    (run_seq d (set_tail k v (opts_of (st_now s) ss) (bool_decide (is_Some (lentry s d k))) res) s1).
Proof.
  intros Hv Hm Hg ->. unfold refines, cur_of. rewrite spec_key_set, Hg, orb_false_r.
  pose proof (set_tail_run s s1 d k v ss
    (render (if SE.ss_get ss then match lentry s d k with Some e => SE.SVal (e_val e) | None => SE.SNil end else SE.SOk)) Hv Hm) as H.
  cbv zeta in H.
  assert (Hpres : bool_decide (is_Some (lentry s d k)) = match lentry s d k with Some _ => true | None => false end).
  { destruct (lentry s d k); [by apply bool_decide_eq_true_2|apply bool_decide_eq_false_2; by intros [? ?]]. }
  rewrite Hpres in H |- *.
  destruct (run_seq d _ s1) as [s2 r2]. cbn [fst snd] in *.
  destruct (cond_refused (SE.ss_ex ss) _); cbn [fst snd].
  - destruct H as (-> & Hv2). split; [done|]. split; [|destruct Hv2 as (_ & ? & ? & ?); done].
    intros d' k'. destruct Hv2 as (-> & _). destruct (decide _) as [[<- <-]|]; [|done].
    pose proof (vis_cur s d k) as Hc. unfold cur_of in Hc. by rewrite Hc.
  - destruct H as (-> & L & F). split; [done|]. split; [|done]. intros d' k'. by rewrite L.
Qed.

Theorem set_refines name k v ws ss s d :
  st_maxmem s = 0 -> (length ws <= 4)%nat ->
  SE.parse_set_words ws (SE.SetSpec SE.ENone false None) = Some ss ->
  refines s d k (SE.DSet (mkval v) (SE.ss_ex ss) (SE.ss_get ss) (SE.ss_time ss))
          (run_seq d (handle_set (name :: k :: v :: ws)) s).
Proof.
  intros Hm Hlen Hp. rewrite handle_set_unfold by done. cbn [run_seq].
  change (SetOpts "" false None) with (opts_of (st_now s) (SE.SetSpec SE.ENone false None)).
  rewrite parse_set_equiv by (simpl; lia). rewrite Hp. cbn [fmap option_fmap option_map].
  rewrite keys_exist_single.
  destruct (SE.ss_get ss) eqn:Hg; cbn [opts_of so_get]; rewrite Hg.
  2: { pose proof (set_finish s s d k v ss ROk (same_view_refl s) Hm) as H. rewrite Hg in H. by apply H. }
  destruct (lentry s d k) as [e|] eqn:He.
  2: { rewrite (bool_decide_eq_false_2 (is_Some None)) by (by intros [? ?]). cbn [negb].
       pose proof (set_finish s s d k v ss RNil (same_view_refl s) Hm) as H. rewrite Hg, He in H.
       rewrite (bool_decide_eq_false_2 (is_Some None)) in H by (by intros [? ?]). by apply H. }
  rewrite (bool_decide_eq_true_2 (is_Some (Some e))) by done. cbn [negb run_seq].
  pose proof (get_values_single s d k) as Hgv. destruct (get_values s d [k]) as [s1 f].
  destruct Hgv as [Hv Hf]. rewrite Hf. unfold live. rewrite He. change (e_val <$> Some e) with (Some (e_val e)).
  destruct (scalar (e_val e)) eqn:Hsc.
  - pose proof (encode_value_scalar _ Hsc) as Hne.
    pose proof (set_finish s s1 d k v ss (encode_value (Some (e_val e))) Hv Hm) as H.
    rewrite Hg, He in H. unfold get_refused in H. rewrite Hsc in H. specialize (H eq_refl eq_refl).
    rewrite (bool_decide_eq_true_2 (is_Some (Some e))) in H by done.
    destruct (encode_value (Some (e_val e))) eqn:Henc; try congruence; exact H.
  - rewrite (encode_value_nonscalar _ Hsc). cbn [run_seq].
    unfold refines, cur_of. rewrite He, spec_key_set. unfold get_refused. rewrite Hsc. cbn [andb negb]. rewrite orb_true_r. cbn [fst snd].
    split; [done|]. split; [|destruct Hv as (_ & ? & ? & ?); done].
    intros d' k'. destruct Hv as (-> & _). destruct (decide _) as [[<- <-]|]; [|done].
    pose proof (vis_cur s d k) as Hc. unfold cur_of in Hc. rewrite He in Hc. by rewrite Hc.
Qed.

(** * All deadline commands, through the handler table *)
From EV Require Import Model.Dispatch.

Ltac word_is E := apply String.eqb_eq in E.

Lemma expire_word_refines name nm k rest c s d (ts : Z -> SE.tspec) h :
  lower name = nm ->
  handler_of nm = Some h ->
  (h = handle_expire /\ nm <> "pexpire" /\ ts = SE.In SE.Sec \/
   h = handle_expire /\ nm = "pexpire" /\ ts = SE.In SE.Msec \/
   h = handle_expireat /\ nm <> "pexpireat" /\ ts = SE.At SE.Sec \/
   h = handle_expireat /\ nm = "pexpireat" /\ ts = SE.At SE.Msec) ->
  match rest with
  | [n] => (fun n => (k, SE.DExpire (ts n) SE.CAlways)) <$> parse_int n
  | [n; c] => (fun n => (k, SE.DExpire (ts n) (SE.parse_cond c))) <$> parse_int n
  | _ => None
  end = Some c ->
  refines s d (fst c) (snd c) (run_seq d (h (name :: k :: rest)) s).
Proof.
  intros Hnm Hh Hcase Hp.
  assert (Hgen : forall mk, (forall now n, mk now n = SE.deadline_of now (ts n)) ->
    refines s d (fst c) (snd c) (run_seq d (handle_expire_gen mk (name :: k :: rest)) s)).
  { intros mk Hmk. destruct rest as [|n [|w [|? ?]]]; try done.
    - destruct (parse_int n) as [z|] eqn:Hz; [|done]. injection Hp as <-. simpl.
      apply (expire_gen_refines mk ts name k n z [] SE.CAlways); auto.
    - destruct (parse_int n) as [z|] eqn:Hz; [|done]. injection Hp as <-. simpl.
      apply (expire_gen_refines mk ts name k n z [w] (SE.parse_cond w)); eauto. }
  destruct Hcase as [(-> & Hne & ->)|[(-> & -> & ->)|[(-> & Hne & ->)|(-> & -> & ->)]]];
    unfold handle_expire, handle_expireat; cbn [arg nth]; rewrite Hnm; apply Hgen; intros now n.
  - replace (String.eqb nm "pexpire") with false by (symmetry; by apply String.eqb_neq). done.
  - done.
  - replace (String.eqb nm "pexpireat") with false by (symmetry; by apply String.eqb_neq). done.
  - done.
Qed.

Theorem deadline_cmds_refine argv k c h s d :
  st_maxmem s = 0 ->
  SE.parse_dcmd mkval argv = Some (k, c) ->
  handler_of (lower (arg argv 0)) = Some h ->
  refines s d k c (run_seq d (h argv) s).
Proof.
  intros Hm Hp Hh. destruct argv as [|name [|key rest]]; try done.
  cbn [arg nth] in Hh. unfold SE.parse_dcmd in Hp.
  destruct (String.eqb (lower name) "expire") eqn:E1.
  { word_is E1. rewrite E1 in Hh. injection Hh as <-.
    apply (expire_word_refines name "expire" key rest (k, c) s d (SE.In SE.Sec) handle_expire E1 eq_refl); [|exact Hp].
    left. done. }
  destruct (String.eqb (lower name) "pexpire") eqn:E2.
  { word_is E2. rewrite E2 in Hh. injection Hh as <-.
    apply (expire_word_refines name "pexpire" key rest (k, c) s d (SE.In SE.Msec) handle_expire E2 eq_refl); [|exact Hp].
    right; left. done. }
  destruct (String.eqb (lower name) "expireat") eqn:E3.
  { word_is E3. rewrite E3 in Hh. injection Hh as <-.
    apply (expire_word_refines name "expireat" key rest (k, c) s d (SE.At SE.Sec) handle_expireat E3 eq_refl); [|exact Hp].
    right; right; left. done. }
  destruct (String.eqb (lower name) "pexpireat") eqn:E4.
  { word_is E4. rewrite E4 in Hh. injection Hh as <-.
    apply (expire_word_refines name "pexpireat" key rest (k, c) s d (SE.At SE.Msec) handle_expireat E4 eq_refl); [|exact Hp].
    right; right; right. done. }
  destruct (String.eqb (lower name) "persist") eqn:E5.
  { word_is E5. rewrite E5 in Hh. injection Hh as <-. destruct rest; [|done]. injection Hp as <- <-. apply persist_refines. }
  destruct (String.eqb (lower name) "ttl") eqn:E6.
  { word_is E6. rewrite E6 in Hh. injection Hh as <-. destruct rest; [|done]. injection Hp as <- <-.
    apply ttl_refines. by rewrite E6. }
  destruct (String.eqb (lower name) "pttl") eqn:E7.
  { word_is E7. rewrite E7 in Hh. injection Hh as <-. destruct rest; [|done]. injection Hp as <- <-.
    apply ttl_refines. by rewrite E7. }
  destruct (String.eqb (lower name) "expiretime") eqn:E8.
  { word_is E8. rewrite E8 in Hh. injection Hh as <-. destruct rest; [|done]. injection Hp as <- <-.
    apply expiretime_refines. by rewrite E8. }
  destruct (String.eqb (lower name) "pexpiretime") eqn:E9.
  { word_is E9. rewrite E9 in Hh. injection Hh as <-. destruct rest; [|done]. injection Hp as <- <-.
    apply expiretime_refines. by rewrite E9. }
  destruct (String.eqb (lower name) "set") eqn:E10.
  { word_is E10. rewrite E10 in Hh. injection Hh as <-. destruct rest as [|v ws]; [done|].
    destruct (4 <? length ws)%nat eqn:El; [done|]. apply Nat.ltb_ge in El.
    destruct (SE.parse_set_words ws _) as [ss|] eqn:Hps; [|done]. injection Hp as <- <-.
    by apply set_refines. }
  destruct (String.eqb (lower name) "getex") eqn:E11; [|done].
  word_is E11. rewrite E11 in Hh. injection Hh as <-.
  assert (Hlen : (length rest <= 2)%nat) by (destruct rest as [|a [|b [|? ?]]]; simpl; try lia; done).
  pose proof (getex_refines name key rest s d Hlen) as H.
  replace c with (SE.DGetex (T:=value) (getex_opt_of (st_now s) rest)); [replace k with key; [exact H|]|].
  - destruct rest as [|a [|b [|? ?]]]; try done; cbn in Hp; try (by injection Hp).
    destruct (String.eqb (upper a) "PERSIST"); by injection Hp.
  - destruct rest as [|a [|b [|? ?]]]; try done; cbn [getex_opt_of] in *; try (by injection Hp as _ <-).
    destruct (String.eqb (upper a) "PERSIST"); by injection Hp as _ <-.
Qed.

(** Malformed commands of the family are answered with an error. *)
Lemma expire_gen_malformed mk name k rest s d :
  match rest with
  | [n] => parse_int n
  | [n; c] => parse_int n
  | _ => None
  end = None ->
  snd (run_seq d (handle_expire_gen mk (name :: k :: rest)) s) = RErr.
Proof.
  intros Hp. unfold handle_expire_gen. destruct rest as [|n [|w [|x r]]]; try reflexivity;
    cbn [length Nat.ltb Nat.leb orb arg nth run_seq]; rewrite Hp; reflexivity.
Qed.

Theorem deadline_cmds_malformed argv h s d :
  SE.deadline_family (arg argv 0) = true ->
  SE.parse_dcmd mkval argv = None ->
  handler_of (lower (arg argv 0)) = Some h ->
  snd (run_seq d (h argv) s) = RErr.
Proof.
  intros Hf Hp Hh. destruct argv as [|name rest0]; [done|]. cbn [arg nth] in *.
  unfold SE.deadline_family in Hf. apply bool_decide_eq_true in Hf.
  destruct rest0 as [|key rest].
  { (* no key at all: every handler of the family refuses on arity *)
    repeat (apply elem_of_cons in Hf; destruct Hf as [Hf|Hf]; [rewrite Hf in Hh; injection Hh as <-; reflexivity|]).
    by apply elem_of_nil in Hf. }
  unfold SE.parse_dcmd in Hp.
  destruct (String.eqb (lower name) "expire") eqn:E1.
  { word_is E1. rewrite E1 in Hh. injection Hh as <-. unfold handle_expire. apply expire_gen_malformed.
    destruct rest as [|n [|w [|? ?]]]; try done; by destruct (parse_int n). }
  destruct (String.eqb (lower name) "pexpire") eqn:E2.
  { word_is E2. rewrite E2 in Hh. injection Hh as <-. unfold handle_expire. apply expire_gen_malformed.
    destruct rest as [|n [|w [|? ?]]]; try done; by destruct (parse_int n). }
  destruct (String.eqb (lower name) "expireat") eqn:E3.
  { word_is E3. rewrite E3 in Hh. injection Hh as <-. unfold handle_expireat. apply expire_gen_malformed.
    destruct rest as [|n [|w [|? ?]]]; try done; by destruct (parse_int n). }
  destruct (String.eqb (lower name) "pexpireat") eqn:E4.
  { word_is E4. rewrite E4 in Hh. injection Hh as <-. unfold handle_expireat. apply expire_gen_malformed.
    destruct rest as [|n [|w [|? ?]]]; try done; by destruct (parse_int n). }
  destruct (String.eqb (lower name) "persist") eqn:E5.
  { word_is E5. rewrite E5 in Hh. injection Hh as <-. destruct rest as [|a r]; [done|]. reflexivity. }
  destruct (String.eqb (lower name) "ttl") eqn:E6.
  { word_is E6. rewrite E6 in Hh. injection Hh as <-. destruct rest as [|a r]; [done|]. reflexivity. }
  destruct (String.eqb (lower name) "pttl") eqn:E7.
  { word_is E7. rewrite E7 in Hh. injection Hh as <-. destruct rest as [|a r]; [done|]. reflexivity. }
  destruct (String.eqb (lower name) "expiretime") eqn:E8.
  { word_is E8. rewrite E8 in Hh. injection Hh as <-. destruct rest as [|a r]; [done|]. reflexivity. }
  destruct (String.eqb (lower name) "pexpiretime") eqn:E9.
  { word_is E9. rewrite E9 in Hh. injection Hh as <-. destruct rest as [|a r]; [done|]. reflexivity. }
  destruct (String.eqb (lower name) "set") eqn:E10.
  { word_is E10. rewrite E10 in Hh. injection Hh as <-. destruct rest as [|v ws]; [reflexivity|].
    destruct (4 <? length ws)%nat eqn:El.
    - apply Nat.ltb_lt in El. unfold handle_set.
      replace ((length (name :: key :: v :: ws) <? 3)%nat || (7 <? length (name :: key :: v :: ws))%nat) with true; [done|].
      symmetry. apply orb_true_iff. right. apply Nat.ltb_lt. simpl. lia.
    - apply Nat.ltb_ge in El. rewrite handle_set_unfold by done. cbn [run_seq].
      change (SetOpts "" false None) with (opts_of (st_now s) (SE.SetSpec SE.ENone false None)).
      rewrite parse_set_equiv by (simpl; lia).
      destruct (SE.parse_set_words ws _); [done|]. reflexivity. }
  destruct (String.eqb (lower name) "getex") eqn:E11.
  { word_is E11. rewrite E11 in Hh. injection Hh as <-. destruct rest as [|a [|b [|c r]]]; try done.
    by destruct (String.eqb (upper a) "PERSIST"). }
  exfalso. repeat (apply elem_of_cons in Hf; destruct Hf as [Hf|Hf]; [rewrite Hf in *; discriminate|]).
  by apply elem_of_nil in Hf.
Qed.
