(** Which handler belongs to which syntactic class of [Proofs/ProgLemmas.v]; with the theorems there
    this gives, per command word: read-only commands are pure (C13), failing commands change nothing
    (C13, C01), no command but FLUSHALL touches another database (C20). *)
From stdpp Require Import gmap strings.
From EV Require Import Base.Str Model.Value Model.Adapt Model.Keyspace Model.Reply Model.Prog.
From EV Require Import Model.CmdList Model.CmdGeneric Model.CmdString Model.Dispatch.
From EV Require Import Proofs.KeyspaceLemmas Proofs.ProgLemmas.
Local Open Scope Z_scope.

Ltac ro_step :=
  match goal with
  | |- readonly (match ?x with _ => _ end) => destruct x
  | |- readonly (if ?b then _ else _) => destruct b
  | |- readonly _ => constructor
  end.
Ltac ro := repeat (intros; cbv zeta; ro_step).

Ltac nf_step :=
  match goal with
  | |- noflushall (match ?x with _ => _ end) => destruct x
  | |- noflushall (if ?b then _ else _) => destruct b
  | H : forall _, noflushall _ |- noflushall _ => apply H
  | |- noflushall _ => constructor
  end.
Ltac nf := repeat (intros; cbv zeta; nf_step).

Ltac eb_step :=
  match goal with
  | |- ebw _ (match ?x with _ => _ end) => destruct x
  | |- ebw _ (if ?b then _ else _) => destruct b
  | H : forall _, ebw _ _ |- ebw _ _ => apply H
  | |- ebw _ (Ret _) => apply eb_ret; intros; discriminate
  | |- ebw _ _ => constructor
  end.
Ltac eb := repeat (intros; cbv zeta; cbn [negb]; eb_step).

(** * Read-only handlers *)
Lemma ro_llen argv : readonly (handle_llen argv). Proof. unfold handle_llen. ro. Qed.
Lemma ro_lindex argv : readonly (handle_lindex argv). Proof. unfold handle_lindex. ro. Qed.
Lemma ro_lrange argv : readonly (handle_lrange argv). Proof. unfold handle_lrange. ro. Qed.
Lemma ro_get argv : readonly (handle_get argv). Proof. unfold handle_get. ro. Qed.
Lemma ro_mget argv : readonly (handle_mget argv). Proof. unfold handle_mget. ro. Qed.
Lemma ro_ttl argv : readonly (handle_ttl argv). Proof. unfold handle_ttl. ro. Qed.
Lemma ro_expiretime argv : readonly (handle_expiretime argv). Proof. unfold handle_expiretime. ro. Qed.
Lemma ro_type argv : readonly (handle_type argv). Proof. unfold handle_type. ro. Qed.
Lemma ro_strlen argv : readonly (handle_strlen argv). Proof. unfold handle_strlen. ro. Qed.
Lemma ro_substr argv : readonly (handle_substr argv). Proof. unfold handle_substr. ro. Qed.

(** The command words of the modelled modules whose handler is read-only. *)
Definition readonly_words : list string :=
  ["llen"; "lindex"; "lrange"; "get"; "mget"; "ttl"; "pttl"; "expiretime"; "pexpiretime"; "type";
   "strlen"; "substr"; "getrange"].

Ltac ro_word w hd lem :=
  intros Hh; change (handler_of w) with (Some hd) in Hh; injection Hh as <-; apply lem.

Theorem readonly_words_sound name h argv :
  In name readonly_words -> handler_of name = Some h -> readonly (h argv).
Proof.
  unfold readonly_words. simpl.
  intros [<-|[<-|[<-|[<-|[<-|[<-|[<-|[<-|[<-|[<-|[<-|[<-|[<-|[]]]]]]]]]]]]]].
  - ro_word "llen" handle_llen ro_llen.
  - ro_word "lindex" handle_lindex ro_lindex.
  - ro_word "lrange" handle_lrange ro_lrange.
  - ro_word "get" handle_get ro_get.
  - ro_word "mget" handle_mget ro_mget.
  - ro_word "ttl" handle_ttl ro_ttl.
  - ro_word "pttl" handle_ttl ro_ttl.
  - ro_word "expiretime" handle_expiretime ro_expiretime.
  - ro_word "pexpiretime" handle_expiretime ro_expiretime.
  - ro_word "type" handle_type ro_type.
  - ro_word "strlen" handle_strlen ro_strlen.
  - ro_word "substr" handle_substr ro_substr.
  - ro_word "getrange" handle_substr ro_substr.
Qed.

(** * No FLUSHALL *)
Lemma nf_del_keys ks ex n : noflushall (del_keys ks ex n).
Proof. revert n. induction ks as [|k r IH]; intros n; simpl; nf. Qed.
Lemma nf_expire_with_option key t opt cur : noflushall (expire_with_option key t opt cur).
Proof. unfold expire_with_option. nf. Qed.
Lemma nf_counter_step key delta : noflushall (counter_step key delta).
Proof. unfold counter_step. nf. Qed.

Lemma nf_list name h argv : list_handler name = Some h -> noflushall (h argv).
Proof.
  unfold list_handler.
  repeat match goal with |- context [if ?b then _ else _] => destruct b end; intros [= <-];
    unfold handle_llen, handle_lindex, handle_lrange, handle_lset, handle_ltrim, handle_lrem, handle_lmove,
      handle_push, handle_pop; nf.
Qed.

Lemma nf_string name h argv : string_handler name = Some h -> noflushall (h argv).
Proof.
  unfold string_handler.
  repeat match goal with |- context [if ?b then _ else _] => destruct b end; intros [= <-];
    unfold handle_setrange, handle_strlen, handle_substr, handle_append; nf.
Qed.

Lemma nf_generic name h argv :
  generic_handler name = Some h -> name <> "flushall" -> eq_fold (arg argv 0) "flushall" = false ->
  noflushall (h argv).
Proof.
  unfold generic_handler. intros Hh Hname Hw. revert Hh.
  repeat match goal with |- context [if ?b then _ else _] => destruct b eqn:? end; intros [= <-];
    unfold handle_set, handle_mset, handle_get, handle_mget, handle_del, handle_persist, handle_expiretime,
      handle_ttl, handle_expire, handle_expireat, handle_expire_gen, handle_incr, handle_decr, handle_incrby,
      handle_decrby, handle_incrbyfloat, handle_rename, handle_getdel, handle_getex, handle_type;
    try (nf; auto using nf_del_keys, nf_expire_with_option, nf_counter_step; fail).
  unfold handle_flush. rewrite Hw. nf.
Qed.

(** * Errors come before writes *)
Lemma eb_del_keys w ks ex n : ebw w (del_keys ks ex n).
Proof.
  revert w n. induction ks as [|k r IH]; intros w n; simpl; [eb|].
  destruct (ex k); [constructor; apply IH|apply IH].
Qed.
Lemma eb_expire_with_option w key t opt cur : ebw w (expire_with_option key t opt cur) \/ w = true.
Proof. destruct w; [by right|left]. unfold expire_with_option. eb. Qed.
Lemma eb_counter_step key delta : ebw false (counter_step key delta).
Proof. unfold counter_step. eb. Qed.

Lemma eb_string name h argv : string_handler name = Some h -> ebw false (h argv).
Proof.
  unfold string_handler.
  repeat match goal with |- context [if ?b then _ else _] => destruct b end; intros [= <-];
    unfold handle_setrange, handle_strlen, handle_substr, handle_append; eb.
Qed.

Lemma eb_generic name h argv : generic_handler name = Some h -> ebw false (h argv).
Proof.
  unfold generic_handler.
  repeat match goal with |- context [if ?b then _ else _] => destruct b eqn:? end; intros [= <-];
    unfold handle_set, handle_mset, handle_get, handle_mget, handle_del, handle_persist, handle_expiretime,
      handle_ttl, handle_expire, handle_expireat, handle_expire_gen, handle_incr, handle_decr, handle_incrby,
      handle_decrby, handle_incrbyfloat, handle_rename, handle_flush, handle_getdel, handle_getex, handle_type;
    try (eb; auto using eb_del_keys, eb_counter_step; fail).
  all: eb; auto using eb_del_keys, eb_counter_step.
  all: unfold expire_with_option; eb.
Qed.
