(** Which handler belongs to which syntactic class of [Proofs/ProgLemmas.v]; with the theorems there
    this gives, per command word: read-only commands are pure (C13), failing commands change nothing
    (C13, C01), no command but FLUSHALL touches another database (C20). *)
From stdpp Require Import gmap strings.
From EV Require Import Base.Str Model.Value Model.Adapt Model.Keyspace Model.Reply Model.Prog.
From EV Require Import Model.CmdList Model.CmdGeneric Model.CmdString Model.Dispatch.
From EV Require Import Proofs.KeyspaceLemmas Proofs.ProgLemmas Proofs.DispatchLemmas.
Local Open Scope Z_scope.

Ltac ro_step :=
  match goal with
  | |- readonly (match ?x with _ => _ end) => destruct x
  | |- readonly (if ?b then _ else _) => destruct b
  | |- readonly _ => constructor
  end.
Ltac ro := repeat (intros; cbv zeta; ro_step).

Ltac nf_step :=
  match goal with
  | |- noflushall (match ?x with _ => _ end) => destruct x
  | |- noflushall (if ?b then _ else _) => destruct b
  | H : forall _, noflushall _ |- noflushall _ => apply H
  | |- noflushall _ => constructor
  end.
Ltac nf := repeat (intros; cbv zeta; nf_step).

Ltac eb_step :=
  match goal with
  | |- ebw _ (match ?x with _ => _ end) => destruct x
  | |- ebw _ (if ?b then _ else _) => destruct b
  | H : forall _, ebw _ _ |- ebw _ _ => apply H
  | |- ebw _ (Ret _) => apply eb_ret; intros; discriminate
  | |- ebw _ _ => constructor
  end.
Ltac eb := repeat (intros; cbv zeta; cbn [negb]; eb_step).

(** * Read-only handlers *)
Lemma ro_llen argv : readonly (handle_llen argv). Proof. unfold handle_llen. ro. Qed.
Lemma ro_lindex argv : readonly (handle_lindex argv). Proof. unfold handle_lindex. ro. Qed.
Lemma ro_lrange argv : readonly (handle_lrange argv). Proof. unfold handle_lrange. ro. Qed.
Lemma ro_get argv : readonly (handle_get argv). Proof. unfold handle_get. ro. Qed.
Lemma ro_mget argv : readonly (handle_mget argv). Proof. unfold handle_mget. ro. Qed.
Lemma ro_ttl argv : readonly (handle_ttl argv). Proof. unfold handle_ttl. ro. Qed.
Lemma ro_expiretime argv : readonly (handle_expiretime argv). Proof. unfold handle_expiretime. ro. Qed.
Lemma ro_type argv : readonly (handle_type argv). Proof. unfold handle_type. ro. Qed.
Lemma ro_strlen argv : readonly (handle_strlen argv). Proof. unfold handle_strlen. ro. Qed.
Lemma ro_substr argv : readonly (handle_substr argv). Proof. unfold handle_substr. ro. Qed.

(** The command words of the modelled modules whose handler is read-only. *)
Definition readonly_words : list string :=
  ["llen"; "lindex"; "lrange"; "get"; "mget"; "ttl"; "pttl"; "expiretime"; "pexpiretime"; "type";
   "strlen"; "substr"; "getrange"].

Ltac ro_word w hd lem :=
  intros Hh; change (handler_of w) with (Some hd) in Hh; injection Hh as <-; apply lem.

Theorem readonly_words_sound name h argv :
  In name readonly_words -> handler_of name = Some h -> readonly (h argv).
Proof.
  unfold readonly_words. simpl.
  intros [<-|[<-|[<-|[<-|[<-|[<-|[<-|[<-|[<-|[<-|[<-|[<-|[<-|[]]]]]]]]]]]]]].
  - ro_word "llen" handle_llen ro_llen.
  - ro_word "lindex" handle_lindex ro_lindex.
  - ro_word "lrange" handle_lrange ro_lrange.
  - ro_word "get" handle_get ro_get.
  - ro_word "mget" handle_mget ro_mget.
  - ro_word "ttl" handle_ttl ro_ttl.
  - ro_word "pttl" handle_ttl ro_ttl.
  - ro_word "expiretime" handle_expiretime ro_expiretime.
  - ro_word "pexpiretime" handle_expiretime ro_expiretime.
  - ro_word "type" handle_type ro_type.
  - ro_word "strlen" handle_strlen ro_strlen.
  - ro_word "substr" handle_substr ro_substr.
  - ro_word "getrange" handle_substr ro_substr.
Qed.

(** * No FLUSHALL *)
Lemma nf_del_keys ks ex n : noflushall (del_keys ks ex n).
Proof. revert n. induction ks as [|k r IH]; intros n; simpl; nf. Qed.
Lemma nf_expire_with_option key t opt cur : noflushall (expire_with_option key t opt cur).
Proof. unfold expire_with_option. nf. Qed.
Lemma nf_counter_step key delta : noflushall (counter_step key delta).
Proof. unfold counter_step. nf. Qed.

Lemma nf_list name h argv : list_handler name = Some h -> noflushall (h argv).
Proof.
  unfold list_handler.
  repeat match goal with |- context [if ?b then _ else _] => destruct b end; intros [= <-];
    unfold handle_llen, handle_lindex, handle_lrange, handle_lset, handle_ltrim, handle_lrem, handle_lmove,
      handle_push, handle_pop; nf.
Qed.

Lemma nf_string name h argv : string_handler name = Some h -> noflushall (h argv).
Proof.
  unfold string_handler.
  repeat match goal with |- context [if ?b then _ else _] => destruct b end; intros [= <-];
    unfold handle_setrange, handle_strlen, handle_substr, handle_append; nf.
Qed.

Lemma nf_generic name h argv :
  generic_handler name = Some h -> name <> "flushall" -> eq_fold (arg argv 0) "flushall" = false ->
  noflushall (h argv).
Proof.
  unfold generic_handler. intros Hh Hname Hw. revert Hh.
  repeat match goal with |- context [if ?b then _ else _] => destruct b eqn:? end; intros [= <-];
    unfold handle_set, handle_mset, handle_get, handle_mget, handle_del, handle_persist, handle_expiretime,
      handle_ttl, handle_expire, handle_expireat, handle_expire_gen, handle_incr, handle_decr, handle_incrby,
      handle_decrby, handle_incrbyfloat, handle_rename, handle_getdel, handle_getex, handle_type;
    try (nf; auto using nf_del_keys, nf_expire_with_option, nf_counter_step; fail).
  unfold handle_flush. rewrite Hw. nf.
Qed.

(** * Errors come before writes *)
Lemma eb_del_keys w ks ex n : ebw w (del_keys ks ex n).
Proof.
  revert w n. induction ks as [|k r IH]; intros w n; simpl; [eb|].
  destruct (ex k); [constructor; apply IH|apply IH].
Qed.
Lemma eb_expire_with_option w key t opt cur : ebw w (expire_with_option key t opt cur) \/ w = true.
Proof. destruct w; [by right|left]. unfold expire_with_option. eb. Qed.
Lemma eb_counter_step key delta : ebw false (counter_step key delta).
Proof. unfold counter_step. eb. Qed.

Lemma eb_string name h argv : string_handler name = Some h -> ebw false (h argv).
Proof.
  unfold string_handler.
  repeat match goal with |- context [if ?b then _ else _] => destruct b end; intros [= <-];
    unfold handle_setrange, handle_strlen, handle_substr, handle_append; eb.
Qed.

Lemma eb_generic name h argv : generic_handler name = Some h -> ebw false (h argv).
Proof.
  unfold generic_handler.
  repeat match goal with |- context [if ?b then _ else _] => destruct b eqn:? end; intros [= <-];
    unfold handle_set, handle_mset, handle_get, handle_mget, handle_del, handle_persist, handle_expiretime,
      handle_ttl, handle_expire, handle_expireat, handle_expire_gen, handle_incr, handle_decr, handle_incrby,
      handle_decrby, handle_incrbyfloat, handle_rename, handle_flush, handle_getdel, handle_getex, handle_type;
    try (eb; auto using eb_del_keys, eb_counter_step; fail).
  all: eb; auto using eb_del_keys, eb_counter_step.
  all: unfold expire_with_option; eb.
Qed.

(** * Hash, set and sorted-set handlers *)
From EV Require Import Model.HashVal Model.CmdHash Model.CmdSet Model.ZSetOps Model.ZSetMulti Model.CmdZSet.
From EV Require Import Model.CmdZRand Model.CmdKeyspace.

Ltac chain_cases tac :=
  repeat match goal with
  | |- context [if ?b then _ else _] => destruct b eqn:?; [intros [= <-]; tac|]
  end; try discriminate.

Lemma nf_hash name h argv : hash_handler name = Some h -> noflushall (h argv).
Proof.
  unfold hash_handler.
  chain_cases ltac:(unfold handle_hset, handle_hget, handle_hstrlen, handle_hvals, handle_hrandfield, handle_hlen,
      handle_hkeys, handle_hincrby, handle_hgetall, handle_hexists, handle_hdel, hash_reader; nf).
Qed.

Lemma nf_read_sets_skip {R} ks : forall (k : list (gset string) -> prog R),
  (forall l, noflushall (k l)) -> noflushall (read_sets_skip ks k).
Proof. induction ks as [|key r IH]; intros k Hk; simpl; [apply Hk|]. nf; apply IH; intros; apply Hk. Qed.

Lemma nf_existing_sets {R} ex ks : forall (k : scan_result -> prog R),
  (forall x, noflushall (k x)) -> noflushall (existing_sets ex ks k).
Proof.
  induction ks as [|key r IH]; intros k Hk; simpl; [apply Hk|].
  destruct (negb (ex key)); [apply IH; intros; apply Hk|]. nf; try apply Hk. apply IH; intros; apply Hk.
Qed.

Lemma nf_set pick name h argv : set_handler pick name = Some h -> noflushall (h argv).
Proof.
  unfold set_handler.
  chain_cases ltac:(unfold handle_sadd, handle_scard, handle_sdiff, handle_sdiffstore, handle_sinter, handle_sintercard,
      handle_sinterstore, handle_sismember, handle_smembers, handle_smismember, handle_smove, handle_spop,
      handle_srandmember, handle_srem, handle_sunion, handle_sunionstore, WriteBack;
      nf; try (intros; apply nf_read_sets_skip; nf); try (intros; apply nf_existing_sets; nf)).
Qed.

Lemma nf_run_act wkey a : noflushall (run_act wkey a).
Proof. unfold run_act. nf. Qed.
Lemma nf_run_zset dec argv : noflushall (run_zset dec argv).
Proof. unfold run_zset, run_single, run_multi. nf; intros; apply nf_run_act. Qed.

Lemma nf_zset name h argv : zset_handler name = Some h -> noflushall (h argv).
Proof.
  unfold zset_handler.
  chain_cases ltac:(apply nf_run_zset).
Qed.

Lemma nf_zrand pick name h argv : zrand_handler pick name = Some h -> noflushall (h argv).
Proof. unfold zrand_handler. destruct (String.eqb _ _); [|done]. intros [= <-]. apply nf_run_zset. Qed.

Lemma nf_keyspace cands name h argv : keyspace_handler cands name = Some h -> noflushall (h argv).
Proof.
  unfold keyspace_handler. chain_cases ltac:(idtac).
  all: unfold handle_randomkey, handle_touch, handle_objfreq, handle_objidletime; nf.
Qed.

Lemma eb_keyspace cands name h argv : keyspace_handler cands name = Some h -> ebw false (h argv).
Proof.
  unfold keyspace_handler. chain_cases ltac:(idtac).
  all: unfold handle_randomkey, handle_touch, handle_objfreq, handle_objidletime; eb.
Qed.

(** Every handler of every modelled module, for every argument vector: no FLUSHALL inside, unless the
    command word is FLUSHALL itself. *)
Theorem nf_every_handler name h argv :
  handler_of name = Some h -> name <> "flushall" -> eq_fold (arg argv 0) "flushall" = false ->
  noflushall (h argv).
Proof.
  rewrite DispatchLemmas.handler_of_unfold. intros Hh Hn Hw.
  destruct (list_handler name) eqn:E1; [injection Hh as <-; by eapply nf_list|].
  destruct (hash_handler name) eqn:E2; [injection Hh as <-; by eapply nf_hash|].
  destruct (set_handler default_pick name) eqn:E3; [injection Hh as <-; by eapply nf_set|].
  destruct (zset_handler name) eqn:E4; [injection Hh as <-; by eapply nf_zset|].
  destruct (generic_handler name) eqn:E5; [injection Hh as <-; by eapply nf_generic|].
  destruct (string_handler name) eqn:E6; [injection Hh as <-; by eapply nf_string|].
  destruct (zrand_handler default_zpick name) eqn:E7; [injection Hh as <-; by eapply nf_zrand|].
  by eapply nf_keyspace.
Qed.

(** * Read-only handlers of the hash, set and sorted-set modules *)
Ltac ro' := repeat (intros; cbn -[Z.ltb Z.leb Z.eqb Nat.ltb Nat.eqb Nat.leb]; ro_step).

Lemma ro_hash_reader dflt f argv : readonly (hash_reader dflt f argv).
Proof. unfold hash_reader. ro. Qed.
Lemma ro_hget argv : readonly (handle_hget argv). Proof. unfold handle_hget. ro. Qed.
Lemma ro_hstrlen argv : readonly (handle_hstrlen argv). Proof. unfold handle_hstrlen. ro. Qed.
Lemma ro_hrandfield argv : readonly (handle_hrandfield argv). Proof. unfold handle_hrandfield. ro. Qed.
Lemma ro_hexists argv : readonly (handle_hexists argv). Proof. unfold handle_hexists. ro. Qed.
Lemma ro_hvals argv : readonly (handle_hvals argv). Proof. apply ro_hash_reader. Qed.
Lemma ro_hlen argv : readonly (handle_hlen argv). Proof. apply ro_hash_reader. Qed.
Lemma ro_hkeys argv : readonly (handle_hkeys argv). Proof. apply ro_hash_reader. Qed.
Lemma ro_hgetall argv : readonly (handle_hgetall argv). Proof. apply ro_hash_reader. Qed.

Lemma ro_read_sets_skip {R} ks : forall (k : list (gset string) -> prog R),
  (forall l, readonly (k l)) -> readonly (read_sets_skip ks k).
Proof. induction ks as [|key r IH]; intros k Hk; simpl; [apply Hk|]. ro; apply IH; intros; apply Hk. Qed.
Lemma ro_existing_sets {R} ex ks : forall (k : scan_result -> prog R),
  (forall x, readonly (k x)) -> readonly (existing_sets ex ks k).
Proof.
  induction ks as [|key r IH]; intros k Hk; simpl; [apply Hk|].
  destruct (negb (ex key)); [apply IH; intros; apply Hk|]. ro; try apply Hk. apply IH; intros; apply Hk.
Qed.

Lemma ro_scard argv : readonly (handle_scard argv). Proof. unfold handle_scard. ro. Qed.
Lemma ro_sismember argv : readonly (handle_sismember argv). Proof. unfold handle_sismember. ro. Qed.
Lemma ro_smembers argv : readonly (handle_smembers argv). Proof. unfold handle_smembers. ro. Qed.
Lemma ro_smismember argv : readonly (handle_smismember argv). Proof. unfold handle_smismember. ro. Qed.
Lemma ro_srandmember pick argv : readonly (handle_srandmember pick argv). Proof. unfold handle_srandmember. ro. Qed.
Lemma ro_sunion argv : readonly (handle_sunion argv). Proof. unfold handle_sunion. ro. Qed.
Lemma ro_sdiff argv : readonly (handle_sdiff argv).
Proof. unfold handle_sdiff. ro. apply ro_read_sets_skip. intros. ro. Qed.
Lemma ro_sinter argv : readonly (handle_sinter argv).
Proof. unfold handle_sinter. ro; try (intros; apply ro_existing_sets; intros; ro). Qed.
Lemma ro_sintercard argv : readonly (handle_sintercard argv).
Proof. unfold handle_sintercard. ro; try (intros; apply ro_existing_sets; intros; ro). Qed.

(** Sorted-set readers: the decoded action is a plain reply ([ZRet]) in every branch. *)
Lemma ro_run_act_ret wkey r : readonly (run_act wkey (ZRet r)).
Proof. simpl. constructor. Qed.

Lemma ro_run_single d :
  (forall a p, zd_body d = Some (a, p) -> (exists r, a = ZRet r) /\ forall z, exists r, p z = ZRet r) ->
  readonly (run_single d).
Proof.
  intros H. unfold run_single. constructor. intros ex.
  destruct (zd_body d) as [[a p]|] eqn:Hb; [|constructor].
  destruct (H a p eq_refl) as [[r ->] Hp].
  destruct (negb _); [apply ro_run_act_ret|]. constructor. intros vals.
  destruct (as_zset _) as [z|]; [|constructor]. destruct (Hp z) as [r' ->]. apply ro_run_act_ret.
Qed.

Lemma ro_run_multi d :
  (forall f, zm_body d = Some f -> forall seen, fst (f seen) = None) -> readonly (run_multi d).
Proof.
  intros H. unfold run_multi. constructor. intros ex.
  destruct (zm_body d) as [f|] eqn:Hb; [|constructor]. constructor. intros vals. cbv zeta.
  specialize (H f eq_refl). set (seen := map _ _). specialize (H seen).
  destruct (f seen) as [[kz|] r]; simpl in H; [discriminate|]. apply ro_run_act_ret.
Qed.

Ltac ro_single dec :=
  unfold run_zset, single, dec;
  repeat match goal with |- context [if ?b then None else _] => destruct b end; simpl;
  try apply ro_ret; apply ro_run_single; cbn [zd_body]; intros a p Hb;
  repeat match type of Hb with
  | (match ?x with _ => _ end) = _ => destruct x
  | None = Some _ => discriminate
  end; injection Hb as <- <-; split; [eexists; reflexivity|intros z; repeat match goal with |- context [if ?b then _ else _] => destruct b | |- context [match ?x with _ => _ end] => destruct x end; eexists; reflexivity].

Lemma ro_zcard argv : readonly (handle_zcard argv). Proof. unfold handle_zcard. ro_single decode_zcard. Qed.
Lemma ro_zscore argv : readonly (handle_zscore argv). Proof. unfold handle_zscore. ro_single decode_zscore. Qed.
Lemma ro_zmscore argv : readonly (handle_zmscore argv). Proof. unfold handle_zmscore. ro_single decode_zmscore. Qed.
Lemma ro_zcount argv : readonly (handle_zcount argv). Proof. unfold handle_zcount. ro_single decode_zcount. Qed.
Lemma ro_zrank argv : readonly (handle_zrank argv). Proof. unfold handle_zrank. ro_single decode_zrank. Qed.
Lemma ro_zlexcount argv : readonly (handle_zlexcount argv). Proof. unfold handle_zlexcount. ro_single decode_zlexcount. Qed.

Lemma ro_zrange argv : readonly (handle_zrange argv).
Proof.
  unfold handle_zrange, run_zset, single, decode_zrange.
  destruct (_ || _); simpl; [apply ro_ret|]. apply ro_run_single. cbn [zd_body]. intros a p Hb.
  destruct (parse_zrange _ _ _) as [x|]; [|discriminate]. injection Hb as <- <-.
  split; [eexists; reflexivity|intros z; eexists; reflexivity].
Qed.

Ltac ro_multi :=
  unfold run_zset, multi;
  repeat match goal with |- context [if ?b then None else _] => destruct b end; simpl;
  try apply ro_ret; apply ro_run_multi; cbn [zm_body]; intros f Hb seen;
  repeat match type of Hb with
  | (match ?x with _ => _ end) = _ => destruct x
  | None = Some _ => discriminate
  end; injection Hb as <-;
  repeat match goal with |- context [match ?x with _ => _ end] => destruct x end; reflexivity.

Lemma ro_zinter argv : readonly (handle_zinter argv).
Proof. unfold handle_zinter, decode_zinter. ro_multi. Qed.
Lemma ro_zunion argv : readonly (handle_zunion argv).
Proof. unfold handle_zunion, decode_zunion. ro_multi. Qed.
Lemma ro_zdiff argv : readonly (handle_zdiff argv).
Proof. unfold handle_zdiff, decode_zdiff. ro_multi. Qed.

(** ZRANDMEMBER (any selection function) and the four keyspace-function commands (any random source). *)
Lemma ro_zrandmember pick argv : readonly (handle_zrandmember pick argv).
Proof.
  unfold handle_zrandmember, run_zset, single, decode_zrandmember.
  destruct (_ || _); simpl; [apply ro_ret|]. apply ro_run_single. cbn [zd_body]. intros a p Hb.
  destruct (zrand_count argv); [|discriminate]. destruct (_ && _); [discriminate|].
  injection Hb as <- <-. split; [eexists; reflexivity|intros zz; eexists; reflexivity].
Qed.
Lemma ro_randomkey cands argv : readonly (handle_randomkey cands argv). Proof. unfold handle_randomkey. ro. Qed.
Lemma ro_touch argv : readonly (handle_touch argv). Proof. unfold handle_touch. ro. Qed.
Lemma ro_objfreq argv : readonly (handle_objfreq argv). Proof. unfold handle_objfreq. ro. Qed.
Lemma ro_objidletime argv : readonly (handle_objidletime argv). Proof. unfold handle_objidletime. ro. Qed.

(** * The read-only command words of all modelled modules *)
Definition all_readonly_words : list string :=
  readonly_words ++
  ["hget"; "hmget"; "hstrlen"; "hvals"; "hrandfield"; "hlen"; "hkeys"; "hgetall"; "hexists";
   "scard"; "sdiff"; "sinter"; "sintercard"; "sismember"; "smembers"; "smismember"; "srandmember"; "sunion";
   "zcard"; "zcount"; "zdiff"; "zinter"; "zmscore"; "zrank"; "zrevrank"; "zscore"; "zlexcount"; "zrange"; "zunion";
   "zrandmember"; "randomkey"; "touch"; "objectfreq"; "objectidletime"].

Theorem all_readonly_words_sound name h argv :
  In name all_readonly_words -> handler_of name = Some h -> readonly (h argv).
Proof.
  unfold all_readonly_words. intros Hin. apply in_app_or in Hin. destruct Hin as [Hin|Hin].
  { by apply readonly_words_sound. }
  simpl in Hin.
  repeat (destruct Hin as [<-|Hin]; [
    intros Hh;
    first [ change (handler_of "hget") with (Some handle_hget) in Hh
          | change (handler_of "hmget") with (Some handle_hget) in Hh
          | change (handler_of "hstrlen") with (Some handle_hstrlen) in Hh
          | change (handler_of "hvals") with (Some handle_hvals) in Hh
          | change (handler_of "hrandfield") with (Some handle_hrandfield) in Hh
          | change (handler_of "hlen") with (Some handle_hlen) in Hh
          | change (handler_of "hkeys") with (Some handle_hkeys) in Hh
          | change (handler_of "hgetall") with (Some handle_hgetall) in Hh
          | change (handler_of "hexists") with (Some handle_hexists) in Hh
          | change (handler_of "scard") with (Some handle_scard) in Hh
          | change (handler_of "sdiff") with (Some handle_sdiff) in Hh
          | change (handler_of "sinter") with (Some handle_sinter) in Hh
          | change (handler_of "sintercard") with (Some handle_sintercard) in Hh
          | change (handler_of "sismember") with (Some handle_sismember) in Hh
          | change (handler_of "smembers") with (Some handle_smembers) in Hh
          | change (handler_of "smismember") with (Some handle_smismember) in Hh
          | change (handler_of "srandmember") with (Some (handle_srandmember default_pick)) in Hh
          | change (handler_of "sunion") with (Some handle_sunion) in Hh
          | change (handler_of "zcard") with (Some handle_zcard) in Hh
          | change (handler_of "zcount") with (Some handle_zcount) in Hh
          | change (handler_of "zdiff") with (Some handle_zdiff) in Hh
          | change (handler_of "zinter") with (Some handle_zinter) in Hh
          | change (handler_of "zmscore") with (Some handle_zmscore) in Hh
          | change (handler_of "zrank") with (Some handle_zrank) in Hh
          | change (handler_of "zrevrank") with (Some handle_zrank) in Hh
          | change (handler_of "zscore") with (Some handle_zscore) in Hh
          | change (handler_of "zlexcount") with (Some handle_zlexcount) in Hh
          | change (handler_of "zrange") with (Some handle_zrange) in Hh
          | change (handler_of "zunion") with (Some handle_zunion) in Hh
          | change (handler_of "zrandmember") with (Some (handle_zrandmember default_zpick)) in Hh
          | change (handler_of "randomkey") with (Some (handle_randomkey default_keysource)) in Hh
          | change (handler_of "touch") with (Some handle_touch) in Hh
          | change (handler_of "objectfreq") with (Some handle_objfreq) in Hh
          | change (handler_of "objectidletime") with (Some handle_objidletime) in Hh ];
    injection Hh as <-;
    auto using ro_hget, ro_hstrlen, ro_hvals, ro_hrandfield, ro_hlen, ro_hkeys, ro_hgetall, ro_hexists,
      ro_scard, ro_sdiff, ro_sinter, ro_sintercard, ro_sismember, ro_smembers, ro_smismember, ro_srandmember,
      ro_sunion, ro_zcard, ro_zcount, ro_zdiff, ro_zinter, ro_zmscore, ro_zrank, ro_zscore, ro_zlexcount,
      ro_zrange, ro_zunion, ro_zrandmember, ro_randomkey, ro_touch, ro_objfreq, ro_objidletime |]).
  destruct Hin.
Qed.
