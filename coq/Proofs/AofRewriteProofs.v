(** C09: the log rewrite.
    - [load_snapshot_view]: loading the snapshot of a state into a fresh instance with the same clock
      reproduces the view of that state (every value type, every deadline, every database);
    - [srv_inv_run]: for every history of acknowledged writes, completed rewrites and restarts, under
      every sync policy, the live dataset and what a restore of the directory gives show the same view
      (transparency of completed rewrites, any number of them, at any position);
    - [rewrite_crash_atomic], [rewrite_power_loss]: at every instant of the repaired rewrite (every
      file operation, every byte of the header writes) the directory restores to the live dataset when
      the process dies, and to it or - before the switch only - to what the old preamble and a power
      image of the old log give when power is lost;
    - [recovery_completes]: after the restore of any such image the server is again in the invariant
      (the interrupted truncation has been completed), so later writes are found by the next restore.
    Depends on functional extensionality through [ProgLemmas.run_seq_congruence]. *)
From stdpp Require Import gmap strings.
From Coq Require Import Lia ZifyBool.
From RecordUpdate Require Import RecordSet.
From EV Require Import Base.Str Model.Value Model.Keyspace Model.Reply Model.Prog Model.Dispatch.
From EV Require Import Model.Resp Model.Disk Model.Aof Model.SnapCodec Spec.SpecDurable.
From EV Require Import Proofs.KeyspaceLemmas Proofs.ProgLemmas Proofs.RespProofs Proofs.AofProofs.
From EV Require Import Proofs.SnapCodecProofs Proofs.ExpiryProofs.
From EV Require Proofs.SnapRoundTrip Model.Snapshot.
Local Open Scope Z_scope.

(** * Configuration fields are never written by a command *)
Definition cfg_eq (s s' : state) : Prop :=
  st_now s' = st_now s /\ st_maxmem s' = st_maxmem s /\ st_noevict s' = st_noevict s.

Lemma run_seq_cfg {R} (p : prog R) : forall d s, st_maxmem s = 0 -> cfg_eq s (fst (run_seq d p s)).
Proof.
  unfold cfg_eq.
  induction p as [r|ks k IH|key k IH|ks k IH|kvs k IH|key t touch k IH|key k IH|k IH|k IH|k IH|k IH];
    intros d s Hm; cbn [run_seq].
  - done.
  - by apply IH.
  - by apply IH.
  - pose proof (get_values_full s d ks) as Hg. destruct (get_values s d ks) as [s' f].
    destruct Hg as [(_ & N & M & E) _]. destruct (IH f d s') as (A & B & C); [congruence|].
    repeat split; congruence.
  - pose proof (set_values_spec s d kvs Hm) as Hs. destruct (set_values s d kvs) as [s' ok].
    destruct Hs as (_ & _ & N & M & E). destruct (IH ok d s') as (A & B & C); [congruence|].
    repeat split; congruence.
  - destruct (set_expiry_fields s d key t) as (N & M & E).
    destruct (IH d (set_expiry s d key t)) as (A & B & C); [congruence|]. repeat split; congruence.
  - destruct (IH d (delete_key s d key)) as (A & B & C); [by rewrite delete_key_maxmem|].
    rewrite delete_key_now, delete_key_maxmem, delete_key_noevict in *. done.
  - by apply IH.
  - destruct (flush_fields s d) as (N & M & E).
    destruct (IH d (flush s d)) as (A & B & C); [congruence|]. repeat split; congruence.
  - destruct (flush_fields s (-1)) as (N & M & E).
    destruct (IH d (flush s (-1))) as (A & B & C); [congruence|]. repeat split; congruence.
  - by apply IH.
Qed.

Lemma exec_db_cfg s d argv : st_maxmem s = 0 -> cfg_eq s (fst (exec_db s d argv)).
Proof.
  intros Hm. unfold exec_db, exec_cmd. destruct argv as [|cmd rest]; [done|].
  set (w := {| w_st := s; w_conns := {[0 := d]} |}).
  pose proof (exec_conn_cmd_congr w w 0 (lower cmd) (cmd :: rest) eq_refl) as Hcc.
  destruct (exec_conn_cmd w 0 (lower cmd) (cmd :: rest)) as [[w' r]|].
  - destruct Hcc as (_ & _ & -> & _). done.
  - destruct (handler_of (lower cmd)) as [h|]; [|done].
    pose proof (run_seq_cfg (h (cmd :: rest)) (conn_db w 0) s Hm) as Hc.
    destruct (run_seq (conn_db w 0) (h (cmd :: rest)) (w_st w)) as [s' x] eqn:E.
    subst w. simpl in E. rewrite E in Hc. done.
Qed.

(** Behaviour of a logged write depends only on the view. *)
Lemma exec_db_congr s1 s2 d argv : same_view s1 s2 -> st_maxmem s1 = 0 ->
  same_view (fst (exec_db s1 d argv)) (fst (exec_db s2 d argv)) /\
  snd (exec_db s1 d argv) = snd (exec_db s2 d argv).
Proof.
  intros Hv Hm. unfold exec_db.
  set (w1 := {| w_st := s1; w_conns := {[0 := d]} |}). set (w2 := {| w_st := s2; w_conns := {[0 := d]} |}).
  destruct (exec_cmd_congr w1 w2 0 argv) as (R & [V _] & _); [by split|done|].
  destruct (exec_cmd w1 0 argv) as [w1' r1]. destruct (exec_cmd w2 0 argv) as [w2' r2]. done.
Qed.

Lemma run_writes_congr h : forall s1 s2, same_view s1 s2 -> st_maxmem s1 = 0 ->
  same_view (run_writes s1 h) (run_writes s2 h) /\ st_maxmem (run_writes s1 h) = 0.
Proof.
  induction h as [|[d c] h IH]; intros s1 s2 Hv Hm; [done|]. cbn [run_writes fold_left].
  apply IH.
  - unfold run_write. simpl. apply exec_db_congr; done.
  - destruct (exec_db_cfg s1 d c Hm) as (_ & M & _). unfold run_write. simpl. congruence.
Qed.

(** * Loading a snapshot *)
Lemma aof_load_entry_eq d s k e :
  load_entry d s (k, e) = if expired (st_now s) e then s else Snapshot.load_entry d k e s.
Proof. reflexivity. Qed.

Lemma aof_load_entry_spec d k e s : st_maxmem s = 0 ->
  cfg_eq s (load_entry d s (k, e)) /\
  forall d' k', lentry (load_entry d s (k, e)) d' k' =
    if decide (d = d' /\ k = k') then (if expired (st_now s) e then lentry s d' k' else Some e)
    else lentry s d' k'.
Proof.
  intros Hm. rewrite aof_load_entry_eq. destruct (expired (st_now s) e) eqn:Hx.
  - split; [done|]. intros d' k'. by destruct (decide _).
  - destruct (SnapRoundTrip.load_entry_spec d k e s Hm) as (A & B & C). split.
    + unfold cfg_eq. split; [done|]. split; [congruence|].
      unfold Snapshot.load_entry. pose proof (set_values_spec s d [(k, e_val e)] Hm) as Hs.
      destruct (set_values s d [(k, e_val e)]) as [s1 ok]. destruct Hs as (_ & _ & _ & _ & E).
      destruct (set_expiry_fields s1 d k (e_dl e)) as (_ & _ & E'). simpl. congruence.
    + intros d' k'. rewrite C. destruct (decide _); [|done]. simpl. by rewrite Hx.
Qed.

Lemma cfg_eq_trans a b c : cfg_eq a b -> cfg_eq b c -> cfg_eq a c.
Proof. unfold cfg_eq. intuition congruence. Qed.

Lemma load_entries_spec d l : base.NoDup l.*1 -> forall s, st_maxmem s = 0 ->
  let s' := fold_left (load_entry d) l s in
  cfg_eq s s' /\
  forall d' k', lentry s' d' k' =
    if decide (d = d')
    then match (list_to_map l : dbmap) !! k' with
         | Some e => if expired (st_now s) e then lentry s d' k' else Some e
         | None => lentry s d' k'
         end
    else lentry s d' k'.
Proof.
  induction l as [|[k e] l IH]; intros Hnd s Hm; cbn [fold_left].
  - split; [done|]. intros d' k'. rewrite list_to_map_nil, lookup_empty. by destruct (decide _).
  - rewrite fmap_cons in Hnd. inversion Hnd as [|? ? Hk Hnd']; subst. clear Hnd. rename Hnd' into Hnd. simpl in Hk.
    assert (Hnone : (list_to_map l : dbmap) !! k = None) by (by apply not_elem_of_list_to_map_1).
    destruct (aof_load_entry_spec d k e s Hm) as [Hc1 Hl1].
    set (s1 := load_entry d s (k, e)) in *.
    destruct (IH Hnd s1) as [Hc2 Hl2]; [destruct Hc1 as (_ & M & _); congruence|].
    split; [by eapply cfg_eq_trans|].
    intros d' k'. rewrite Hl2. destruct Hc1 as (N1 & _). rewrite N1.
    rewrite list_to_map_cons.
    destruct (decide (d = d')) as [<-|Hd].
    + destruct (decide (k = k')) as [<-|Hk'].
      * rewrite lookup_insert, Hnone, Hl1. rewrite decide_True by done. done.
      * rewrite lookup_insert_ne by done. rewrite Hl1. rewrite decide_False by (intros [_ ?]; done). done.
    + rewrite Hl1. rewrite decide_False by (intros [? _]; done). done.
Qed.

Definition put_entry (now : Z) (old : option entry) (o : option entry) : option entry :=
  match o with Some e => if expired now e then old else Some e | None => old end.

Lemma load_db_spec s d db : st_maxmem s = 0 ->
  cfg_eq s (load_db s (d, db)) /\
  forall d' k', lentry (load_db s (d, db)) d' k' =
    if decide (d = d') then put_entry (st_now s) (lentry s d' k') (db !! k') else lentry s d' k'.
Proof.
  intros Hm. unfold load_db. cbn [fst snd].
  destruct (load_entries_spec d (map_to_list db) (NoDup_fst_map_to_list db) s Hm) as [Hc Hl].
  split; [done|]. intros d' k'. rewrite Hl. rewrite list_to_map_to_list. done.
Qed.

Lemma load_dbs_spec l : base.NoDup l.*1 -> forall s, st_maxmem s = 0 ->
  let s' := fold_left load_db l s in
  cfg_eq s s' /\
  forall d' k', lentry s' d' k' =
    match (list_to_map l : gmap Z dbmap) !! d' with
    | Some db => put_entry (st_now s) (lentry s d' k') (db !! k')
    | None => lentry s d' k'
    end.
Proof.
  induction l as [|[d db] l IH]; intros Hnd s Hm; cbn [fold_left].
  - split; [done|]. intros d' k'. by rewrite list_to_map_nil, lookup_empty.
  - rewrite fmap_cons in Hnd. inversion Hnd as [|? ? Hd Hnd']; subst. clear Hnd. rename Hnd' into Hnd. simpl in Hd.
    assert (Hnone : (list_to_map l : gmap Z dbmap) !! d = None) by (by apply not_elem_of_list_to_map_1).
    destruct (load_db_spec s d db Hm) as [Hc1 Hl1]. set (s1 := load_db s (d, db)) in *.
    destruct (IH Hnd s1) as [Hc2 Hl2]; [destruct Hc1 as (_ & M & _); congruence|].
    split; [by eapply cfg_eq_trans|].
    intros d' k'. rewrite Hl2. destruct Hc1 as (N1 & _). rewrite N1, list_to_map_cons, !Hl1.
    destruct (decide (d = d')) as [<-|Hne].
    + by rewrite lookup_insert, Hnone.
    + by rewrite lookup_insert_ne.
Qed.

Lemma load_snapshot_spec s snap : st_maxmem s = 0 ->
  cfg_eq s (load_snapshot s snap) /\
  forall d k, lentry (load_snapshot s snap) d k =
    match snap !! d with
    | Some db => put_entry (st_now s) (lentry s d k) (db !! k)
    | None => lentry s d k
    end.
Proof.
  intros Hm. unfold load_snapshot.
  destruct (load_dbs_spec (map_to_list snap) (NoDup_fst_map_to_list snap) s Hm) as [Hc Hl].
  split; [done|]. intros d k. rewrite Hl, list_to_map_to_list. done.
Qed.

Lemma list_filter_to_map (g : string * entry -> bool) (l : list (string * entry)) k : base.NoDup l.*1 ->
  (list_to_map (List.filter g l) : dbmap) !! k =
  match (list_to_map l : dbmap) !! k with Some e => if g (k, e) then Some e else None | None => None end.
Proof.
  induction l as [|[k0 e0] l IH]; intros Hnd.
  - simpl. by rewrite lookup_empty.
  - rewrite fmap_cons in Hnd. inversion Hnd as [|? ? Hk Hnd']; subst. clear Hnd. rename Hnd' into Hnd. simpl in Hk.
    assert (Hnone : (list_to_map l : dbmap) !! k0 = None) by (by apply not_elem_of_list_to_map_1).
    cbn [List.filter]. rewrite list_to_map_cons. destruct (g (k0, e0)) eqn:G.
    + rewrite list_to_map_cons. destruct (decide (k0 = k)) as [<-|Hne].
      * rewrite !lookup_insert. by rewrite G.
      * rewrite !lookup_insert_ne by done. by apply IH.
    + rewrite IH by done. destruct (decide (k0 = k)) as [<-|Hne].
      * rewrite lookup_insert, Hnone. by rewrite G.
      * by rewrite lookup_insert_ne.
Qed.

Lemma snapshot_of_lookup s d :
  snapshot_of s !! d =
  (fun db : dbmap => (list_to_map (List.filter (fun ke : string * entry => negb (expired (st_now s) (snd ke))) (map_to_list db)) : dbmap))
    <$> (st_dbs s !! d).
Proof. unfold snapshot_of. by rewrite lookup_fmap. Qed.

(** Loading the snapshot of [s] into a fresh instance with the same clock shows what [s] shows. *)
Theorem load_snapshot_view s : st_maxmem s = 0 -> st_noevict s = true ->
  same_view s (load_snapshot (init_state (st_now s)) (snapshot_of s)).
Proof.
  intros Hm Hne.
  destruct (load_snapshot_spec (init_state (st_now s)) (snapshot_of s) eq_refl) as [(N & M & E) Hl].
  split; [|simpl in *; repeat split; congruence].
  intros d k. rewrite Hl, snapshot_of_lookup. rewrite !SnapRoundTrip.lentry_init.
  unfold lentry, get_db. destruct (st_dbs s !! d) as [db|]; simpl; [|by rewrite lookup_empty].
  rewrite list_filter_to_map by apply NoDup_fst_map_to_list. rewrite list_to_map_to_list.
  destruct (db !! k) as [e|]; simpl; [|done].
  destruct (expired (st_now s) e) eqn:Hx; simpl; [done|]. by rewrite Hx.
Qed.

(** * Records of the repaired log *)
Lemma gen_cmd_ok g : db_ok g -> wcmd_ok (gen_cmd g).
Proof.
  intros [H0 H1]. split; [|reflexivity]. split.
  - repeat constructor.
    + unfold arg_ok, slen, max_bulk. simpl. lia.
    + unfold arg_ok, slen, gen_text. rewrite of_chars_length. unfold show_len.
      pose proof (digits_of_length (S (Z.to_nat g)) (Z.of_nat (Z.to_nat g))). unfold max_bulk in *. lia.
  - unfold zlen, max_array. simpl. lia.
Qed.

(** The server knows no command GENERATION: replaying the record changes nothing (the Go loop skips it). *)
Lemma exec_db_gen s db g : fst (exec_db s db (gen_cmd g)) = s.
Proof. reflexivity. Qed.
Lemma replay_generation s db g r : rp s db (RCmd (gen_cmd g) :: r) = rp s db r.
Proof. cbn [rp]. by rewrite exec_db_gen. Qed.

Definition base_of (now : Z) (pre : pre_file) : state :=
  match pre with PreFull snap => load_snapshot (init_state now) snap | _ => init_state now end.

Lemma restore_base now pre log : pre <> PreTorn -> restore now pre log = replay_log (base_of now pre) log.
Proof. by destruct pre. Qed.

Lemma replay_log_recs s rs : Forall rcd_ok rs -> replay_log s (recs_bytes rs) = fst (rp s 0 rs).
Proof.
  intros Hok. unfold replay_log, recs_bytes.
  rewrite decode_stream_concat by (by apply recs_cmd_ok).
  cbn [fst]. rewrite <- (app_nil_r (map value_of_cmd _)). by rewrite replay_recs.
Qed.

Lemma rp_db_indep rs : forall s s' db, snd (rp s db rs) = snd (rp s' db rs).
Proof. induction rs as [|[d|c] rs IH]; intros s s' db; cbn [rp]; auto. Qed.

Lemma rp_cfg rs : forall s db, st_maxmem s = 0 -> cfg_eq s (fst (rp s db rs)).
Proof.
  induction rs as [|[d|c] rs IH]; intros s db Hm; cbn [rp]; [done|by apply IH|].
  pose proof (exec_db_cfg s db c Hm) as Hc. eapply cfg_eq_trans; [exact Hc|]. apply IH.
  destruct Hc as (_ & -> & _). done.
Qed.

Lemma base_cfg now pre : cfg_eq (init_state now) (base_of now pre).
Proof. destruct pre as [| |snap]; try done. simpl. by apply load_snapshot_spec. Qed.

Lemma recs_bytes_app a b : recs_bytes (a ++ b) = recs_bytes a ++ recs_bytes b.
Proof. unfold recs_bytes. by rewrite map_app, encode_all_app. Qed.

Lemma log_gen_nonneg log : 0 <= log_gen log.
Proof.
  unfold log_gen. destruct (read_top log) as [v r| |]; [|lia|lia]. unfold gen_of_value.
  destruct (cmd_of_value v) as [|w [|n [|? ?]]]; try lia.
  destruct (eq_fold w "generation"); [|lia]. destruct (parse_int n); lia.
Qed.

Lemma log_gen_recs g rs : db_ok g -> log_gen (recs_bytes (RCmd (gen_cmd g) :: rs)) = g.
Proof.
  intros Hg. unfold log_gen, recs_bytes, encode_all. cbn [map concat rcd_argv].
  destruct (decode_encode_cmd (gen_cmd g) (concat (map encode_cmd (map rcd_argv rs)))) as [-> Hcv].
  { apply gen_cmd_ok, Hg. }
  unfold gen_of_value. rewrite Hcv. unfold gen_cmd.
  change (eq_fold "GENERATION" "generation") with true. cbv iota.
  change (gen_text g) with (db_text g). rewrite (parse_db_text g Hg). destruct Hg. lia.
Qed.

Lemma recovered_log_recs rs : Forall rcd_ok rs -> recovered_log (recs_bytes rs) = recs_bytes rs.
Proof.
  intros Hok.
  destruct (restore_prefix_recs 0 rs (recs_bytes rs) [] Hok (app_nil_r _)) as (m & Hm & _ & Hrec & Hge).
  rewrite Hrec. assert (length rs <= m)%nat.
  { apply Hge; [lia|]. exists []. by rewrite firstn_all, app_nil_r. }
  by rewrite firstn_all2 by lia.
Qed.

Lemma cmd_of_value_of_cmd argv : cmd_of_value (value_of_cmd argv) = argv.
Proof. unfold value_of_cmd, cmd_of_value. rewrite map_map. simpl. apply map_id. Qed.

Definition rcd_gen (r : rcd) : Z := gen_of_value (value_of_cmd (rcd_argv r)).
Definition not_gen (argv : list string) : Prop := gen_of_value (value_of_cmd argv) = 0.
Lemma not_gen_name c0 args : eq_fold c0 "generation" = false -> not_gen (c0 :: args).
Proof.
  intros H. unfold not_gen, gen_of_value. rewrite cmd_of_value_of_cmd.
  destruct args as [|n [|? ?]]; try done. by rewrite H.
Qed.
Lemma rcd_gen_sel d : rcd_gen (RSel d) = 0.
Proof. unfold rcd_gen, gen_of_value. by rewrite cmd_of_value_of_cmd. Qed.
Lemma rcd_gen_gen g : db_ok g -> rcd_gen (RCmd (gen_cmd g)) = g.
Proof.
  intros Hg. unfold rcd_gen, gen_of_value. rewrite cmd_of_value_of_cmd. unfold rcd_argv, gen_cmd.
  change (eq_fold "GENERATION" "generation") with true. cbv iota.
  change (gen_text g) with (db_text g). rewrite (parse_db_text g Hg). destruct Hg. lia.
Qed.
Lemma log_recs_gen0 cur d argv : not_gen argv -> Forall (fun r => rcd_gen r = 0) (log_recs cur [(d, argv)]).
Proof.
  intros H. cbn [log_recs]. destruct (d =? cur); cbn [app]; repeat constructor; auto using rcd_gen_sel.
Qed.

(** * The invariant of a running server *)
Section inv.
Variable c : codec.
Hypothesis Hc : codec_ok c.
Variable now : Z.

(** A logged write: within the reader's limits (C02's [wr_ok]) and not the word GENERATION, which is no
    command of the server, let alone a write command ([not_gen_name]). *)
Definition ev_ok (e : ev) : Prop := match e with EvWrite d argv => wr_ok (d, argv) /\ not_gen argv | _ => True end.
Definition log_wf (g : Z) (rs : list rcd) : Prop :=
  (g = 0 /\ Forall (fun r => rcd_gen r = 0) rs) \/ exists rs', rs = RCmd (gen_cmd g) :: rs'.

(** [n] bounds the number of rewrites so far (the number must fit the reader's limits, like a database index). *)
Definition srv_inv (n : Z) (v : srv) : Prop :=
  (st_now (v_st v) = now /\ st_maxmem (v_st v) = 0 /\ st_noevict (v_st v) = true) /\
  ((pf_read c (v_pre v)).1 <> PreTorn /\ (pf_read c (v_pre v)).2 = v_gen v /\ 0 <= v_gen v <= n) /\
  exists rs, Forall rcd_ok rs /\ f_all (a_log (v_aof v)) = recs_bytes rs /\ log_wf (v_gen v) rs /\
    (a_cur (v_aof v) = snd (rp (init_state now) 0 rs) \/ a_cur (v_aof v) < 0) /\
    (a_cur (v_aof v) < 0 \/ db_ok (a_cur (v_aof v))) /\
    same_view (v_st v) (fst (rp (base_of now (pf_read c (v_pre v)).1) 0 rs)).

Lemma srv_inv_init : srv_inv 0 (srv_init now).
Proof.
  split; [done|]. split; [simpl; repeat split; done || lia|].
  exists []. split; [constructor|]. split; [done|]. split; [left; split; [done|constructor]|].
  split; [right; simpl; lia|]. split; [left; simpl; lia|]. apply same_view_refl.
Qed.

Lemma not_stale g rs : db_ok g -> log_wf g rs -> stale g (recs_bytes rs) = false.
Proof.
  intros Hg [[-> _]|[rs' ->]]; unfold stale.
  - pose proof (log_gen_nonneg (recs_bytes rs)). lia.
  - rewrite log_gen_recs by done. lia.
Qed.

(** What a restore of the directory of a server in the invariant gives. *)
Lemma inv_restore_eq n v rs : n < max_bulk -> srv_inv n v -> Forall rcd_ok rs ->
  f_all (a_log (v_aof v)) = recs_bytes rs -> log_wf (v_gen v) rs ->
  restore_g c now (v_pre v) (f_all (a_log (v_aof v))) = fst (rp (base_of now (pf_read c (v_pre v)).1) 0 rs) /\
  recovered_g c (v_pre v) (f_all (a_log (v_aof v))) = f_of_bytes (recs_bytes rs).
Proof.
  intros Hn (_ & (Hp & Hg & Hg0) & _) Hok Hlog Hwf.
  unfold restore_g, restore_pg, recovered_g, recovered_pg. rewrite Hg, Hlog.
  rewrite not_stale by (done || split; lia). split.
  - rewrite restore_base by done. by apply replay_log_recs.
  - destruct ((pf_read c (v_pre v)).1); [|done|]; by rewrite recovered_log_recs.
Qed.

Theorem inv_restore n v : n < max_bulk -> srv_inv n v ->
  same_view (v_st v) (restore_g c now (v_pre v) (f_all (a_log (v_aof v)))).
Proof.
  intros Hn Hinv. pose proof Hinv as (_ & _ & rs & Hok & Hlog & Hwf & _ & _ & Hv).
  destruct (inv_restore_eq n v rs Hn Hinv Hok Hlog Hwf) as [-> _]. exact Hv.
Qed.

Lemma f_all_of_bytes b : f_all (f_of_bytes b) = b.
Proof. unfold f_all, f_of_bytes. simpl. apply app_nil_r. Qed.

Lemma hdr_bytes g cur : 0 < g ->
  f_all (apply_ops empty_file (hdr_ops g cur)) =
  recs_bytes (RCmd (gen_cmd g) :: (if cur <? 0 then [] else [RSel cur])).
Proof.
  intros Hg. unfold hdr_ops. replace (0 <? g) with true by lia.
  destruct (cur <? 0); unfold apply_ops; cbn [app fold_left apply_op];
    rewrite f_all_sync, !f_all_write; unfold recs_bytes, encode_all, gen_marker, select_marker;
    cbn [map concat rcd_argv f_all empty_file f_synced f_pending app]; by rewrite ?app_nil_r.
Qed.

Lemma srv_inv_step pol n v e : n + 1 < max_bulk -> srv_inv n v -> ev_ok e ->
  srv_inv (n + 1) (srv_step c pol now v e).
Proof.
  intros Hn Hinv He. pose proof Hinv as ((Hnow & Hm & Hne) & (Hp & Hg & Hg0) & rs & Hok & Hlog & Hwf & Hcur & Hcok & Hv).
  destruct e as [d argv| |]; cbn [srv_step].
  - (* an acknowledged write *)
    destruct He as [[Hd Hcmd] Hng]. cbn [fst snd] in Hd, Hcmd.
    destruct (exec_db_cfg (v_st v) d argv Hm) as (N & M & E).
    destruct (aof_write_bytes pol (v_aof v) d argv) as [Hb Hcur'].
    assert (Hokw : Forall wr_ok [(d, argv)]) by (constructor; [by split|constructor]).
    split; [cbn [v_st]; repeat split; congruence|]. split; [cbn [v_pre v_gen]; repeat split; done || lia|].
    exists (rs ++ log_recs (a_cur (v_aof v)) [(d, argv)]). cbn [v_st v_pre v_aof v_gen].
    split; [apply Forall_app; split; [done|by apply log_recs_ok]|].
    split; [by rewrite Hb, Hlog, recs_bytes_app|].
    split; [destruct Hwf as [[? Hall]|[rs' ->]];
            [left; split; [done|apply Forall_app; split; [done|by apply log_recs_gen0]]|right; by eexists]|].
    rewrite Hcur'.
    assert (Hrp : forall s0, rp s0 0 (rs ++ log_recs (a_cur (v_aof v)) [(d, argv)]) =
                            (fst (exec_db (fst (rp s0 0 rs)) d argv), d)).
    { intros s0. rewrite rp_app. rewrite rp_log_recs; [done|done|].
      rewrite (rp_db_indep rs s0 (init_state now)). destruct Hcur as [->|?]; auto. }
    split; [left; by rewrite Hrp|]. split; [by right|].
    rewrite Hrp. cbn [fst]. by apply exec_db_congr.
  - (* a completed rewrite *)
    unfold rewrite_done. cbn [d_pre d_tmp v_st v_pre v_aof v_gen].
    assert (Hg1 : db_ok (v_gen v + 1)) by (split; lia).
    split; [done|]. cbn [v_st v_pre v_aof v_gen a_log a_cur].
    assert (Hrd : pf_read c (PfDoc (v_gen v + 1) (preamble_of c (v_st v))) = (PreFull (snapshot_of (v_st v)), v_gen v + 1)).
    { unfold pf_read, preamble_of. by rewrite (dec_enc_state c Hc). }
    rewrite Hrd. cbn [fst snd]. split; [repeat split; done || lia|].
    exists (RCmd (gen_cmd (v_gen v + 1)) :: (if a_cur (v_aof v) <? 0 then [] else [RSel (a_cur (v_aof v))])).
    split.
    { constructor; [by apply gen_cmd_ok|]. destruct (a_cur (v_aof v) <? 0) eqn:E; [constructor|].
      constructor; [|constructor]. destruct Hcok as [?|?]; [lia|done]. }
    split; [apply hdr_bytes; lia|]. split; [right; by eexists|].
    rewrite !replay_generation.
    split; [destruct (a_cur (v_aof v) <? 0) eqn:E; [right; lia|left; done]|]. split; [done|].
    replace (fst (rp (base_of now (PreFull (snapshot_of (v_st v)))) 0 (if a_cur (v_aof v) <? 0 then [] else [RSel (a_cur (v_aof v))])))
      with (load_snapshot (init_state now) (snapshot_of (v_st v))) by (by destruct (a_cur (v_aof v) <? 0)).
    rewrite <- Hnow. by apply load_snapshot_view.
  - (* a restart *)
    unfold srv_start.
    destruct (inv_restore_eq n v rs ltac:(lia) Hinv Hok Hlog Hwf) as [-> ->].
    unfold srv_inv. cbn [v_st v_pre v_aof v_gen a_log a_cur].
    destruct (base_cfg now (pf_read c (v_pre v)).1) as (B1 & B2 & B3).
    destruct (rp_cfg rs (base_of now (pf_read c (v_pre v)).1) 0) as (R1 & R2 & R3); [by rewrite B2|].
    rewrite Hg. split; [repeat split; simpl in *; congruence|]. split; [repeat split; done || lia|].
    exists rs. rewrite f_all_of_bytes. repeat split; try done; try (right; lia); try (left; lia).
Qed.

(** Every history of acknowledged writes, completed rewrites and restarts keeps the invariant, and the live
    dataset is the one the writes alone build (as a client sees it). *)
Theorem srv_inv_run pol es : forall n v s0, n + Z.of_nat (length es) < max_bulk ->
  srv_inv n v -> same_view s0 (v_st v) -> st_maxmem s0 = 0 -> Forall ev_ok es ->
  srv_inv (n + Z.of_nat (length es)) (srv_run c pol now v es) /\
  same_view (run_writes s0 (ev_writes es)) (v_st (srv_run c pol now v es)).
Proof.
  induction es as [|e es IH]; intros n v s0 Hn Hinv Hv Hm Hes.
  - simpl. rewrite Z.add_0_r. done.
  - inversion Hes as [|? ? He Hes']; subst. cbn [srv_run fold_left]. fold (srv_run c pol now (srv_step c pol now v e) es).
    assert (Hinv' : srv_inv (n + 1) (srv_step c pol now v e)).
    { apply srv_inv_step; [simpl length in Hn; lia|done|done]. }
    replace (n + Z.of_nat (length (e :: es))) with (n + 1 + Z.of_nat (length es)) by (simpl length; lia).
    cbn [ev_writes flat_map]. fold (ev_writes es). unfold run_writes. rewrite fold_left_app. fold (run_writes s0). fold run_writes.
    destruct e as [d argv| |]; cbn [fold_left].
    + apply IH; [simpl length in Hn; lia|done| | |done].
      * cbn [srv_step v_st]. unfold run_write. cbn [fst snd]. by apply exec_db_congr.
      * unfold run_write. cbn [fst snd]. destruct (exec_db_cfg s0 d argv Hm) as (_ & -> & _). done.
    + apply IH; [simpl length in Hn; lia|done| |done|done].
      cbn [srv_step]. unfold rewrite_done. cbn [v_st]. done.
    + apply IH; [simpl length in Hn; lia|done| |done|done].
      cbn [srv_step]. unfold srv_start. cbn [v_st]. eapply same_view_trans; [exact Hv|].
      apply (inv_restore n); [simpl length in Hn; lia|done].
Qed.

(** C09, transparency: whatever completed rewrites (and restarts) a history contains, at whatever
    positions, a restore of the directory shows the dataset the writes built. *)
Theorem rewrite_transparent pol es : Z.of_nat (length es) < max_bulk -> Forall ev_ok es ->
  let v := srv_run c pol now (srv_init now) es in
  same_view (run_writes (init_state now) (ev_writes es))
            (restore_g c now (v_pre v) (f_all (a_log (v_aof v)))).
Proof.
  intros Hn Hes v.
  destruct (srv_inv_run pol es 0 (srv_init now) (init_state now)) as [Hinv Hv]; auto using srv_inv_init, same_view_refl.
  eapply same_view_trans; [exact Hv|]. apply (inv_restore (0 + Z.of_nat (length es))); [lia|done].
Qed.

(** * Crash points of the repaired rewrite *)
Lemma log_gen_decode b : log_gen b = match fst (decode_all b) with v :: _ => gen_of_value v | [] => 0 end.
Proof.
  unfold log_gen, decode_all. destruct b as [|x b]; [reflexivity|].
  cbn [decode_stream]. destruct (read_top (x :: b)) as [v r| |]; [|done|done].
  by destruct (decode_stream (length (x :: b)) r).
Qed.

Lemma decode_prefix rs b suf : Forall rcd_ok rs -> b ++ suf = recs_bytes rs ->
  exists m, fst (decode_all b) = map value_of_cmd (map rcd_argv (firstn m rs)) /\
            recovered_log b = recs_bytes (firstn m rs).
Proof.
  intros Hok H. destruct (prefix_records rs b suf H) as (m & p & Himg & Hm & Hp).
  assert (Hokm : Forall rcd_ok (firstn m rs)) by (by apply Forall_take).
  assert (Hcm : Forall cmd_ok (map rcd_argv (firstn m rs))) by (by apply recs_cmd_ok).
  exists m. destruct Hp as [->|(r & s & Hnth & Hs & Hpne & Hps)].
  - rewrite app_nil_r in Himg. subst b. unfold recovered_log, recs_bytes.
    rewrite decode_stream_concat by done. split; [done|].
    rewrite <- (app_nil_r (map value_of_cmd _)). rewrite replay_stops_recs by done. done.
  - assert (Hr : rcd_ok r).
    { pose proof (nth_error_In _ _ Hnth) as Hin. pose proof (proj1 (List.Forall_forall _ _) Hok) as Hall. by apply Hall. }
    subst b. unfold recovered_log, recs_bytes.
    rewrite (decode_stream_torn _ (rcd_argv r) p s) by (auto using rcd_argv_ok). split; [done|].
    rewrite <- (app_nil_r (map value_of_cmd _)). rewrite replay_stops_recs by done. simpl.
    rewrite app_length. replace (_ + length p - length p)%nat with (length (encode_all (map rcd_argv (firstn m rs)))) by lia.
    by rewrite firstn_app, firstn_all, Nat.sub_diag, app_nil_r.
Qed.

(** Any byte prefix of a stream of records replays as some of its first records, carries the number
    of the first record if that record is whole, and is cut back to those records by the restore. *)
Lemma replay_prefix s0 rs b suf : Forall rcd_ok rs -> b ++ suf = recs_bytes rs ->
  exists m, replay_log s0 b = fst (rp s0 0 (firstn m rs)) /\
            log_gen b = match firstn m rs with r :: _ => rcd_gen r | [] => 0 end /\
            recovered_log b = recs_bytes (firstn m rs).
Proof.
  intros Hok H. destruct (decode_prefix rs b suf Hok H) as (m & Hd & Hrec). exists m. split; [|split; [|done]].
  - unfold replay_log. rewrite Hd. rewrite <- (app_nil_r (map value_of_cmd _)).
    rewrite replay_recs by (by apply Forall_take). done.
  - rewrite log_gen_decode, Hd. by destruct (firstn m rs).
Qed.

Lemma power_image_prefix f b : In b (power_images f) -> exists suf, b ++ suf = f_all f.
Proof.
  unfold power_images. intros H. apply in_map_iff in H as (p & <- & Hp). apply in_prefixes_le in Hp as [k ->].
  exists (skipn k (f_pending f)). unfold f_all. by rewrite <- app_assoc, firstn_skipn.
Qed.

Lemma death_in_power f : In (death_image f) (power_images f).
Proof.
  unfold power_images, death_image, f_all, prefixes_le. apply in_map_iff. exists (f_pending f). split; [done|].
  apply in_map_iff. exists (length (f_pending f)). split; [apply firstn_all|]. apply in_seq. lia.
Qed.

Lemma power_no_pending f b : f_pending f = [] -> In b (power_images f) -> b = death_image f.
Proof.
  unfold power_images, death_image, f_all. intros ->. simpl. intros [<-|[]]. done.
Qed.

Definition hdr_recs (g cur : Z) : list rcd := RCmd (gen_cmd g) :: (if cur <? 0 then [] else [RSel cur]).

Lemma hdr_ops_bytes g cur : 0 < g -> ops_bytes (hdr_ops g cur) = recs_bytes (hdr_recs g cur).
Proof.
  intros Hg. unfold hdr_ops, hdr_recs. replace (0 <? g) with true by lia.
  destruct (cur <? 0); unfold ops_bytes, recs_bytes, encode_all, gen_marker, select_marker;
    cbn [app map concat rcd_argv]; by rewrite ?app_nil_r.
Qed.

Lemma rp_hdr_prefix s0 db g cur m : fst (rp s0 db (firstn m (hdr_recs g cur))) = s0.
Proof.
  unfold hdr_recs. destruct m as [|m]; [done|]. cbn [firstn]. rewrite replay_generation.
  destruct (cur <? 0); destruct m as [|m]; cbn [firstn rp]; rewrite ?firstn_nil; done.
Qed.

(** After the switch: whatever prefix of the old log, or of the new header, is found next to the new
    preamble, the restore gives the dataset the rewrite copied. *)
Lemma post_switch n v b suf rs : n + 1 < max_bulk -> srv_inv n v -> Forall rcd_ok rs -> b ++ suf = recs_bytes rs ->
  (forall m, match firstn m rs with r :: _ => rcd_gen r | [] => 0 end <= v_gen v) \/
    rs = hdr_recs (v_gen v + 1) (a_cur (v_aof v)) ->
  same_view (v_st v) (restore_g c now (PfDoc (v_gen v + 1) (preamble_of c (v_st v))) b).
Proof.
  intros Hn ((Hnow & Hm & Hne) & (Hp & Hg & Hg0) & _) Hok Hb Hrs.
  assert (Hrd : pf_read c (PfDoc (v_gen v + 1) (preamble_of c (v_st v))) = (PreFull (snapshot_of (v_st v)), v_gen v + 1)).
  { unfold pf_read, preamble_of. by rewrite (dec_enc_state c Hc). }
  assert (Hbase : same_view (v_st v) (load_snapshot (init_state now) (snapshot_of (v_st v)))).
  { rewrite <- Hnow. by apply load_snapshot_view. }
  unfold restore_g, restore_pg. rewrite Hrd. cbn [fst snd].
  destruct (replay_prefix (load_snapshot (init_state now) (snapshot_of (v_st v))) rs b suf Hok Hb) as (m & Hrep & Hgen & _).
  unfold stale. rewrite Hgen. destruct Hrs as [Hold| ->].
  - specialize (Hold m). replace (_ <? v_gen v + 1) with true by lia. exact Hbase.
  - destruct m as [|m]; [rewrite firstn_O; replace (0 <? v_gen v + 1) with true by lia; exact Hbase|]. unfold hdr_recs at 1. cbn [firstn].
    rewrite rcd_gen_gen by (split; lia). replace (_ <? _) with false by lia.
    unfold restore. rewrite Hrep, rp_hdr_prefix. exact Hbase.
Qed.

Lemma old_head n v rs m : n < max_bulk -> srv_inv n v -> log_wf (v_gen v) rs ->
  match firstn m rs with r :: _ => rcd_gen r | [] => 0 end <= v_gen v.
Proof.
  intros Hn (_ & (_ & _ & Hg0) & _) [[Hz Hall]|[rs' ->]].
  - destruct m as [|m]; [simpl; lia|]. destruct rs as [|r rs]; [simpl; lia|]. cbn [firstn].
    inversion Hall; subst. lia.
  - destruct m as [|m]; [simpl; lia|]. cbn [firstn]. rewrite rcd_gen_gen by (split; lia). lia.
Qed.

(** [rewrite_power_loss]: at every instant of a rewrite, every image a power loss (or the death of the
    process: the death image is one of them) leaves of the directory restores to the live dataset -
    except that before the switch an image from which unsynced bytes of the log are missing is an image
    the directory could have left before the rewrite began (what C02 says of those applies: a prefix of
    the history; none exists under "always"). *)
Theorem rewrite_power_loss n v t0 x img : n + 1 < max_bulk -> srv_inv n v ->
  In x (rewrite_instants c (v_st v) (v_gen v) t0 (v_pre v) (v_aof v)) -> In img (dir_power x) ->
  same_view (v_st v) (restore_g c now img.1 img.2) \/
  (d_pre x = v_pre v /\ d_log x = a_log (v_aof v) /\ f_pending (a_log (v_aof v)) <> [] /\ img.2 <> death_image (d_log x)).
Proof.
  intros Hn Hinv Hx Himg. pose proof Hinv as (_ & (_ & _ & Hg0) & rs & Hok & Hlog & Hwf & _ & Hcok & _).
  unfold dir_power in Himg. apply in_map_iff in Himg as (b & <- & Hb). cbn [fst snd].
  unfold rewrite_instants in Hx. apply in_app_or in Hx as [Hx|Hx].
  - assert (Hpre : d_log x = a_log (v_aof v) /\ (d_pre x = v_pre v \/ d_pre x = PfDoc (v_gen v + 1) (preamble_of c (v_st v)))).
    { destruct Hx as [<-|[<-|[<-|[<-|[]]]]]; simpl; auto. }
    destruct Hpre as [Hl [Hpre|Hpre]]; rewrite Hl in *; rewrite Hpre.
    + (* before the switch *)
      destruct (list_eq_dec Ascii.ascii_dec b (death_image (a_log (v_aof v)))) as [->|Hne].
      * left. apply (inv_restore n); [lia|done].
      * right. repeat split; try done. intros Hnp. apply Hne. by apply power_no_pending.
    + (* renamed, log not yet truncated *)
      left. destruct (power_image_prefix _ _ Hb) as [suf Hsuf]. rewrite Hlog in Hsuf.
      apply (post_switch n v b suf rs); try done. left. intros m. apply (old_head n); [lia|done|done].
  - (* the log truncated, its header being written *)
    left. apply in_map_iff in Hx as (f & <- & Hf). cbn [d_pre d_log] in *.
    destruct (op_instants_char _ _ _ Hf) as [[k Hk] _]. cbn [f_all empty_file f_synced f_pending app] in Hk.
    rewrite hdr_ops_bytes in Hk by lia.
    destruct (power_image_prefix _ _ Hb) as [suf Hsuf]. rewrite Hk in Hsuf.
    apply (post_switch n v b (suf ++ skipn k (recs_bytes (hdr_recs (v_gen v + 1) (a_cur (v_aof v))))) (hdr_recs (v_gen v + 1) (a_cur (v_aof v)))); try done.
    + unfold hdr_recs. constructor; [apply gen_cmd_ok; split; lia|]. destruct (a_cur (v_aof v) <? 0) eqn:E; [constructor|].
      constructor; [|constructor]. destruct Hcok as [?|?]; [lia|done].
    + rewrite app_assoc, Hsuf. apply firstn_skipn.
    + by right.
Qed.

(** [rewrite_crash_atomic]: the process dies at any instant of a rewrite (between any two file
    operations, inside the header writes at any byte): the directory restores to the live dataset -
    every acknowledged write, none twice. *)
Theorem rewrite_crash_atomic n v t0 x : n + 1 < max_bulk -> srv_inv n v ->
  In x (rewrite_instants c (v_st v) (v_gen v) t0 (v_pre v) (v_aof v)) ->
  same_view (v_st v) (restore_g c now (dir_death x).1 (dir_death x).2).
Proof.
  intros Hn Hinv Hx.
  destruct (rewrite_power_loss n v t0 x (dir_death x) Hn Hinv Hx) as [H|(_ & _ & _ & H)]; [|done|].
  - unfold dir_power, dir_death. apply in_map_iff. exists (death_image (d_log x)). split; [done|apply death_in_power].
  - exfalso. by apply H.
Qed.

(** Under "always" nothing is ever pending, so a power loss is no worse than the death of the process. *)
Corollary rewrite_power_loss_always n v t0 x img : n + 1 < max_bulk -> srv_inv n v ->
  f_pending (a_log (v_aof v)) = [] ->
  In x (rewrite_instants c (v_st v) (v_gen v) t0 (v_pre v) (v_aof v)) -> In img (dir_power x) ->
  same_view (v_st v) (restore_g c now img.1 img.2).
Proof.
  intros Hn Hinv Hnp Hx Himg.
  destruct (rewrite_power_loss n v t0 x img Hn Hinv Hx Himg) as [H|(_ & _ & H & _)]; done.
Qed.

(** The same over histories: a rewrite begun after any history of writes, rewrites and restarts. *)
Theorem rewrite_crash_atomic_hist pol es t0 x : Z.of_nat (length es) + 1 < max_bulk -> Forall ev_ok es ->
  let v := srv_run c pol now (srv_init now) es in
  In x (rewrite_instants c (v_st v) (v_gen v) t0 (v_pre v) (v_aof v)) ->
  same_view (run_writes (init_state now) (ev_writes es)) (restore_g c now (dir_death x).1 (dir_death x).2).
Proof.
  intros Hn Hes v Hx.
  destruct (srv_inv_run pol es 0 (srv_init now) (init_state now)) as [Hinv Hv]; auto using srv_inv_init, same_view_refl; [lia|].
  eapply same_view_trans; [exact Hv|]. apply (rewrite_crash_atomic (0 + Z.of_nat (length es)) _ t0); [lia|done|done].
Qed.

Theorem rewrite_power_loss_hist pol es t0 x img : Z.of_nat (length es) + 1 < max_bulk -> Forall ev_ok es ->
  let v := srv_run c pol now (srv_init now) es in
  In x (rewrite_instants c (v_st v) (v_gen v) t0 (v_pre v) (v_aof v)) -> In img (dir_power x) ->
  same_view (run_writes (init_state now) (ev_writes es)) (restore_g c now img.1 img.2) \/
  (d_pre x = v_pre v /\ d_log x = a_log (v_aof v) /\ f_pending (a_log (v_aof v)) <> [] /\ img.2 <> death_image (d_log x)).
Proof.
  intros Hn Hes v Hx Himg.
  destruct (srv_inv_run pol es 0 (srv_init now) (init_state now)) as [Hinv Hv]; auto using srv_inv_init, same_view_refl; [lia|].
  destruct (rewrite_power_loss (0 + Z.of_nat (length es)) v t0 x img) as [H|H]; [lia|done|done|done| |by right].
  left. eapply same_view_trans; [exact Hv|exact H].
Qed.

(** [recovery_completes]: the process that starts on what a crash after the switch left is again a
    server in the invariant (a stale log has been truncated and numbered; a torn header has been
    dropped), so C09's and C02's statements apply to everything it does next. *)
Theorem recovery_completes n v b suf rs t : n + 1 < max_bulk -> srv_inv n v -> Forall rcd_ok rs -> b ++ suf = recs_bytes rs ->
  (forall m, match firstn m rs with r :: _ => rcd_gen r | [] => 0 end <= v_gen v) \/
    rs = hdr_recs (v_gen v + 1) (a_cur (v_aof v)) ->
  srv_inv (n + 1) (srv_start c now (PfDoc (v_gen v + 1) (preamble_of c (v_st v))) t b).
Proof.
  intros Hn Hinv Hok Hb Hrs. pose proof (post_switch n v b suf rs Hn Hinv Hok Hb Hrs) as Hview.
  pose proof Hinv as ((Hnow & Hm & Hne) & (Hp & Hg & Hg0) & _).
  assert (Hrd : pf_read c (PfDoc (v_gen v + 1) (preamble_of c (v_st v))) = (PreFull (snapshot_of (v_st v)), v_gen v + 1)).
  { unfold pf_read, preamble_of. by rewrite (dec_enc_state c Hc). }
  assert (Hg1 : db_ok (v_gen v + 1)) by (split; lia).
  set (base := load_snapshot (init_state now) (snapshot_of (v_st v))).
  assert (Hbc : cfg_eq (init_state now) base) by (by apply load_snapshot_spec).
  unfold srv_start, srv_inv, restore_g, recovered_g, restore_pg, recovered_pg. rewrite Hrd.
  cbn [fst snd v_st v_pre v_aof v_gen a_log a_cur]. rewrite ?Hrd. cbn [fst snd base_of]. fold base.
  destruct (replay_prefix base rs b suf Hok Hb) as (m & Hrep & Hgen & Hrec).
  destruct (stale (v_gen v + 1) b) eqn:Hst.
  - (* stale: truncated and numbered *)
    change (restore now (PreFull (snapshot_of (v_st v))) []) with base.
    split; [destruct Hbc as (A & B & C); simpl in *; repeat split; congruence|].
    split; [repeat split; done || lia|].
    exists [RCmd (gen_cmd (v_gen v + 1))].
    split; [constructor; [by apply gen_cmd_ok|constructor]|].
    split. { rewrite f_all_sync, f_all_write. unfold recs_bytes, encode_all, gen_marker. simpl. by rewrite app_nil_r. }
    split; [right; by eexists|]. split; [right; lia|]. split; [left; lia|].
    rewrite replay_generation. apply same_view_refl.
  - (* the log continues the new preamble: the header, whole or cut after its first record *)
    unfold stale in Hst. rewrite Hgen in Hst. destruct Hrs as [Hold| ->]; [specialize (Hold m); lia|].
    destruct m as [|m]; [rewrite firstn_O in Hst; lia|].
    unfold restore. fold base. rewrite Hrep, rp_hdr_prefix.
    split; [destruct Hbc as (A & B & C); simpl in *; repeat split; congruence|].
    split; [repeat split; done || lia|].
    exists (firstn (S m) (hdr_recs (v_gen v + 1) (a_cur (v_aof v)))). rewrite f_all_of_bytes.
    split; [by apply Forall_take|]. split; [done|].
    split; [right; unfold hdr_recs; cbn [firstn]; by eexists|]. split; [right; lia|]. split; [left; lia|].
    rewrite rp_hdr_prefix. apply same_view_refl.
Qed.
End inv.
