(** C06: the model of [AuthorizeConnection] decides exactly the declarative policy; a denied command
    changes nothing; the exemptions are the handshake commands. *)
From stdpp Require Import gmap strings.
From RecordUpdate Require Import RecordSet.
From EV Require Import Base.Str Model.Value Model.Keyspace Model.Reply Model.Prog Model.Dispatch.
From EV Require Import Model.TableTypes Model.KeyFuncs Model.Acl Model.AclWorld Spec.SpecAcl.
From EV Require Import Gen.CmdTable Proofs.TableObligations.
Local Open Scope string_scope.
Local Open Scope list_scope.

(** * Boolean reflection *)
Lemma mem_In s l : mem s l = true <-> In s l.
Proof.
  unfold mem. rewrite existsb_exists. split.
  - intros (x & Hx & He). apply String.eqb_eq in He. subst. exact Hx.
  - intros H. exists s. split; [exact H | apply String.eqb_refl].
Qed.
Lemma mem_false s l : mem s l = false <-> ~ In s l.
Proof. rewrite <- mem_In. destruct (mem s l); split; congruence. Qed.

Lemma existsb_two a b l :
  existsb (fun x => String.eqb x a || String.eqb x b) l = mem a l || mem b l.
Proof.
  induction l as [|x l IH]; simpl; [reflexivity|]. rewrite IH.
  rewrite (String.eqb_sym x a), (String.eqb_sym x b).
  destruct (String.eqb a x), (String.eqb b x), (mem a l), (mem b l); reflexivity.
Qed.

Lemma star_or_all s l cats :
  mem s l || forallb (fun c => mem c l) cats = forallb (fun c => mem s l || mem c l) cats.
Proof.
  destruct (mem s l); simpl.
  - induction cats; simpl; auto.
  - reflexivity.
Qed.

Lemma excl_cats xcat cats :
  negb (existsb (fun c => existsb (fun x => String.eqb x "*" || String.eqb x c) xcat) cats)
  = forallb (fun c => negb (mem "*" xcat) && negb (mem c xcat)) cats.
Proof.
  induction cats as [|c cats IH]; simpl; [reflexivity|].
  rewrite negb_orb, IH, existsb_two, negb_orb. reflexivity.
Qed.

Section Proofs.
  Variable glob_match : string -> string -> bool.
  Variable sha256 : string -> string.

  Lemma exempt_is_handshake comm : exempt_comm comm = handshake_b comm.
  Proof.
    unfold exempt_comm, handshake_b, eq_fold, mem.
    change (lower "ack") with "ack". change (lower "auth") with "auth". cbn [existsb].
    generalize (lower comm) as x. intros x.
    destruct (String.eqb x "ack"), (String.eqb x "ping"), (String.eqb x "echo"), (String.eqb x "hello"),
      (String.eqb x "auth"); reflexivity.
  Qed.

  Lemma user_allows_policy u comm cats ch rd wr :
    user_allows glob_match u comm cats ch rd wr = rules_allow_b glob_match u (Request comm cats ch rd wr).
  Proof.
    unfold user_allows, rules_allow_b. simpl.
    rewrite star_or_all, excl_cats, !existsb_two. reflexivity.
  Qed.

  (** the model of the gate computes the policy *)
  Theorem authorize_is_policy a c p s argv :
    authorize glob_match a c p s argv = allowed_b glob_match a c p s argv.
  Proof.
    unfold authorize, allowed_b, request_of.
    destruct (key_extract (cr_name p) "" argv) as [ch rd wr| | |]; try reflexivity.
    destruct s as [s|].
    - destruct (key_extract (cr_name s) (cr_sub s) argv) as [ch' rd' wr'| | |]; try reflexivity.
      cbn [rq_comm]. rewrite exempt_is_handshake.
      destruct (handshake_b (comm_of s)); [reflexivity|]. destruct (a_require a); [|reflexivity]. simpl.
      destruct (a_conns a !! c) as [r|]; [|reflexivity]. rewrite user_allows_policy. reflexivity.
    - cbn [rq_comm]. rewrite exempt_is_handshake.
      destruct (handshake_b (cr_name p)); [reflexivity|]. destruct (a_require a); [|reflexivity]. simpl.
      destruct (a_conns a !! c) as [r|]; [|reflexivity]. rewrite user_allows_policy. reflexivity.
  Qed.

  Lemma matches_b_iff pats s : matches_b glob_match pats s = true <-> matches glob_match pats s.
  Proof. unfold matches_b, matches. rewrite existsb_exists. reflexivity. Qed.
  Lemma matches_b_false pats s : matches_b glob_match pats s = false <-> ~ matches glob_match pats s.
  Proof. rewrite <- matches_b_iff. destruct (matches_b glob_match pats s); split; congruence. Qed.

  Lemma rules_allow_b_iff u rq : rules_allow_b glob_match u rq = true <-> rules_allow glob_match u rq.
  Proof.
    unfold rules_allow_b, rules_allow.
    rewrite !andb_true_iff, !forallb_forall, orb_true_iff, negb_true_iff, orb_false_iff, !mem_In, !mem_false.
    split.
    - intros (((((He & Hi) & Hx) & Hc) & (Hxc1 & Hxc2)) & Hk).
      split; [exact He|]. split.
      { intros c Hc'. specialize (Hi c Hc'). rewrite orb_true_iff, !mem_In in Hi. exact Hi. }
      split.
      { intros c Hc'. specialize (Hx c Hc'). rewrite andb_true_iff, !negb_true_iff, !mem_false in Hx. exact Hx. }
      split; [exact Hc|]. split; [tauto|].
      destruct (mem "pubsub" (rq_cats rq)) eqn:Hp.
      + apply mem_In in Hp. split; [|tauto].
        intros _ ch Hch. rewrite forallb_forall in Hk. specialize (Hk ch Hch).
        rewrite andb_true_iff, negb_true_iff, matches_b_iff, matches_b_false in Hk. exact Hk.
      + apply mem_false in Hp. split; [tauto|].
        intros _ Hne. destruct (rq_reads rq ++ rq_writes rq) eqn:Hl; [congruence|].
        rewrite !andb_true_iff, negb_true_iff, !forallb_forall in Hk. destruct Hk as ((Hn & Hr) & Hw).
        split; [exact Hn|]. split; intros k Hk'; apply matches_b_iff; auto.
    - intros (He & Hi & Hx & Hc & Hxc & Hp & Hk).
      refine (conj (conj (conj (conj (conj He _) _) Hc) _) _).
      + intros c Hc'. rewrite orb_true_iff, !mem_In. auto.
      + intros c Hc'. rewrite andb_true_iff, !negb_true_iff, !mem_false. auto.
      + tauto.
      + destruct (mem "pubsub" (rq_cats rq)) eqn:Hps.
        * apply mem_In in Hps. rewrite forallb_forall. intros ch Hch.
          rewrite andb_true_iff, negb_true_iff, matches_b_iff, matches_b_false. auto.
        * apply mem_false in Hps. destruct (rq_reads rq ++ rq_writes rq) eqn:Hl; [reflexivity|].
          destruct (Hk Hps) as (Hn & Hr & Hw); [congruence|].
          rewrite !andb_true_iff, negb_true_iff, !forallb_forall.
          split; [split; [exact Hn|]|]; intros k Hk'; apply matches_b_iff; auto.
  Qed.

  Lemma handshake_b_iff comm : handshake_b comm = true <-> handshake comm.
  Proof.
    unfold handshake_b, handshake. rewrite mem_In. split; intros H.
    - apply elem_of_list_In. exact H.
    - apply elem_of_list_In. exact H.
  Qed.

  Lemma allowed_b_iff a c p s argv : allowed_b glob_match a c p s argv = true <-> allowed glob_match a c p s argv.
  Proof.
    unfold allowed_b, allowed. destruct (request_of p s argv) as [rq|].
    - rewrite !orb_true_iff, negb_true_iff, handshake_b_iff. split.
      + intros [[H|H]|H]; exists rq; split; auto.
        destruct (a_conns a !! c) as [r|]; [|discriminate].
        apply andb_true_iff in H as [H1 H2]. apply rules_allow_b_iff in H2. right. right. exists r. auto.
      + intros (rq' & [= <-] & [H|[H|(r & Hr & Ha & Hu)]]); auto.
        right. rewrite Hr, Ha. simpl. apply rules_allow_b_iff. exact Hu.
    - split; [discriminate|]. intros (rq & H & _). discriminate.
  Qed.

  (** * C06_authorize_iff_allowed *)
  Theorem authorize_iff_allowed a c p s argv :
    authorize glob_match a c p s argv = true <-> allowed glob_match a c p s argv.
  Proof. rewrite authorize_is_policy. apply allowed_b_iff. Qed.

  (** * C06_denied_no_effect: a command the gate denies (or that is rejected before the gate) leaves the
      whole world - dataset, expiry index, memory figure, selected databases, protocol and names of the
      connections, users, connection records, ACL file - as it was, and is answered with an error. *)
  Theorem denied_no_effect aw c argv :
    gate (authorize glob_match) aw c argv <> DAllow ->
    acl_handle sha256 (authorize glob_match) aw c argv = (aw, RErr).
  Proof.
    unfold gate, acl_handle. destruct (lookup_cmd argv) as [|p s]; [reflexivity|].
    destruct (authorize glob_match (aw_acl aw) c p s argv); [congruence|reflexivity].
  Qed.

  Corollary not_allowed_no_effect aw c argv p s :
    lookup_cmd argv = LCmd p s -> ~ allowed glob_match (aw_acl aw) c p s argv ->
    acl_handle sha256 (authorize glob_match) aw c argv = (aw, RErr).
  Proof.
    intros Hl Hn. apply denied_no_effect. unfold gate. rewrite Hl.
    destruct (authorize glob_match (aw_acl aw) c p s argv) eqn:E; [|congruence].
    apply authorize_iff_allowed in E. contradiction.
  Qed.

  (** The data part in terms of [exec_cmd]: an allowed command that is not a connection / ACL command
      is exactly the dispatcher's [exec_cmd] on the dataset; a denied one does not reach it. *)
  Theorem allowed_runs_exec aw c argv p s :
    lookup_cmd argv = LCmd p s -> authorize glob_match (aw_acl aw) c p s argv = true ->
    conn_acl_handler sha256 aw c p s argv = None ->
    acl_handle sha256 (authorize glob_match) aw c argv =
      (let '(w', r) := exec_cmd (aw_w aw) c argv in (set aw_w (fun _ => w') aw, r)).
  Proof. intros Hl Ha Hn. unfold acl_handle. rewrite Hl, Ha, Hn. reflexivity. Qed.

  (** * C06_exempt_exact *)
  Theorem exempt_always_allowed a c p s argv rq :
    request_of p s argv = Some rq -> handshake (rq_comm rq) -> authorize glob_match a c p s argv = true.
  Proof. intros Hr Hh. apply authorize_iff_allowed. exists rq. auto. Qed.

  (** with authentication required, on a connection that is not authenticated, exactly the handshake
      requests pass *)
  Theorem unauthenticated_only_handshake a c p s argv rq :
    a_require a = true -> (forall r, a_conns a !! c = Some r -> c_auth r = false) ->
    request_of p s argv = Some rq ->
    (authorize glob_match a c p s argv = true <-> handshake (rq_comm rq)).
  Proof.
    intros Hreq Hc Hr. rewrite authorize_iff_allowed. split.
    - intros (rq' & Hr' & [H|[H|(r & Hcr & Ha & _)]]).
      + congruence.
      + congruence.
      + rewrite (Hc r Hcr) in Ha. discriminate.
    - intros Hh. exists rq. auto.
  Qed.

  (** among the registered commands and sub-commands the handshake names are exactly these four *)
  Theorem exempt_rows_exact :
    map comm_of (filter (fun r => handshake_b (comm_of r)) cmd_table) = ["auth"; "ping"; "echo"; "hello"].
  Proof. vm_compute. reflexivity. Qed.
End Proofs.
