(** What each keyspace primitive does to the *observable* keyspace: [lentry s d k] is the entry a
    client can see at key [k] of database [d] (absent when there is none or its deadline passed). *)
From stdpp Require Import gmap strings.
From RecordUpdate Require Import RecordSet.
Import RecordSetNotations.
From EV Require Import Base.Str Model.Value Model.Keyspace.
Local Open Scope Z_scope.

Definition lentry (s : state) (d : Z) (k : string) : option entry :=
  match get_db s d !! k with
  | Some e => if expired (st_now s) e then None else Some e
  | None => None
  end.
Definition live (s : state) (d : Z) (k : string) : option value := e_val <$> lentry s d k.

(** Two states show the same keyspace to every client. *)
Definition same_view (s s' : state) : Prop :=
  (forall d k, lentry s' d k = lentry s d k) /\ st_now s' = st_now s /\
  st_maxmem s' = st_maxmem s /\ st_noevict s' = st_noevict s.

Lemma same_view_refl s : same_view s s.
Proof. repeat split. Qed.
Lemma same_view_trans a b c : same_view a b -> same_view b c -> same_view a c.
Proof.
  intros (H1 & H2 & H3 & H4) (G1 & G2 & G3 & G4). repeat split; try congruence.
Qed.

Lemma get_db_insert s d d' db (f : state -> state) :
  (forall s, st_dbs (f s) = <[d := db]> (st_dbs s)) ->
  get_db (f s) d' = if decide (d = d') then db else get_db s d'.
Proof.
  intros Hf. unfold get_db. rewrite Hf. destruct (decide (d = d')) as [->|Hne].
  - by rewrite lookup_insert.
  - by rewrite lookup_insert_ne.
Qed.

Lemma str_in_spec k ks : str_in k ks = true <-> k ∈ ks.
Proof. unfold str_in. apply bool_decide_eq_true. Qed.

Lemma keys_exist_lentry s d ks k :
  keys_exist s d ks k = str_in k ks && bool_decide (is_Some (lentry s d k)).
Proof.
  unfold keys_exist, lentry. f_equal.
  destruct (get_db s d !! k) as [e|]; [|done].
  destruct (expired (st_now s) e); done.
Qed.

Lemma keys_exist_single s d k :
  keys_exist s d [k] k = bool_decide (is_Some (lentry s d k)).
Proof.
  rewrite keys_exist_lentry. replace (str_in k [k]) with true; [done|].
  symmetry. apply str_in_spec. set_solver.
Qed.

(** * deleteKey *)
Lemma delete_key_db s d k d' :
  get_db (delete_key s d k) d' = if decide (d = d') then delete k (get_db s d) else get_db s d'.
Proof.
  unfold delete_key. destruct (get_db s d !! k) as [e|] eqn:He.
  - unfold get_db; simpl. destruct (decide (d = d')) as [->|Hne].
    + by rewrite lookup_insert.
    + by rewrite lookup_insert_ne.
  - destruct (decide (d = d')) as [<-|Hne]; [|done]. by rewrite delete_notin.
Qed.

Lemma delete_key_now s d k : st_now (delete_key s d k) = st_now s.
Proof. unfold delete_key. by destruct (get_db s d !! k). Qed.
Lemma delete_key_maxmem s d k : st_maxmem (delete_key s d k) = st_maxmem s.
Proof. unfold delete_key. by destruct (get_db s d !! k). Qed.
Lemma delete_key_noevict s d k : st_noevict (delete_key s d k) = st_noevict s.
Proof. unfold delete_key. by destruct (get_db s d !! k). Qed.

Lemma delete_key_lentry s d k d' k' :
  lentry (delete_key s d k) d' k' =
  if decide (d = d' /\ k = k') then None else lentry s d' k'.
Proof.
  unfold lentry. rewrite delete_key_db, delete_key_now.
  destruct (decide (d = d')) as [->|Hne].
  - destruct (decide (k = k')) as [->|Hk].
    + rewrite lookup_delete. by rewrite decide_True.
    + rewrite lookup_delete_ne by done. rewrite decide_False; [done|]. intros [_ ?]; done.
  - rewrite decide_False; [done|]. intros [? _]; done.
Qed.

(** Deleting a key that no client could see does not change the view. *)
Lemma delete_invisible_same_view s d k :
  lentry s d k = None -> same_view s (delete_key s d k).
Proof.
  intros Hk. split; [|split; [apply delete_key_now|split; [apply delete_key_maxmem|apply delete_key_noevict]]].
  intros d' k'. rewrite delete_key_lentry. destruct (decide _) as [[-> ->]|]; [by rewrite Hk|done].
Qed.

(** * getValues *)
Lemma get_values_go_spec s d ks acc :
  let '(s', acc') := get_values_go s d ks acc in
  same_view s s' /\
  (forall k, assoc k acc' = if bool_decide (k ∈ ks) then Some (live s d k) else assoc k acc).
Proof.
  revert s acc. induction ks as [|k0 ks IH]; intros s acc; simpl.
  - split; [apply same_view_refl|done].
  - assert (Hacc : forall (s1 : state) r, same_view s s1 -> r = live s d k0 ->
       let '(s', acc') := get_values_go s1 d ks ((k0, r) :: acc) in
       same_view s s' /\
       (forall k, assoc k acc' = if bool_decide (k ∈ k0 :: ks) then Some (live s d k) else assoc k acc)).
    { intros s1 r Hv Hr. specialize (IH s1 ((k0, r) :: acc)).
      destruct (get_values_go s1 d ks ((k0, r) :: acc)) as [s' acc'].
      destruct IH as [IH1 IH2]. split; [eapply same_view_trans; eauto|].
      intros k. rewrite IH2. destruct Hv as (Hv & _).
      destruct (bool_decide (k ∈ ks)) eqn:Hin.
      - apply bool_decide_eq_true in Hin. rewrite bool_decide_eq_true_2 by set_solver.
        unfold live. by rewrite Hv.
      - apply bool_decide_eq_false in Hin. simpl.
        destruct (String.eqb k k0) eqn:Hk.
        + apply String.eqb_eq in Hk. subst. rewrite bool_decide_eq_true_2 by set_solver. done.
        + apply String.eqb_neq in Hk. rewrite bool_decide_eq_false_2 by set_solver. done. }
    destruct (get_db s d !! k0) as [e|] eqn:He.
    + destruct (expired (st_now s) e) eqn:Hx.
      * apply Hacc.
        -- apply delete_invisible_same_view. unfold lentry. by rewrite He, Hx.
        -- unfold live, lentry. by rewrite He, Hx.
      * apply Hacc; [apply same_view_refl|]. unfold live, lentry. by rewrite He, Hx.
    + apply Hacc; [apply same_view_refl|]. unfold live, lentry. by rewrite He.
Qed.

Lemma get_values_spec s d ks :
  let '(s', f) := get_values s d ks in
  same_view s s' /\ (forall k, k ∈ ks -> f k = live s d k).
Proof.
  unfold get_values. pose proof (get_values_go_spec s d ks []) as H.
  destruct (get_values_go s d ks []) as [s' acc]. destruct H as [H1 H2].
  split; [done|]. intros k Hk. rewrite H2. by rewrite bool_decide_eq_true_2.
Qed.

(** * setValues (no memory limit) *)
Lemma set_value1_fields s d k v :
  st_now (set_value1 s d k v) = st_now s /\ st_maxmem (set_value1 s d k v) = st_maxmem s /\
  st_noevict (set_value1 s d k v) = st_noevict s.
Proof.
  unfold set_value1. destruct (get_db s d !! k) as [e|]; [destruct (expired _ e)|]; simpl;
    rewrite ?delete_key_now, ?delete_key_maxmem, ?delete_key_noevict; done.
Qed.

Definition dl_of (o : option entry) : option Z := match o with Some e => e_dl e | None => None end.

Lemma set_value1_lentry s d k v d' k' :
  lentry (set_value1 s d k v) d' k' =
  if decide (d = d' /\ k = k') then Some (Entry v (dl_of (lentry s d k))) else lentry s d' k'.
Proof.
  unfold set_value1.
  set (s1 := match get_db s d !! k with
             | Some e => if expired (st_now s) e then delete_key s d k else s
             | None => s end).
  assert (Hnow : st_now s1 = st_now s).
  { subst s1. destruct (get_db s d !! k) as [e|]; [destruct (expired _ e)|]; rewrite ?delete_key_now; done. }
  assert (Hs1 : forall d' k', lentry s1 d' k' = lentry s d' k').
  { intros d2 k2. subst s1. destruct (get_db s d !! k) as [e|] eqn:He; [|done].
    destruct (expired (st_now s) e) eqn:Hx; [|done].
    rewrite delete_key_lentry. destruct (decide _) as [[<- <-]|]; [|done].
    unfold lentry. by rewrite He, Hx. }
  assert (Hlive : forall e, get_db s1 d !! k = Some e -> expired (st_now s) e = false).
  { intros e. subst s1. destruct (get_db s d !! k) as [e0|] eqn:He.
    - destruct (expired (st_now s) e0) eqn:Hx.
      + rewrite delete_key_db, decide_True by done. by rewrite lookup_delete.
      + rewrite He. by intros [= <-].
    - by rewrite He. }
  unfold lentry at 1. simpl. rewrite Hnow.
  unfold get_db at 1. simpl.
  destruct (decide (d = d')) as [<-|Hd].
  - rewrite lookup_insert. simpl.
    destruct (decide (k = k')) as [<-|Hk].
    + rewrite lookup_insert, decide_True by done.
      assert (Hdl : match get_db s1 d !! k with Some e => e_dl e | None => None end = dl_of (lentry s d k)).
      { rewrite <- Hs1. unfold lentry. rewrite Hnow.
        destruct (get_db s1 d !! k) as [e|] eqn:He; [|done]. by rewrite (Hlive e eq_refl). }
      rewrite Hdl. unfold expired; simpl.
      destruct (dl_of (lentry s d k)) as [t|] eqn:Ht; [|done].
      (* the retained deadline belongs to a live entry, so it has not passed *)
      unfold dl_of in Ht. destruct (lentry s d k) as [e|] eqn:Hle; [|done].
      unfold lentry in Hle. destruct (get_db s d !! k) as [e0|]; [|done].
      destruct (expired (st_now s) e0) eqn:Hx; [done|]. injection Hle as ->.
      unfold expired in Hx. rewrite Ht in Hx. by rewrite Hx.
    + rewrite lookup_insert_ne by done. rewrite decide_False by (intros [_ ?]; done).
      rewrite <- Hs1. unfold lentry. by rewrite Hnow.
  - rewrite lookup_insert_ne by done. rewrite decide_False by (intros [? _]; done).
    rewrite <- Hs1. unfold lentry, get_db. by rewrite Hnow.
Qed.

Fixpoint assoc_last {A} (k : string) (l : list (string * A)) : option A :=
  match l with
  | [] => None
  | (k', v) :: r => match assoc_last k r with
                    | Some x => Some x
                    | None => if String.eqb k k' then Some v else None
                    end
  end.

Lemma assoc_last_None {A} k (l : list (string * A)) : assoc_last k l = None <-> k ∉ map fst l.
Proof.
  induction l as [|[k' v] r IH]; simpl; [set_solver|].
  destruct (assoc_last k r) eqn:Hr.
  - split; [done|]. intros Hn. exfalso. apply Hn. right. apply dec_stable. intros Hc.
    apply IH in Hc. done.
  - destruct (String.eqb k k') eqn:Hk.
    + apply String.eqb_eq in Hk. subst. split; [done|]. intros Hn. exfalso. apply Hn. left.
    + apply String.eqb_neq in Hk. split; [|done]. intros _. intros [?|Hc]%elem_of_cons; [done|].
      by apply IH in Hc.
Qed.

Lemma dedupe_last_assoc {A} k (l : list (string * A)) :
  assoc_last k (dedupe_last l) = assoc_last k l.
Proof.
  induction l as [|[k' v] r IH]; simpl; [done|].
  destruct (bool_decide (k' ∈ map fst r)) eqn:Hin.
  - apply bool_decide_eq_true in Hin. rewrite IH.
    destruct (assoc_last k r) eqn:Hr; [done|].
    destruct (String.eqb k k') eqn:Hk; [|done].
    apply String.eqb_eq in Hk. subst. apply assoc_last_None in Hr. done.
  - simpl. by rewrite IH.
Qed.

Lemma set_values_fold_lentry kvs : forall s d d' k',
  lentry (fold_left (fun s '(k, v) => set_value1 s d k v) kvs s) d' k' =
  match (if decide (d = d') then assoc_last k' kvs else None) with
  | Some v => Some (Entry v (dl_of (lentry s d' k')))
  | None => lentry s d' k'
  end.
Proof.
  induction kvs as [|[k v] r IH]; intros s d d' k'; simpl.
  - by destruct (decide _).
  - rewrite IH. destruct (decide (d = d')) as [<-|Hd].
    + destruct (assoc_last k' r) as [x|] eqn:Hr.
      * f_equal. f_equal. rewrite set_value1_lentry.
        destruct (decide _) as [[_ <-]|]; done.
      * rewrite set_value1_lentry. destruct (String.eqb k' k) eqn:Hk.
        -- apply String.eqb_eq in Hk. subst. by rewrite decide_True.
        -- apply String.eqb_neq in Hk. rewrite decide_False; [done|]. intros [_ ?]. congruence.
    + rewrite set_value1_lentry. rewrite decide_False; [done|]. intros [? _]. done.
Qed.

Lemma set_values_fold_fields kvs : forall s d,
  let s' := fold_left (fun s '(k, v) => set_value1 s d k v) kvs s in
  st_now s' = st_now s /\ st_maxmem s' = st_maxmem s /\ st_noevict s' = st_noevict s.
Proof.
  induction kvs as [|[k v] r IH]; intros s d; simpl; [done|].
  destruct (IH (set_value1 s d k v) d) as (H1 & H2 & H3).
  destruct (set_value1_fields s d k v) as (G1 & G2 & G3).
  repeat split; congruence.
Qed.

(** With no memory limit [setValues] always succeeds; it binds exactly the given keys (the last
    binding of a repeated key wins), each keeping the deadline of the live entry it replaces. *)
Lemma set_values_spec s d kvs :
  st_maxmem s = 0 ->
  let '(s', ok) := set_values s d kvs in
  ok = true /\
  (forall d' k', lentry s' d' k' =
     match (if decide (d = d') then assoc_last k' kvs else None) with
     | Some v => Some (Entry v (dl_of (lentry s d' k')))
     | None => lentry s d' k'
     end) /\
  st_now s' = st_now s /\ st_maxmem s' = st_maxmem s /\ st_noevict s' = st_noevict s.
Proof.
  intros Hm. unfold set_values, max_memory_exceeded.
  replace (st_maxmem s =? 0) with true by (by rewrite Hm). simpl.
  split; [done|]. split.
  - intros d' k'. rewrite set_values_fold_lentry.
    destruct (decide (d = d')); [|done]. by rewrite dedupe_last_assoc.
  - apply set_values_fold_fields.
Qed.
