(** C17 for all 25 sorted-set handlers: ZRANDMEMBER refines the reference for every resolution of the
    random choice, and the reference with a resolved choice is accepted by the acceptance oracle
    ([spec_zrandmember] + the validation of the drawn members). *)
From stdpp Require Import gmap strings.
From EV Require Import Base.Str Model.Value Model.Keyspace Model.Reply Model.Prog Model.ZSetOps Model.ZSetMulti Model.CmdZSet Model.CmdZRand.
From EV Require Import Spec.SpecZSet Spec.SpecZSetExt Spec.SpecZRand Proofs.KeyspaceLemmas Proofs.ZSetPure Proofs.ZSetProofs.
Local Open Scope Z_scope.

(** * The dispatcher of the sorted-set module with ZRANDMEMBER *)
Definition exec_zset_r (pick : zpicker) (d : Z) (argv : list string) (s : state) : state * reply :=
  match argv with
  | [] => (s, RErr)
  | c :: _ => match zset_handler (lower c) with
              | Some h => run_seq d (h argv) s
              | None => match zrand_handler pick (lower c) with
                        | Some h => run_seq d (h argv) s
                        | None => (s, RErr)
                        end
              end
  end.

Lemma spec_zrand_spec_of pick m argv :
  spec_of (single (decode_zrandmember pick) argv) m = spec_zrand pick m argv.
Proof. unfold spec_of, single, spec_zrand. by destruct (decode_zrandmember pick argv). Qed.

Theorem zset_r_step_refines pick argv s d :
  st_maxmem s = 0 ->
  step_ok s d (exec_zset_r pick d argv s) (spec_zset_r pick false (zview s d) argv).
Proof.
  intros Hm. unfold spec_zset_r, is_zrandmember.
  destruct argv as [|c rest]; [by apply step_ok_same, same_view_refl|].
  change (arg (c :: rest) 0) with c. unfold exec_zset_r, zrand_handler.
  destruct (String.eqb (lower c) "zrandmember") eqn:E.
  - apply String.eqb_eq in E. rewrite E. change (zset_handler "zrandmember") with (@None (list string -> prog reply)).
    cbv iota. rewrite <- spec_zrand_spec_of. apply (run_zset_refines _ (c :: rest) s d Hm).
  - pose proof (zset_step_refines (c :: rest) s d Hm) as H. unfold exec_zset in H.
    by destruct (zset_handler (lower c)).
Qed.

Fixpoint run_zset_r_cmds (pick : zpicker) (d : Z) (cmds : list (list string)) (s : state) : state * list reply :=
  match cmds with
  | [] => (s, [])
  | c :: r => let '(s1, x) := exec_zset_r pick d c s in
              let '(s2, xs) := run_zset_r_cmds pick d r s1 in (s2, x :: xs)
  end.

Theorem zset_r_script_refines_pinned pick cmds : forall s d,
  st_maxmem s = 0 ->
  let '(s', rs) := run_zset_r_cmds pick d cmds s in
  let '(m', rs') := spec_zset_r_run pick false (zview s d) cmds in
  rs = rs' /\ zview s' d = m' /\ st_maxmem s' = 0.
Proof.
  induction cmds as [|c r IH]; intros s d Hm; cbn -[zview spec_zset_r]; [done|].
  pose proof (zset_r_step_refines pick c s d Hm) as H1.
  destruct (exec_zset_r pick d c s) as [s1 x]. destruct (spec_zset_r pick false (zview s d) c) as [m1 x'].
  destruct H1 as (Hr & Hlv & Hfr & _). cbn in Hr, Hlv, Hfr. subst x'.
  assert (Hm1 : st_maxmem s1 = 0) by (destruct Hfr as (_ & _ & _ & -> & _); done).
  specialize (IH s1 d Hm1). rewrite Hlv in IH.
  destruct (run_zset_r_cmds pick d r s1) as [s2 xs]. destruct (spec_zset_r_run pick false m1 r) as [m2 xs'].
  destruct IH as (-> & ? & ?). done.
Qed.

Lemma kf_free_r_same pick cmds : forall m,
  kf_free_r pick m cmds = true -> spec_zset_r_run pick true m cmds = spec_zset_r_run pick false m cmds.
Proof.
  induction cmds as [|c r IH]; intros m H; cbn -[spec_zset_r]; [done|].
  cbn -[spec_zset_r spec_zset] in H. apply andb_true_iff in H as [H1 H2].
  assert (E : spec_zset_r pick true m c = spec_zset_r pick false m c).
  { unfold spec_zset_r. destruct (is_zrandmember c); [done|]. simpl in H1. by apply bool_decide_eq_true in H1. }
  rewrite <- E. destruct (spec_zset_r pick true m c) as [m1 x]. cbn in H2. by rewrite (IH m1 H2).
Qed.

Theorem zset_r_script_refines pick cmds s d :
  st_maxmem s = 0 -> kf_free_r pick (zview s d) cmds = true ->
  let '(s', rs) := run_zset_r_cmds pick d cmds s in
  let '(m', rs') := spec_zset_r_run pick true (zview s d) cmds in
  rs = rs' /\ zview s' d = m' /\ st_maxmem s' = 0.
Proof.
  intros Hm Hk. rewrite (kf_free_r_same _ _ _ Hk). by apply zset_r_script_refines_pinned.
Qed.

Corollary zset_r_error_changes_nothing pick argv s d :
  st_maxmem s = 0 -> snd (exec_zset_r pick d argv s) = RErr -> same_view s (fst (exec_zset_r pick d argv s)).
Proof. intros Hm. by destruct (zset_r_step_refines pick argv s d Hm) as (_ & _ & _ & H). Qed.

Corollary zset_r_step_frame pick argv s d :
  st_maxmem s = 0 -> zset_frame s (fst (exec_zset_r pick d argv s)) d.
Proof. intros Hm. by destruct (zset_r_step_refines pick argv s d Hm) as (_ & _ & H & _). Qed.

(** ZRANDMEMBER never changes the view, whatever it answers. *)
Lemma spec_zrand_pure pick m argv : fst (spec_zrand pick m argv) = m.
Proof.
  unfold spec_zrand, decode_zrandmember.
  destruct (_ || _); [done|]. unfold spec_single. cbn [zd_body zd_rkey zd_wkey].
  destruct (zrand_count argv) as [c|]; [|done].
  destruct (_ && _); [done|].
  destruct (m !! arg argv 1) as [[z|]|]; done.
Qed.

Theorem zrandmember_pure pick c rest s d :
  st_maxmem s = 0 -> lower c = "zrandmember" ->
  zview (fst (exec_zset_r pick d (c :: rest) s)) d = zview s d.
Proof.
  intros Hm Hc. destruct (zset_r_step_refines pick (c :: rest) s d Hm) as (_ & Hv & _).
  rewrite Hv. unfold spec_zset_r, is_zrandmember. change (arg (c :: rest) 0) with c. rewrite Hc.
  simpl. apply spec_zrand_pure.
Qed.

(** * Model reference and acceptance oracle agree *)
Definition item_member (r : reply) : string :=
  match r with RArr (RBulk m :: _) => m | _ => "" end.

Lemma item_member_reply ws l : map item_member (map (item_reply ws) l) = map fst l.
Proof. rewrite map_map. apply map_ext. intros [m f]. unfold item_reply. by destruct ws. Qed.

Lemma judge_selection pick z c ws :
  valid_zpick pick ->
  zrand_judge (if zcard z <=? Z.abs c then items_reply ws (zsorted z)
               else RArr [RSimple "rand"; RInt c; items_reply ws (zsorted z)])
              (items_reply ws (zrand_select pick z c)).
Proof.
  intros Hp. unfold zrand_select. destruct (zcard z <=? Z.abs c) eqn:E; [by left|]. right.
  apply Z.leb_gt in E. destruct (Hp z c E) as (Hin & Hlen & Hnd).
  exists c, (map (item_reply ws) (zsorted z)), (map (item_reply ws) (pick z c)).
  split; [done|]. split; [done|]. split; [|split].
  - intros g Hg. apply elem_of_list_fmap in Hg as (p & -> & Hpi). apply elem_of_list_fmap. exists p. split; [done|].
    destruct p as [mm f]. apply zsorted_lookup. by apply Hin in Hpi.
  - unfold zlen in *. by rewrite map_length.
  - intros Hc. apply (NoDup_fmap_1 item_member).
    replace (item_member <$> map (item_reply ws) (pick z c)) with (map fst (pick z c)); [by apply Hnd|].
    symmetry. apply item_member_reply.
Qed.

(** For every resolution of the random choice the reference with the resolved choice is accepted by the
    acceptance oracle (and neither changes the view). *)
Theorem zrand_reference_agrees pick m argv :
  valid_zpick pick ->
  fst (spec_zrandmember m argv) = m /\ fst (spec_zrand pick m argv) = m /\
  zrand_judge (snd (spec_zrandmember m argv)) (snd (spec_zrand pick m argv)).
Proof.
  intros Hp. split; [|split; [apply spec_zrand_pure|]].
  { unfold spec_zrandmember. repeat (case_match; try done). }
  unfold spec_zrandmember, spec_zrand, decode_zrandmember, zrand_count.
  destruct (_ || _); [by left|]. unfold spec_single. cbn [zd_body zd_rkey zd_wkey].
  destruct (if (3 <=? length argv)%nat then _ else _) as [c|]; [|by left].
  destruct (_ && _); [by left|].
  destruct (m !! arg argv 1) as [[z|]|]; [|by left..].
  cbn [apply_act snd].
  pose proof (judge_selection pick z c (length argv =? 4)%nat Hp) as H.
  by destruct (zcard z <=? Z.abs c).
Qed.

(** The selection of the executable model is a resolution. *)
Lemma zsorted_length z : zlen (zsorted z) = zcard z.
Proof. unfold zlen, zcard, zlen. by rewrite (Permutation_length (zsorted_perm z)). Qed.

Lemma zsorted_nodup_fst z : base.NoDup (map fst (zsorted z)).
Proof.
  eapply (proj2 (NoDup_Permutation_proper _ _ (fmap_Permutation fst _ _ (zsorted_perm z)))). apply NoDup_fst_map_to_list.
Qed.

Lemma default_zpick_valid : valid_zpick default_zpick.
Proof.
  intros z c Hc. unfold default_zpick. pose proof (zsorted_length z) as Hl. pose proof (zsorted_nodup_fst z) as Hnd.
  destruct (0 <? c) eqn:E.
  - apply Z.ltb_lt in E. split; [|split].
    + intros [mm f] Hp. apply zsorted_lookup. unfold zfirstn in Hp. by apply elem_of_take in Hp as (i & Hp & _); apply elem_of_list_lookup_2 in Hp.
    + unfold zfirstn, zlen in *. rewrite firstn_length. lia.
    + intros _. unfold zfirstn. rewrite <- (take_drop (Z.to_nat c) (zsorted z)), fmap_app in Hnd.
      by apply NoDup_app in Hnd as (Hnd & _).
  - apply Z.ltb_ge in E. destruct (zsorted z) as [|x l] eqn:Ez.
    + unfold zlen in Hl. simpl in Hl. lia.
    + split; [|split; [|lia]].
      * intros p Hp. apply elem_of_list_In, repeat_spec in Hp. subst p. destruct x as [mm f]. apply zsorted_lookup.
        rewrite Ez. apply elem_of_cons. by left.
      * unfold zlen. rewrite repeat_length. lia.
Qed.

(** Non-vacuity of "every resolution": each allowed selection is the reply under some resolution. *)
Lemma every_selection_is_a_resolution z c l :
  Z.abs c < zcard z -> zrand_ok z c l ->
  exists pick, valid_zpick pick /\ zrand_select pick z c = l.
Proof.
  intros Hc Hok.
  exists (fun z' c' => if bool_decide (z' = z /\ c' = c) then l else default_zpick z' c'). split.
  - intros z' c' Hc'. destruct (bool_decide _) eqn:E.
    + apply bool_decide_eq_true in E as [-> ->]. done.
    + by apply default_zpick_valid.
  - unfold zrand_select. destruct (zcard z <=? Z.abs c) eqn:E; [apply Z.leb_le in E; lia|].
    by rewrite bool_decide_eq_true_2.
Qed.
