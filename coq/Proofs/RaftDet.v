(** Replica determinism.

    [tfree T p]: the program never uses what its node's clock shows (a [Now] whose result is ignored
    is allowed: SET reads the clock before it parses its options) and only stores deadlines at or after
    the horizon [T].  Such a program computes the same thing on every node whose clock has not passed
    [T], on a dataset whose deadlines are all at or after [T] ([tfree_sound]).

    [replica_det T e] is the semantic statement for a log entry: on every such dataset, applying [e]
    on a node with any clock [n <= T] and any random source gives the dataset, the response and the
    invariant of the reference application.  [agree_with_reference]: a log of such entries replays to
    the same dataset on every node. *)
From stdpp Require Import gmap strings.
From RecordUpdate Require Import RecordSet.
Import RecordSetNotations.
From EV Require Import Base.Str Model.Value Model.Keyspace Model.Reply Model.Prog Model.CmdSet Model.Raft.
From EV Require Import Proofs.KeyspaceLemmas Proofs.RaftLemmas.
Local Open Scope Z_scope.

Inductive tfree (T : Z) {R} : prog R -> Prop :=
| tf_ret r : tfree T (Ret r)
| tf_keys ks k : (forall f, tfree T (k f)) -> tfree T (KeysExist ks k)
| tf_getexp key k : (forall o, dl_ok T o -> tfree T (k o)) -> tfree T (GetExpiry key k)
| tf_getv ks k : (forall f, tfree T (k f)) -> tfree T (GetValues ks k)
| tf_setv kvs k : (forall b, tfree T (k b)) -> tfree T (SetValues kvs k)
| tf_setexp key t touch k : dl_ok T t -> tfree T k -> tfree T (SetExpiry key t touch k)
| tf_del key k : tfree T k -> tfree T (DeleteKey key k)
| tf_now k : (forall n1 n2, n1 <= T -> n2 <= T -> k n1 = k n2) -> (forall n, n <= T -> tfree T (k n)) ->
             tfree T (Now k)
| tf_flushdb k : tfree T k -> tfree T (FlushDb k)
| tf_flushall k : tfree T k -> tfree T (FlushAll k)
| tf_getdb k : (forall d, tfree T (k d)) -> tfree T (GetDb k).

Definition commutes {R} (T : Z) (d : Z) (p : prog R) : Prop :=
  forall s n, dl_ge T s -> st_now s <= T -> n <= T ->
    run_cl d p (at_time s n) = (at_time (fst (run_cl d p s)) n, snd (run_cl d p s))
    /\ dl_ge T (fst (run_cl d p s)) /\ st_now (fst (run_cl d p s)) = st_now s.

Theorem tfree_sound {R} T (p : prog R) : tfree T p -> forall d, commutes T d p.
Proof.
  induction 1 as [r|ks k _ IH|key k _ IH|ks k _ IH|kvs k _ IH|key t touch k Ht _ IH|key k _ IH
                 |k Heq _ IH|k _ IH|k _ IH|k _ IH]; intros d s n H Hs Hn; cbn [run_cl].
  - done.
  - rewrite (keys_exist_at T) by done. by apply IH.
  - rewrite (get_expiry_at T) by done. apply IH; [by apply get_expiry_dl_ok|done..].
  - rewrite (get_values_at T) by done. by apply IH.
  - destruct (set_values_at T s n d kvs H Hs Hn) as (E & D & N). rewrite E.
    destruct (set_values s d kvs) as [s' ok]. simpl in *.
    destruct (IH ok d s' n D ltac:(lia) Hn) as (E' & D' & N'). rewrite E'. split; [done|]. split; [done|lia].
  - rewrite (set_expiry_at T) by done.
    destruct (IH d (set_expiry s d key t) n) as (E' & D' & N');
      [by apply set_expiry_dl_ge|by rewrite set_expiry_now|done|].
    rewrite E'. split; [done|]. split; [done|]. by rewrite N', set_expiry_now.
  - rewrite delete_key_at.
    destruct (IH d (delete_key s d key) n) as (E' & D' & N');
      [by apply delete_key_dl_ge|by rewrite delete_key_now|done|].
    rewrite E'. split; [done|]. split; [done|]. by rewrite N', delete_key_now.
  - rewrite st_now_at, (Heq n (st_now s)) by done. by apply IH.
  - rewrite (flush_at T).
    destruct (IH d (flush s d) n) as (E' & D' & N');
      [by apply flush_dl_ge|by rewrite (flush_now T)|done|].
    rewrite E'. split; [done|]. split; [done|]. by rewrite N', (flush_now T).
  - rewrite (flush_at T).
    destruct (IH d (flush s (-1)) n) as (E' & D' & N');
      [by apply flush_dl_ge|by rewrite (flush_now T)|done|].
    rewrite E'. split; [done|]. split; [done|]. by rewrite N', (flush_now T).
  - by apply IH.
Qed.

(** * Entries *)
Definition ref_pick : picker := default_pick.

Definition replica_det (T : Z) (e : request) : Prop :=
  forall s pk n, dl_ge T s -> st_now s <= T -> n <= T ->
    fsm_apply pk (at_time s n) e = (at_time (fst (fsm_apply ref_pick s e)) n, snd (fsm_apply ref_pick s e))
    /\ dl_ge T (fst (fsm_apply ref_pick s e)) /\ st_now (fst (fsm_apply ref_pick s e)) = st_now s.

(** The syntactic sufficient condition: the handler does not depend on the node's random source and
    its program is [tfree]. *)
Definition entry_det (T : Z) (e : request) : Prop :=
  match e with
  | ReqCommand d (cmd :: rest) =>
      (forall pk, handler_for pk (lower cmd) = handler_for ref_pick (lower cmd)) /\
      (forall h, handler_for ref_pick (lower cmd) = Some h -> tfree T (h (cmd :: rest)))
  | _ => True
  end.

Theorem entry_det_sound T e : entry_det T e -> replica_det T e.
Proof.
  intros He s pk n H Hs Hn. destruct e as [d argv|d k|]; simpl.
  - destruct argv as [|cmd rest]; [done|]. destruct He as [Hpk Hh]. rewrite Hpk.
    destruct (handler_for ref_pick (lower cmd)) as [h|] eqn:E; [|done].
    destruct (tfree_sound T _ (Hh h eq_refl) d s n H Hs Hn) as (E' & D' & N'). rewrite E'.
    destruct (run_cl d (h (cmd :: rest)) s) as [s' r]. done.
  - rewrite delete_key_at. split; [done|]. split; [by apply delete_key_dl_ge|by rewrite delete_key_now].
  - done.
Qed.

(** * Logs *)
Definition ref_replay (s : state) (L : list request) : state :=
  fold_left (fun s e => fst (fsm_apply ref_pick s e)) L s.

Lemma dataset_at s n : dataset (at_time s n) = dataset s.
Proof. apply at_time_at. Qed.

Lemma apply_from_at i clk pk s m L :
  dataset (apply_from i clk pk (at_time s m) L) = dataset (apply_from i clk pk s L).
Proof. destruct L as [|e r]; simpl; [apply dataset_at|]. by rewrite at_time_at. Qed.

Theorem agree_with_reference T L : forall i clk pk s,
  Forall (replica_det T) L -> dl_ge T s -> st_now s <= T -> (forall j, clk j <= T) ->
  dataset (apply_from i clk pk s L) = dataset (ref_replay s L).
Proof.
  induction L as [|e r IH]; intros i clk pk s HL H Hs Hclk; simpl; [done|].
  inversion HL as [|? ? He Hr]; subst.
  destruct (He s (pk i) (clk i) H Hs (Hclk i)) as (E & D & N). rewrite E. simpl.
  rewrite apply_from_at. apply IH; try done. lia.
Qed.

Theorem replicas_agree T L clk1 clk2 pk1 pk2 s :
  Forall (replica_det T) L -> dl_ge T s -> st_now s <= T ->
  (forall j, clk1 j <= T) -> (forall j, clk2 j <= T) ->
  dataset (apply_all clk1 pk1 s L) = dataset (apply_all clk2 pk2 s L).
Proof.
  intros. unfold apply_all. rewrite (agree_with_reference T L 0 clk1 pk1 s) by done.
  by rewrite (agree_with_reference T L 0 clk2 pk2 s).
Qed.

(** Prefixes: a node that has been fed [L1] and is then fed [L2] is where a node fed [L1 ++ L2] is. *)
Lemma apply_from_app L1 : forall i clk pk s L2,
  apply_from i clk pk s (L1 ++ L2) = apply_from (i + length L1) clk pk (apply_from i clk pk s L1) L2.
Proof.
  induction L1 as [|e r IH]; intros i clk pk s L2; simpl.
  - by rewrite Nat.add_0_r.
  - rewrite IH. f_equal. lia.
Qed.

Lemma ref_replay_app s L1 L2 : ref_replay s (L1 ++ L2) = ref_replay (ref_replay s L1) L2.
Proof. apply fold_left_app. Qed.

Lemma ref_replay_inv T L : forall s,
  Forall (replica_det T) L -> dl_ge T s -> st_now s <= T ->
  dl_ge T (ref_replay s L) /\ st_now (ref_replay s L) = st_now s.
Proof.
  induction L as [|e r IH]; intros s HL H Hs; simpl; [done|].
  inversion HL as [|? ? He Hr]; subst.
  destruct (He s ref_pick (st_now s) H Hs Hs) as (_ & D & N).
  destruct (IH (fst (fsm_apply ref_pick s e)) Hr D ltac:(lia)) as (D' & N'). split; [done|lia].
Qed.

(** Every database agrees, not just the record as a whole. *)
Lemma dataset_get_db s1 s2 d : dataset s1 = dataset s2 -> get_db s1 d = get_db s2 d.
Proof. intros H. change (get_db (dataset s1) d = get_db (dataset s2) d). by rewrite H. Qed.
