(** The log codec: decoding inverts encoding, a stream of records decodes to exactly those records,
    and a record cut short at any byte is reported as an unexpected end of input after the complete
    records before it.  All sizes are unbounded except for the reader's own limits (512 MiB per
    argument, 1 Mi arguments), which appear as hypotheses. *)
From stdpp Require Import list.
From Coq Require Import String Ascii List ZArith Lia Bool.
From EV Require Import Base.Str Model.Resp.
Import ListNotations.
Local Open Scope Z_scope.

(** * Lists *)
Lemma prefix_split {A} (p s a b : list A) :
  p ++ s = a ++ b -> s <> [] ->
  (exists s', s' <> [] /\ p ++ s' = a) \/ (exists q, p = a ++ q /\ q ++ s = b).
Proof.
  intros H Hs. apply app_eq_app in H. destruct H as [l [[H1 H2]|[H1 H2]]].
  - right. exists l. split; [done|]. by rewrite H2.
  - destruct l as [|x l].
    + right. exists []. rewrite app_nil_r in H1. simpl in H2. subst. by rewrite app_nil_r.
    + left. exists (x :: l). split; [discriminate|by symmetry].
Qed.

Lemma chars_length s : length (chars s) = String.length s.
Proof. induction s; simpl; congruence. Qed.

(** * Lines *)
Definition lf_free (l : bytes) : Prop := Forall (fun c => Ascii.eqb c LF = false) l.

Lemma read_line_go_ok l : forall acc rest, lf_free l ->
  read_line_go acc (l ++ CR :: LF :: rest) = Some (rev acc ++ l, rest).
Proof.
  induction l as [|c l IH]; intros acc rest Hl; simpl.
  - by rewrite app_nil_r.
  - inversion Hl as [|? ? Hc Hl']; subst. rewrite Hc. rewrite IH by done. simpl. by rewrite <- app_assoc.
Qed.
Lemma read_line_ok l rest : lf_free l -> read_line (l ++ CRLF ++ rest) = Some (l, rest).
Proof. intros. unfold read_line, CRLF. simpl. by rewrite read_line_go_ok. Qed.

Lemma read_line_go_none p : forall acc, lf_free p -> read_line_go acc p = None.
Proof.
  induction p as [|c p IH]; intros acc Hp; simpl; [done|].
  inversion Hp as [|? ? Hc Hp']; subst. rewrite Hc. by apply IH.
Qed.

Lemma lf_free_app a b : lf_free a -> lf_free b -> lf_free (a ++ b).
Proof. apply Forall_app_2 || (intros; apply Forall_app; split; assumption). Qed.

(** A line that is cut before its terminator is complete never ends. *)
Lemma line_prefix_lf_free l p s : lf_free l -> s <> [] -> p ++ s = l ++ CRLF -> lf_free p.
Proof.
  intros Hl Hs H. destruct (prefix_split _ _ _ _ H Hs) as [(s' & Hs' & E)|(q & E1 & E2)].
  - subst l. apply Forall_app in Hl. tauto.
  - subst p. apply lf_free_app; [done|].
    destruct q as [|a [|b q]].
    + constructor.
    + simpl in E2. injection E2 as -> _. repeat constructor.
    + exfalso. simpl in E2. injection E2 as _ _ E. destruct q; [|discriminate]. simpl in E. by subst.
Qed.

(** * Decimal lengths *)
Lemma digit_ok n : 0 <= n < 10 ->
  is_digit (digit n) = true /\ Z.of_nat (nat_of_ascii (digit n) - 48) = n /\ Ascii.eqb (digit n) LF = false.
Proof.
  intros H. assert (n = 0 \/ n = 1 \/ n = 2 \/ n = 3 \/ n = 4 \/ n = 5 \/ n = 6 \/ n = 7 \/ n = 8 \/ n = 9) as Hc by lia.
  repeat (destruct Hc as [->|Hc]); try subst n; repeat split; reflexivity.
Qed.

Lemma digits_val_app a : forall acc b,
  digits_val acc (of_chars (a ++ b)) =
  match digits_val acc (of_chars a) with Some x => digits_val x (of_chars b) | None => None end.
Proof.
  induction a as [|c a IH]; intros acc b; simpl; [done|].
  destruct (is_digit c); [apply IH|done].
Qed.

Lemma digits_of_val fuel : forall n, 0 <= n -> n <= Z.of_nat fuel -> (0 < fuel)%nat ->
  exists m, forall acc, digits_val acc (of_chars (digits_of fuel n)) = Some (acc * m + n).
Proof.
  induction fuel as [|f IH]; intros n H0 Hf Hpos; [lia|]. simpl.
  destruct (n <? 10) eqn:Hn.
  - apply Z.ltb_lt in Hn. exists 10. intros acc. simpl.
    destruct (digit_ok n) as (-> & -> & _); [lia|]. f_equal. lia.
  - apply Z.ltb_ge in Hn.
    assert (Hq : 0 <= n / 10) by (apply Z.div_pos; lia).
    assert (Hq2 : n / 10 <= Z.of_nat f).
    { assert (n / 10 < n) by (apply Z.div_lt; lia). lia. }
    assert (Hfp : (0 < f)%nat) by (assert (1 <= n / 10) by (apply Z.div_le_lower_bound; lia); lia).
    destruct (IH (n / 10) Hq Hq2 Hfp) as [m Hm]. exists (m * 10). intros acc.
    rewrite digits_val_app, Hm. simpl.
    assert (Hr : 0 <= n mod 10 < 10) by (apply Z.mod_pos_bound; lia).
    destruct (digit_ok (n mod 10) Hr) as (-> & -> & _). f_equal.
    pose proof (Z.div_mod n 10). lia.
Qed.

Lemma digits_of_digits fuel : forall n, 0 <= n ->
  Forall (fun c => is_digit c = true /\ Ascii.eqb c LF = false) (digits_of fuel n).
Proof.
  induction fuel as [|f IH]; intros n H0; simpl; [constructor|].
  destruct (n <? 10) eqn:Hn.
  - apply Z.ltb_lt in Hn. destruct (digit_ok n) as (A & _ & B); [lia|]. repeat constructor; done.
  - apply Forall_app. split.
    + apply IH. apply Z.div_pos; lia.
    + assert (Hr : 0 <= n mod 10 < 10) by (apply Z.mod_pos_bound; lia).
      destruct (digit_ok (n mod 10) Hr) as (A & _ & B). repeat constructor; done.
Qed.

Lemma show_len_lf_free n : lf_free (show_len n).
Proof.
  unfold show_len. eapply Forall_impl; [|apply digits_of_digits; lia]. simpl. tauto.
Qed.

Lemma digits_of_nonempty f n : digits_of (S f) n <> [].
Proof. simpl. destruct (n <? 10); [discriminate|]. destruct (digits_of f (n / 10)); discriminate. Qed.

(** A numeral that begins with a digit is parsed without a sign. *)
Lemma parse_int_digit_head c s : is_digit c = true ->
  parse_int (String c s) =
  match digits_val 0 (String c s) with
  | Some n => if in_int64 n then Some n else None
  | None => None
  end.
Proof.
  intros Hc. unfold parse_int.
  destruct c as [[] [] [] [] [] [] [] []]; try discriminate Hc; reflexivity.
Qed.

Lemma parse_show_len n : Z.of_nat n <= int64_max ->
  parse_int (of_chars (show_len n)) = Some (Z.of_nat n).
Proof.
  intros Hmax. unfold show_len.
  destruct (digits_of_val (S n) (Z.of_nat n)) as [m Hm]; [lia|lia|lia|].
  pose proof (digits_of_digits (S n) (Z.of_nat n) ltac:(lia)) as Hd.
  pose proof (digits_of_nonempty n (Z.of_nat n)) as Hne.
  specialize (Hm 0). destruct (digits_of (S n) (Z.of_nat n)) as [|c l] eqn:E; [done|].
  inversion Hd as [|? ? [Hc _] _]; subst. change (of_chars (c :: l)) with (String c (of_chars l)) in *.
  rewrite parse_int_digit_head by done. rewrite Hm.
  replace (0 * m + Z.of_nat n) with (Z.of_nat n) by lia.
  assert (in_int64 (Z.of_nat n) = true) as ->; [|done].
  unfold in_int64, int64_min, int64_max in *. apply andb_true_intro. split; apply Z.leb_le; lia.
Qed.

Lemma read_int_show_len n rest : Z.of_nat n <= int64_max ->
  read_int (show_len n ++ CRLF ++ rest) = Ok (Z.of_nat n) rest.
Proof.
  intros H. unfold read_int. rewrite read_line_ok by apply show_len_lf_free. by rewrite parse_show_len.
Qed.

Lemma read_int_torn l p s : lf_free l -> s <> [] -> p ++ s = l ++ CRLF -> read_int p = Incomplete.
Proof.
  intros Hl Hs H. unfold read_int, read_line. by rewrite read_line_go_none by (eapply line_prefix_lf_free; eauto).
Qed.

(** * One argument *)
Definition arg_ok (a : string) : Prop := slen a <= max_bulk.
Definition cmd_ok (argv : list string) : Prop := Forall arg_ok argv /\ zlen argv <= max_array.

Lemma max_bulk_int64 : max_bulk <= int64_max. Proof. unfold max_bulk, int64_max. lia. Qed.
Lemma max_array_int64 : max_array <= int64_max. Proof. unfold max_array, int64_max. lia. Qed.

Lemma read_bulk_ok a rest : arg_ok a ->
  read_bulk (show_len (String.length a) ++ CRLF ++ chars a ++ CRLF ++ rest) = Ok (VBulk a) rest.
Proof.
  intros Ha. unfold arg_ok, slen in Ha. unfold read_bulk.
  rewrite read_int_show_len by (pose proof max_bulk_int64; lia).
  destruct (Z.of_nat (String.length a) <? 0) eqn:A; [apply Z.ltb_lt in A; lia|].
  destruct (max_bulk <? Z.of_nat (String.length a)) eqn:B; [apply Z.ltb_lt in B; lia|].
  destruct (zlen _ <? _) eqn:C.
  { apply Z.ltb_lt in C. unfold zlen in C. rewrite !app_length, chars_length in C. simpl in C. lia. }
  rewrite Nat2Z.id.
  rewrite <- (chars_length a) at 1. rewrite skipn_app, skipn_all, Nat.sub_diag. simpl.
  rewrite <- (chars_length a). rewrite firstn_app, firstn_all, Nat.sub_diag. simpl.
  by rewrite app_nil_r, of_chars_chars.
Qed.

Lemma read_value_bulk f a rest : arg_ok a ->
  read_value (S f) true (enc_bulk a ++ rest) = Ok (VBulk a) rest.
Proof.
  intros Ha. unfold enc_bulk. cbn [app read_value]. cbn [Ascii.eqb Bool.eqb].
  cbv iota. rewrite <- !app_assoc. by apply read_bulk_ok.
Qed.

Lemma read_bulk_torn a q l : l <> [] ->
  q ++ l = show_len (String.length a) ++ CRLF ++ chars a ++ CRLF -> arg_ok a -> read_bulk q = Incomplete.
Proof.
  intros Hl H Ha. unfold read_bulk. rewrite app_assoc in H.
  destruct (prefix_split _ _ _ _ H Hl) as [(s' & Hs' & E)|(q' & E1 & E2)].
  - by rewrite (read_int_torn _ _ _ (show_len_lf_free _) Hs' E).
  - subst q. rewrite <- app_assoc. unfold arg_ok, slen in Ha.
    rewrite read_int_show_len by (pose proof max_bulk_int64; lia).
    destruct (Z.of_nat (String.length a) <? 0) eqn:A; [apply Z.ltb_lt in A; lia|].
    destruct (max_bulk <? Z.of_nat (String.length a)) eqn:B; [apply Z.ltb_lt in B; lia|].
    destruct (zlen q' <? _) eqn:C; [done|]. exfalso. apply Z.ltb_ge in C.
    apply (f_equal (@length _)) in E2. rewrite !app_length, chars_length in E2. simpl in E2.
    unfold zlen in C. destruct l; [done|]. simpl in E2. lia.
Qed.

Lemma read_value_bulk_torn f a q l : l <> [] -> q ++ l = enc_bulk a -> arg_ok a ->
  read_value (S f) true q = Incomplete.
Proof.
  intros Hl H Ha. destruct q as [|c q]; [done|]. unfold enc_bulk in H. simpl in H.
  injection H as -> H. cbn [read_value]. cbn [Ascii.eqb Bool.eqb]. cbv iota.
  eapply (read_bulk_torn a q l); [done| |done]. exact H.
Qed.

(** * One command *)
Lemma read_n_bulks f argv : forall rest, Forall arg_ok argv ->
  read_n (read_value (S f) true) (length argv) (concat (map enc_bulk argv) ++ rest) = Ok (map VBulk argv) rest.
Proof.
  induction argv as [|a r IH]; intros rest Hok; [done|].
  inversion Hok; subst. cbn [length map concat read_n]. rewrite <- app_assoc.
  rewrite read_value_bulk by done. by rewrite IH.
Qed.

Lemma read_n_bulks_torn f argv : forall q l, l <> [] -> q ++ l = concat (map enc_bulk argv) ->
  Forall arg_ok argv -> read_n (read_value (S f) true) (length argv) q = Incomplete.
Proof.
  induction argv as [|a r IH]; intros q l Hl H Hok.
  - simpl in H. destruct q; destruct l; simpl in H; done.
  - inversion Hok; subst. cbn [map concat] in H. cbn [length read_n].
    destruct (prefix_split _ _ _ _ H Hl) as [(s' & Hs' & E)|(q' & E1 & E2)].
    + by rewrite (read_value_bulk_torn f a q s').
    + subst q. rewrite read_value_bulk by done. by rewrite (IH q' l).
Qed.

Theorem read_value_encode_cmd f argv rest : cmd_ok argv ->
  read_value (S (S f)) false (encode_cmd argv ++ rest) = Ok (value_of_cmd argv) rest.
Proof.
  intros [Hargs Hn]. unfold encode_cmd. remember (S f) as g eqn:Hg. cbn [app read_value].
  cbn [Ascii.eqb Bool.eqb]. cbv iota. subst g.
  rewrite <- !app_assoc. unfold zlen in Hn.
  rewrite read_int_show_len by (pose proof max_array_int64; lia).
  destruct (max_array <? _) eqn:A; [apply Z.ltb_lt in A; lia|].
  destruct (Z.of_nat (length argv) <? 0) eqn:B; [apply Z.ltb_lt in B; lia|].
  rewrite Nat2Z.id. by rewrite read_n_bulks.
Qed.

Theorem read_value_encode_cmd_torn f argv p s : cmd_ok argv -> s <> [] -> p <> [] ->
  p ++ s = encode_cmd argv -> read_value (S (S f)) false p = Incomplete.
Proof.
  intros [Hargs Hn] Hs Hp H. destruct p as [|c p]; [done|]. unfold encode_cmd in H.
  rewrite <- app_comm_cons in H. injection H as -> H.
  change (p ++ s = show_len (length argv) ++ CRLF ++ concat (map enc_bulk argv)) in H.
  remember (S f) as g eqn:Hg. cbn [read_value]. cbn [Ascii.eqb Bool.eqb]. cbv iota.
  subst g. rewrite app_assoc in H. unfold zlen in Hn.
  destruct (prefix_split _ _ _ _ H Hs) as [(s' & Hs' & E)|(q & E1 & E2)].
  - by rewrite (read_int_torn _ _ _ (show_len_lf_free _) Hs' E).
  - subst p. rewrite <- app_assoc. rewrite read_int_show_len by (pose proof max_array_int64; lia).
    destruct (max_array <? _) eqn:A; [apply Z.ltb_lt in A; lia|].
    destruct (Z.of_nat (length argv) <? 0) eqn:B; [apply Z.ltb_lt in B; lia|].
    rewrite Nat2Z.id. by rewrite (read_n_bulks_torn f argv q s).
Qed.

Lemma encode_cmd_cons argv : exists r, encode_cmd argv = "*"%char :: r.
Proof. eexists. reflexivity. Qed.

(** [decode_encode_cmd]: what a writer appends is read back as the same command. *)
Theorem decode_encode_cmd argv rest : cmd_ok argv ->
  read_top (encode_cmd argv ++ rest) = Ok (value_of_cmd argv) rest /\
  cmd_of_value (value_of_cmd argv) = argv.
Proof.
  intros Hok. split.
  - unfold read_top. destruct (encode_cmd_cons argv) as [r Hr].
    assert (exists f, length (encode_cmd argv ++ rest) = S f) as [f Hf] by (rewrite Hr; simpl; eauto).
    rewrite Hf. by apply read_value_encode_cmd.
  - unfold value_of_cmd, cmd_of_value. rewrite map_map. simpl. apply map_id.
Qed.

(** * Streams *)
Definition encode_all (cs : list (list string)) : bytes := concat (map encode_cmd cs).

Lemma decode_stream_app cs : forall fuel rest, Forall cmd_ok cs ->
  decode_stream (length cs + fuel) (encode_all cs ++ rest) =
    let '(vs, t) := decode_stream fuel rest in (map value_of_cmd cs ++ vs, t).
Proof.
  induction cs as [|c cs IH]; intros fuel rest Hok.
  - simpl. by destruct (decode_stream fuel rest).
  - inversion Hok; subst. unfold encode_all. cbn [map concat length]. rewrite <- app_assoc.
    cbn [Nat.add decode_stream].
    destruct (decode_encode_cmd c (concat (map encode_cmd cs) ++ rest)) as [-> _]; [done|].
    fold (encode_all cs). rewrite IH by done. simpl.
    by destruct (decode_stream fuel rest).
Qed.

Lemma encode_all_length cs : (length cs <= length (encode_all cs))%nat.
Proof.
  induction cs as [|c cs IH]; [simpl; lia|]. unfold encode_all in *. cbn [map concat length].
  rewrite app_length. destruct (encode_cmd_cons c) as [r ->]. simpl. lia.
Qed.

(** [decode_stream_concat]: the records, nothing else, clean end. *)
Theorem decode_stream_concat cs : Forall cmd_ok cs ->
  decode_all (encode_all cs) = (map value_of_cmd cs, TClean).
Proof.
  intros Hok. unfold decode_all. pose proof (encode_all_length cs) as Hlen.
  pose proof (decode_stream_app cs (S (length (encode_all cs) - length cs)) [] Hok) as H.
  rewrite app_nil_r in H.
  replace (length cs + S (length (encode_all cs) - length cs))%nat with (S (length (encode_all cs))) in H by lia.
  rewrite H. simpl. by rewrite app_nil_r.
Qed.

(** [decode_stream_torn]: complete records followed by a record cut at any byte: the complete
    records are delivered, the torn one is reported as an unexpected end, whatever its length. *)
Theorem decode_stream_torn cs c p s : Forall cmd_ok cs -> cmd_ok c -> s <> [] -> p <> [] ->
  p ++ s = encode_cmd c ->
  decode_all (encode_all cs ++ p) = (map value_of_cmd cs, TTorn p).
Proof.
  intros Hok Hc Hs Hp H. unfold decode_all. pose proof (encode_all_length cs) as Hlen.
  rewrite app_length.
  replace (S (length (encode_all cs) + length p))
    with (length cs + S (length (encode_all cs) - length cs + length p))%nat by lia.
  rewrite decode_stream_app by done.
  destruct p as [|x p]; [done|].
  cbn [decode_stream]. unfold read_top. cbn [length].
  rewrite (read_value_encode_cmd_torn (length p) c (x :: p) s) by done.
  by rewrite app_nil_r.
Qed.

(** What [Restore] turns the decoded records into. *)
Lemma cmds_of_values cs : map cmd_of_value (map value_of_cmd cs) = cs.
Proof.
  rewrite map_map. rewrite <- (map_id cs) at 2. apply map_ext. intros c.
  unfold value_of_cmd, cmd_of_value. rewrite map_map. apply map_id.
Qed.
