(** Pure facts about the sorted-set algebra of [Model/ZSetOps.v]. *)
From stdpp Require Import gmap strings sorting.
From Coq Require Import QArith Lqa ZifyBool.
From EV Require Import Base.Str Model.Value Model.Reply Model.ZSetOps Model.ZSetMulti.
Local Open Scope Z_scope.

(** * Without LIMIT the selection loop of the code is the documented selection *)
Lemma go_select_no_limit (inr : zitem -> bool) (l : list zitem) :
  go_select None inr l = Some (filter inr l).
Proof.
  unfold go_select. assert (H : zlen l <? 0 = false) by (unfold zlen; lia). rewrite H.
  assert (H2 : -1 <? 0 = true) by done. rewrite H2.
  unfold slice, zskipn, zfirstn. simpl skipn. f_equal. f_equal.
  apply firstn_all2. unfold zlen. lia.
Qed.

Lemma zrange_select_no_limit a lo hi z :
  ra_limit a = None -> zrange_select true a lo hi z = zrange_select false a lo hi z.
Proof.
  intros H. unfold zrange_select. rewrite H. destruct (_ && _); [done|].
  by rewrite go_select_no_limit.
Qed.

(** * The order on scores *)
Lemma fin_ltb x y : fl_ltb (FFin x) (FFin y) = true <-> (x < y)%Q.
Proof. simpl. rewrite Qlt_alt. destruct (x ?= y)%Q; split; congruence. Qed.
Lemma fin_ltb_false x y : fl_ltb (FFin x) (FFin y) = false <-> (y <= x)%Q.
Proof.
  split.
  - intros H. apply Qnot_lt_le. intros Hl. apply fin_ltb in Hl. congruence.
  - intros H. destruct (fl_ltb (FFin x) (FFin y)) eqn:E; [|done]. apply fin_ltb in E. lra.
Qed.

Lemma fl_ltb_irrefl a : fl_ltb a a = false.
Proof. destruct a; try done. apply fin_ltb_false. lra. Qed.

Lemma fl_ltb_trans a b c : fl_ltb a b = true -> fl_ltb b c = true -> fl_ltb a c = true.
Proof.
  destruct a, b, c; try done. rewrite !fin_ltb. lra.
Qed.

Lemma fl_ltb_asym a b : fl_ltb a b = true -> fl_ltb b a = false.
Proof.
  intros H. destruct (fl_ltb b a) eqn:E; [|done].
  pose proof (fl_ltb_trans _ _ _ H E) as H2. by rewrite fl_ltb_irrefl in H2.
Qed.

Lemma fl_eqb_sym a b : fl_eqb a b = fl_eqb b a.
Proof. unfold fl_eqb. apply andb_comm. Qed.
Lemma fl_eqb_refl a : fl_eqb a a = true.
Proof. unfold fl_eqb. by rewrite fl_ltb_irrefl. Qed.

(** Numerically equal scores compare alike with every other score. *)
Lemma fl_eqb_ltb_l a b c : fl_eqb a b = true -> fl_ltb a c = fl_ltb b c.
Proof.
  unfold fl_eqb. rewrite andb_true_iff, !negb_true_iff. intros [H1 H2].
  destruct a, b, c; try done.
  apply fin_ltb_false in H1, H2.
  destruct (fl_ltb (FFin q) (FFin q1)) eqn:E1, (fl_ltb (FFin q0) (FFin q1)) eqn:E2; try done.
  - apply fin_ltb in E1. apply fin_ltb_false in E2. lra.
  - apply fin_ltb in E2. apply fin_ltb_false in E1. lra.
Qed.
Lemma fl_eqb_ltb_r a b c : fl_eqb a b = true -> fl_ltb c a = fl_ltb c b.
Proof.
  unfold fl_eqb. rewrite andb_true_iff, !negb_true_iff. intros [H1 H2].
  destruct a, b, c; try done.
  apply fin_ltb_false in H1, H2.
  destruct (fl_ltb (FFin q1) (FFin q)) eqn:E1, (fl_ltb (FFin q1) (FFin q0)) eqn:E2; try done.
  - apply fin_ltb in E1. apply fin_ltb_false in E2. lra.
  - apply fin_ltb in E2. apply fin_ltb_false in E1. lra.
Qed.
Lemma fl_eqb_trans a b c : fl_eqb a b = true -> fl_eqb b c = true -> fl_eqb a c = true.
Proof.
  intros H1 H2. unfold fl_eqb. rewrite (fl_eqb_ltb_l _ _ _ H1), (fl_eqb_ltb_r _ _ _ H1). exact H2.
Qed.

(** * The byte-wise order on members *)
Lemma nat_of_ascii_inj x y : nat_of_ascii x = nat_of_ascii y -> x = y.
Proof. intros H. rewrite <- (ascii_nat_embedding x), <- (ascii_nat_embedding y). by rewrite H. Qed.

Lemma str_ltb_irrefl a : str_ltb a a = false.
Proof. induction a as [|x a IH]; simpl; [done|]. by rewrite Nat.ltb_irrefl. Qed.

Lemma str_ltb_trans a : forall b c, str_ltb a b = true -> str_ltb b c = true -> str_ltb a c = true.
Proof.
  induction a as [|x a IH]; intros [|y b] [|z c]; simpl; try done.
  destruct (Nat.ltb_spec (nat_of_ascii x) (nat_of_ascii y)), (Nat.ltb_spec (nat_of_ascii y) (nat_of_ascii x)),
           (Nat.ltb_spec (nat_of_ascii y) (nat_of_ascii z)), (Nat.ltb_spec (nat_of_ascii z) (nat_of_ascii y)),
           (Nat.ltb_spec (nat_of_ascii x) (nat_of_ascii z)), (Nat.ltb_spec (nat_of_ascii z) (nat_of_ascii x));
    try done; try lia.
  apply IH.
Qed.

Lemma str_ltb_total a : forall b, str_ltb a b = false -> str_ltb b a = false -> a = b.
Proof.
  induction a as [|x a IH]; intros [|y b]; simpl; try done.
  destruct (Nat.ltb_spec (nat_of_ascii x) (nat_of_ascii y)), (Nat.ltb_spec (nat_of_ascii y) (nat_of_ascii x));
    try done; try lia.
  intros H1 H2. f_equal; [apply nat_of_ascii_inj; lia|by apply IH].
Qed.

Lemma str_ltb_asym a b : str_ltb a b = true -> str_ltb b a = false.
Proof.
  intros H. destruct (str_ltb b a) eqn:E; [|done].
  pose proof (str_ltb_trans _ _ _ H E) as H2. by rewrite str_ltb_irrefl in H2.
Qed.

(** * The order on (member, score) entries: a strict total order *)
Lemma zlt_irrefl a : zlt a a = false.
Proof. unfold zlt. by rewrite fl_ltb_irrefl, str_ltb_irrefl, andb_false_r. Qed.

Lemma zlt_trans a b c : zlt a b = true -> zlt b c = true -> zlt a c = true.
Proof.
  unfold zlt. rewrite !orb_true_iff, !andb_true_iff.
  intros [H1|[H1 H1']] [H2|[H2 H2']].
  - left. eapply fl_ltb_trans; eauto.
  - left. by rewrite <- (fl_eqb_ltb_r _ _ _ H2).
  - left. by rewrite (fl_eqb_ltb_l _ _ _ H1).
  - right. split; [eapply fl_eqb_trans; eauto|eapply str_ltb_trans; eauto].
Qed.

Lemma zlt_total a b :
  zlt a b = true \/ zlt b a = true \/ (fst a = fst b /\ fl_eqb (snd a) (snd b) = true).
Proof.
  unfold zlt.
  destruct (fl_ltb (snd a) (snd b)) eqn:E1; [by left|].
  destruct (fl_ltb (snd b) (snd a)) eqn:E2; [by right; left|].
  assert (He : fl_eqb (snd a) (snd b) = true) by (unfold fl_eqb; by rewrite E1, E2).
  rewrite (fl_eqb_sym (snd b)), He. simpl.
  destruct (str_ltb (fst a) (fst b)) eqn:S1; [by left|].
  destruct (str_ltb (fst b) (fst a)) eqn:S2; [by right; left|].
  right; right. split; [by apply str_ltb_total|done].
Qed.

Lemma zle_not_zlt a b : zle a b = negb (zlt b a).
Proof.
  unfold zle, zlt, str_leb. rewrite (fl_eqb_sym (snd b)).
  destruct (fl_ltb (snd a) (snd b)) eqn:E1.
  - rewrite (fl_ltb_asym _ _ E1). unfold fl_eqb. rewrite E1. done.
  - destruct (fl_ltb (snd b) (snd a)) eqn:E2.
    + unfold fl_eqb. rewrite E1, E2. done.
    + assert (He : fl_eqb (snd a) (snd b) = true) by (unfold fl_eqb; by rewrite E1, E2).
      rewrite He. done.
Qed.

Lemma zle_total a b : zle a b = true \/ zle b a = true.
Proof.
  rewrite !zle_not_zlt. destruct (zlt b a) eqn:E; [|by left].
  right. destruct (zlt a b) eqn:E2; [|done].
  pose proof (zlt_trans _ _ _ E E2) as H. by rewrite zlt_irrefl in H.
Qed.

(** * [zsorted] lists exactly the entries of the map, in order *)
Lemma insert_sorted_perm {A} (le : A -> A -> bool) x l : Permutation (insert_sorted le x l) (x :: l).
Proof.
  induction l as [|y l IH]; simpl; [done|]. destruct (le x y); [done|].
  rewrite IH. apply perm_swap.
Qed.
Lemma sort_by_perm {A} (le : A -> A -> bool) l : Permutation (sort_by le l) l.
Proof.
  induction l as [|x l IH]; simpl; [done|]. fold (sort_by le l). by rewrite insert_sorted_perm, IH.
Qed.

Lemma insert_sorted_Sorted (x : zitem) l :
  Sorted (fun a b => zle a b = true) l -> Sorted (fun a b => zle a b = true) (insert_sorted zle x l).
Proof.
  induction 1 as [|y l Hs IH Hd]; simpl; [by repeat constructor|].
  destruct (zle x y) eqn:E.
  - constructor; [by constructor|]. by constructor.
  - assert (Hyx : zle y x = true) by (destruct (zle_total x y) as [H|H]; congruence).
    constructor; [done|].
    destruct l as [|z l]; simpl; [by constructor|].
    inversion Hd; subst. destruct (zle x z); by constructor.
Qed.

Lemma zsorted_Sorted z : Sorted (fun a b => zle a b = true) (zsorted z).
Proof.
  unfold zsorted. induction (map_to_list z) as [|x l IH]; simpl; [constructor|].
  by apply insert_sorted_Sorted.
Qed.

Lemma zsorted_perm z : Permutation (zsorted z) (map_to_list z).
Proof. apply sort_by_perm. Qed.

Lemma zsorted_lookup z m f : (m, f) ∈ zsorted z <-> z !! m = Some f.
Proof. rewrite zsorted_perm. apply elem_of_map_to_list. Qed.

Lemma zsorted_length z : zlen (zsorted z) = zcard z.
Proof. unfold zlen, zcard, zlen. by rewrite zsorted_perm. Qed.

(** * ZADD replies the same number under both readings unless it is a plain ZADD (no NX/XX/CH/INCR) *)
Lemma zadd_act_same o pairs existed z :
  o_ch o || negb (is_pnone (o_pol o)) || o_incr o = true ->
  zadd_act true o pairs existed z = zadd_act false o pairs existed z.
Proof.
  intros H. unfold zadd_act, zadd_count.
  destruct (zadd_all o (z, 0, 0) pairs) as [[[z' a] u]|]; [|done].
  destruct (o_incr o); [done|].
  destruct (o_ch o); [done|]. destruct (o_pol o); try done.
Qed.

(** * Laws of the ZADD decision table ([zadd1] = one score/member pair) *)
(** NX never touches a member that is in the set. *)
Lemma zadd1_nx o z a u m sc old :
  o_pol o = PNX -> z !! m = Some old -> zadd1 o (z, a, u) (m, sc) = Some (z, a, u).
Proof. intros Hp Hm. unfold zadd1. by rewrite Hm, Hp. Qed.
(** XX never adds a member. *)
Lemma zadd1_xx o z a u m sc :
  o_pol o = PXX -> z !! m = None -> zadd1 o (z, a, u) (m, sc) = Some (z, a, u).
Proof. intros Hp Hm. unfold zadd1. by rewrite Hm, Hp. Qed.
(** Without XX a new member is added with the given score and counted as added. *)
Lemma zadd1_new o z a u m sc :
  o_pol o <> PXX -> z !! m = None -> zadd1 o (z, a, u) (m, sc) = Some (<[m := sc]> z, a + 1, u).
Proof. intros Hp Hm. unfold zadd1. rewrite Hm. by destruct (o_pol o). Qed.
(** Only the named member can change, and no member is ever removed. *)
Lemma zadd1_frame o z a u m sc z' a' u' m' :
  zadd1 o (z, a, u) (m, sc) = Some (z', a', u') -> m' <> m -> z' !! m' = z !! m'.
Proof.
  unfold zadd1. intros H Hne.
  destruct (z !! m) as [old|].
  - destruct (is_pnx (o_pol o)); [by injection H as <- _ _|].
    destruct (o_incr o && is_inf old); [done|].
    destruct (o_cmp o); repeat (match type of H with context [if ?b then _ else _] => destruct b end);
      injection H as <- _ _; by rewrite ?lookup_insert_ne.
  - destruct (is_pxx (o_pol o)); injection H as <- _ _; by rewrite ?lookup_insert_ne.
Qed.
(** GT never lowers a score, LT never raises one. *)
Lemma zadd1_gt o z a u m sc z' a' u' old :
  o_cmp o = CGT -> z !! m = Some old -> zadd1 o (z, a, u) (m, sc) = Some (z', a', u') ->
  exists new, z' !! m = Some new /\ fl_ltb new old = false.
Proof.
  unfold zadd1. intros Hc Hm H. rewrite Hm, Hc in H.
  destruct (is_pnx (o_pol o)); [injection H as <- _ _; exists old; by rewrite fl_ltb_irrefl|].
  destruct (o_incr o && is_inf old); [done|].
  match type of H with context [if negb (fl_ltb old ?s) then _ else _] => destruct (fl_ltb old s) eqn:E end; simpl in H.
  - injection H as <- _ _. eexists. rewrite lookup_insert. split; [done|]. by apply fl_ltb_asym.
  - injection H as <- _ _. exists old. by rewrite fl_ltb_irrefl.
Qed.
Lemma zadd1_lt o z a u m sc z' a' u' old :
  o_cmp o = CLT -> z !! m = Some old -> zadd1 o (z, a, u) (m, sc) = Some (z', a', u') ->
  exists new, z' !! m = Some new /\ fl_ltb old new = false.
Proof.
  unfold zadd1. intros Hc Hm H. rewrite Hm, Hc in H.
  destruct (is_pnx (o_pol o)); [injection H as <- _ _; exists old; by rewrite fl_ltb_irrefl|].
  destruct (o_incr o && is_inf old); [done|].
  match type of H with context [if negb (fl_ltb ?s old) then _ else _] => destruct (fl_ltb s old) eqn:E end; simpl in H.
  - injection H as <- _ _. eexists. rewrite lookup_insert. split; [done|]. by apply fl_ltb_asym.
  - injection H as <- _ _. exists old. by rewrite fl_ltb_irrefl.
Qed.

(** * Removing a selection removes exactly its members *)
Lemma zremove_all_lookup l z m :
  zremove_all l z !! m = if bool_decide (m ∈ l) then None else z !! m.
Proof.
  induction l as [|x l IH]; simpl; [done|].
  destruct (decide (m = x)) as [->|Hne].
  - rewrite lookup_delete. by rewrite bool_decide_eq_true_2 by set_solver.
  - rewrite lookup_delete_ne by done. rewrite IH.
    destruct (bool_decide (m ∈ l)) eqn:E.
    + apply bool_decide_eq_true in E. by rewrite bool_decide_eq_true_2 by set_solver.
    + apply bool_decide_eq_false in E. by rewrite bool_decide_eq_false_2 by set_solver.
Qed.

(** ZPOPMIN / ZPOPMAX: the popped members are the first [count] in the (reversed) order, and exactly they
    leave the set. *)
Lemma zpop_spec maxp count z :
  let '(popped, z') := zpop maxp count z in
  popped = zfirstn count (zsorted_dir maxp z) /\
  forall m, z' !! m = if bool_decide (m ∈ map fst popped) then None else z !! m.
Proof. unfold zpop. split; [done|]. intros m. apply zremove_all_lookup. Qed.

(** * The algebra: pointwise equations of intersection, union, difference and weighting *)
Lemma zinter2_lookup a x y m :
  zinter2 a x y !! m = match x !! m, y !! m with Some u, Some v => Some (aggf a u v) | _, _ => None end.
Proof. unfold zinter2. rewrite lookup_merge. by destruct (x !! m), (y !! m). Qed.
Lemma zunion2_lookup a x y m :
  zunion2 a x y !! m = match x !! m, y !! m with
                       | Some u, Some v => Some (aggf a u v)
                       | Some u, None => Some u
                       | None, q => q
                       end.
Proof. unfold zunion2. rewrite lookup_merge. by destruct (x !! m), (y !! m). Qed.
Lemma zdiff2_lookup x y m :
  zdiff2 x y !! m = match y !! m with Some _ => None | None => x !! m end.
Proof. unfold zdiff2. rewrite lookup_merge. by destruct (x !! m), (y !! m). Qed.
Lemma weighted_lookup z w m : weighted (z, w) !! m = (fun s => fl_mul s w) <$> z !! m.
Proof. unfold weighted. simpl. by rewrite lookup_fmap. Qed.
