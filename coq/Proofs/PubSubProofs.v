(** C18, the subscription table: the list of channel objects of the model implements the set of
    (connection, target) pairs of the reference. *)
From stdpp Require Import gmap.
From EV Require Import Base.Str Model.Reply Model.PubSub Spec.SpecPubSub Proofs.PubSubDeliver.
Local Open Scope list_scope.

Definition tgt (ch : chan) : target := mk_target (ch_pat ch) (ch_name ch).
Definition abs1 (ch : chan) : gset (conn * target) :=
  list_to_set (List.map (fun c => (c, tgt ch)) (ch_subs ch)).
Definition abs (t : list chan) : gset (conn * target) := ⋃ (List.map abs1 t).

Definition wf (t : list chan) : Prop :=
  base.NoDup (List.map tgt t) ∧ Forall (fun ch => base.NoDup (ch_subs ch)) t.

(** the model state and the reference state describe the same table *)
Definition R (m : ps) (s : sst) : Prop :=
  wf (table m) ∧ subs s = abs (table m) ∧ ord s = List.map tgt (table m).

Lemma mem_iff c l : mem c l = true ↔ c ∈ l.
Proof.
  unfold mem. rewrite existsb_exists, elem_of_list_In. split.
  - intros (x & Hin & Heq). apply Nat.eqb_eq in Heq. now subst.
  - intros Hin. exists c. split; [done|apply Nat.eqb_refl].
Qed.

Lemma elem_of_abs1 c t' ch : (c, t') ∈ abs1 ch ↔ t' = tgt ch ∧ c ∈ ch_subs ch.
Proof.
  unfold abs1. rewrite elem_of_list_to_set, elem_of_list_In, in_map_iff. split.
  - intros (x & Heq & Hin). inversion Heq; subst. split; [done|by apply elem_of_list_In].
  - intros [-> Hin]. exists c. split; [done|by apply elem_of_list_In].
Qed.

Lemma abs_cons ch t : abs (ch :: t) = abs1 ch ∪ abs t.
Proof. reflexivity. Qed.
Lemma abs_nil : abs [] = ∅.
Proof. reflexivity. Qed.

Lemma elem_of_abs c t' t : (c, t') ∈ abs t ↔ ∃ ch, ch ∈ t ∧ t' = tgt ch ∧ c ∈ ch_subs ch.
Proof.
  induction t as [|ch t IH].
  - rewrite abs_nil. split; [set_solver|]. intros (ch & Hin & _). inversion Hin.
  - rewrite abs_cons, elem_of_union, elem_of_abs1, IH. split.
    + intros [[-> H]|(ch' & Hin & H)]; [exists ch|exists ch']; split; try done; [left|by right].
    + intros (ch' & Hin & H). apply elem_of_cons in Hin as [->|Hin]; [by left|right; by exists ch'].
Qed.

Lemma mk_target_inj p n p' n' : mk_target p n = mk_target p' n' ↔ p = p' ∧ n = n'.
Proof. destruct p, p'; cbn; split; intros H; try (inversion H; done); destruct H; congruence. Qed.

Lemma same_obj_iff n p ch : same_obj n p ch = true ↔ tgt ch = mk_target p n.
Proof.
  unfold same_obj, tgt. rewrite andb_true_iff, String.eqb_eq, eqb_true_iff, mk_target_inj. tauto.
Qed.

Lemma tgt_add_sub c ch : tgt (add_sub c ch) = tgt ch.
Proof. unfold add_sub. by destruct (mem c (ch_subs ch)). Qed.

Lemma abs1_add_sub c ch : abs1 (add_sub c ch) = {[ (c, tgt ch) ]} ∪ abs1 ch.
Proof.
  apply set_eq. intros [c' t']. rewrite elem_of_union, elem_of_singleton, !elem_of_abs1, tgt_add_sub.
  unfold add_sub. destruct (mem c (ch_subs ch)) eqn:Hm; cbn.
  - apply mem_iff in Hm. split; [tauto|]. intros [H|H]; [inversion H; subst; done|done].
  - rewrite elem_of_app, elem_of_list_singleton. split.
    + intros [-> [H| ->]]; [right|left]; done.
    + intros [H|[-> H]]; [inversion H; subst; split; [done|by right]|split; [done|by left]].
Qed.

(** * SUBSCRIBE *)
Lemma abs_sub_in n p c t : abs (sub_in n p c t) = {[ (c, mk_target p n) ]} ∪ abs t.
Proof.
  induction t as [|ch t IH]; cbn [sub_in List.map].
  - rewrite abs_cons, abs_nil. unfold abs1, tgt; cbn. set_solver.
  - destruct (same_obj n p ch) eqn:Hs.
    + apply same_obj_iff in Hs. rewrite !abs_cons, abs1_add_sub, Hs. set_solver.
    + rewrite !abs_cons, IH. set_solver.
Qed.

Lemma note_cons x l T : x ≠ T → note (x :: l) T = x :: note l T.
Proof.
  intros Hne. unfold note. destruct (bool_decide (T ∈ l)) eqn:Hb.
  - apply bool_decide_eq_true in Hb. rewrite bool_decide_eq_true_2; [done|by right].
  - apply bool_decide_eq_false in Hb. rewrite bool_decide_eq_false_2; [done|].
    intros Hin. apply elem_of_cons in Hin as [->|]; done.
Qed.

Lemma tgt_sub_in n p c t : List.map tgt (sub_in n p c t) = note (List.map tgt t) (mk_target p n).
Proof.
  induction t as [|ch t IH]; cbn [sub_in List.map].
  - unfold note. rewrite bool_decide_eq_false_2; [done|]. intros H; inversion H.
  - destruct (same_obj n p ch) eqn:Hs.
    + cbn. rewrite tgt_add_sub. apply same_obj_iff in Hs. unfold note.
      rewrite bool_decide_eq_true_2; [done|]. rewrite Hs. by left.
    + cbn. rewrite IH. rewrite note_cons; [done|]. intros H. apply same_obj_iff in H. congruence.
Qed.

Lemma NoDup_note l T : base.NoDup l → base.NoDup (note l T).
Proof.
  intros H. unfold note. destruct (bool_decide (T ∈ l)) eqn:Hb; [done|].
  apply bool_decide_eq_false in Hb. apply NoDup_app. split; [done|]. split.
  - intros x Hx Hin. apply elem_of_list_singleton in Hin. by subst.
  - apply NoDup_singleton.
Qed.

Lemma NoDup_add_sub c ch : base.NoDup (ch_subs ch) → base.NoDup (ch_subs (add_sub c ch)).
Proof.
  intros H. unfold add_sub. destruct (mem c (ch_subs ch)) eqn:Hm; [done|]. cbn.
  apply NoDup_app. split; [done|]. split; [|apply NoDup_singleton].
  intros x Hx Hin. apply elem_of_list_singleton in Hin. subst.
  apply mem_iff in Hx. congruence.
Qed.

Lemma wf_sub_in n p c t : wf t → wf (sub_in n p c t).
Proof.
  intros [H1 H2]. split.
  - rewrite tgt_sub_in. by apply NoDup_note.
  - clear H1. induction t as [|ch t IH]; cbn.
    + constructor; [|constructor]. cbn. apply NoDup_singleton.
    + inversion H2; subst. destruct (same_obj n p ch).
      * constructor; [by apply NoDup_add_sub|done].
      * constructor; [done|by apply IH].
Qed.

(** the running count *)
Lemma filter_abs1_conn c ch :
  base.filter (fun p : conn * target => p.1 = c) (abs1 ch) =
  if mem c (ch_subs ch) then {[ (c, tgt ch) ]} else ∅.
Proof.
  apply set_eq. intros [c' t']. rewrite elem_of_filter, elem_of_abs1. cbn.
  destruct (mem c (ch_subs ch)) eqn:Hm.
  - apply mem_iff in Hm. rewrite elem_of_singleton. split.
    + intros (-> & -> & _). done.
    + intros H. inversion H; subst. done.
  - split; [|set_solver]. intros (-> & -> & Hin). apply mem_iff in Hin. congruence.
Qed.

Lemma count_abs c t : base.NoDup (List.map tgt t) → count_of (abs t) c = sub_count c t.
Proof.
  unfold count_of, sub_count. induction t as [|ch t IH]; intros Hnd.
  - rewrite abs_nil.
    assert (H : base.filter (fun p : conn * target => p.1 = c) (∅ : gset (conn * target)) = ∅)
      by (apply set_eq; intros x; rewrite elem_of_filter; set_solver).
    rewrite H. done.
  - cbn in Hnd. apply list.NoDup_cons in Hnd as [Hnin Hnd].
    rewrite abs_cons, filter_union_L, size_union.
    + rewrite IH by done. rewrite filter_abs1_conn. cbn.
      destruct (mem c (ch_subs ch)); cbn; [by rewrite size_singleton|by rewrite size_empty].
    + intros [c' t'] H1 H2. apply elem_of_filter in H1 as [_ H1]. apply elem_of_filter in H2 as [_ H2].
      apply elem_of_abs1 in H1 as [-> _]. apply elem_of_abs in H2 as (ch' & Hin & Heq & _).
      apply Hnin. rewrite Heq. apply elem_of_list_In, in_map, elem_of_list_In. done.
    + apply _.
Qed.

Section WithGlob.
Variable glob_ok : string -> bool.
Variable glob_match : string -> string -> bool.

Lemma subscribe_refines p c names : ∀ t S o,
  wf t → S = abs t → o = List.map tgt t →
  let '(t', fs) := subscribe_loop p c names t in
  let '(s', fs') := s_subscribe p c names (MkS S o) in
  fs = fs' ∧ wf t' ∧ subs s' = abs t' ∧ ord s' = List.map tgt t'.
Proof.
  induction names as [|n names IH]; intros t S o Hwf -> ->; cbn.
  - done.
  - specialize (IH (sub_in n p c t) ({[ (c, mk_target p n) ]} ∪ abs t) (note (List.map tgt t) (mk_target p n))
                  (wf_sub_in n p c t Hwf) (eq_sym (abs_sub_in n p c t)) (eq_sym (tgt_sub_in n p c t))).
    destruct (subscribe_loop p c names (sub_in n p c t)) as [t2 fs].
    destruct (s_subscribe p c names _) as [s2 fs'].
    destruct IH as (-> & Hwf2 & Hs & Ho). split; [|done].
    f_equal. f_equal. rewrite <- abs_sub_in. symmetry. apply count_abs.
    apply (wf_sub_in n p c t Hwf).
Qed.

End WithGlob.
