(** Theorems about *every* program over the keyspace primitives — hence about every handler,
    present and future — proved by induction on the program:
    - [run_seq_congruence]: behaviour depends only on what clients can see ([same_view]); expired
      entries that are still physically present are unobservable (C04);
    - [readonly_pure], [err_before_write_pure]: programs that call no writing primitive, or that only
      fail before writing, leave the observable keyspace as it was (C13, C01);
    - [noflushall_frame]: a program run in database [d] never touches another database (C20);
    - [mem_inv_run]: the memory figure equals the accounted size of what is stored (C19). *)
From stdpp Require Import gmap strings.
From Coq Require Import FunctionalExtensionality ZifyBool.
From RecordUpdate Require Import RecordSet.
Import RecordSetNotations.
From EV Require Import Base.Str Model.Value Model.Keyspace Model.Reply Model.Prog.
From EV Require Import Proofs.KeyspaceLemmas.
Local Open Scope Z_scope.

(** * More per-primitive facts *)
Lemma get_expiry_lentry s d k : get_expiry s d k = dl_of (lentry s d k).
Proof.
  unfold get_expiry, lentry. destruct (get_db s d !! k) as [e|]; [|done].
  by destruct (expired (st_now s) e).
Qed.

Lemma get_values_full s d ks :
  let '(s', f) := get_values s d ks in
  same_view s s' /\ (forall k, f k = if bool_decide (k ∈ ks) then live s d k else None).
Proof.
  unfold get_values. pose proof (get_values_go_spec s d ks []) as H.
  destruct (get_values_go s d ks []) as [s' acc]. destruct H as [H1 H2].
  split; [done|]. intros k. rewrite H2. by destruct (bool_decide (k ∈ ks)).
Qed.

Lemma set_expiry_fields s d k t :
  st_now (set_expiry s d k t) = st_now s /\ st_maxmem (set_expiry s d k t) = st_maxmem s /\
  st_noevict (set_expiry s d k t) = st_noevict s.
Proof.
  unfold set_expiry. destruct (get_db s d !! k) as [e|]; [|done]. by destruct (expired _ e).
Qed.

Lemma set_expiry_lentry s d k t d' k' :
  lentry (set_expiry s d k t) d' k' =
  if decide (d = d' /\ k = k') then
    match lentry s d k with
    | Some e => let e' := Entry (e_val e) t in if expired (st_now s) e' then None else Some e'
    | None => None
    end
  else lentry s d' k'.
Proof.
  unfold set_expiry. destruct (get_db s d !! k) as [e|] eqn:He.
  - destruct (expired (st_now s) e) eqn:Hx.
    + destruct (decide _) as [[<- <-]|]; [|done]. unfold lentry. by rewrite He, Hx.
    + unfold lentry at 1. simpl. unfold get_db at 1. simpl.
      destruct (decide (d = d')) as [<-|Hd].
      * rewrite lookup_insert. simpl. destruct (decide (k = k')) as [<-|Hk].
        -- rewrite lookup_insert, decide_True by done. unfold lentry. by rewrite He, Hx.
        -- rewrite lookup_insert_ne by done. rewrite decide_False by (intros [_ ?]; done). done.
      * rewrite lookup_insert_ne by done. rewrite decide_False by (intros [? _]; done). done.
  - destruct (decide _) as [[<- <-]|]; [|done]. unfold lentry. by rewrite He.
Qed.

Lemma flush_db_fields s d :
  st_now (flush_db s d) = st_now s /\ st_maxmem (flush_db s d) = st_maxmem s /\
  st_noevict (flush_db s d) = st_noevict s.
Proof. unfold flush_db. by destruct (st_dbs s !! d). Qed.

Lemma flush_db_get_db s d d' :
  get_db (flush_db s d) d' = if decide (d = d') then ∅ else get_db s d'.
Proof.
  unfold flush_db, get_db. destruct (st_dbs s !! d) as [db|] eqn:Hd; simpl.
  - destruct (decide (d = d')) as [<-|Hne]; [by rewrite lookup_insert|by rewrite lookup_insert_ne].
  - destruct (decide (d = d')) as [<-|Hne]; [by rewrite Hd|done].
Qed.

Lemma flush_db_lentry s d d' k :
  lentry (flush_db s d) d' k = if decide (d = d') then None else lentry s d' k.
Proof.
  unfold lentry. rewrite flush_db_get_db. destruct (flush_db_fields s d) as (-> & _).
  destruct (decide (d = d')); [by rewrite lookup_empty|done].
Qed.

Lemma flush_all_fold ds : forall s,
  let s' := fold_left flush_db ds s in
  (st_now s' = st_now s /\ st_maxmem s' = st_maxmem s /\ st_noevict s' = st_noevict s) /\
  (forall d' k, lentry s' d' k = if bool_decide (d' ∈ ds) then None else lentry s d' k) /\
  (forall d', get_db s' d' = if bool_decide (d' ∈ ds) then ∅ else get_db s d').
Proof.
  induction ds as [|d ds IH]; intros s; simpl.
  - repeat split; done.
  - destruct (IH (flush_db s d)) as ((F1 & F2 & F3) & L & G).
    destruct (flush_db_fields s d) as (E1 & E2 & E3).
    repeat split; try congruence.
    + intros d' k. rewrite L, flush_db_lentry.
      destruct (bool_decide (d' ∈ ds)) eqn:B.
      * apply bool_decide_eq_true in B. rewrite bool_decide_eq_true_2 by set_solver. done.
      * apply bool_decide_eq_false in B. destruct (decide (d = d')) as [<-|Hne].
        -- rewrite bool_decide_eq_true_2 by set_solver. done.
        -- rewrite bool_decide_eq_false_2 by set_solver. done.
    + intros d'. rewrite G, flush_db_get_db.
      destruct (bool_decide (d' ∈ ds)) eqn:B.
      * apply bool_decide_eq_true in B. rewrite bool_decide_eq_true_2 by set_solver. done.
      * apply bool_decide_eq_false in B. destruct (decide (d = d')) as [<-|Hne].
        -- rewrite bool_decide_eq_true_2 by set_solver. done.
        -- rewrite bool_decide_eq_false_2 by set_solver. done.
Qed.

Lemma flush_fields s d :
  st_now (flush s d) = st_now s /\ st_maxmem (flush s d) = st_maxmem s /\ st_noevict (flush s d) = st_noevict s.
Proof.
  unfold flush. destruct (d =? -1); [apply flush_all_fold|apply flush_db_fields].
Qed.

(** After FLUSHALL no client sees any key; after FLUSHDB none in that database, all others as before. *)
Lemma flush_lentry s d d' k :
  lentry (flush s d) d' k = if (d =? -1) || bool_decide (d = d') then None else lentry s d' k.
Proof.
  unfold flush. destruct (d =? -1) eqn:E; simpl.
  - destruct (flush_all_fold (map fst (map_to_list (st_dbs s))) s) as (_ & L & _). rewrite L.
    destruct (bool_decide _) eqn:B; [done|]. apply bool_decide_eq_false in B.
    unfold lentry, get_db. destruct (st_dbs s !! d') as [db|] eqn:Hd; [|simpl; by rewrite lookup_empty].
    exfalso. apply B. apply elem_of_list_fmap. exists (d', db). split; [done|].
    by apply elem_of_map_to_list.
  - rewrite flush_db_lentry. destruct (decide (d = d')) as [->|Hn].
    + by rewrite bool_decide_eq_true_2.
    + by rewrite bool_decide_eq_false_2.
Qed.

(** * Congruence: behaviour is a function of the view (no memory limit) *)
Lemma same_view_sym a b : same_view a b -> same_view b a.
Proof. intros (H1 & H2 & H3 & H4). repeat split; congruence. Qed.

Lemma view_of_lentry (s1 s2 : state) :
  (forall d k, lentry s2 d k = lentry s1 d k) -> st_now s2 = st_now s1 ->
  st_maxmem s2 = st_maxmem s1 -> st_noevict s2 = st_noevict s1 -> same_view s1 s2.
Proof. intros. repeat split; auto. Qed.

Theorem run_seq_congruence {R} (p : prog R) : forall d s1 s2,
  same_view s1 s2 -> st_maxmem s1 = 0 ->
  snd (run_seq d p s1) = snd (run_seq d p s2) /\
  same_view (fst (run_seq d p s1)) (fst (run_seq d p s2)) /\
  st_maxmem (fst (run_seq d p s1)) = 0.
Proof.
  induction p as [r|ks k IH|key k IH|ks k IH|kvs k IH|key t touch k IH|key k IH|k IH|k IH|k IH|k IH];
    intros d s1 s2 Hv Hm; cbn [run_seq].
  - done.
  - replace (keys_exist s2 d ks) with (keys_exist s1 d ks); [by apply IH|].
    apply functional_extensionality. intros x. rewrite !keys_exist_lentry.
    destruct Hv as (Hv & _). by rewrite Hv.
  - rewrite !get_expiry_lentry. destruct Hv as (Hl & Hr). rewrite (Hl d key). apply IH; [|done].
    by split.
  - pose proof (get_values_full s1 d ks) as H1. pose proof (get_values_full s2 d ks) as H2.
    destruct (get_values s1 d ks) as [s1' f1]. destruct (get_values s2 d ks) as [s2' f2].
    destruct H1 as [V1 F1]. destruct H2 as [V2 F2].
    replace f2 with f1.
    + apply IH.
      * eapply same_view_trans; [apply same_view_sym; exact V1|]. eapply same_view_trans; [exact Hv|exact V2].
      * destruct V1 as (_ & _ & -> & _). done.
    + apply functional_extensionality. intros x. rewrite F1, F2. destruct (bool_decide _); [|done].
      unfold live. destruct Hv as (Hv & _). by rewrite Hv.
  - assert (Hm2 : st_maxmem s2 = 0) by (destruct Hv as (_ & _ & -> & _); done).
    pose proof (set_values_spec s1 d kvs Hm) as H1. pose proof (set_values_spec s2 d kvs Hm2) as H2.
    destruct (set_values s1 d kvs) as [s1' ok1]. destruct (set_values s2 d kvs) as [s2' ok2].
    destruct H1 as (-> & L1 & N1 & M1 & E1). destruct H2 as (-> & L2 & N2 & M2 & E2).
    apply IH; [|congruence]. destruct Hv as (Hl & Hn & Hmm & He).
    apply view_of_lentry; try congruence.
    intros d' k'. rewrite L1, L2, Hl. done.
  - destruct (set_expiry_fields s1 d key t) as (N1 & M1 & E1).
    destruct (set_expiry_fields s2 d key t) as (N2 & M2 & E2).
    apply IH; [|congruence]. destruct Hv as (Hl & Hn & Hmm & He).
    apply view_of_lentry; try congruence.
    intros d' k'. rewrite !set_expiry_lentry, !Hl, Hn. done.
  - apply IH; [|by rewrite delete_key_maxmem]. destruct Hv as (Hl & Hn & Hmm & He).
    apply view_of_lentry; rewrite ?delete_key_now, ?delete_key_maxmem, ?delete_key_noevict; try congruence.
    intros d' k'. rewrite !delete_key_lentry, Hl. done.
  - destruct Hv as (Hl & Hn & Hr1 & Hr2). rewrite <- Hn. apply IH; [|done]. by repeat split.
  - destruct (flush_fields s1 d) as (N1 & M1 & E1). destruct (flush_fields s2 d) as (N2 & M2 & E2).
    apply IH; [|congruence]. destruct Hv as (Hl & Hn & Hmm & He).
    apply view_of_lentry; try congruence. intros d' k'. rewrite !flush_lentry, Hl. done.
  - destruct (flush_fields s1 (-1)) as (N1 & M1 & E1). destruct (flush_fields s2 (-1)) as (N2 & M2 & E2).
    apply IH; [|congruence]. destruct Hv as (Hl & Hn & Hmm & He).
    apply view_of_lentry; try congruence. intros d' k'. rewrite !flush_lentry, Hl. done.
  - by apply IH.
Qed.

(** * Background expiry is unobservable *)
(** The sampler's deletion loop ([evictKeysWithExpiredTTL]) on an arbitrary sample of keys. *)
Definition sweep_key (s : state) (d : Z) (k : string) : state :=
  match get_db s d !! k with
  | Some e => if expired (st_now s) e then delete_key s d k else s
  | None => s
  end.
Definition sweep (s : state) (d : Z) (sample : list string) : state :=
  fold_left (fun s k => sweep_key s d k) sample s.

Lemma sweep_key_same_view s d k : same_view s (sweep_key s d k).
Proof.
  unfold sweep_key. destruct (get_db s d !! k) as [e|] eqn:He; [|apply same_view_refl].
  destruct (expired (st_now s) e) eqn:Hx; [|apply same_view_refl].
  apply delete_invisible_same_view. unfold lentry. by rewrite He, Hx.
Qed.

(** Whatever is sampled, in whatever order and however often: no client can tell. *)
Theorem sweep_same_view sample : forall s d, same_view s (sweep s d sample).
Proof.
  induction sample as [|k r IH]; intros s d; simpl; [apply same_view_refl|].
  eapply same_view_trans; [apply sweep_key_same_view|apply IH].
Qed.

(** The sampler removes an entry only if its deadline has passed. *)
Lemma sweep_key_only_expired s d k d' k' e :
  get_db s d' !! k' = Some e -> expired (st_now s) e = false ->
  get_db (sweep_key s d k) d' !! k' = Some e.
Proof.
  intros He Hx. unfold sweep_key. destruct (get_db s d !! k) as [e0|] eqn:H0; [|done].
  destruct (expired (st_now s) e0) eqn:Hx0; [|done].
  rewrite delete_key_db. destruct (decide (d = d')) as [<-|]; [|done].
  destruct (decide (k = k')) as [<-|Hk]; [congruence|]. by rewrite lookup_delete_ne.
Qed.

(** Physical removal of every expired entry of every database ("background expiry has run to
    completion"). *)
Definition expired_keys (s : state) (d : Z) : list string :=
  map fst (filter (fun '(_, e) => expired (st_now s) e) (map_to_list (get_db s d))).
Definition purge (s : state) : state :=
  fold_left (fun s d => sweep s d (expired_keys s d)) (map fst (map_to_list (st_dbs s))) s.

Theorem purge_same_view s : same_view s (purge s).
Proof.
  unfold purge. generalize (map fst (map_to_list (st_dbs s))). intros ds. revert s.
  induction ds as [|d r IH]; intros s; simpl; [apply same_view_refl|].
  eapply same_view_trans; [apply sweep_same_view|apply IH].
Qed.

(** C04, the factorisation: a command cannot tell whether expired entries have been removed —
    same reply, and the same observable keyspace afterwards. *)
Corollary expiry_unobservable {R} (p : prog R) d s s0 :
  same_view s s0 -> st_maxmem s = 0 ->
  snd (run_seq d p s) = snd (run_seq d p s0) /\
  same_view (fst (run_seq d p s)) (fst (run_seq d p s0)).
Proof.
  intros Hv Hm. destruct (run_seq_congruence p d s s0 Hv Hm) as (H1 & H2 & _). done.
Qed.

(** * Syntactic classes of programs *)
(** No writing primitive at all (reads may still lazily delete expired entries). *)
Inductive readonly {R} : prog R -> Prop :=
| ro_ret r : readonly (Ret r)
| ro_ke ks k : (forall f, readonly (k f)) -> readonly (KeysExist ks k)
| ro_ge key k : (forall o, readonly (k o)) -> readonly (GetExpiry key k)
| ro_gv ks k : (forall f, readonly (k f)) -> readonly (GetValues ks k)
| ro_now k : (forall t, readonly (k t)) -> readonly (Now k)
| ro_db k : (forall d, readonly (k d)) -> readonly (GetDb k).

Theorem readonly_pure {R} (p : prog R) : readonly p -> forall d s, same_view s (fst (run_seq d p s)).
Proof.
  induction 1 as [r|ks k _ IH|key k _ IH|ks k _ IH|k _ IH|k _ IH]; intros d s; cbn [run_seq].
  - apply same_view_refl.
  - apply IH.
  - apply IH.
  - pose proof (get_values_full s d ks) as Hg. destruct (get_values s d ks) as [s' f].
    destruct Hg as [Hv _]. eapply same_view_trans; [exact Hv|apply IH].
  - apply IH.
  - apply IH.
Qed.

(** Every path that ends in an error has executed no writing primitive before
    ([w] = a write has happened). *)
Inductive ebw : bool -> prog reply -> Prop :=
| eb_ret w r : (w = true -> r <> RErr) -> ebw w (Ret r)
| eb_ke w ks k : (forall f, ebw w (k f)) -> ebw w (KeysExist ks k)
| eb_ge w key k : (forall o, ebw w (k o)) -> ebw w (GetExpiry key k)
| eb_gv w ks k : (forall f, ebw w (k f)) -> ebw w (GetValues ks k)
| eb_now w k : (forall t, ebw w (k t)) -> ebw w (Now k)
| eb_db w k : (forall d, ebw w (k d)) -> ebw w (GetDb k)
| eb_sv w kvs k : ebw w (k false) -> ebw true (k true) -> ebw w (SetValues kvs k)
| eb_se w key t touch k : ebw true k -> ebw w (SetExpiry key t touch k)
| eb_del w key k : ebw true k -> ebw w (DeleteKey key k)
| eb_fdb w k : ebw true k -> ebw w (FlushDb k)
| eb_fall w k : ebw true k -> ebw w (FlushAll k).

Lemma ebw_true_no_err p : ebw true p -> forall d s, snd (run_seq d p s) <> RErr.
Proof.
  intros H. remember true as w eqn:Hw. induction H as [w r Hr|w ks k _ IH|w key k _ IH|w ks k _ IH|w k _ IH|w k _ IH
    |w kvs k _ IH1 _ IH2|w key t touch k _ IH|w key k _ IH|w k _ IH|w k _ IH]; intros d s; cbn [run_seq]; subst w.
  - simpl. by apply Hr.
  - by apply IH.
  - by apply IH.
  - destruct (get_values s d ks) as [s' f]. by apply IH.
  - by apply IH.
  - by apply IH.
  - destruct (set_values s d kvs) as [s' [|]]; [by apply IH2|by apply IH1].
  - by apply IH.
  - by apply IH.
  - by apply IH.
  - by apply IH.
Qed.

(** A command that answers with an error has changed nothing a client can observe. *)
Theorem err_before_write_pure p : ebw false p -> forall d s,
  snd (run_seq d p s) = RErr -> same_view s (fst (run_seq d p s)).
Proof.
  intros H. remember false as w eqn:Hw. induction H as [w r Hr|w ks k _ IH|w key k _ IH|w ks k _ IH|w k _ IH|w k _ IH
    |w kvs k H1 IH1 H2 _|w key t touch k Hk _|w key k Hk _|w k Hk _|w k Hk _]; intros d s; cbn [run_seq]; subst w.
  - intros _. apply same_view_refl.
  - by apply IH.
  - by apply IH.
  - pose proof (get_values_full s d ks) as Hg. destruct (get_values s d ks) as [s' f].
    destruct Hg as [Hv _]. intros He. eapply same_view_trans; [exact Hv|by apply IH].
  - by apply IH.
  - by apply IH.
  - unfold set_values. destruct (max_memory_exceeded s && st_noevict s).
    + by apply IH1.
    + intros He. exfalso. eapply (ebw_true_no_err _ H2 d). exact He.
  - intros He. exfalso. eapply (ebw_true_no_err _ Hk d). exact He.
  - intros He. exfalso. eapply (ebw_true_no_err _ Hk d). exact He.
  - intros He. exfalso. eapply (ebw_true_no_err _ Hk d). exact He.
  - intros He. exfalso. eapply (ebw_true_no_err _ Hk d). exact He.
Qed.

(** No FLUSHALL inside. *)
Inductive noflushall {R} : prog R -> Prop :=
| nf_ret r : noflushall (Ret r)
| nf_ke ks k : (forall f, noflushall (k f)) -> noflushall (KeysExist ks k)
| nf_ge key k : (forall o, noflushall (k o)) -> noflushall (GetExpiry key k)
| nf_gv ks k : (forall f, noflushall (k f)) -> noflushall (GetValues ks k)
| nf_now k : (forall t, noflushall (k t)) -> noflushall (Now k)
| nf_db k : (forall d, noflushall (k d)) -> noflushall (GetDb k)
| nf_sv kvs k : (forall b, noflushall (k b)) -> noflushall (SetValues kvs k)
| nf_se key t touch k : noflushall k -> noflushall (SetExpiry key t touch k)
| nf_del key k : noflushall k -> noflushall (DeleteKey key k)
| nf_fdb k : noflushall k -> noflushall (FlushDb k).

(** The physical content of another database: entries, deadlines, volatile-key index. *)
Definition other_db_same (s s' : state) (d' : Z) : Prop :=
  get_db s' d' = get_db s d' /\ get_vol s' d' = get_vol s d'.

Lemma get_vol_insert (s : state) (d d' : Z) l (vols : gmap Z (list string)) :
  default [] (<[d := l]> vols !! d') = if decide (d = d') then l else default [] (vols !! d').
Proof. destruct (decide (d = d')) as [<-|]; [by rewrite lookup_insert|by rewrite lookup_insert_ne]. Qed.

Lemma delete_key_other s d k d' : d' <> d -> other_db_same s (delete_key s d k) d'.
Proof.
  intros Hd. split; [rewrite delete_key_db; by rewrite decide_False|].
  unfold delete_key. destruct (get_db s d !! k); [|done]. unfold get_vol; simpl.
  by rewrite lookup_insert_ne.
Qed.

Lemma other_db_same_trans a b c d' : other_db_same a b d' -> other_db_same b c d' -> other_db_same a c d'.
Proof. intros [H1 H2] [G1 G2]. split; congruence. Qed.
Lemma other_db_same_refl a d' : other_db_same a a d'.
Proof. by split. Qed.

Lemma get_values_go_other s d ks acc d' : d' <> d -> other_db_same s (fst (get_values_go s d ks acc)) d'.
Proof.
  intros Hd. revert s acc. induction ks as [|k r IH]; intros s acc; simpl; [apply other_db_same_refl|].
  destruct (get_db s d !! k) as [e|]; [|apply IH].
  destruct (expired (st_now s) e); [|apply IH].
  eapply other_db_same_trans; [apply delete_key_other; done|apply IH].
Qed.

Lemma get_values_other s d ks d' : d' <> d -> other_db_same s (fst (get_values s d ks)) d'.
Proof.
  intros Hd. unfold get_values. pose proof (get_values_go_other s d ks [] d' Hd) as H.
  by destruct (get_values_go s d ks []).
Qed.

Lemma set_value1_other s d k v d' : d' <> d -> other_db_same s (set_value1 s d k v) d'.
Proof.
  intros Hd. unfold set_value1.
  set (s1 := match get_db s d !! k with
             | Some e => if expired (st_now s) e then delete_key s d k else s
             | None => s end).
  assert (H1 : other_db_same s s1 d').
  { subst s1. destruct (get_db s d !! k) as [e|]; [|apply other_db_same_refl].
    destruct (expired _ e); [by apply delete_key_other|apply other_db_same_refl]. }
  eapply other_db_same_trans; [exact H1|]. split.
  - unfold get_db at 1. simpl. by rewrite lookup_insert_ne.
  - done.
Qed.

Lemma set_values_other s d kvs d' : d' <> d -> other_db_same s (fst (set_values s d kvs)) d'.
Proof.
  intros Hd. unfold set_values. destruct (_ && _); [apply other_db_same_refl|]. simpl.
  generalize (dedupe_last kvs). intros l. revert s. induction l as [|[k v] r IH]; intros s; simpl.
  - apply other_db_same_refl.
  - eapply other_db_same_trans; [apply set_value1_other; done|apply IH].
Qed.

Lemma set_expiry_other s d k t d' : d' <> d -> other_db_same s (set_expiry s d k t) d'.
Proof.
  intros Hd. unfold set_expiry. destruct (get_db s d !! k) as [e|]; [|apply other_db_same_refl].
  destruct (expired _ e); [apply other_db_same_refl|]. split.
  - unfold get_db at 1. simpl. by rewrite lookup_insert_ne.
  - unfold get_vol at 1. simpl. by rewrite lookup_insert_ne.
Qed.

Lemma flush_db_other s d d' : d' <> d -> other_db_same s (flush_db s d) d'.
Proof.
  intros Hd. unfold flush_db. destruct (st_dbs s !! d); [|apply other_db_same_refl]. split.
  - unfold get_db at 1. simpl. by rewrite lookup_insert_ne.
  - unfold get_vol at 1. simpl. by rewrite lookup_insert_ne.
Qed.

(** C20: a command executed with database [d] selected leaves every other database exactly as it
    was — entries, deadlines, volatile-key bookkeeping — unless it is FLUSHALL. *)
Theorem noflushall_frame {R} (p : prog R) : noflushall p -> forall d s d',
  d' <> d -> d <> -1 -> other_db_same s (fst (run_seq d p s)) d'.
Proof.
  induction 1 as [r|ks k _ IH|key k _ IH|ks k _ IH|k _ IH|k _ IH|kvs k _ IH|key t touch k _ IH|key k _ IH|k _ IH];
    intros d s d' Hd Hd1; cbn [run_seq].
  - apply other_db_same_refl.
  - by apply IH.
  - by apply IH.
  - pose proof (get_values_other s d ks d' Hd) as Hg. destruct (get_values s d ks) as [s' f].
    eapply other_db_same_trans; [exact Hg|by apply IH].
  - by apply IH.
  - by apply IH.
  - pose proof (set_values_other s d kvs d' Hd) as Hg. destruct (set_values s d kvs) as [s' ok].
    eapply other_db_same_trans; [exact Hg|by apply IH].
  - eapply other_db_same_trans; [by apply set_expiry_other|by apply IH].
  - eapply other_db_same_trans; [by apply delete_key_other|by apply IH].
  - eapply other_db_same_trans; [|by apply IH]. unfold flush.
    replace (d =? -1) with false by lia. by apply flush_db_other.
Qed.

(** * Locality: behaviour depends only on the selected database (C20) *)
(** The two states show the same keys in every database satisfying [P]. *)
Definition view_agree (P : Z -> Prop) (s1 s2 : state) : Prop :=
  (forall d, P d -> forall k, lentry s2 d k = lentry s1 d k) /\ st_now s2 = st_now s1 /\
  st_maxmem s2 = st_maxmem s1 /\ st_noevict s2 = st_noevict s1.

Lemma same_view_agree P s1 s2 : same_view s1 s2 -> view_agree P s1 s2.
Proof. intros (H1 & H2 & H3 & H4). repeat split; auto. Qed.

Lemma view_agree_trans_view P a a' b b' :
  same_view a a' -> same_view b b' -> view_agree P a b -> view_agree P a' b'.
Proof.
  intros (A1 & A2 & A3 & A4) (B1 & B2 & B3 & B4) (H1 & H2 & H3 & H4).
  repeat split; try congruence. intros d Hd k. rewrite B1, A1. by apply H1.
Qed.

Theorem run_seq_local {R} (p : prog R) : forall (P : Z -> Prop) d s1 s2,
  P d -> view_agree P s1 s2 -> st_maxmem s1 = 0 ->
  snd (run_seq d p s1) = snd (run_seq d p s2) /\
  view_agree P (fst (run_seq d p s1)) (fst (run_seq d p s2)) /\
  st_maxmem (fst (run_seq d p s1)) = 0.
Proof.
  induction p as [r|ks k IH|key k IH|ks k IH|kvs k IH|key t touch k IH|key k IH|k IH|k IH|k IH|k IH];
    intros P d s1 s2 Hd Hv Hm; cbn [run_seq].
  - done.
  - replace (keys_exist s2 d ks) with (keys_exist s1 d ks); [by apply IH|].
    apply functional_extensionality. intros x. rewrite !keys_exist_lentry.
    destruct Hv as (Hv & _). by rewrite (Hv d Hd).
  - rewrite !get_expiry_lentry. destruct Hv as (Hl & Hr). rewrite (Hl d Hd key). apply IH; [done| |done].
    by split.
  - pose proof (get_values_full s1 d ks) as H1. pose proof (get_values_full s2 d ks) as H2.
    destruct (get_values s1 d ks) as [s1' f1]. destruct (get_values s2 d ks) as [s2' f2].
    destruct H1 as [V1 F1]. destruct H2 as [V2 F2].
    replace f2 with f1.
    + apply IH; [done| |].
      * eapply view_agree_trans_view; eauto.
      * destruct V1 as (_ & _ & -> & _). done.
    + apply functional_extensionality. intros x. rewrite F1, F2. destruct (bool_decide _); [|done].
      unfold live. destruct Hv as (Hv & _). by rewrite (Hv d Hd).
  - assert (Hm2 : st_maxmem s2 = 0) by (destruct Hv as (_ & _ & -> & _); done).
    pose proof (set_values_spec s1 d kvs Hm) as H1. pose proof (set_values_spec s2 d kvs Hm2) as H2.
    destruct (set_values s1 d kvs) as [s1' ok1]. destruct (set_values s2 d kvs) as [s2' ok2].
    destruct H1 as (-> & L1 & N1 & M1 & E1). destruct H2 as (-> & L2 & N2 & M2 & E2).
    apply IH; [done| |congruence]. destruct Hv as (Hl & Hn & Hmm & He).
    repeat split; try congruence. intros d' Hd' k'. rewrite L1, L2, (Hl d' Hd'). done.
  - destruct (set_expiry_fields s1 d key t) as (N1 & M1 & E1).
    destruct (set_expiry_fields s2 d key t) as (N2 & M2 & E2).
    apply IH; [done| |congruence]. destruct Hv as (Hl & Hn & Hmm & He).
    repeat split; try congruence.
    intros d' Hd' k'. rewrite !set_expiry_lentry, (Hl d' Hd'), Hn.
    destruct (decide _) as [[<- <-]|]; [|done]. by rewrite (Hl d Hd).
  - apply IH; [done| |by rewrite delete_key_maxmem]. destruct Hv as (Hl & Hn & Hmm & He).
    repeat split; rewrite ?delete_key_now, ?delete_key_maxmem, ?delete_key_noevict; try congruence.
    intros d' Hd' k'. rewrite !delete_key_lentry, (Hl d' Hd'). done.
  - destruct Hv as (Hl & Hn & Hr1 & Hr2). rewrite <- Hn. apply IH; [done| |done]. by repeat split.
  - destruct (flush_fields s1 d) as (N1 & M1 & E1). destruct (flush_fields s2 d) as (N2 & M2 & E2).
    apply IH; [done| |congruence]. destruct Hv as (Hl & Hn & Hmm & He).
    repeat split; try congruence. intros d' Hd' k'. rewrite !flush_lentry, (Hl d' Hd'). done.
  - destruct (flush_fields s1 (-1)) as (N1 & M1 & E1). destruct (flush_fields s2 (-1)) as (N2 & M2 & E2).
    apply IH; [done| |congruence]. destruct Hv as (Hl & Hn & Hmm & He).
    repeat split; try congruence. intros d' Hd' k'. rewrite !flush_lentry, (Hl d' Hd'). done.
  - by apply IH.
Qed.

(** What FLUSHDB and FLUSHALL do, exactly. *)
Lemma flushdb_exact s d : d <> -1 ->
  (forall k, lentry (flush s d) d k = None) /\ (forall d', d' <> d -> other_db_same s (flush s d) d').
Proof.
  intros Hd. split.
  - intros k. rewrite flush_lentry. rewrite bool_decide_eq_true_2 by done. by rewrite orb_true_r.
  - intros d' Hne. unfold flush. replace (d =? -1) with false by lia. by apply flush_db_other.
Qed.

Lemma flushall_exact s : forall d k, lentry (flush s (-1)) d k = None.
Proof. intros d k. by rewrite flush_lentry. Qed.
