(** C16: the set handlers refine the reference finite sets of [Spec/SpecSet.v]. *)
From stdpp Require Import gmap strings.
From EV Require Import Base.Str Model.Value Model.Adapt Model.Keyspace Model.Reply Model.Prog Model.CmdList Model.CmdSet.
From EV Require Import Spec.SpecSet Proofs.KeyspaceLemmas.
Local Open Scope Z_scope.

(** * Abstraction: what set commands can see of database [d] *)
Definition sclassify (v : value) : sval := match v with VSet x => SSet x | _ => SOther end.
Definition sview (s : state) (d : Z) : sspec :=
  omap (fun e => if expired (st_now s) e then None else Some (sclassify (e_val e))) (get_db s d).

Lemma sview_lookup s d k : sview s d !! k = sclassify <$> live s d k.
Proof.
  unfold sview, live, lentry. rewrite lookup_omap.
  destruct (get_db s d !! k) as [e|]; simpl; [|done]. by destruct (expired _ e).
Qed.

Lemma sview_ext s' d m :
  (forall k, sclassify <$> live s' d k = m !! k) -> sview s' d = m.
Proof. intros H. apply map_eq. intros k. rewrite sview_lookup. apply H. Qed.

Lemma same_view_sview s s' d : same_view s s' -> sview s' d = sview s d.
Proof.
  intros (H & _). apply sview_ext. intros k. rewrite sview_lookup. unfold live. by rewrite H.
Qed.

(** What a step may do to the entries: nothing outside [d]; inside [d] an entry is untouched, or is
    (now) a set that kept the deadline it had. *)
Definition set_frame (s s' : state) (d : Z) : Prop :=
  (forall d' k, d' <> d -> lentry s' d' k = lentry s d' k) /\
  (forall k, lentry s' d k = lentry s d k \/
             (exists x, lentry s' d k = Some (Entry (VSet x) (dl_of (lentry s d k))))) /\
  st_now s' = st_now s /\ st_maxmem s' = st_maxmem s /\ st_noevict s' = st_noevict s.

Lemma same_view_sframe s s' d : same_view s s' -> set_frame s s' d.
Proof. intros (H1 & H2 & H3 & H4). repeat split; auto. Qed.

Lemma set_frame_trans_view s s1 s' d :
  same_view s s1 -> set_frame s1 s' d -> set_frame s s' d.
Proof.
  intros (V1 & V2 & V3 & V4) (F1 & F2 & F3 & F4 & F5). repeat split; try congruence.
  - intros d' k Hd. rewrite F1 by done. apply V1.
  - intros k. destruct (F2 k) as [H|[x H]].
    + left. rewrite H. apply V1.
    + right. exists x. rewrite H. by rewrite V1.
Qed.

Lemma set_frame_trans s s1 s3 d :
  set_frame s s1 d -> set_frame s1 s3 d -> set_frame s s3 d.
Proof.
  intros (A1 & A2 & A3 & A4 & A5) (B1 & B2 & B3 & B4 & B5). repeat split; try congruence.
  - intros d' k Hd. rewrite B1, A1; done.
  - intros k. destruct (B2 k) as [H|[x H]].
    + rewrite H. apply A2.
    + right. exists x. rewrite H. do 2 f_equal.
      destruct (A2 k) as [G|[x' G]]; by rewrite G.
Qed.

(** Effect of a successful [setValues] of set values, in view terms. *)
Lemma set_values_sets s d kvs s' ok :
  st_maxmem s = 0 -> set_values s d kvs = (s', ok) ->
  (forall k v, assoc_last k kvs = Some v -> exists x, v = VSet x) ->
  ok = true /\ set_frame s s' d /\
  (forall k, sview s' d !! k =
             match assoc_last k kvs with Some v => Some (sclassify v) | None => sview s d !! k end).
Proof.
  intros Hm Hs Hl. pose proof (set_values_spec s d kvs Hm) as H. rewrite Hs in H.
  destruct H as (-> & He & Hn & Hmm & Hne). split; [done|]. split.
  - repeat split; auto.
    + intros d' k Hd. rewrite He. rewrite decide_False by done. done.
    + intros k. rewrite He, decide_True by done.
      destruct (assoc_last k kvs) as [v|] eqn:Hk; [|by left].
      destruct (Hl k v Hk) as [x ->]. right. by exists x.
  - intros k. rewrite !sview_lookup. unfold live. rewrite He, decide_True by done.
    destruct (assoc_last k kvs); done.
Qed.

Lemma put_one s s1 d k x s2 ok :
  st_maxmem s = 0 -> same_view s s1 -> set_values s1 d [(k, VSet x)] = (s2, ok) ->
  ok = true /\ sview s2 d = <[k := SSet x]> (sview s d) /\ set_frame s s2 d.
Proof.
  intros Hm Hv Hs. assert (Hm1 : st_maxmem s1 = 0) by (destruct Hv as (_ & _ & -> & _); done).
  destruct (set_values_sets s1 d _ s2 ok Hm1 Hs) as (-> & Hf & Hl).
  { intros k0 v. simpl. destruct (String.eqb k0 k); [|done]. intros [= <-]. eauto. }
  split; [done|]. split; [|eapply set_frame_trans_view; eauto].
  apply map_eq. intros k0. rewrite Hl. simpl. rewrite (same_view_sview _ _ _ Hv).
  destruct (String.eqb k0 k) eqn:E.
  - apply String.eqb_eq in E. subst. by rewrite lookup_insert.
  - apply String.eqb_neq in E. by rewrite lookup_insert_ne.
Qed.

Lemma put_two s s1 d k1 x1 k2 x2 s2 ok :
  st_maxmem s = 0 -> same_view s s1 ->
  set_values s1 d [(k1, VSet x1); (k2, VSet x2)] = (s2, ok) ->
  ok = true /\ sview s2 d = <[k2 := SSet x2]> (<[k1 := SSet x1]> (sview s d)) /\ set_frame s s2 d.
Proof.
  intros Hm Hv Hs. assert (Hm1 : st_maxmem s1 = 0) by (destruct Hv as (_ & _ & -> & _); done).
  destruct (set_values_sets s1 d _ s2 ok Hm1 Hs) as (-> & Hf & Hl).
  { intros k0 v. simpl. destruct (String.eqb k0 k2); [intros [= <-]; eauto|].
    destruct (String.eqb k0 k1); [intros [= <-]; eauto|done]. }
  split; [done|]. split; [|eapply set_frame_trans_view; eauto].
  apply map_eq. intros k0. rewrite Hl. simpl. rewrite (same_view_sview _ _ _ Hv).
  destruct (String.eqb k0 k2) eqn:E2.
  - apply String.eqb_eq in E2. subst. by rewrite lookup_insert.
  - apply String.eqb_neq in E2. rewrite lookup_insert_ne by done.
    destruct (String.eqb k0 k1) eqn:E1.
    + apply String.eqb_eq in E1. subst. by rewrite lookup_insert.
    + apply String.eqb_neq in E1. by rewrite lookup_insert_ne.
Qed.

(** The statement proved of every handler: the handler does what [spec_set true] says (the code as
    it is, including the two recorded SDIFF deviations); see [lenient_is_property] for the link to
    the property reference [spec_set false]. *)
Definition refines1 (pick : picker) (h : list string -> prog reply) (argv : list string) : Prop :=
  forall s d, st_maxmem s = 0 ->
  let '(s', r) := run_seq d (h argv) s in
  let '(m', r') := spec_set true pick (sview s d) argv in
  r = r' /\ sview s' d = m' /\ set_frame s s' d /\ (r = RErr -> same_view s s').

Lemma live_sset s d k x :
  sview s d !! k = Some (SSet x) -> live s d k = Some (VSet x).
Proof.
  rewrite sview_lookup. destruct (live s d k) as [v|]; [|done]. destruct v; simpl; try done.
  by intros [= ->].
Qed.
Lemma live_sother s d k :
  sview s d !! k = Some SOther -> exists v, live s d k = Some v /\ as_set (Some v) = None.
Proof.
  rewrite sview_lookup. destruct (live s d k) as [v|]; [|done]. destruct v; simpl; try done; eauto.
Qed.
Lemma live_snone s d k : sview s d !! k = None -> live s d k = None.
Proof. rewrite sview_lookup. by destruct (live s d k). Qed.

Lemma exists_iff_sview s d k :
  bool_decide (is_Some (lentry s d k)) = bool_decide (is_Some (sview s d !! k)).
Proof.
  rewrite sview_lookup. unfold live. destruct (lentry s d k); simpl; done.
Qed.

Lemma keys_exist_in s d ks k : k ∈ ks ->
  keys_exist s d ks k = bool_decide (is_Some (sview s d !! k)).
Proof.
  intros Hin. rewrite keys_exist_lentry, exists_iff_sview.
  replace (str_in k ks) with true; [done|]. symmetry. by apply str_in_spec.
Qed.

Ltac use_get_values s d ks :=
  let s1 := fresh "s1" in let f := fresh "f" in let Hv := fresh "Hview" in let Hf := fresh "Hf" in
  pose proof (get_values_spec s d ks) as Hv;
  destruct (get_values s d ks) as [s1 f]; destruct Hv as [Hv Hf].

Ltac finish_same :=
  match goal with
  | H : same_view ?s ?s' |- _ /\ sview ?s' _ = _ /\ set_frame ?s ?s' _ /\ _ =>
      split; [reflexivity|split; [apply same_view_sview; exact H|split; [apply same_view_sframe; exact H|intros _; exact H]]]
  | |- _ /\ sview ?s _ = _ /\ set_frame ?s ?s _ /\ _ =>
      split; [reflexivity|split; [reflexivity|split; [apply same_view_sframe; apply same_view_refl|intros _; apply same_view_refl]]]
  end.

Ltac view_cases s d k H :=
  rewrite ?keys_exist_single, ?exists_iff_sview;
  destruct (sview s d !! k) as [[?x|]|] eqn:H; cbn -[sview].

Ltac read_set Hk :=
  match goal with
  | Hf : forall k, k ∈ ?ks -> ?f k = live ?s ?d k |- context [?f ?k] =>
      rewrite (Hf k) by set_solver;
      first [ rewrite (live_sset _ _ _ _ Hk)
            | let v := fresh "v" in let Hv := fresh "Hv" in
              destruct (live_sother _ _ _ Hk) as (v & -> & Hv); rewrite ?Hv ];
      cbn -[sview]
  end.

Ltac finish_put H :=
  destruct H as (-> & ? & ?); cbn -[sview];
  split; [reflexivity|split; [assumption|split; [assumption|intros ?; discriminate]]].

Ltac do_put1 s :=
  match goal with
  | Hm : st_maxmem s = 0, Hv : same_view s ?s1 |- context [set_values ?s1 ?d [(?k, VSet ?x')]] =>
      let s2 := fresh "s2" in let ok := fresh "ok" in let Hs := fresh "Hset" in
      destruct (set_values s1 d [(k, VSet x')]) as [s2 ok] eqn:Hs;
      let H := fresh "Hput" in
      pose proof (put_one s s1 d k x' s2 ok Hm Hv Hs) as H; finish_put H
  end.

(** * Single-key handlers *)
Section handlers.
Context (pick : picker).

Lemma scard_refines argv c : argv = c :: tl argv -> lower c = "scard" -> refines1 pick handle_scard argv.
Proof.
  intros Hargv Hc s d Hm. unfold spec_set, handle_scard.
  destruct argv as [|c0 [|a1 [|a2 rest]]]; try discriminate Hargv; injection Hargv as <-; rewrite Hc; cbn -[sview];
    try finish_same.
  view_cases s d a1 Hk.
  - use_get_values s d [a1]. cbn -[sview]. read_set Hk. finish_same.
  - use_get_values s d [a1]. cbn -[sview]. read_set Hk. finish_same.
  - finish_same.
Qed.

Lemma smembers_refines argv c : argv = c :: tl argv -> lower c = "smembers" -> refines1 pick handle_smembers argv.
Proof.
  intros Hargv Hc s d Hm. unfold spec_set, handle_smembers.
  destruct argv as [|c0 [|a1 [|a2 rest]]]; try discriminate Hargv; injection Hargv as <-; rewrite Hc; cbn -[sview];
    try finish_same.
  view_cases s d a1 Hk.
  - use_get_values s d [a1]. cbn -[sview]. read_set Hk. finish_same.
  - use_get_values s d [a1]. cbn -[sview]. read_set Hk. finish_same.
  - finish_same.
Qed.

Lemma sismember_refines argv c : argv = c :: tl argv -> lower c = "sismember" -> refines1 pick handle_sismember argv.
Proof.
  intros Hargv Hc s d Hm. unfold spec_set, handle_sismember.
  destruct argv as [|c0 [|a1 [|a2 [|a3 rest]]]]; try discriminate Hargv; injection Hargv as <-; rewrite Hc; cbn -[sview];
    try finish_same.
  unfold arg; cbn -[sview]. rewrite keys_exist_in by set_solver.
  destruct (sview s d !! a1) as [[x|]|] eqn:Hk; cbn -[sview].
  - use_get_values s d [a1]. cbn -[sview]. read_set Hk. unfold b2z. finish_same.
  - use_get_values s d [a1]. cbn -[sview]. read_set Hk. finish_same.
  - finish_same.
Qed.

Lemma smismember_refines argv c : argv = c :: tl argv -> lower c = "smismember" -> refines1 pick handle_smismember argv.
Proof.
  intros Hargv Hc s d Hm. unfold spec_set, handle_smismember.
  destruct argv as [|c0 [|k [|y ys]]]; try discriminate Hargv; injection Hargv as ->; rewrite Hc; cbn -[sview];
    try finish_same.
  assert (Harity : (length (c :: k :: y :: ys) <? 3)%nat = false) by done.
  rewrite ?Harity. clear Harity. unfold arg. cbn [nth skipn].
  view_cases s d k Hk.
  - use_get_values s d [k]. cbn -[sview]. read_set Hk. unfold b2z. finish_same.
  - use_get_values s d [k]. cbn -[sview]. read_set Hk. finish_same.
  - finish_same.
Qed.

Lemma sadd_refines argv c : argv = c :: tl argv -> lower c = "sadd" -> refines1 pick handle_sadd argv.
Proof.
  intros Hargv Hc s d Hm. unfold spec_set, handle_sadd.
  destruct argv as [|c0 [|k [|y ys]]]; try discriminate Hargv; injection Hargv as ->; rewrite Hc; cbn -[sview];
    try finish_same.
  assert (Harity : (length (c :: k :: y :: ys) <? 3)%nat = false) by done.
  rewrite ?Harity. clear Harity. unfold arg, WriteBack. cbn [nth skipn].
  set (new := list_to_set (y :: ys) : gset string).
  view_cases s d k Hk.
  - use_get_values s d [k]. cbn -[sview]. read_set Hk. do_put1 s.
  - use_get_values s d [k]. cbn -[sview]. read_set Hk. finish_same.
  - pose proof (same_view_refl s) as Hv0. do_put1 s.
Qed.

Lemma srem_refines argv c : argv = c :: tl argv -> lower c = "srem" -> refines1 pick handle_srem argv.
Proof.
  intros Hargv Hc s d Hm. unfold spec_set, handle_srem.
  destruct argv as [|c0 [|k [|y ys]]]; try discriminate Hargv; injection Hargv as ->; rewrite Hc; cbn -[sview];
    try finish_same.
  assert (Harity : (length (c :: k :: y :: ys) <? 3)%nat = false) by done.
  rewrite ?Harity. clear Harity. unfold arg, WriteBack. cbn [nth skipn].
  set (gone := list_to_set (y :: ys) : gset string).
  view_cases s d k Hk.
  - use_get_values s d [k]. cbn -[sview]. read_set Hk. do_put1 s.
  - use_get_values s d [k]. cbn -[sview]. read_set Hk. finish_same.
  - finish_same.
Qed.

Lemma spop_refines argv c : argv = c :: tl argv -> lower c = "spop" -> refines1 pick (handle_spop pick) argv.
Proof.
  intros Hargv Hc s d Hm. unfold spec_set, handle_spop, rand_count.
  destruct argv as [|c0 [|a1 [|a2 [|a3 rest]]]]; try discriminate Hargv; injection Hargv as ->; rewrite Hc; cbn -[sview];
    try finish_same.
  - unfold arg, WriteBack; cbn -[sview]. view_cases s d a1 Hk.
    + use_get_values s d [a1]. cbn -[sview]. read_set Hk. do_put1 s.
    + use_get_values s d [a1]. cbn -[sview]. read_set Hk. finish_same.
    + finish_same.
  - unfold arg, WriteBack; cbn -[sview].
    destruct (adapt_int a2) as [n|]; cbn -[sview]; [|finish_same].
    view_cases s d a1 Hk.
    + use_get_values s d [a1]. cbn -[sview]. read_set Hk. do_put1 s.
    + use_get_values s d [a1]. cbn -[sview]. read_set Hk. finish_same.
    + finish_same.
Qed.

Lemma srandmember_refines argv c :
  argv = c :: tl argv -> lower c = "srandmember" -> refines1 pick (handle_srandmember pick) argv.
Proof.
  intros Hargv Hc s d Hm. unfold spec_set, handle_srandmember, rand_count.
  destruct argv as [|c0 [|a1 [|a2 [|a3 rest]]]]; try discriminate Hargv; injection Hargv as ->; rewrite Hc; cbn -[sview];
    try finish_same.
  - unfold arg; cbn -[sview]. view_cases s d a1 Hk.
    + use_get_values s d [a1]. cbn -[sview]. read_set Hk. finish_same.
    + use_get_values s d [a1]. cbn -[sview]. read_set Hk. finish_same.
    + finish_same.
  - unfold arg; cbn -[sview].
    destruct (adapt_int a2) as [n|]; cbn -[sview]; [|finish_same].
    view_cases s d a1 Hk.
    + use_get_values s d [a1]. cbn -[sview]. read_set Hk. finish_same.
    + use_get_values s d [a1]. cbn -[sview]. read_set Hk. finish_same.
    + finish_same.
Qed.

End handlers.

(** * The loops over several keys *)
Lemma sets_at_cons m key r :
  sets_at m (key :: r) = match set_at m key with Some x => x :: sets_at m r | None => sets_at m r end.
Proof. unfold sets_at. simpl. by destruct (set_at m key). Qed.

Lemma read_sets_skip_spec {R} ks : forall (k : list (gset string) -> prog R) s d,
  exists s', same_view s s' /\
    run_seq d (read_sets_skip ks k) s = run_seq d (k (sets_at (sview s d) ks)) s'.
Proof.
  induction ks as [|key r IH]; intros k s d.
  - exists s. split; [apply same_view_refl|done].
  - cbn [read_sets_skip run_seq]. use_get_values s d [key].
    rewrite Hf by set_solver. rewrite sets_at_cons. unfold set_at.
    destruct (sview s d !! key) as [[x|]|] eqn:Hk.
    + rewrite (live_sset _ _ _ _ Hk). cbn [as_set].
      destruct (IH (fun l => k (x :: l)) s1 d) as (s' & Hv' & Hrun).
      exists s'. split; [eapply same_view_trans; eauto|].
      rewrite Hrun. by rewrite (same_view_sview _ _ _ Hview).
    + destruct (live_sother _ _ _ Hk) as (v & -> & Hv). rewrite Hv.
      destruct (IH k s1 d) as (s' & Hv' & Hrun).
      exists s'. split; [eapply same_view_trans; eauto|].
      rewrite Hrun. by rewrite (same_view_sview _ _ _ Hview).
    + rewrite (live_snone _ _ _ Hk). cbn [as_set].
      destruct (IH k s1 d) as (s' & Hv' & Hrun).
      exists s'. split; [eapply same_view_trans; eauto|].
      rewrite Hrun. by rewrite (same_view_sview _ _ _ Hview).
Qed.

(** What [existingSets] returns, in view terms. *)
Definition scan (m : sspec) (ks : list string) : scan_result :=
  if any_other m ks then None else Some (sets_at m ks, any_absent m ks).

Lemma scan_cons m key r :
  scan m (key :: r) =
  match m !! key with
  | None => match scan m r with Some (l, _) => Some (l, true) | None => None end
  | Some (SSet x) => match scan m r with Some (l, mi) => Some (x :: l, mi) | None => None end
  | Some SOther => None
  end.
Proof.
  unfold scan, any_other, any_absent. rewrite sets_at_cons. cbn [existsb].
  unfold is_other, is_absent, set_at.
  destruct (m !! key) as [[x|]|]; cbn; try done; by destruct (existsb _ r).
Qed.

Lemma existing_sets_spec {R} ks : forall (k : scan_result -> prog R) ex s d,
  (forall key, key ∈ ks -> ex key = bool_decide (is_Some (sview s d !! key))) ->
  exists s', same_view s s' /\
    run_seq d (existing_sets ex ks k) s = run_seq d (k (scan (sview s d) ks)) s'.
Proof.
  induction ks as [|key r IH]; intros k ex s d Hex.
  - exists s. split; [apply same_view_refl|done].
  - cbn [existing_sets]. rewrite scan_cons. rewrite (Hex key) by set_solver.
    destruct (sview s d !! key) as [[x|]|] eqn:Hk; cbn [negb bool_decide decide_rel].
    + rewrite bool_decide_eq_true_2 by eauto. cbn [negb run_seq].
      use_get_values s d [key]. rewrite Hf by set_solver. rewrite (live_sset _ _ _ _ Hk). cbn [as_set].
      destruct (IH (fun res => k (match res with Some (l, mi) => Some (x :: l, mi) | None => None end)) ex s1 d) as (s' & Hv' & Hrun).
      { intros key' Hin. rewrite (same_view_sview _ _ _ Hview). apply Hex. set_solver. }
      exists s'. split; [eapply same_view_trans; eauto|].
      rewrite Hrun. by rewrite (same_view_sview _ _ _ Hview).
    + rewrite bool_decide_eq_true_2 by eauto. cbn [negb run_seq].
      use_get_values s d [key]. rewrite Hf by set_solver.
      destruct (live_sother _ _ _ Hk) as (v & -> & Hv). rewrite Hv.
      exists s1. split; [done|done].
    + rewrite bool_decide_eq_false_2 by (intros [? ?]; done). cbn [negb].
      destruct (IH (fun res => k (match res with Some (l, _) => Some (l, true) | None => None end)) ex s d) as (s' & Hv' & Hrun).
      { intros key' Hin. apply Hex. set_solver. }
      exists s'. split; [done|]. by rewrite Hrun.
Qed.

Lemma union_collect_spec m ex vals ks :
  (forall key, key ∈ ks -> ex key = bool_decide (is_Some (m !! key))) ->
  (forall key, key ∈ ks -> sclassify <$> vals key = m !! key) ->
  union_collect ex vals ks = if any_other m ks then None else Some (sets_at m ks).
Proof.
  induction ks as [|key r IH]; intros Hex Hvals; [done|].
  cbn [union_collect]. rewrite sets_at_cons. unfold any_other in *. cbn [existsb].
  rewrite (Hex key) by set_solver. pose proof (Hvals key ltac:(set_solver)) as Hv.
  rewrite IH; [|intros; apply Hex; set_solver|intros; apply Hvals; set_solver].
  unfold is_other, set_at. destruct (m !! key) as [[x|]|] eqn:Hk.
  - rewrite bool_decide_eq_true_2 by eauto. cbn [negb orb].
    destruct (vals key) as [[]|]; try discriminate Hv. injection Hv as ->. cbn [as_set].
    by destruct (existsb _ r).
  - rewrite bool_decide_eq_true_2 by eauto. cbn [negb orb].
    destruct (vals key) as [[]|]; try discriminate Hv; done.
  - rewrite bool_decide_eq_false_2 by (intros [? ?]; done). cbn [negb orb]. done.
Qed.

(** * Handlers over several keys *)
Ltac cbn_keep := cbn -[sview any_other any_absent union_at inter_at sets_at union_collect existing_sets
                       read_sets_skip sintercard_args sdiff_result].

Ltac use_existing_sets :=
  match goal with
  | |- context [run_seq ?d (existing_sets ?ex ?ks ?k) ?s] =>
      let s' := fresh "s'" in let Hv' := fresh "Hv'" in let Hrun := fresh "Hrun" in
      destruct (existing_sets_spec ks k ex s d) as (s' & Hv' & Hrun);
      [intros ? ?; apply keys_exist_in; assumption|rewrite Hrun; clear Hrun]
  end.

Ltac use_read_sets :=
  match goal with
  | |- context [run_seq ?d (read_sets_skip ?ks ?k) ?s] =>
      let s' := fresh "s'" in let Hv' := fresh "Hv'" in let Hrun := fresh "Hrun" in
      destruct (read_sets_skip_spec ks k s d) as (s' & Hv' & Hrun); rewrite Hrun; clear Hrun
  end.

Lemma cap_empty l : cap l (zsize ∅) = 0.
Proof.
  unfold cap, zsize. rewrite size_empty. change (Z.of_nat 0) with 0.
  destruct (0 <? l) eqn:A, (l <? 0) eqn:B; try done. lia.
Qed.

Section multi.
Context (pick : picker).

Lemma sunion_refines argv c : argv = c :: tl argv -> lower c = "sunion" -> refines1 pick handle_sunion argv.
Proof.
  intros Hargv Hc s d Hm. unfold spec_set, handle_sunion.
  destruct argv as [|c0 [|k ks]]; try discriminate Hargv; injection Hargv as ->; rewrite Hc; cbn_keep;
    try finish_same.
  use_get_values s d (k :: ks). cbn_keep.
  rewrite (union_collect_spec (sview s d)).
  2: { intros key Hin. by apply keys_exist_in. }
  2: { intros key Hin. rewrite Hf by done. by rewrite sview_lookup. }
  unfold union_at. destruct (any_other (sview s d) (k :: ks)); cbn_keep; finish_same.
Qed.

Lemma sunionstore_refines argv c :
  argv = c :: tl argv -> lower c = "sunionstore" -> refines1 pick handle_sunionstore argv.
Proof.
  intros Hargv Hc s d Hm. unfold spec_set, handle_sunionstore.
  destruct argv as [|c0 [|dst [|k ks]]]; try discriminate Hargv; injection Hargv as ->; rewrite Hc; cbn_keep;
    try finish_same.
  unfold arg; cbn_keep.
  use_get_values s d (k :: ks). cbn_keep.
  rewrite (union_collect_spec (sview s d)).
  2: { intros key Hin. by apply keys_exist_in. }
  2: { intros key Hin. rewrite Hf by done. by rewrite sview_lookup. }
  unfold union_at. destruct (any_other (sview s d) (k :: ks)); cbn_keep; [finish_same|].
  do_put1 s.
Qed.

Lemma sinter_refines argv c : argv = c :: tl argv -> lower c = "sinter" -> refines1 pick handle_sinter argv.
Proof.
  intros Hargv Hc s d Hm. unfold spec_set, handle_sinter.
  destruct argv as [|c0 [|k ks]]; try discriminate Hargv; injection Hargv as ->; rewrite Hc; cbn_keep;
    try finish_same.
  use_existing_sets. unfold scan, inter_at.
  destruct (any_other (sview s d) (k :: ks)); cbn_keep; [finish_same|].
  destruct (any_absent (sview s d) (k :: ks)); cbn_keep; finish_same.
Qed.

Lemma sintercard_refines argv c :
  argv = c :: tl argv -> lower c = "sintercard" -> refines1 pick handle_sintercard argv.
Proof.
  intros Hargv Hc s d Hm. unfold spec_set, handle_sintercard.
  destruct argv as [|c0 [|k ks]]; try discriminate Hargv; injection Hargv as ->; rewrite Hc; cbn_keep;
    try finish_same.
  destruct (sintercard_args (k :: ks)) as [[keys limit]|]; cbn_keep; [|finish_same].
  use_existing_sets. unfold scan, inter_at.
  destruct (any_other (sview s d) keys); cbn_keep; [finish_same|].
  destruct (any_absent (sview s d) keys); cbn_keep; [rewrite cap_empty|]; finish_same.
Qed.

Lemma sinterstore_refines argv c :
  argv = c :: tl argv -> lower c = "sinterstore" -> refines1 pick handle_sinterstore argv.
Proof.
  intros Hargv Hc s d Hm. unfold spec_set, handle_sinterstore.
  destruct argv as [|c0 [|dst [|k ks]]]; try discriminate Hargv; injection Hargv as ->; rewrite Hc; cbn_keep;
    try finish_same.
  unfold arg; cbn_keep.
  use_existing_sets. unfold scan, inter_at.
  destruct (any_other (sview s d) (k :: ks)); cbn_keep; [finish_same|].
  do_put1 s.
Qed.

Lemma sdiff_refines argv c : argv = c :: tl argv -> lower c = "sdiff" -> refines1 pick handle_sdiff argv.
Proof.
  intros Hargv Hc s d Hm. unfold spec_set, handle_sdiff.
  destruct argv as [|c0 [|base ks]]; try discriminate Hargv; injection Hargv as ->; rewrite Hc; cbn_keep;
    try finish_same.
  unfold arg, sdiff_result, set_at; cbn_keep. rewrite keys_exist_in by set_solver.
  destruct (sview s d !! base) as [[b|]|] eqn:Hk; cbn_keep.
  - use_get_values s d [base]. cbn_keep. read_set Hk. use_read_sets.
    rewrite (same_view_sview _ _ _ Hview). unfold union_at. cbn_keep.
    pose proof (same_view_trans _ _ _ Hview Hv') as Hvv. finish_same.
  - use_get_values s d [base]. cbn_keep. read_set Hk. finish_same.
  - finish_same.
Qed.

Lemma sdiffstore_refines argv c :
  argv = c :: tl argv -> lower c = "sdiffstore" -> refines1 pick handle_sdiffstore argv.
Proof.
  intros Hargv Hc s d Hm. unfold spec_set, handle_sdiffstore.
  destruct argv as [|c0 [|dst [|base ks]]]; try discriminate Hargv; injection Hargv as ->; rewrite Hc; cbn_keep;
    try finish_same.
  unfold arg, sdiff_result, set_at; cbn_keep. rewrite keys_exist_in by set_solver.
  destruct (sview s d !! base) as [[b|]|] eqn:Hk; cbn_keep.
  - use_get_values s d [base]. cbn_keep. read_set Hk. use_read_sets.
    rewrite (same_view_sview _ _ _ Hview). unfold union_at. cbn_keep.
    pose proof (same_view_trans _ _ _ Hview Hv') as Hvv. do_put1 s.
  - use_get_values s d [base]. cbn_keep. read_set Hk. finish_same.
  - finish_same.
Qed.

End multi.

Lemma smove_refines pick argv c : argv = c :: tl argv -> lower c = "smove" -> refines1 pick handle_smove argv.
Proof.
  intros Hargv Hc s d Hm. unfold spec_set, handle_smove.
  destruct argv as [|c0 [|src [|dst [|x [|a4 rest]]]]]; try discriminate Hargv; injection Hargv as ->; rewrite Hc; cbn -[sview];
    try finish_same.
  unfold arg, WriteBack; cbn -[sview]. rewrite !keys_exist_in by set_solver.
  destruct (sview s d !! src) as [[ss|]|] eqn:Hs; cbn -[sview]; [| |finish_same].
  2: { use_get_values s d [src; dst]. cbn -[sview]. rewrite (Hf src) by set_solver.
       destruct (live_sother _ _ _ Hs) as (v & -> & Hv). rewrite Hv. cbn -[sview]. finish_same. }
  use_get_values s d [src; dst]. cbn -[sview].
  rewrite (Hf src), (Hf dst) by set_solver. rewrite (live_sset _ _ _ _ Hs). cbn -[sview].
  destruct (sview s d !! dst) as [[ds|]|] eqn:Hd; cbn -[sview].
  - rewrite (live_sset _ _ _ _ Hd). cbn -[sview].
    destruct (mem_set x ss); cbn -[sview]; [|finish_same].
    destruct (set_values s1 d _) as [s2 ok] eqn:Hset.
    pose proof (put_two s s1 d _ _ _ _ s2 ok Hm Hview Hset) as (-> & Hlv & Hfr).
    cbn -[sview]. split; [reflexivity|split; [assumption|split; [assumption|intros ?; discriminate]]].
  - destruct (live_sother _ _ _ Hd) as (v & -> & Hv). rewrite Hv. cbn -[sview]. finish_same.
  - rewrite (live_snone _ _ _ Hd). cbn -[sview].
    destruct (mem_set x ss) eqn:Hx; cbn -[sview]; [|finish_same].
    destruct (set_values s1 d [(dst, VSet ∅)]) as [s2 ok] eqn:Hset1.
    pose proof (put_one s s1 d dst ∅ s2 ok Hm Hview Hset1) as (-> & Hlv1 & Hfr1).
    cbn -[sview]. rewrite ?Hx. cbn -[sview].
    assert (Hm2 : st_maxmem s2 = 0) by (destruct Hfr1 as (_ & _ & _ & -> & _); done).
    destruct (set_values s2 d _) as [s3 ok3] eqn:Hset2.
    pose proof (put_two s2 s2 d _ _ _ _ s3 ok3 Hm2 (same_view_refl s2) Hset2) as (-> & Hlv2 & Hfr2).
    cbn -[sview]. split; [reflexivity|split; [|split; [|intros ?; discriminate]]].
    + rewrite Hlv2, Hlv1.
      assert (Hne : src <> dst) by (intros ->; rewrite Hs in Hd; discriminate).
      rewrite (insert_commute _ src dst) by done. by rewrite insert_insert.
    + eapply set_frame_trans; eauto.
Qed.

(** * Any command word, any argument vector *)
Definition exec_set (pick : picker) (d : Z) (argv : list string) (s : state) : state * reply :=
  match argv with
  | [] => (s, RErr)
  | c :: _ => match set_handler pick (lower c) with
              | Some h => run_seq d (h argv) s
              | None => (s, RErr)
              end
  end.

Ltac solve_with lem name :=
  match goal with
  | E : lower _ = name, Ha : _ :: _ = _ :: tl _, Hm : st_maxmem _ = 0 |- _ =>
      exact (lem _ _ _ Ha E _ _ Hm)
  end.

(** One step, against the description of the code as it is ([spec_set true]). *)
Theorem set_step_refines_code pick argv s d :
  st_maxmem s = 0 ->
  let '(s', r) := exec_set pick d argv s in
  let '(m', r') := spec_set true pick (sview s d) argv in
  r = r' /\ sview s' d = m' /\ set_frame s s' d /\ (r = RErr -> same_view s s').
Proof.
  intros Hm. destruct argv as [|c args]; [cbn -[sview]; finish_same|].
  unfold exec_set, set_handler.
  assert (Hargv : c :: args = c :: tl (c :: args)) by done.
  repeat match goal with
  | |- context [if String.eqb (lower c) ?name then _ else _] =>
      let E := fresh "E" in destruct (String.eqb (lower c) name) eqn:E;
      [apply String.eqb_eq in E|]
  end.
  all: try solve_with sadd_refines "sadd".
  all: try solve_with scard_refines "scard".
  all: try solve_with sdiff_refines "sdiff".
  all: try solve_with sdiffstore_refines "sdiffstore".
  all: try solve_with sinter_refines "sinter".
  all: try solve_with sintercard_refines "sintercard".
  all: try solve_with sinterstore_refines "sinterstore".
  all: try solve_with sismember_refines "sismember".
  all: try solve_with smembers_refines "smembers".
  all: try solve_with smismember_refines "smismember".
  all: try solve_with smove_refines "smove".
  all: try solve_with spop_refines "spop".
  all: try solve_with srandmember_refines "srandmember".
  all: try solve_with srem_refines "srem".
  all: try solve_with sunion_refines "sunion".
  all: try solve_with sunionstore_refines "sunionstore".
  unfold spec_set.
  repeat match goal with H : String.eqb (lower c) _ = false |- _ => rewrite H; clear H end.
  cbn -[sview]. finish_same.
Qed.

(** * From the code's behaviour to the property reference *)

(** Outside the recorded SDIFF / SDIFFSTORE class the two references are the same function. *)
Lemma lenient_is_property pick m argv :
  kf_sdiff m argv = false -> spec_set true pick m argv = spec_set false pick m argv.
Proof.
  intros H. destruct argv as [|cmd args]; [done|]. unfold kf_sdiff in H. unfold spec_set.
  assert (Hres : forall base ks,
    match m !! base with
    | None => negb (any_other m ks)
    | Some (SSet _) => any_other m ks
    | Some SOther => false
    end = false -> sdiff_result true m base ks = sdiff_result false m base ks).
  { intros base ks Ht. unfold sdiff_result, diff_at, set_at, any_other in *. cbn [existsb].
    unfold is_other at 1. destruct (m !! base) as [[b|]|]; cbn in *.
    - by rewrite Ht.
    - done.
    - apply negb_false_iff in Ht. by rewrite Ht. }
  destruct (String.eqb (lower cmd) "sdiff") eqn:E1.
  { apply String.eqb_eq in E1. rewrite E1 in *. cbn in H. cbn -[sdiff_result].
    destruct args as [|base ks]; [done|]. by rewrite (Hres base ks H). }
  destruct (String.eqb (lower cmd) "sdiffstore") eqn:E2.
  { apply String.eqb_eq in E2. rewrite E2 in *. cbn in H. cbn -[sdiff_result].
    destruct args as [|dst [|base ks]]; [done|done|]. by rewrite (Hres base ks H). }
  reflexivity.
Qed.

(** One step against the property reference. *)
Theorem set_step_refines pick argv s d :
  st_maxmem s = 0 -> kf_sdiff (sview s d) argv = false ->
  let '(s', r) := exec_set pick d argv s in
  let '(m', r') := spec_set false pick (sview s d) argv in
  r = r' /\ sview s' d = m' /\ set_frame s s' d /\ (r = RErr -> same_view s s').
Proof.
  intros Hm Hkf. rewrite <- (lenient_is_property pick _ _ Hkf). by apply set_step_refines_code.
Qed.

(** * Whole scripts *)
Fixpoint run_set_cmds (pick : picker) (d : Z) (cmds : list (list string)) (s : state) : state * list reply :=
  match cmds with
  | [] => (s, [])
  | c :: r => let '(s1, x) := exec_set pick d c s in
              let '(s2, xs) := run_set_cmds pick d r s1 in (s2, x :: xs)
  end.

Theorem set_script_refines_code pick cmds : forall s d,
  st_maxmem s = 0 ->
  let '(s', rs) := run_set_cmds pick d cmds s in
  let '(m', rs') := spec_set_run true pick (sview s d) cmds in
  rs = rs' /\ sview s' d = m' /\ st_maxmem s' = 0.
Proof.
  induction cmds as [|c r IH]; intros s d Hm; cbn -[sview]; [done|].
  pose proof (set_step_refines_code pick c s d Hm) as H1.
  destruct (exec_set pick d c s) as [s1 x]. destruct (spec_set true pick (sview s d) c) as [m1 x'].
  destruct H1 as (-> & Hlv & Hfr & _).
  assert (Hm1 : st_maxmem s1 = 0) by (destruct Hfr as (_ & _ & _ & -> & _); done).
  specialize (IH s1 d Hm1). rewrite Hlv in IH.
  destruct (run_set_cmds pick d r s1) as [s2 xs]. destruct (spec_set_run true pick m1 r) as [m2 xs'].
  destruct IH as (-> & ? & ?). done.
Qed.

Theorem set_script_refines pick cmds : forall s d,
  st_maxmem s = 0 -> kf_free_run pick (sview s d) cmds = true ->
  let '(s', rs) := run_set_cmds pick d cmds s in
  let '(m', rs') := spec_set_run false pick (sview s d) cmds in
  rs = rs' /\ sview s' d = m' /\ st_maxmem s' = 0.
Proof.
  induction cmds as [|c r IH]; intros s d Hm Hkf; cbn -[sview]; [done|].
  cbn -[sview] in Hkf. apply andb_true_iff in Hkf as [Hk1 Hk2]. apply negb_true_iff in Hk1.
  pose proof (set_step_refines pick c s d Hm Hk1) as H1.
  destruct (exec_set pick d c s) as [s1 x]. destruct (spec_set false pick (sview s d) c) as [m1 x'].
  destruct H1 as (-> & Hlv & Hfr & _).
  assert (Hm1 : st_maxmem s1 = 0) by (destruct Hfr as (_ & _ & _ & -> & _); done).
  cbn [fst] in Hk2. rewrite <- Hlv in Hk2.
  specialize (IH s1 d Hm1 Hk2). rewrite Hlv in IH.
  destruct (run_set_cmds pick d r s1) as [s2 xs]. destruct (spec_set_run false pick m1 r) as [m2 xs'].
  destruct IH as (-> & ? & ?). done.
Qed.

(** A set command that fails changes nothing a client can observe, in any database (no guard: this
    also holds inside the SDIFF class). *)
Corollary set_error_changes_nothing pick argv s d :
  st_maxmem s = 0 -> snd (exec_set pick d argv s) = RErr -> same_view s (fst (exec_set pick d argv s)).
Proof.
  intros Hm. pose proof (set_step_refines_code pick argv s d Hm) as H.
  destruct (exec_set pick d argv s) as [s' r]. destruct (spec_set true pick (sview s d) argv) as [m' r'].
  simpl. intros Hr. destruct H as (_ & _ & _ & H). by apply H.
Qed.

Corollary set_step_frame pick argv s d :
  st_maxmem s = 0 -> set_frame s (fst (exec_set pick d argv s)) d.
Proof.
  intros Hm. pose proof (set_step_refines_code pick argv s d Hm) as H.
  destruct (exec_set pick d argv s) as [s' r]. destruct (spec_set true pick (sview s d) argv) as [m' r'].
  simpl. by destruct H as (_ & _ & H & _).
Qed.

(** * Purity of the read-only set commands (C13, set half): the whole view is unchanged, whatever the
    arguments, the types of the keys, and the random choices. *)
Definition set_read_only (name : string) : bool :=
  existsb (String.eqb name)
    ["scard"; "sdiff"; "sinter"; "sintercard"; "sismember"; "smembers"; "smismember"; "srandmember"; "sunion"].

Lemma spec_read_only lenient pick m c args :
  set_read_only (lower c) = true -> fst (spec_set lenient pick m (c :: args)) = m.
Proof.
  intros H. unfold set_read_only in H. cbn [existsb] in H.
  repeat (apply orb_true_iff in H as [H|H]); try discriminate H;
    apply String.eqb_eq in H; unfold spec_set; rewrite H; cbn -[sdiff_result sintercard_args any_other any_absent].
  - destruct args as [|k [|? ?]]; try done. by destruct (m !! k) as [[]|].
  - destruct args as [|base ks]; try done. by destruct (sdiff_result lenient m base ks).
  - destruct args as [|k ks]; try done. destruct (any_other m (k :: ks)); [done|]. by destruct (any_absent m (k :: ks)).
  - destruct args as [|k ks]; try done. destruct (sintercard_args (k :: ks)) as [[? ?]|]; try done.
    by destruct (any_other m l).
  - destruct args as [|k [|x [|? ?]]]; try done. by destruct (m !! k) as [[]|].
  - destruct args as [|k [|? ?]]; try done. by destruct (m !! k) as [[]|].
  - destruct args as [|k [|x xs]]; try done. by destruct (m !! k) as [[]|].
  - destruct args as [|k [|cs [|? ?]]]; try done.
    + by destruct (m !! k) as [[]|].
    + destruct (adapt_int cs); try done. by destruct (m !! k) as [[]|].
  - destruct args as [|k ks]; try done. by destruct (any_other m (k :: ks)).
Qed.

Theorem set_read_only_pure pick c args s d :
  st_maxmem s = 0 -> set_read_only (lower c) = true ->
  sview (fst (exec_set pick d (c :: args) s)) d = sview s d.
Proof.
  intros Hm Hro. pose proof (set_step_refines_code pick (c :: args) s d Hm) as H.
  pose proof (spec_read_only true pick (sview s d) c args Hro) as Hs.
  destruct (exec_set pick d (c :: args) s) as [s' r].
  destruct (spec_set true pick (sview s d) (c :: args)) as [m' r'].
  simpl in *. destruct H as (_ & -> & _). done.
Qed.

(** * Algebra corollaries on the reference (and hence on the handlers) *)
Lemma union_at_perm m ks ks' : ks ≡ₚ ks' -> union_at m ks = union_at m ks'.
Proof.
  intros Hp. unfold union_at, sets_at. apply set_eq. intros x.
  rewrite !elem_of_union_list. split; intros (X & HX & Hx); exists X; (split; [|done]).
  - apply elem_of_list_omap in HX as (k & Hk & Hs). apply elem_of_list_omap. exists k. split; [|done]. by rewrite <- Hp.
  - apply elem_of_list_omap in HX as (k & Hk & Hs). apply elem_of_list_omap. exists k. split; [|done]. by rewrite Hp.
Qed.

Lemma union_at_app m ks ks' : union_at m (ks ++ ks') = union_at m ks ∪ union_at m ks'.
Proof.
  unfold union_at, sets_at. rewrite omap_app. by rewrite union_list_app_L.
Qed.

Lemma union_at_idem m ks : union_at m (ks ++ ks) = union_at m ks.
Proof. rewrite union_at_app. set_solver. Qed.

Lemma diff_at_subseteq m base ks : diff_at m base ks ⊆ default ∅ (set_at m base).
Proof. unfold diff_at. set_solver. Qed.

Lemma diff_union_disjoint m base ks : diff_at m base ks ## union_at m ks.
Proof. unfold diff_at. set_solver. Qed.

(** * The oracle accepts every outcome of the reference under a valid selection function *)
Lemma hint_complete pick m argv :
  valid_pick pick ->
  let sel := match rand_request m argv with Some (s, n) => pick s n | None => [] end in
  spec_step_hint m argv sel = (spec_set false pick m argv, true).
Proof.
  intros Hvalid. unfold spec_step_hint, sel_ok.
  destruct (rand_request m argv) as [[s n]|] eqn:Hreq.
  - rewrite Hvalid.
    assert (spec_set false (fun _ _ => pick s n) m argv = spec_set false pick m argv) as ->; [|by destruct (spec_set _ _ _ _)].
    unfold rand_request in Hreq. destruct argv as [|cmd [|k rest]]; try discriminate Hreq.
    unfold spec_set.
    destruct (String.eqb (lower cmd) "spop") eqn:E1.
    { apply String.eqb_eq in E1. rewrite E1 in *. cbn in Hreq |- *. unfold set_at in Hreq.
      destruct rest as [|cs [|? ?]]; try (by destruct (m !! k) as [[]|]).
      - destruct (m !! k) as [[x|]|]; try discriminate Hreq. by injection Hreq as -> ->.
      - destruct (m !! k) as [[x|]|]; try discriminate Hreq.
        destruct (adapt_int cs); try discriminate Hreq. by injection Hreq as -> ->. }
    destruct (String.eqb (lower cmd) "srandmember") eqn:E2.
    { apply String.eqb_eq in E2. rewrite E2 in *. cbn in Hreq |- *. unfold set_at in Hreq.
      destruct rest as [|cs [|? ?]]; try (by destruct (m !! k) as [[]|]).
      - destruct (m !! k) as [[x|]|]; try discriminate Hreq. by injection Hreq as -> ->.
      - destruct (m !! k) as [[x|]|]; try discriminate Hreq.
        destruct (adapt_int cs); try discriminate Hreq. by injection Hreq as -> ->. }
    cbn in Hreq. discriminate Hreq.
  - assert (spec_set false (fun _ _ => []) m argv = spec_set false pick m argv) as ->; [|by destruct (spec_set _ _ _ _)].
    unfold rand_request in Hreq. destruct argv as [|cmd args]; [done|]. unfold spec_set.
    destruct (String.eqb (lower cmd) "spop") eqn:E1.
    { apply String.eqb_eq in E1. rewrite E1 in *. cbn in Hreq |- *. unfold set_at in Hreq.
      destruct args as [|k [|cs [|? ?]]]; try done.
      - by destruct (m !! k) as [[x|]|].
      - destruct (adapt_int cs); [|done]. by destruct (m !! k) as [[x|]|]. }
    destruct (String.eqb (lower cmd) "srandmember") eqn:E2.
    { apply String.eqb_eq in E2. rewrite E2 in *. cbn in Hreq |- *. unfold set_at in Hreq.
      destruct args as [|k [|cs [|? ?]]]; try done.
      - by destruct (m !! k) as [[x|]|].
      - destruct (adapt_int cs); [|done]. by destruct (m !! k) as [[x|]|]. }
    reflexivity.
Qed.

(** * The executable model's selection function is a valid one *)
Lemma insert_sorted_perm {A} (leb : A -> A -> bool) x l : insert_sorted leb x l ≡ₚ x :: l.
Proof.
  induction l as [|y l IH]; simpl; [done|]. destruct (leb x y); [done|].
  rewrite IH. apply Permutation_swap.
Qed.
Lemma sort_by_perm {A} (leb : A -> A -> bool) l : sort_by leb l ≡ₚ l.
Proof.
  induction l as [|y l IH]; simpl; [done|]. rewrite insert_sorted_perm. by rewrite IH.
Qed.

Lemma nodupb_spec l : base.NoDup l -> nodupb l = true.
Proof.
  induction 1 as [|x l Hx Hl IH]; simpl; [done|]. rewrite IH, andb_true_r.
  apply negb_true_iff. apply not_true_is_false. intros Hc. apply str_in_spec in Hc. done.
Qed.

Lemma sorted_elems_perm (s : gset string) : sorted_elems s ≡ₚ elements s.
Proof. apply sort_by_perm. Qed.
Lemma sorted_elems_in (s : gset string) x : x ∈ sorted_elems s <-> x ∈ s.
Proof. rewrite sorted_elems_perm. apply elem_of_elements. Qed.
Lemma sorted_elems_nodup (s : gset string) : base.NoDup (sorted_elems s).
Proof. rewrite sorted_elems_perm. apply NoDup_elements. Qed.
Lemma sorted_elems_length (s : gset string) : zlen (sorted_elems s) = zsize s.
Proof. unfold zlen, zsize, size, set_size. simpl. by rewrite sorted_elems_perm. Qed.

Lemma default_pick_valid : valid_pick default_pick.
Proof.
  intros s c. unfold allowed_sel, default_pick. apply andb_true_iff. split.
  - apply forallb_forall. intros x Hx. apply bool_decide_eq_true. apply elem_of_list_In in Hx.
    destruct (0 <=? c).
    + apply sorted_elems_in. unfold zfirstn in Hx. eapply elem_of_list_lookup in Hx as [i Hi].
      apply lookup_take_Some in Hi as [Hi _]. by eapply elem_of_list_lookup_2.
    + destruct (sorted_elems s) as [|y l] eqn:E; [by apply elem_of_nil in Hx|].
      apply elem_of_list_In, repeat_spec in Hx. subst. apply sorted_elems_in. rewrite E. left.
  - destruct (c =? 0) eqn:E0.
    + apply Z.eqb_eq in E0. subst. by apply bool_decide_eq_true.
    + apply Z.eqb_neq in E0. destruct (0 <? c) eqn:Ep.
      * apply Z.ltb_lt in Ep. replace (0 <=? c) with true by (symmetry; apply Z.leb_le; lia).
        apply andb_true_iff. split.
        -- apply nodupb_spec. unfold zfirstn. pose proof (sorted_elems_nodup s) as Hnd.
           rewrite <- (take_drop (Z.to_nat c) (sorted_elems s)) in Hnd. by apply NoDup_app in Hnd as [? _].
        -- apply Z.eqb_eq. unfold zfirstn, zlen. rewrite take_length.
           pose proof (sorted_elems_length s) as Hl. unfold zlen in Hl. lia.
      * apply Z.ltb_ge in Ep. replace (0 <=? c) with false by (symmetry; apply Z.leb_gt; lia).
        destruct (bool_decide (s = ∅)) eqn:Es.
        -- apply bool_decide_eq_true in Es. subst. apply bool_decide_eq_true.
           destruct (sorted_elems ∅) as [|y l] eqn:E; [done|]. exfalso.
           assert (Hy : y ∈ sorted_elems ∅) by (rewrite E; left).
           apply sorted_elems_in in Hy. set_solver.
        -- apply bool_decide_eq_false in Es. destruct (sorted_elems s) as [|y l] eqn:E.
           ++ exfalso. apply Es. apply set_eq. intros x. rewrite <- sorted_elems_in, E. set_solver.
           ++ apply Z.eqb_eq. unfold zlen. rewrite repeat_length. lia.
Qed.
