(** C06, key coverage: the theorem for every handler of [handler_of], its semantic reading, the
    FLUSHDB / FLUSHALL findings, and the corollary that ties it to the authorization gate. *)
From stdpp Require Import gmap strings.
From EV Require Import Base.Str Model.Value Model.Adapt Model.Keyspace Model.Reply Model.Prog Model.Dispatch.
From EV Require Import Model.CmdList Model.CmdGeneric Model.CmdString Model.CmdHash Model.CmdSet Model.CmdZSet.
From EV Require Import Model.TableTypes Model.KeyFuncs Model.Acl Model.AclWorld Gen.CmdTable.
From EV Require Import Proofs.KeyspaceLemmas Proofs.ProgLemmas Proofs.DispatchLemmas.
From EV Require Import Proofs.KeyCover Proofs.KeyCoverCmds Proofs.KeyCoverZSet.
Local Open Scope string_scope.
Local Open Scope list_scope.

(** * Every handler *)
Theorem keys_cover_kx name h argv :
  handler_of name = Some h -> lower (arg argv 0) = name -> keyless_scan name = false ->
  kx_within (key_extract name "" argv) (h argv).
Proof.
  rewrite handler_of_unfold. intros Hh Hn Hf.
  destruct (list_handler name) eqn:E1; [injection Hh as <-; by eapply kc_list|].
  destruct (hash_handler name) eqn:E2; [injection Hh as <-; by eapply kc_hash|].
  destruct (set_handler default_pick name) eqn:E3; [injection Hh as <-; by eapply kc_set|].
  destruct (zset_handler name) eqn:E4; [injection Hh as <-; by eapply kc_zset|].
  destruct (generic_handler name) eqn:E5; [injection Hh as <-; eapply kc_generic; [done|by apply keyless_scan_flush]|].
  destruct (string_handler name) eqn:E6; [injection Hh as <-; by eapply kc_string|].
  destruct (CmdZRand.zrand_handler CmdZRand.default_zpick name) eqn:E7; [injection Hh as <-; by eapply kc_zrand|].
  by eapply kc_keyspace.
Qed.

(** The key function succeeds: every key read is among the reported read or write keys, every key
    written (value, deadline, deletion) is among the reported write keys. *)
Theorem keys_cover name h argv ch rd wr :
  handler_of name = Some h -> lower (arg argv 0) = name -> keyless_scan name = false ->
  key_extract name "" argv = KxOk ch rd wr ->
  within_l (rd ++ wr) wr (h argv).
Proof. intros Hh Hn Hf Hk. pose proof (keys_cover_kx name h argv Hh Hn Hf) as H. by rewrite Hk in H. Qed.

(** The key function fails (wrong arity): the handler touches no key. *)
Theorem keys_cover_error name h argv :
  handler_of name = Some h -> lower (arg argv 0) = name -> keyless_scan name = false ->
  key_extract name "" argv = KxErr ->
  within nokey nokey (h argv).
Proof. intros Hh Hn Hf Hk. pose proof (keys_cover_kx name h argv Hh Hn Hf) as H. by rewrite Hk in H. Qed.

(** The key function of a modelled command is total: it answers with keys or with an error. *)
Theorem keys_cover_total name h argv :
  handler_of name = Some h -> lower (arg argv 0) = name -> keyless_scan name = false ->
  (exists ch rd wr, key_extract name "" argv = KxOk ch rd wr) \/ key_extract name "" argv = KxErr.
Proof.
  intros Hh Hn Hf. pose proof (keys_cover_kx name h argv Hh Hn Hf) as H.
  destruct (key_extract name "" argv); [left; eauto|by right|done|done].
Qed.

(** * Semantic reading *)
Local Open Scope Z_scope.
Local Open Scope list_scope.

(** Only reported write keys of the selected database change; nothing changes on an arity error. *)
Theorem keys_cover_effect name h argv d s :
  handler_of name = Some h -> lower (arg argv 0) = name -> keyless_scan name = false ->
  st_maxmem s = 0 ->
  forall d' k, lentry (fst (run_seq d (h argv) s)) d' k <> lentry s d' k ->
    d' = d /\ exists ch rd wr, key_extract name "" argv = KxOk ch rd wr /\ k ∈ wr.
Proof.
  intros Hh Hn Hf Hm d' k Hne.
  destruct (keys_cover_total name h argv Hh Hn Hf) as [(ch & rd & wr & Hk)|Hk].
  - pose proof (keys_cover name h argv ch rd wr Hh Hn Hf Hk) as Hw.
    destruct (within_writes_only _ _ _ Hw d s Hm) as (Hl & _).
    destruct (decide (d' = d)) as [->|Hd]; [|exfalso; apply Hne, Hl; by left].
    split; [done|]. exists ch, rd, wr. split; [done|].
    destruct (decide (k ∈ wr)); [done|]. exfalso. apply Hne, Hl. by right.
  - pose proof (keys_cover_error name h argv Hh Hn Hf Hk) as Hw.
    destruct (within_writes_only _ _ _ Hw d s Hm) as (Hl & _).
    exfalso. apply Hne, Hl. right. intros [].
Qed.

(** The reply does not depend on any key outside the reported keys, nor on another database: two
    states that agree on the reported keys of the selected database give the same reply and agree on
    those keys afterwards.  Uses [functional_extensionality] (through [within_frame]). *)
Theorem keys_cover_reply name h argv ch rd wr d s1 s2 :
  handler_of name = Some h -> lower (arg argv 0) = name -> keyless_scan name = false ->
  key_extract name "" argv = KxOk ch rd wr ->
  keys_agree (fun k => k ∈ rd ++ wr) d s1 s2 -> st_maxmem s1 = 0 ->
  snd (run_seq d (h argv) s1) = snd (run_seq d (h argv) s2) /\
  keys_agree (fun k => k ∈ rd ++ wr) d (fst (run_seq d (h argv) s1)) (fst (run_seq d (h argv) s2)).
Proof.
  intros Hh Hn Hf Hk Ha Hm. pose proof (keys_cover name h argv ch rd wr Hh Hn Hf Hk) as Hw.
  destruct (within_frame _ _ _ Hw (fun k Hk => proj2 (elem_of_app rd wr k) (or_intror Hk)) d s1 s2 Ha Hm) as (H1 & H2 & _).
  done.
Qed.

(** * Findings: FLUSHDB and FLUSHALL report no key and touch every key *)
Theorem flush_keys_cover_refuted :
  forall name, name = "flushdb" \/ name = "flushall" ->
  exists h argv, handler_of name = Some h /\ lower (arg argv 0) = name /\
    key_extract name "" argv = KxOk [] [] [] /\ ~ within_l ([] ++ []) [] (h argv).
Proof.
  intros name [->| ->].
  - exists handle_flush, ["flushdb"]. repeat split; try reflexivity. apply flushdb_not_within.
  - exists handle_flush, ["FLUSHALL"]. repeat split; try reflexivity. apply flushall_not_within.
Qed.

(** * Finding: RANDOMKEY reports no key and its reply depends on every key of the database.  For every
    random source that proposes a key at all the handler passes that key to [KeysExist]; observably: the
    reply tells whether a key the command does not name exists. *)
Theorem randomkey_keys_cover_refuted :
  forall k cands, exists argv,
    lower (arg argv 0) = "randomkey" /\ key_extract "randomkey" "" argv = KxOk [] [] [] /\
    ~ within_l ([] ++ []) [] (CmdKeyspace.handle_randomkey (k :: cands) argv).
Proof.
  intros k cands. exists ["RANDOMKEY"]. repeat split; try reflexivity.
  unfold CmdKeyspace.handle_randomkey. cbn [length Nat.eqb negb]. intros H. inversion H as [|ks kk Hks| | | | | | |]; subst.
  apply list.Forall_cons in Hks as [Hk _]. by apply elem_of_nil in Hk.
Qed.

(** ... observably: a key the command does not name is gone afterwards. *)
Definition flush_witness_state : state := fst (set_values (init_state 0) 0 [("k"%string, VScal (SStr "v"))]).
Theorem flush_effect_refuted :
  is_Some (lentry flush_witness_state 0 "k") /\
  lentry (fst (run_seq 0 (handle_flush ["flushdb"%string]) flush_witness_state)) 0 "k" = None /\
  lentry (fst (run_seq 1 (handle_flush ["flushall"%string]) flush_witness_state)) 0 "k" = None.
Proof. vm_compute. split; [by eexists|done]. Qed.

Theorem randomkey_effect_refuted :
  snd (run_seq 0 (CmdKeyspace.handle_randomkey ["k"%string] ["randomkey"%string]) flush_witness_state) = RBulk "k" /\
  snd (run_seq 0 (CmdKeyspace.handle_randomkey ["k"%string] ["randomkey"%string]) (init_state 0)) = RBulk "".
Proof. vm_compute. done. Qed.

(** * The gate *)
Local Open Scope string_scope.
Local Open Scope list_scope.

(** Obligations over the regenerated command table: a modelled data command is neither exempt from
    the gate nor in the pubsub category (for which the gate checks channels instead of keys), and
    command names are lower-case. *)
Definition modelled_name (name : string) : bool := match handler_of name with Some _ => true | None => false end.
Lemma modelled_rows_gated :
  forallb (fun r => negb (String.eqb (cr_sub r) "") || negb (modelled_name (cr_name r))
                    || (negb (exempt_comm (cr_name r)) && negb (mem "pubsub" (cr_cats r))
                        && String.eqb (lower (cr_name r)) (cr_name r))) cmd_table = true.
Proof. vm_compute. reflexivity. Qed.

Lemma find_cmd_row w p :
  find_cmd w = Some p -> In p cmd_table /\ cr_sub p = "" /\ lower (cr_name p) = lower w.
Proof.
  unfold find_cmd. intros H. apply find_some in H as [Hin H]. apply andb_prop in H as [H1 H2].
  apply String.eqb_eq in H1. unfold eq_fold in H2. apply String.eqb_eq in H2. done.
Qed.

Section Gate.
  Variable glob_match : string -> string -> bool.

  Definition may_read (u : user) (k : string) : Prop :=
    any_glob glob_match (u_rkeys u) k = true \/ any_glob glob_match (u_wkeys u) k = true.
  Definition may_write (u : user) (k : string) : Prop := any_glob glob_match (u_wkeys u) k = true.

  (** A data command that the gate lets through on an authenticated connection (authentication
      required) passes only keys matched by the user's read or write patterns to the reading
      primitives, and only keys matched by the user's write patterns to the writing primitives. *)
  Theorem gate_keys_cover a c argv p h :
    lookup_cmd argv = LCmd p None -> handler_of (cr_name p) = Some h -> keyless_scan (cr_name p) = false ->
    a_require a = true -> authorize glob_match a c p None argv = true ->
    exists r, a_conns a !! c = Some r /\ c_auth r = true /\
      within (may_read (deref a (c_user r))) (may_write (deref a (c_user r))) (h argv).
  Proof.
    intros Hl Hh Hf Hreq Hauth.
    assert (Hrow : In p cmd_table /\ cr_sub p = "" /\ lower (cr_name p) = lower (arg argv 0)).
    { unfold lookup_cmd in Hl. destruct argv as [|w rest]; [discriminate|].
      destruct (find_cmd w) as [p'|] eqn:Hfc; [|discriminate].
      assert (p' = p) as ->.
      { destruct (cr_has_sub p'); [destruct rest; [|destruct (find_sub p' _)]|]; congruence. }
      by apply find_cmd_row. }
    destruct Hrow as (Hin & Hsub & Hlow).
    pose proof modelled_rows_gated as Hg. rewrite forallb_forall in Hg. specialize (Hg p Hin).
    rewrite Hsub in Hg. unfold modelled_name in Hg. rewrite Hh in Hg. cbn [String.eqb negb orb] in Hg.
    apply andb_prop in Hg as [Hg Hlc]. apply andb_prop in Hg as [Hex Hps].
    apply negb_true_iff in Hex. apply negb_true_iff in Hps. apply String.eqb_eq in Hlc.
    assert (Hn : lower (arg argv 0) = cr_name p) by congruence.
    pose proof (keys_cover_kx (cr_name p) h argv Hh Hn Hf) as Hkx.
    unfold authorize in Hauth.
    destruct (key_extract (cr_name p) "" argv) as [ch rd wr| | |]; try discriminate.
    rewrite Hex, Hreq in Hauth. cbn [negb] in Hauth.
    destruct (a_conns a !! c) as [r|]; [|discriminate]. exists r. split; [done|].
    apply andb_prop in Hauth as [Hca Hua]. split; [done|].
    unfold user_allows in Hua. rewrite Hps in Hua.
    repeat (apply andb_prop in Hua as [Hua ?]).
    cbn [kx_within] in Hkx. unfold within_l in Hkx.
    destruct (rd ++ wr) as [|k0 l0] eqn:Hrw.
    - apply app_eq_nil in Hrw as [-> ->]. eapply within_mono; [| |exact Hkx]; intros k Hk; by apply elem_of_nil in Hk.
    - rewrite <- Hrw in Hkx.
      match goal with H : _ && _ && _ = true |- _ => apply andb_prop in H as [H Hw]; apply andb_prop in H as [_ Hr] end.
      rewrite forallb_forall in Hr, Hw.
      eapply within_mono; [| |exact Hkx]; unfold may_read, may_write.
      + intros k Hk. apply elem_of_app in Hk as [Hk|Hk]; [left; apply Hr|right; apply Hw]; by apply elem_of_list_In.
      + intros k Hk. apply Hw. by apply elem_of_list_In.
  Qed.

  (** ... hence, on every state without a memory limit: a key whose visible entry (value or deadline)
      differs after the command is a key of the connection's database matched by a write pattern of
      the user, and the reply does not depend on any key the user may neither read nor write. *)
  Theorem gate_effect_permitted a c argv p h d s :
    lookup_cmd argv = LCmd p None -> handler_of (cr_name p) = Some h -> keyless_scan (cr_name p) = false ->
    a_require a = true -> authorize glob_match a c p None argv = true -> st_maxmem s = 0%Z ->
    exists r, a_conns a !! c = Some r /\ c_auth r = true /\
      (forall d' k, lentry (fst (run_seq d (h argv) s)) d' k <> lentry s d' k ->
         d' = d /\ may_write (deref a (c_user r)) k) /\
      (forall s2, keys_agree (may_read (deref a (c_user r))) d s s2 ->
         snd (run_seq d (h argv) s) = snd (run_seq d (h argv) s2)).
  Proof.
    intros Hl Hh Hf Hreq Hauth Hm.
    destruct (gate_keys_cover a c argv p h Hl Hh Hf Hreq Hauth) as (r & Hr & Hca & Hw).
    exists r. repeat split; try done.
    - destruct (within_writes_only _ _ _ Hw d s Hm) as (Hle & _).
      destruct (decide (d' = d)) as [->|Hd]; [done|]. exfalso. apply H, Hle. by left.
    - destruct (within_writes_only _ _ _ Hw d s Hm) as (Hle & _).
      unfold may_write. destruct (any_glob glob_match (u_wkeys (deref a (c_user r))) k) eqn:Hk; [done|].
      exfalso. apply H, Hle. right. unfold may_write. by rewrite Hk.
    - intros s2 Ha. eapply within_reply_independent; [exact Hw| |exact Ha|exact Hm].
      intros k Hk. by right.
  Qed.
End Gate.
