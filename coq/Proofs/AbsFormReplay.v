(** What the absolute form buys: replay does not depend on the clock of whoever replays.

    - [relative_entry_not_det]: an EXPIRE / PEXPIRE entry never passes the check [entry_det_b T];
    - [absolute_form_replay_stable]: the absolute form of a command with a relative expiry passes it
      whenever the deadline the command denotes at the clock of the rewrite is at or after the horizon
      [T] ([abs_horizon]); by [entry_det_b_sound] it is then [replica_det T]: any node (any replaying
      process) whose clock has not passed [T] computes the same dataset from it;
    - [leader_log_agree]: replicas fed the log the leader builds (every command through [absolute_form] at
      the leader's clock) agree; [leader_entry_is_what_was_asked]: applied when the clock shows the
      reading of the rewrite, the entry does what the client's command does;
    - [restart_abs] / [clean_restart_abs]: a standalone history with relative expiries and a clock that
      moves between the writes, logged through [absolute_form], restores — at any later clock — to the
      dataset the writes built.

    Still excluded, and necessarily so: randomised commands (SPOP: [entry_det_b] is false, finding
    KF-C07-commands-not-effects) and a deadline that falls due between the write and the replay (the
    horizon hypothesis; finding KF-C07-deadline-passes-during-replication). *)
From stdpp Require Import gmap strings.
From Coq Require Import Lia ZifyBool.
From RecordUpdate Require Import RecordSet.
Import RecordSetNotations.
From EV Require Import Base.Str Model.Value Model.Adapt Model.Keyspace Model.Reply Model.Prog Model.AbsForm.
From EV Require Import Model.CmdGeneric Model.CmdSet Model.Dispatch Model.Raft Model.Resp Model.Disk Model.Aof.
From EV Require Import Spec.SpecDurable.
From EV Require Import Proofs.KeyspaceLemmas Proofs.ProgLemmas Proofs.DispatchLemmas Proofs.DbLemmas.
From EV Require Import Proofs.RaftLemmas Proofs.RaftDet Proofs.RaftClasses Proofs.RaftProofs.
From EV Require Import Proofs.RespProofs Proofs.AofProofs Proofs.AbsFormProofs.
Local Open Scope Z_scope.

(** * The check on entries *)
Theorem relative_entry_not_det T d c rest :
  String.eqb (lower c) "expire" || String.eqb (lower c) "pexpire" = true ->
  entry_det_b T (ReqCommand d (c :: rest)) = false.
Proof.
  intros H. unfold entry_det_b. cbv zeta. destruct (eqb_or_cases _ _ _ H) as [-> | ->]; reflexivity.
Qed.

(** Every expiry option of a SET option list denotes, at clock [now], a deadline at or after [T]. *)
Fixpoint set_horizon (T now : Z) (l : list string) : bool :=
  match l with
  | [] => true
  | w :: r =>
      let lw := lower w in
      let timed (f : string -> option Z) :=
        match r with
        | v :: r' => match f v with Some t => (T <=? t) && set_horizon T now r' | None => set_horizon T now r' end
        | [] => true
        end in
      if String.eqb lw "ex" then timed (fun v => abs_ms v false now)
      else if String.eqb lw "px" then timed (fun v => abs_ms v true now)
      else if String.eqb lw "exat" then timed (fun v => match parse_int v with Some n => Some (n * 1000) | None => None end)
      else if String.eqb lw "pxat" then timed parse_int
      else set_horizon T now r
  end.

Lemma set_args_abs_rewritten T now : forall n rest ex dl opts ch, (length rest <= n)%nat ->
  abs_set_opts now rest ex dl = Some (opts, ch) -> set_horizon T now rest = true -> set_args_abs T opts = true.
Proof.
  induction n as [|n IH]; intros rest ex dl opts ch Hlen Habs Hh.
  { destruct rest; [by injection Habs as <- _|simpl in Hlen; lia]. }
  destruct rest as [|w rest]; [by injection Habs as <- _|].
  cbn [abs_set_opts] in Habs. cbv zeta in Habs. cbn [length] in Hlen.
  cbn [set_horizon] in Hh. cbv zeta in Hh.
  destruct (String.eqb (lower w) "get") eqn:Eget.
  { destruct (abs_set_opts now rest ex dl) as [[r c']|] eqn:Er; [|done]. injection Habs as <- <-.
    apply String.eqb_eq in Eget. cbn [set_args_abs]. cbv zeta. rewrite Eget in Hh |- *.
    change (String.eqb "get" "ex") with false in *. change (String.eqb "get" "px") with false in *.
    change (String.eqb "get" "exat") with false in *. change (String.eqb "get" "pxat") with false in *.
    cbn [orb]. cbv iota in Hh |- *. eapply IH; [|exact Er|exact Hh]. lia. }
  destruct (String.eqb (lower w) "nx" || String.eqb (lower w) "xx") eqn:Enx.
  { destruct ex; [done|]. destruct (abs_set_opts now rest true dl) as [[r c']|] eqn:Er; [|done].
    injection Habs as <- <-. cbn [set_args_abs]. cbv zeta.
    destruct (eqb_or_cases _ _ _ Enx) as [E|E]; rewrite E in Hh |- *.
    - change (String.eqb "nx" "ex") with false in *. change (String.eqb "nx" "px") with false in *.
      change (String.eqb "nx" "exat") with false in *. change (String.eqb "nx" "pxat") with false in *.
      cbn [orb]. cbv iota in Hh |- *. eapply IH; [|exact Er|exact Hh]. lia.
    - change (String.eqb "xx" "ex") with false in *. change (String.eqb "xx" "px") with false in *.
      change (String.eqb "xx" "exat") with false in *. change (String.eqb "xx" "pxat") with false in *.
      cbn [orb]. cbv iota in Hh |- *. eapply IH; [|exact Er|exact Hh]. lia. }
  destruct (String.eqb (lower w) "ex" || String.eqb (lower w) "px") eqn:Eex.
  { destruct rest as [|v rest']; [done|]. destruct dl; [done|].
    destruct (abs_ms v (String.eqb (lower w) "px") now) as [t|] eqn:Ems; [|done].
    destruct (abs_set_opts now rest' ex true) as [[r c']|] eqn:Er; [|done]. injection Habs as <- <-.
    destruct (abs_ms_some _ _ _ _ Ems) as (n0 & _ & _ & H64).
    assert (Hh' : (T <=? t) && set_horizon T now rest' = true).
    { destruct (eqb_or_cases _ _ _ Eex) as [E|E]; rewrite E in Hh, Ems.
      - change (String.eqb "ex" "ex") with true in Hh. change (String.eqb "ex" "px") with false in Ems.
        cbv iota in Hh. by rewrite Ems in Hh.
      - change (String.eqb "px" "ex") with false in Hh. change (String.eqb "px" "px") with true in Hh, Ems.
        cbv iota in Hh. by rewrite Ems in Hh. }
    apply andb_true_iff in Hh' as [Ht Hr].
    cbn [set_args_abs]. cbv zeta. change (lower "PXAT") with "pxat".
    change (String.eqb "pxat" "ex" || String.eqb "pxat" "px") with false.
    change (String.eqb "pxat" "exat") with false. change (String.eqb "pxat" "pxat") with true. cbv iota.
    rewrite (parse_int_show t H64), Ht. cbn [andb]. cbn [length] in Hlen. eapply IH; [|exact Er|exact Hr]. lia. }
  destruct (String.eqb (lower w) "exat" || String.eqb (lower w) "pxat") eqn:Eat; [|done].
  destruct rest as [|v rest']; [done|]. destruct dl; [done|].
  destruct (parse_int v) as [n0|] eqn:Hn; [|done].
  destruct (abs_set_opts now rest' ex true) as [[r c']|] eqn:Er; [|done]. injection Habs as <- <-.
  apply orb_false_iff in Eex as [Eex Epx]. rewrite Eex, Epx in Hh.
  cbn [set_args_abs]. cbv zeta. rewrite Eex, Epx. cbn [orb]. cbv iota. cbn [length] in Hlen.
  destruct (String.eqb (lower w) "exat").
  { rewrite Hn. apply andb_true_iff in Hh as [-> Hr]. cbn [andb]. eapply IH; [|exact Er|exact Hr]. lia. }
  destruct (String.eqb (lower w) "pxat"); [|done].
  rewrite Hn. apply andb_true_iff in Hh as [-> Hr]. cbn [andb]. eapply IH; [|exact Er|exact Hr]. lia.
Qed.

(** The deadline a command with a relative expiry denotes at clock [now] is at or after [T]. *)
Definition abs_horizon (T now : Z) (argv : list string) : bool :=
  match argv with
  | c :: k :: v :: rest =>
      let name := lower c in
      if String.eqb name "expire" || String.eqb name "pexpire" then
        match abs_ms v (String.eqb name "pexpire") now with Some t => T <=? t | None => false end
      else if String.eqb name "getex" then
        match rest with
        | [n] => match abs_ms n (String.eqb (upper v) "PX") now with Some t => T <=? t | None => false end
        | _ => false
        end
      else if String.eqb name "set" then set_horizon T now rest
      else false
  | _ => false
  end.

Theorem absolute_form_replay_stable T now d argv :
  absolute_form now argv <> argv -> abs_horizon T now argv = true ->
  entry_det_b T (ReqCommand d (absolute_form now argv)) = true.
Proof.
  destruct argv as [|c [|k [|v rest]]]; try done.
  unfold absolute_form, abs_horizon. cbv zeta.
  destruct (String.eqb (lower c) "expire" || String.eqb (lower c) "pexpire") eqn:Eexp.
  { destruct (match rest with [] => true | [o] => expire_opt_known o | _ :: _ :: _ => false end); [|done].
    destruct (abs_ms v (String.eqb (lower c) "pexpire") now) as [t|] eqn:Ems; [|done]. intros _ Ht.
    destruct (abs_ms_some _ _ _ _ Ems) as (n & _ & _ & H64).
    unfold entry_det_b. cbv zeta. change (lower "PEXPIREAT") with "pexpireat".
    change (String.eqb "pexpireat" "set") with false. change (String.eqb "pexpireat" "getex") with false.
    change (String.eqb "pexpireat" "expireat" || String.eqb "pexpireat" "pexpireat") with true. cbv iota.
    unfold expireat_abs. cbn [arg nth]. rewrite (parse_int_show t H64).
    change (String.eqb (lower "PEXPIREAT") "pexpireat") with true. cbv iota. exact Ht. }
  destruct (String.eqb (lower c) "getex") eqn:Egetex.
  { destruct rest as [|n [|? ?]]; try done.
    destruct (String.eqb (upper v) "EX" || String.eqb (upper v) "PX"); [|done].
    destruct (abs_ms n (String.eqb (upper v) "PX") now) as [t|] eqn:Ems; [|done]. intros _ Ht.
    destruct (abs_ms_some _ _ _ _ Ems) as (n0 & _ & _ & H64).
    apply String.eqb_eq in Egetex.
    unfold entry_det_b. cbv zeta. rewrite Egetex.
    change (String.eqb "getex" "set") with false. change (String.eqb "getex" "getex") with true. cbv iota.
    unfold getex_abs. cbn [arg nth]. cbv zeta. change (upper "PXAT") with "PXAT".
    change (String.eqb "PXAT" "EX" || String.eqb "PXAT" "PX") with false.
    change (String.eqb "PXAT" "EXAT") with false. change (String.eqb "PXAT" "PXAT") with true. cbv iota.
    by rewrite (parse_int_show t H64). }
  destruct (String.eqb (lower c) "set") eqn:Eset; [|done].
  destruct (4 <? length rest)%nat; [done|].
  destruct (abs_set_opts now rest false false) as [[opts [|]]|] eqn:Eopts; try done. intros _ Hh.
  apply String.eqb_eq in Eset.
  unfold entry_det_b. cbv zeta. rewrite Eset. change (String.eqb "set" "set") with true. cbv iota.
  change (skipn 3 (c :: k :: v :: opts)) with opts.
  by eapply (set_args_abs_rewritten T now _ rest false false opts true (le_n _)).
Qed.

(** * Cluster: the log the leader builds *)
(** The client's commands in the order the leader proposes them, each with the leader's clock at that
    moment and the client's database. *)
Definition tcmd := (Z * Z * list string)%type.
Definition leader_log (cmds : list tcmd) : list request :=
  map (fun '(t, d, argv) => ReqCommand d (absolute_form t argv)) cmds.

Theorem leader_log_agree T cmds clk1 clk2 pk1 pk2 s :
  Forall (fun e => entry_det_b T e = true) (leader_log cmds) ->
  dl_ge T s -> st_now s <= T -> (forall j, clk1 j <= T) -> (forall j, clk2 j <= T) ->
  dataset (apply_all clk1 pk1 s (leader_log cmds)) = dataset (apply_all clk2 pk2 s (leader_log cmds)).
Proof.
  intros HL. apply replicas_agree. eapply List.Forall_impl; [|exact HL]. intros e. apply entry_det_b_sound.
Qed.

(** The entry, applied when the clock shows the reading it was built from, does what the client asked:
    same state, same response — whatever the command. *)
Theorem leader_entry_is_what_was_asked pk s t d argv :
  fsm_apply pk (at_time s t) (ReqCommand d (absolute_form t argv)) = fsm_apply pk (at_time s t) (ReqCommand d argv).
Proof. exact (absolute_form_same_effect_fsm pk (at_time s t) d argv). Qed.

(** * Standalone: log and restart *)
(** Below the horizon the standalone interpreter and the cluster interpreter coincide (nothing has
    expired, so no read removes anything). *)
Lemma tfree_run_seq_cl {R} T (p : prog R) : tfree T p ->
  forall d s, dl_ge T s -> st_now s <= T -> run_seq d p s = run_cl d p s.
Proof.
  induction 1 as [r|ks k _ IH|key k _ IH|ks k _ IH|kvs k _ IH|key t touch k Ht _ IH|key k _ IH
                 |k Heq _ IH|k _ IH|k _ IH|k _ IH]; intros d s H Hs; cbn [run_seq run_cl]; auto.
  - apply IH; [by apply get_expiry_dl_ok|done..].
  - pose proof (get_values_noexp T s d ks H Hs) as E. destruct (get_values s d ks) as [s' f]. simpl in *. subst s'.
    by apply IH.
  - destruct (set_values_at T s (st_now s) d kvs H Hs Hs) as (_ & D & N).
    destruct (set_values s d kvs) as [s' ok]. simpl in *. apply IH; [done|lia].
  - apply IH; [by apply set_expiry_dl_ge|by rewrite set_expiry_now].
  - apply IH; [by apply delete_key_dl_ge|by rewrite delete_key_now].
  - apply IH; [by apply flush_dl_ge|by rewrite (flush_now T)].
  - apply IH; [by apply flush_dl_ge|by rewrite (flush_now T)].
Qed.

Lemma exec_db_fsm T s d argv : dl_ge T s -> st_now s <= T -> entry_det T (ReqCommand d argv) ->
  fst (exec_db s d argv) = fst (fsm_apply ref_pick s (ReqCommand d argv)).
Proof.
  intros H Hs He. destruct argv as [|cmd rest]; [done|].
  change (handler_for ref_pick) with handler_of in He. cbn [entry_det] in He. destruct He as [_ Hh].
  cbn [fsm_apply]. change (handler_for ref_pick (lower cmd)) with (handler_of (lower cmd)) in *.
  destruct (handler_of (lower cmd)) as [h|] eqn:E.
  - rewrite (exec_db_handler _ _ _ _ _ E). rewrite (tfree_run_seq_cl T _ (Hh h eq_refl) d s H Hs).
    by destruct (run_cl d (h (cmd :: rest)) s).
  - unfold exec_db, exec_cmd. rewrite E.
    destruct (exec_conn_cmd _ 0 (lower cmd) (cmd :: rest)) as [[w' r]|] eqn:Hc; [|done].
    by rewrite (exec_conn_cmd_keeps_state _ _ _ _ _ _ Hc).
Qed.

(** A history of acknowledged writes with the clock reading at each of them. *)
Definition run_timed (s : state) (th : list tcmd) : state :=
  fold_left (fun s '(t, d, c) => fst (exec_db (at_time s t) d c)) th s.
(** What reaches the log. *)
Definition logged_form (th : list tcmd) : list wr := map (fun '(t, d, c) => (d, absolute_form t c)) th.

Lemma run_timed_at s n th : dataset (run_timed (at_time s n) th) = dataset (run_timed s th).
Proof. destruct th as [|[[t d] c] r]; simpl; [apply at_time_at|]. by rewrite at_time_at. Qed.

Theorem restart_abs T th : forall s now',
  Forall (fun w : wr => entry_det_b T (ReqCommand (fst w) (snd w)) = true) (logged_form th) ->
  Forall (fun x : tcmd => fst (fst x) <= T) th -> now' <= T -> dl_ge T s -> st_now s <= T ->
  dataset (run_writes (at_time s now') (logged_form th)) = dataset (run_timed s th).
Proof.
  induction th as [|[[t d] c] r IH]; intros s now' Hdet Hclk Hn H Hs; [apply at_time_at|].
  inversion Hdet as [|? ? Hd Hdr]; subst. inversion Hclk as [|? ? Ht Htr]; subst. cbn [fst snd] in Hd, Ht.
  cbn [logged_form map run_writes run_timed fold_left run_write fst snd].
  change (run_write (at_time s now') (d, absolute_form t c)) with (fst (exec_db (at_time s now') d (absolute_form t c))).
  set (e := ReqCommand d (absolute_form t c)) in *.
  pose proof (entry_det_b_entry_det T e Hd) as Hed.
  pose proof (entry_det_b_sound T e Hd) as Hrd.
  (* the writer ran the original command at clock t: same as the logged one *)
  replace (exec_db (at_time s t) d c) with (exec_db (at_time s t) d (absolute_form t c))
    by exact (absolute_form_same_effect (at_time s t) d c).
  rewrite (exec_db_fsm T (at_time s now') d _ (proj2 (dl_ge_at T s now') H) Hn Hed).
  rewrite (exec_db_fsm T (at_time s t) d _ (proj2 (dl_ge_at T s t) H) Ht Hed).
  destruct (Hrd s ref_pick now' H Hs Hn) as (E1 & D & N). fold e. rewrite E1.
  destruct (Hrd s ref_pick t H Hs Ht) as (E2 & _ & _). rewrite E2. cbn [fst].
  change (dataset (run_writes (at_time (fst (fsm_apply ref_pick s e)) now') (logged_form r)) =
          dataset (run_timed (at_time (fst (fsm_apply ref_pick s e)) t) r)).
  rewrite run_timed_at. apply IH; try done. lia.
Qed.

(** [C02_clean_restart] for histories with relative expiries and a moving clock: the writer starts at
    [now0], its clock shows [t_i] at the i-th write, the log holds the absolute forms; a process that
    starts at clock [now'] restores the dataset the writes built — provided every logged command passes
    the check below the horizon (no randomised command, no deadline before [T]) and no clock passes
    [T]. *)
Theorem clean_restart_abs T pol th now0 now' :
  Forall wr_ok (logged_form th) ->
  Forall (fun w : wr => entry_det_b T (ReqCommand (fst w) (snd w)) = true) (logged_form th) ->
  Forall (fun x : tcmd => fst (fst x) <= T) th -> now0 <= T -> now' <= T ->
  dataset (restore now' PreEmpty (f_all (a_log (aof_run pol aof_fresh (logged_form th))))) =
  dataset (run_timed (init_state now0) th).
Proof.
  intros Hok Hdet Hclk H0 Hn. rewrite restore_full by done.
  change (init_state now') with (at_time (init_state now0) now').
  apply (restart_abs T); done.
Qed.
