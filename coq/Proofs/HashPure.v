(** Pure facts about the hash helpers of [Model/HashVal.v] used by the refinement proofs. *)
From stdpp Require Import gmap strings.
From EV Require Import Base.Str Model.Value Model.Adapt Model.Reply Model.HashVal Spec.SpecHash.
Local Open Scope Z_scope.

(** The HDEL loop removes exactly the named fields and counts how many fields went away. *)
Lemma hdel_loop_spec fields : forall h c,
  hdel_loop fields h c = (remove_fields fields h, c + hsize h - hsize (remove_fields fields h)).
Proof.
  unfold remove_fields.
  induction fields as [|f r IH]; intros h c; simpl.
  - f_equal. lia.
  - destruct (h !! f) as [x|] eqn:E.
    + rewrite IH. f_equal. unfold hsize. rewrite (map_size_delete_Some f h) by eauto.
      assert (size h <> 0)%nat.
      { intros Hz. apply map_size_empty_inv in Hz. subst. by rewrite lookup_empty in E. }
      lia.
    + rewrite IH. by rewrite (delete_notin h f E).
Qed.

Lemma hexists_eq (h : hmap) f :
  match h !! f with Some _ => 1 | None => 0 end = if bool_decide (is_Some (h !! f)) then 1 else 0.
Proof. destruct (h !! f); done. Qed.

(** * Byte preservation: what HSET stores, HGET gives back *)
Definition reply_text (r : reply) : option string :=
  match r with
  | RBulk s => Some s
  | RInt z => Some (show_Z z)
  | _ => None
  end.

(** A token that [AdaptValue] keeps as a string or re-types to an integer is replied with
    exactly its bytes (an integer is only stored when printing it gives the token back). *)
Lemma adapt_value_text v :
  (forall f, adapt_value v <> SFloat f) -> reply_text (val_reply (adapt_value v)) = Some v.
Proof.
  unfold adapt_value. destruct (canonical_int v) as [z|] eqn:Hc.
  - intros _. unfold canonical_int in Hc. destruct (parse_int v) as [z'|]; [|done].
    destruct (String.eqb (show_Z z') v) eqn:E; [|done]. injection Hc as <-.
    apply String.eqb_eq in E. simpl. by rewrite E.
  - destruct (simple_decimal v) as [q|]; [intros H; exfalso; by apply (H (FFin q))|].
    destruct (String.eqb v "+Inf"); [intros H; exfalso; by apply (H FPInf)|].
    destruct (String.eqb v "-Inf"); [intros H; exfalso; by apply (H FNInf)|]. done.
Qed.

Lemma hset_lookup (h : hmap) f v : (entries_of [f; v] ∪ h) !! f = Some (adapt_value v).
Proof.
  unfold entries_of. simpl. apply lookup_union_Some_l. by rewrite lookup_insert.
Qed.

Theorem hset_then_hget_bytes (m : hspec) k f v :
  (forall q, adapt_value v <> SFloat q) ->
  exists r, snd (spec_hash (fst (spec_hash m ["HSET"; k; f; v])) ["HGET"; k; f]) = RArr [r]
            /\ reply_text r = Some v.
Proof.
  intros Hv. exists (val_reply (adapt_value v)). split; [|by apply adapt_value_text].
  unfold spec_hash. change (lower "HSET") with "hset". change (lower "HGET") with "hget".
  cbn -[entries_of union hsize insert]. unfold read_hash.
  destruct (m !! k) as [[h|]|]; cbn -[entries_of union hsize insert]; rewrite lookup_insert;
    cbn -[entries_of union hsize insert]; do 2 f_equal.
  - by rewrite hset_lookup.
  - unfold entries_of. simpl. by rewrite lookup_insert.
  - unfold entries_of. simpl. by rewrite lookup_insert.
Qed.
