(** Proofs about the RESP codec of [Model/RespWire.v]: round trip, fuel irrelevance (totality),
    monotonicity of the reader under extension of its input. *)
From stdpp Require Import gmap strings.
From Coq Require Import DecimalString DecimalZ DecimalPos ZifyBool.
From EV Require Import Base.Str Model.Value Model.Reply Model.RespWire.
Local Open Scope Z_scope.
Local Arguments String.append !_ _ / : simpl nomatch.

(** * Strings *)
Lemma sapp_assoc (a b c : string) : (a +:+ b) +:+ c = a +:+ (b +:+ c).
Proof. induction a as [|x a IH]; simpl; [done|by rewrite IH]. Qed.
Lemma sapp_nil_r (a : string) : a +:+ "" = a.
Proof. induction a as [|x a IH]; simpl; [done|by rewrite IH]. Qed.
Lemma slength_app (a b : string) : String.length (a +:+ b) = (String.length a + String.length b)%nat.
Proof. induction a as [|x a IH]; simpl; [done|by rewrite IH]. Qed.

(** * Lines *)
Lemma read_line_app l r : no_crlf l = true -> read_line (l +:+ CRLF +:+ r) = Some (l, r).
Proof.
  induction l as [|x l IH]; simpl; intros H.
  - done.
  - apply andb_prop in H as [H1 H3]. apply andb_prop in H1 as [H1 H2].
    apply negb_true_iff in H1. rewrite H1. cbn -[read_line] in IH. rewrite IH by done. done.
Qed.

Lemma read_line_mono s l r q : read_line s = Some (l, r) -> read_line (s +:+ q) = Some (l, r +:+ q).
Proof.
  revert l r. induction s as [|x s IH]; intros l r; [done|].
  cbn [read_line String.append].
  destruct (Ascii.eqb x CR).
  - destruct s as [|y s']; [done|]. cbn [String.append].
    destruct (Ascii.eqb y LF); [by intros [= <- <-]|].
    destruct (read_line (String y s')) as [[l' r']|] eqn:E; [|done].
    intros [= <- <-]. cbn [String.append] in IH. by rewrite (IH _ _ eq_refl).
  - destruct (read_line s) as [[l' r']|] eqn:E; [|done].
    intros [= <- <-]. by rewrite (IH _ _ eq_refl).
Qed.

Lemma read_line_len s l r : read_line s = Some (l, r) -> (String.length r < String.length s)%nat.
Proof.
  revert l r. induction s as [|x s IH]; intros l r; [done|].
  cbn [read_line]. destruct (Ascii.eqb x CR).
  - destruct s as [|y s']; [done|].
    destruct (Ascii.eqb y LF); [intros [= <- <-]; simpl; lia|].
    destruct (read_line (String y s')) as [[l' r']|] eqn:E; [|done].
    intros [= <- <-]. specialize (IH _ _ eq_refl). simpl in *. lia.
  - destruct (read_line s) as [[l' r']|] eqn:E; [|done].
    intros [= <- <-]. specialize (IH _ _ eq_refl). simpl in *. lia.
Qed.

(** * split_at *)
Lemma split_at_app a b : split_at (String.length a) (a +:+ b) = Some (a, b).
Proof. induction a as [|x a IH]; simpl; [done|by rewrite IH]. Qed.
Lemma split_at_mono n s a b q : split_at n s = Some (a, b) -> split_at n (s +:+ q) = Some (a, b +:+ q).
Proof.
  revert s a b. induction n as [|n IH]; intros s a b; simpl.
  - by intros [= <- <-].
  - destruct s as [|x s]; [done|]. simpl.
    destruct (split_at n s) as [[a' b']|] eqn:E; [|done]. intros [= <- <-]. by rewrite (IH _ _ _ E).
Qed.
Lemma split_at_len n s a b : split_at n s = Some (a, b) -> (String.length b <= String.length s)%nat.
Proof.
  revert s a b. induction n as [|n IH]; intros s a b; simpl.
  - intros [= <- <-]. lia.
  - destruct s as [|x s]; [done|].
    destruct (split_at n s) as [[a' b']|] eqn:E; [|done]. intros [= <- <-]. specialize (IH _ _ _ E). simpl. lia.
Qed.
Lemma split_at_join n s a b : split_at n s = Some (a, b) -> s = a +:+ b.
Proof.
  revert s a b. induction n as [|n IH]; intros s a b; simpl.
  - by intros [= <- <-].
  - destruct s as [|x s]; [done|].
    destruct (split_at n s) as [[a' b']|] eqn:E; [|done]. intros [= <- <-]. simpl. by rewrite (IH _ _ _ E).
Qed.

(** * Decimal *)
Definition digit_string (s : string) : Prop :=
  forall acc, exists v, digits_val acc s = Some v.

Lemma digits_uint_acc d (acc : positive) :
  digits_val (Z.pos acc) (NilEmpty.string_of_uint d) = Some (Z.pos (Pos.of_uint_acc d acc)).
Proof.
  revert acc. induction d; intros acc; cbn [NilEmpty.string_of_uint digits_val Pos.of_uint_acc]; [done|..];
    (replace (is_digit _) with true by (vm_compute; reflexivity));
    rewrite <- IHd; f_equal; vm_compute (Z.of_nat _); lia.
Qed.

Lemma digits_uint d : digits_val 0 (NilEmpty.string_of_uint d) = Some (Z.of_N (Pos.of_uint d)).
Proof.
  induction d; cbn [NilEmpty.string_of_uint digits_val Pos.of_uint]; [done|..];
    (replace (is_digit _) with true by (vm_compute; reflexivity)); vm_compute (Z.of_nat _); cbn [Z.mul Z.add];
    try apply IHd; apply digits_uint_acc.
Qed.

Lemma uint_first_char d : d <> Decimal.Nil ->
  exists c t, NilEmpty.string_of_uint d = String c t /\ c <> "-"%char /\ c <> "+"%char.
Proof. destruct d; [done|..]; intros _; eexists _, _; (split; [reflexivity|split; discriminate]). Qed.

Lemma to_uint_not_nil p : Pos.to_uint p <> Decimal.Nil.
Proof. intros H. pose proof (Unsigned.of_to p) as E. rewrite H in E. discriminate. Qed.

Lemma parse_nat_uint d : d <> Decimal.Nil -> parse_nat (NilEmpty.string_of_uint d) = Some (Z.of_N (Pos.of_uint d)).
Proof.
  intros Hd. destruct (uint_first_char d Hd) as (c & t & E & _). unfold parse_nat.
  rewrite <- digits_uint. by rewrite E.
Qed.

Lemma parse_dec_show z : parse_dec (show_Z z) = Some z.
Proof.
  unfold show_Z. destruct z as [|p|p]; cbn [Z.to_int NilZero.string_of_int].
  - reflexivity.
  - pose proof (to_uint_not_nil p) as Hn.
    assert (NilZero.string_of_uint (Pos.to_uint p) = NilEmpty.string_of_uint (Pos.to_uint p)) as ->
      by (destruct (Pos.to_uint p); done).
    destruct (uint_first_char _ Hn) as (c & t & E & H1 & H2).
    pose proof (parse_nat_uint _ Hn) as P. rewrite Unsigned.of_to in P. rewrite E in *.
    unfold parse_dec. destruct c as [[] [] [] [] [] [] [] []]; try done.
  - pose proof (to_uint_not_nil p) as Hn.
    assert (NilZero.string_of_uint (Pos.to_uint p) = NilEmpty.string_of_uint (Pos.to_uint p)) as ->
      by (destruct (Pos.to_uint p); done).
    pose proof (parse_nat_uint _ Hn) as P. rewrite Unsigned.of_to in P.
    cbn [parse_dec]. by rewrite P.
Qed.

Lemma no_crlf_uint d : no_crlf (NilEmpty.string_of_uint d) = true.
Proof. induction d; cbn [NilEmpty.string_of_uint no_crlf]; [done|..]; by rewrite IHd. Qed.
Lemma no_crlf_show z : no_crlf (show_Z z) = true.
Proof.
  unfold show_Z. destruct z as [|p|p]; cbn [Z.to_int NilZero.string_of_int]; [done|..].
  - destruct (Pos.to_uint p) eqn:E; [done|..]; rewrite <- E; cbn [NilZero.string_of_uint];
      rewrite E; apply no_crlf_uint.
  - destruct (Pos.to_uint p) eqn:E; [done|..]; rewrite <- E; cbn [NilZero.string_of_uint no_crlf];
      rewrite E; apply (no_crlf_uint).
Qed.

Lemma read_line_show z r : read_line (show_Z z +:+ CRLF +:+ r) = Some (show_Z z, r).
Proof. apply read_line_app, no_crlf_show. Qed.

(** * The reader consumes at least one byte per value *)
Lemma read_bulk_len lim t v r : read_bulk lim t = DOk v r -> (String.length r < String.length t)%nat.
Proof.
  unfold read_bulk. destruct (read_line t) as [[ln r0]|] eqn:E; [|done].
  pose proof (read_line_len _ _ _ E). destruct (parse_dec ln) as [n|]; [|done].
  destruct (n <? 0); [intros [= <- <-]; lia|]. destruct (lim && (max_bulk <? n)); [done|].
  destruct (split_at (Z.to_nat n) r0) as [[body r']|] eqn:E2; [|done].
  pose proof (split_at_len _ _ _ _ E2). destruct r' as [|a [|b r'']]; try done.
  destruct (Ascii.eqb a CR && Ascii.eqb b LF); [|done]. intros [= <- <-]. simpl in *. lia.
Qed.

Lemma telnet_len s : forall vals bl q m v r,
  telnet vals bl q m s = DOk v r -> (String.length r < String.length s)%nat.
Proof.
  induction s as [|x s IH]; intros vals bl q m v r; [done|]. cbn [telnet].
  destruct (Ascii.eqb x LF).
  { destruct q; [done|]. intros [= <- <-]. simpl. lia. }
  destruct (m && negb (Ascii.eqb x " ")); [done|].
  destruct (Ascii.eqb x " ").
  { destruct q; intros H; apply IH in H; simpl; lia. }
  destruct (Ascii.eqb x """").
  { destruct q; [intros H; apply IH in H; simpl; lia|].
    destruct bl; [intros H; apply IH in H; simpl; lia|done]. }
  intros H; apply IH in H; simpl; lia.
Qed.

Lemma decode_n_len dec k : forall s l r,
  (forall s v r, dec s = DOk v r -> (String.length r < String.length s)%nat) ->
  decode_n dec k s = LOk l r -> (String.length r <= String.length s)%nat.
Proof.
  induction k as [|k IH]; intros s l r Hd; simpl.
  - intros [= <- <-]. lia.
  - destruct (dec s) as [| |v r0] eqn:E; try done. apply Hd in E.
    destruct (decode_n dec k r0) as [| |l' r'] eqn:E2; try done. intros [= <- <-].
    apply IH in E2; [lia|done].
Qed.

Lemma decode_f_len lim f : forall c s v r,
  decode_f lim f c s = DOk v r -> (String.length r < String.length s)%nat.
Proof.
  induction f as [|f IH]; intros c s v r; [done|]. cbn [decode_f].
  destruct s as [|x t]; [done|].
  destruct (Ascii.eqb x "*").
  { destruct (read_line t) as [[ln r0]|] eqn:E; [|done]. pose proof (read_line_len _ _ _ E).
    destruct (parse_dec ln) as [n|]; [|done].
    destruct (lim && (max_array <? n)); [intros [= <- <-]; simpl; lia|].
    destruct (n <? 0); [intros [= <- <-]; simpl; lia|].
    destruct (decode_n (decode_f lim f true) (Z.to_nat n) r0) as [| |l r'] eqn:E2; try done.
    intros [= <- <-]. apply decode_n_len in E2; [simpl; lia|]. intros; eapply IH; eauto. }
  destruct (Ascii.eqb x "+").
  { destruct (read_line t) as [[ln r0]|] eqn:E; [|done]. pose proof (read_line_len _ _ _ E).
    intros [= <- <-]. simpl; lia. }
  destruct (Ascii.eqb x "-").
  { destruct (read_line t) as [[ln r0]|] eqn:E; [|done]. pose proof (read_line_len _ _ _ E).
    intros [= <- <-]. simpl; lia. }
  destruct (Ascii.eqb x ":").
  { destruct (read_line t) as [[ln r0]|] eqn:E; [|done]. pose proof (read_line_len _ _ _ E).
    destruct (parse_dec ln); [|done]. intros [= <- <-]. simpl; lia. }
  destruct (Ascii.eqb x "$").
  { intros H. apply read_bulk_len in H. simpl; lia. }
  destruct c; [done|]. apply telnet_len.
Qed.

(** * Totality: the fuel never runs out *)
Lemma decode_n_ext d1 d2 k : forall s,
  (forall s', (String.length s' <= String.length s)%nat -> d1 s' = d2 s') ->
  (forall s' v r, d1 s' = DOk v r -> (String.length r < String.length s')%nat) ->
  decode_n d1 k s = decode_n d2 k s.
Proof.
  induction k as [|k IH]; intros s H Hl; simpl; [done|].
  rewrite <- H by lia. destruct (d1 s) as [| |v r] eqn:E; try done.
  apply Hl in E. rewrite IH; [done| |done]. intros s' Hs'. apply H. lia.
Qed.

Lemma decode_f_fuel lim f1 : forall f2 c s,
  (String.length s < f1)%nat -> (String.length s < f2)%nat -> decode_f lim f1 c s = decode_f lim f2 c s.
Proof.
  induction f1 as [|f1 IH]; intros f2 c s H1 H2; [lia|]. destruct f2 as [|f2]; [lia|].
  cbn [decode_f]. destruct s as [|x t]; [done|].
  destruct (Ascii.eqb x "*"); [|done].
  destruct (read_line t) as [[ln r0]|] eqn:E; [|done]. pose proof (read_line_len _ _ _ E).
  destruct (parse_dec ln) as [n|]; [|done].
  destruct (lim && (max_array <? n)); [done|]. destruct (n <? 0); [done|].
  rewrite (decode_n_ext (decode_f lim f1 true) (decode_f lim f2 true)); [done| |].
  - intros s' Hs'. apply IH; simpl in *; lia.
  - intros s' v r. apply decode_f_len.
Qed.

(** [decode_total]: whatever the input (any length, any nesting depth), [decode] classifies it with the fuel
    it is given — more fuel never changes the answer, so [DIncomplete] always means "a prefix of something
    longer", never "gave up". *)
Theorem decode_total lim s fuel :
  (String.length s < fuel)%nat -> decode_f lim fuel false s = decode_g lim s.
Proof. intros H. unfold decode_g. apply decode_f_fuel; lia. Qed.

(** * Monotonicity: a verdict on a prefix is the verdict on every extension *)
Definition ext_ok (a b : dres) (q : string) : Prop :=
  match a with
  | DOk v r => b = DOk v (r +:+ q)
  | DMalformed => b = DMalformed
  | DIncomplete => True
  end.
Definition lext_ok (a b : lres) (q : string) : Prop :=
  match a with
  | LOk l r => b = LOk l (r +:+ q)
  | LMalformed => b = LMalformed
  | LIncomplete => True
  end.

Lemma read_bulk_mono lim t q : ext_ok (read_bulk lim t) (read_bulk lim (t +:+ q)) q.
Proof.
  unfold read_bulk. destruct (read_line t) as [[ln r0]|] eqn:E; [|done].
  rewrite (read_line_mono _ _ _ q E). destruct (parse_dec ln) as [n|]; [|done].
  destruct (n <? 0); [done|]. destruct (lim && (max_bulk <? n)); [done|].
  destruct (split_at (Z.to_nat n) r0) as [[body r']|] eqn:E2; [|done].
  rewrite (split_at_mono _ _ _ _ q E2). destruct r' as [|a [|b r'']]; try done. simpl.
  destruct (Ascii.eqb a CR && Ascii.eqb b LF); done.
Qed.

Lemma telnet_mono q s : forall vals bl qt m,
  ext_ok (telnet vals bl qt m s) (telnet vals bl qt m (s +:+ q)) q.
Proof.
  induction s as [|x s IH]; intros vals bl qt m; [done|]. simpl.
  destruct (Ascii.eqb x LF). { destruct qt; done. }
  destruct (m && negb (Ascii.eqb x " ")); [done|].
  destruct (Ascii.eqb x " "). { destruct qt; apply IH. }
  destruct (Ascii.eqb x """"). { destruct qt; [apply IH|]. destruct bl; [apply IH|done]. }
  apply IH.
Qed.

Lemma decode_n_mono dec q k : forall s,
  (forall s, ext_ok (dec s) (dec (s +:+ q)) q) ->
  lext_ok (decode_n dec k s) (decode_n dec k (s +:+ q)) q.
Proof.
  induction k as [|k IH]; intros s H; simpl; [done|].
  specialize (H s) as Hs. destruct (dec s) as [| |v r] eqn:E; simpl in Hs; try done.
  - by rewrite Hs.
  - rewrite Hs. specialize (IH r H).
    destruct (decode_n dec k r) as [| |l r'] eqn:E2; simpl in IH; try done; by rewrite IH.
Qed.

Lemma decode_f_mono lim q f : forall c s, ext_ok (decode_f lim f c s) (decode_f lim f c (s +:+ q)) q.
Proof.
  induction f as [|f IH]; intros c s; [done|]. destruct s as [|x t]; [done|].
  change (String x t +:+ q) with (String x (t +:+ q)). cbn [decode_f].
  destruct (Ascii.eqb x "*").
  { destruct (read_line t) as [[ln r0]|] eqn:E; [|done]. rewrite (read_line_mono _ _ _ q E).
    destruct (parse_dec ln) as [n|]; [|done].
    destruct (lim && (max_array <? n)); [done|]. destruct (n <? 0); [done|].
    pose proof (decode_n_mono (decode_f lim f true) q (Z.to_nat n) r0 (IH true)) as Hn.
    destruct (decode_n (decode_f lim f true) (Z.to_nat n) r0) as [| |l r']; simpl in Hn; try done; by rewrite Hn. }
  destruct (Ascii.eqb x "+").
  { destruct (read_line t) as [[ln r0]|] eqn:E; [|done]. by rewrite (read_line_mono _ _ _ q E). }
  destruct (Ascii.eqb x "-").
  { destruct (read_line t) as [[ln r0]|] eqn:E; [|done]. by rewrite (read_line_mono _ _ _ q E). }
  destruct (Ascii.eqb x ":").
  { destruct (read_line t) as [[ln r0]|] eqn:E; [|done]. rewrite (read_line_mono _ _ _ q E).
    destruct (parse_dec ln); done. }
  destruct (Ascii.eqb x "$"); [apply read_bulk_mono|].
  destruct c; [done|]. apply (telnet_mono q (String x t)).
Qed.

Theorem decode_mono lim s q : ext_ok (decode_g lim s) (decode_g lim (s +:+ q)) q.
Proof.
  unfold decode_g.
  rewrite (decode_f_fuel lim (S (String.length s)) (S (String.length (s +:+ q))) false s)
    by (rewrite ?slength_app; lia).
  apply decode_f_mono.
Qed.

Corollary decode_ok_ext lim s q v r : decode_g lim s = DOk v r -> decode_g lim (s +:+ q) = DOk v (r +:+ q).
Proof. intros H. pose proof (decode_mono lim s q) as M. by rewrite H in M. Qed.
Corollary decode_bad_ext lim s q : decode_g lim s = DMalformed -> decode_g lim (s +:+ q) = DMalformed.
Proof. intros H. pose proof (decode_mono lim s q) as M. by rewrite H in M. Qed.
Corollary decode_len lim s v r : decode_g lim s = DOk v r -> (String.length r < String.length s)%nat.
Proof. apply decode_f_len. Qed.

(** * Round trip *)
Fixpoint wf (lim : bool) (v : rv) : bool :=
  match v with
  | WSimple s | WError s => no_crlf s
  | WInt _ | WNullBulk | WNullArr => true
  | WBulk s => negb lim || (slen s <=? max_bulk)
  | WArr l => (negb lim || (zlen l <=? max_array)) && forallb (wf lim) l
  | WNone => false
  end.

Lemma rv_ind' (P : rv -> Prop) :
  (forall s, P (WSimple s)) -> (forall s, P (WError s)) -> (forall z, P (WInt z)) ->
  (forall s, P (WBulk s)) -> P WNullBulk -> (forall l, Forall P l -> P (WArr l)) -> P WNullArr -> P WNone ->
  forall v, P v.
Proof.
  intros H1 H2 H3 H4 H5 H6 H7 H8. fix IH 1. intros [s|s|z|s| |l| |]; [apply H1|apply H2|apply H3|apply H4|apply H5| |apply H7|apply H8].
  apply H6. induction l as [|x l IHl]; constructor; [apply IH|apply IHl].
Qed.

Definition rt_ok (lim : bool) (v : rv) : Prop :=
  forall f c rest, (String.length (encode v +:+ rest) < f)%nat ->
    decode_f lim f c (encode v +:+ rest) = DOk v rest.

Lemma decode_n_encode lim f l : forall rest,
  Forall (rt_ok lim) l -> (String.length (encode_all l +:+ rest) < f)%nat ->
  decode_n (decode_f lim f true) (length l) (encode_all l +:+ rest) = LOk l rest.
Proof.
  induction l as [|x l IH]; intros rest Hl Hlen; [done|].
  inversion_clear Hl as [|?? Hx Hl']. change (encode_all (x :: l)) with (encode x +:+ encode_all l) in *.
  cbn [length decode_n]. rewrite sapp_assoc in *. rewrite (Hx f true _ Hlen).
  rewrite IH; [done|done|]. rewrite slength_app in Hlen. lia.
Qed.

Lemma encode_decode_f lim v : wf lim v = true -> rt_ok lim v.
Proof.
  induction v as [s|s|z|s| |l IHl| |] using rv_ind'; intros Hwf f c rest Hlen;
    (destruct f as [|f]; [lia|]); cbn [encode] in *.
  - cbn [wf] in Hwf. change (String "+" (s +:+ CRLF) +:+ rest) with (String "+" ((s +:+ CRLF) +:+ rest)).
    rewrite sapp_assoc. cbn [decode_f]. change (Ascii.eqb "+" "*") with false. change (Ascii.eqb "+" "+") with true.
    cbv iota. by rewrite read_line_app.
  - cbn [wf] in Hwf. change (String "-" (s +:+ CRLF) +:+ rest) with (String "-" ((s +:+ CRLF) +:+ rest)).
    rewrite sapp_assoc. cbn [decode_f]. change (Ascii.eqb "-" "*") with false. change (Ascii.eqb "-" "+") with false.
    change (Ascii.eqb "-" "-") with true. cbv iota. by rewrite read_line_app.
  - change (String ":" (show_Z z +:+ CRLF) +:+ rest) with (String ":" ((show_Z z +:+ CRLF) +:+ rest)).
    rewrite sapp_assoc. cbn [decode_f]. change (Ascii.eqb ":" "*") with false. change (Ascii.eqb ":" "+") with false.
    change (Ascii.eqb ":" "-") with false. change (Ascii.eqb ":" ":") with true. cbv iota.
    by rewrite read_line_show, parse_dec_show.
  - cbn [wf] in Hwf.
    change (String "$" (show_Z (slen s) +:+ CRLF +:+ s +:+ CRLF) +:+ rest)
      with (String "$" ((show_Z (slen s) +:+ CRLF +:+ s +:+ CRLF) +:+ rest)).
    rewrite !sapp_assoc. cbn [decode_f]. change (Ascii.eqb "$" "*") with false. change (Ascii.eqb "$" "+") with false.
    change (Ascii.eqb "$" "-") with false. change (Ascii.eqb "$" ":") with false. change (Ascii.eqb "$" "$") with true.
    cbv iota. unfold read_bulk. rewrite read_line_show, parse_dec_show.
    assert (slen s <? 0 = false) as -> by (unfold slen; lia).
    assert (lim && (max_bulk <? slen s) = false) as -> by (destruct lim; simpl in *; lia).
    unfold slen. rewrite Nat2Z.id, split_at_app. reflexivity.
  - change (String "$" ("-1" +:+ CRLF) +:+ rest) with (String "$" ("-1" +:+ CRLF +:+ rest)).
    cbn [decode_f]. change (Ascii.eqb "$" "*") with false. change (Ascii.eqb "$" "+") with false.
    change (Ascii.eqb "$" "-") with false. change (Ascii.eqb "$" ":") with false. change (Ascii.eqb "$" "$") with true.
    cbv iota. unfold read_bulk. rewrite read_line_app by done. reflexivity.
  - cbn [wf] in Hwf. apply andb_prop in Hwf as [Hsz Hall].
    change (fold_right (fun x acc => encode x +:+ acc) "" l) with (encode_all l) in *.
    change (String "*" (show_Z (zlen l) +:+ CRLF +:+ encode_all l) +:+ rest)
      with (String "*" ((show_Z (zlen l) +:+ CRLF +:+ encode_all l) +:+ rest)) in *.
    rewrite !sapp_assoc in *. cbn [decode_f]. change (Ascii.eqb "*" "*") with true. cbv iota.
    rewrite read_line_show, parse_dec_show.
    assert (lim && (max_array <? zlen l) = false) as -> by (destruct lim; simpl in *; lia).
    assert (zlen l <? 0 = false) as -> by (unfold zlen; lia).
    unfold zlen. rewrite Nat2Z.id. rewrite decode_n_encode; [done| |].
    + rewrite Forall_forall in IHl. apply Forall_forall. intros x Hx. apply IHl; [done|].
      rewrite forallb_forall in Hall. by apply Hall.
    + cbn [String.length] in Hlen. rewrite !slength_app in Hlen. rewrite slength_app. lia.
  - change (String "*" ("-1" +:+ CRLF) +:+ rest) with (String "*" ("-1" +:+ CRLF +:+ rest)).
    cbn [decode_f]. change (Ascii.eqb "*" "*") with true. cbv iota. rewrite read_line_app by done.
    change (parse_dec "-1") with (Some (-1)). cbv iota.
    assert (lim && (max_array <? -1) = false) as -> by (destruct lim; done). reflexivity.
  - done.
Qed.

(** [encode_decode]: the reader gives back exactly the value that was marshalled, and the bytes after it,
    for values of any size and nesting depth ([lim = false]) resp. within the reader's limits ([lim = true]). *)
Theorem encode_decode lim v rest : wf lim v = true -> decode_g lim (encode v +:+ rest) = DOk v rest.
Proof. intros H. unfold decode_g. apply encode_decode_f; [done|lia]. Qed.
