(** C11: authentication follows the stored credentials; failures change nothing; new connections;
    edits govern later decisions; the default user stays; SAVE then LOAD is the identity. *)
From stdpp Require Import gmap strings.
From RecordUpdate Require Import RecordSet.
From EV Require Import Base.Str Model.Value Model.Keyspace Model.Reply Model.Prog Model.Dispatch.
From EV Require Import Model.TableTypes Model.KeyFuncs Model.Acl Model.AclWorld Spec.SpecAcl Proofs.AclProofs.
Local Open Scope string_scope.
Local Open Scope list_scope.

Section Auth.
  Variable glob_match : string -> string -> bool.
  Variable sha256 : string -> string.

  Lemma pw_ok_iff u pw :
    pw_ok sha256 u pw = true <-> In (Pw pw_plain pw) (u_pws u) \/ In (Pw pw_sha (sha256 pw)) (u_pws u).
  Proof.
    unfold pw_ok. rewrite existsb_exists. split.
    - intros ([t v] & Hin & H). simpl in H. apply orb_true_iff in H as [H|H];
        apply andb_true_iff in H as [H1 H2]; apply String.eqb_eq in H1, H2; subst; auto.
    - intros [H|H]; eexists; (split; [exact H|]); simpl; rewrite !String.eqb_refl; simpl; auto using orb_true_r.
  Qed.

  Definition bind_conn (a : acl) (c : Z) (p : nat) : acl :=
    set a_conns (fun m => <[c := ConnRec true p]> m) a.

  Lemma authenticate_named a c w name pw :
    authenticate sha256 a c [w; name; pw] =
      match find_user a name with
      | None => None
      | Some p => let u := deref a p in
                  if negb (u_enabled u) then None
                  else if u_nopass u then Some (bind_conn a c p)
                  else if pw_ok sha256 u pw then Some (bind_conn a c p) else None
      end.
  Proof. unfold authenticate. destruct (find_user a name); reflexivity. Qed.

  (** * C11_auth_iff *)
  Theorem auth_iff a c w name pw :
    (exists a', authenticate sha256 a c [w; name; pw] = Some a') <-> auth_ok sha256 a name pw.
  Proof.
    rewrite authenticate_named. unfold auth_ok. destruct (find_user a name) as [p|].
    - cbv zeta. destruct (u_enabled (deref a p)) eqn:He; simpl.
      + destruct (u_nopass (deref a p)) eqn:Hn.
        * split; [intros _; exists p; auto | intros _; eauto].
        * destruct (pw_ok sha256 (deref a p) pw) eqn:Hp.
          -- apply pw_ok_iff in Hp. split; [intros _; exists p; tauto | eauto].
          -- split; [intros (a' & H); discriminate|].
             intros (p' & [= <-] & _ & [H|H]); [congruence|]. apply pw_ok_iff in H. congruence.
      + split; [intros (a' & H); discriminate|]. intros (p' & [= <-] & H & _). congruence.
    - split; [intros (a' & H); discriminate|]. intros (p' & H & _). discriminate.
  Qed.

  Theorem auth_default_iff a c w pw :
    (exists a', authenticate sha256 a c [w; pw] = Some a') <-> auth_ok sha256 a "default" pw.
  Proof.
    rewrite <- (auth_iff a c w "default" pw). rewrite authenticate_named. unfold authenticate.
    destruct (find_user a "default"); reflexivity.
  Qed.

  (** a successful attempt binds the connection to the named user's record and does nothing else *)
  Theorem auth_effect a c cmd a' :
    authenticate sha256 a c cmd = Some a' ->
    exists p, a' = bind_conn a c p /\ In p (a_users a).
  Proof.
    unfold authenticate. intros H.
    destruct cmd as [|w [|x [|y [|z r]]]]; try discriminate.
    - destruct (find_user a "default") as [p|] eqn:Hf; [|discriminate]. exists p.
      apply find_some in Hf as [Hin _].
      destruct (negb (u_enabled (deref a p))); [discriminate|].
      destruct (u_nopass (deref a p)); [injection H as <-; auto|].
      destruct (pw_ok sha256 (deref a p) x); [injection H as <-; auto|discriminate].
    - destruct (find_user a x) as [p|] eqn:Hf; [|discriminate]. exists p.
      apply find_some in Hf as [Hin _].
      destruct (negb (u_enabled (deref a p))); [discriminate|].
      destruct (u_nopass (deref a p)); [injection H as <-; auto|].
      destruct (pw_ok sha256 (deref a p) y); [injection H as <-; auto|discriminate].
  Qed.

  (** * C11_failed_auth_frame: AUTH / HELLO answered with an error leave the world as it was *)
  Theorem failed_auth_frame aw c p s argv aw' :
    cr_name p = "auth" \/ cr_name p = "hello" ->
    conn_acl_handler sha256 aw c p s argv = Some (aw', RErr) -> aw' = aw.
  Proof.
    intros [Hn|Hn]; unfold conn_acl_handler; rewrite Hn; cbv zeta.
    - destruct ((length argv <? 2)%nat || (3 <? length argv)%nat); [intros [= <-]; reflexivity|].
      destruct (authenticate sha256 (aw_acl aw) c argv); [discriminate|intros [= <-]; reflexivity].
    - destruct (negb (existsb (Nat.eqb (length argv)) [1; 2; 4; 5; 7]%nat)); [intros [= <-]; reflexivity|].
      destruct argv as [|w0 [|pv opts]]; try (intros [= <-]; reflexivity); try discriminate.
      destruct (hello_opts (S (length opts)) opts "" None) as [[name au]|]; [|intros [= <-]; reflexivity].
      destruct (parse_int pv) as [proto|]; [|intros [= <-]; reflexivity].
      destruct (negb ((proto =? 2)%Z || (proto =? 3)%Z)); [intros [= <-]; reflexivity|].
      destruct au as [[u pw]|]; [|discriminate].
      destruct (authenticate sha256 (aw_acl aw) c ["AUTH"; u; pw]); [discriminate|intros [= <-]; reflexivity].
  Qed.

  (** * C11_new_conn *)
  Theorem new_conn a c p :
    find_user a "default" = Some p ->
    a_conns (register_conn a c) !! c = Some (ConnRec (u_nopass (deref a p)) p)
    /\ a_users (register_conn a c) = a_users a /\ a_heap (register_conn a c) = a_heap a.
  Proof. intros H. unfold register_conn. rewrite H. simpl. rewrite lookup_insert. auto. Qed.

  (** * The default user cannot be deleted *)
  Lemma find_filter {A} (p q : A -> bool) l :
    (forall x, p x = true -> q x = true) -> List.find p (List.filter q l) = List.find p l.
  Proof.
    intros H. induction l as [|x l IH]; simpl; [reflexivity|].
    destruct (q x) eqn:Hq; simpl.
    - rewrite IH. reflexivity.
    - destruct (p x) eqn:Hp; [rewrite (H x Hp) in Hq; discriminate|exact IH].
  Qed.

  Lemma delete_one_default a name : find_user (delete_one a name) "default" = find_user a "default".
  Proof.
    unfold delete_one. destruct (String.eqb name "default") eqn:Hd; [reflexivity|].
    destruct (find_user a name); [|reflexivity].
    unfold find_user, deref. simpl. apply find_filter.
    intros x Hx. apply String.eqb_eq in Hx. rewrite Hx. rewrite String.eqb_sym, Hd. reflexivity.
  Qed.

  Theorem default_undeletable a names : find_user (delete_users a names) "default" = find_user a "default".
  Proof.
    unfold delete_users. revert a. induction names as [|n names IH]; intros a; simpl; [reflexivity|].
    rewrite IH. apply delete_one_default.
  Qed.

  (** * Edits govern later decisions: whoever is let through (other than for a handshake) is, at that
      moment, a user of the table, enabled, and the rules consulted are that user's current ones. *)
  Definition auth_live (a : acl) : Prop :=
    forall c r, a_conns a !! c = Some r -> c_auth r = true -> In (c_user r) (a_users a).

  Lemma auth_live_new req pw file : auth_live (new_acl req pw file).
  Proof. intros c r H. unfold new_acl in H. simpl in H. rewrite lookup_empty in H. discriminate. Qed.

  Lemma auth_live_register a c : auth_live a -> auth_live (register_conn a c).
  Proof.
    intros Ha. unfold register_conn. destruct (find_user a "default") as [p|] eqn:Hf; [|exact Ha].
    intros c' r. simpl. destruct (decide (c' = c)) as [->|Hne].
    - rewrite lookup_insert. intros [= <-] _. simpl. apply find_some in Hf. tauto.
    - rewrite lookup_insert_ne by congruence. apply Ha.
  Qed.

  Lemma auth_live_authenticate a c cmd a' : auth_live a -> authenticate sha256 a c cmd = Some a' -> auth_live a'.
  Proof.
    intros Ha H. apply auth_effect in H as (p & -> & Hin). intros c' r. unfold bind_conn. simpl.
    destruct (decide (c' = c)) as [->|Hne].
    - rewrite lookup_insert. intros [= <-] _. exact Hin.
    - rewrite lookup_insert_ne by congruence. apply Ha.
  Qed.

  Lemma auth_live_set_user a cmd : auth_live a -> auth_live (set_user a cmd).
  Proof.
    intros Ha. unfold set_user. destruct cmd as [|name rest]; [exact Ha|].
    destruct (find_user a name); intros c r; simpl; intros H1 H2; specialize (Ha c r H1 H2); auto.
    apply in_or_app. auto.
  Qed.

  Lemma auth_live_delete_one a name : auth_live a -> auth_live (delete_one a name).
  Proof.
    intros Ha. unfold delete_one. destruct (String.eqb name "default"); [exact Ha|].
    destruct (find_user a name); [|exact Ha].
    intros c r. simpl. rewrite lookup_fmap. destruct (a_conns a !! c) as [r0|] eqn:Hc; simpl; [|discriminate].
    destruct (String.eqb (u_name (deref a (c_user r0))) name) eqn:Hn.
    - intros [= <-]. simpl. discriminate.
    - intros [= <-] Hauth. apply filter_In. split; [apply (Ha c r0 Hc Hauth)|].
      unfold deref in *. simpl. rewrite Hn. reflexivity.
  Qed.

  Lemma auth_live_delete a names : auth_live a -> auth_live (delete_users a names).
  Proof.
    unfold delete_users. revert a. induction names as [|n names IH]; intros a Ha; simpl; [exact Ha|].
    apply IH, auth_live_delete_one, Ha.
  Qed.

  Lemma auth_live_load_one m a fu : auth_live a -> auth_live (load_one m a fu).
  Proof.
    intros Ha. unfold load_one. destruct (find_user a (u_name (normalise fu)));
      intros c r; simpl; intros H1 H2; specialize (Ha c r H1 H2); auto. apply in_or_app. auto.
  Qed.

  Lemma auth_live_load a mode a' : auth_live a -> acl_load a mode = Some a' -> auth_live a'.
  Proof.
    unfold acl_load. destruct (a_file a) as [fus|]; [|discriminate]. intros Ha [= <-].
    revert a Ha. induction fus as [|fu fus IH]; intros a Ha; simpl; [exact Ha|].
    apply IH, auth_live_load_one, Ha.
  Qed.

  Lemma auth_live_save a : auth_live a -> auth_live (acl_save a).
  Proof. intros Ha c r. simpl. apply Ha. Qed.

  Theorem acting_user_is_current a c p s argv rq :
    auth_live a -> a_require a = true ->
    request_of p s argv = Some rq -> ~ handshake (rq_comm rq) ->
    authorize glob_match a c p s argv = true ->
    exists r, a_conns a !! c = Some r /\ c_auth r = true
              /\ In (c_user r) (a_users a)
              /\ u_enabled (deref a (c_user r)) = true
              /\ rules_allow glob_match (deref a (c_user r)) rq.
  Proof.
    intros Hl Hreq Hr Hh Ha. apply authorize_iff_allowed in Ha as (rq' & Hr' & [H|[H|(r & Hc & Hau & Hu)]]).
    - congruence.
    - congruence.
    - assert (rq' = rq) as -> by congruence. exists r. split; [exact Hc|]. split; [exact Hau|].
      split; [apply (Hl c r Hc Hau)|]. split; [apply Hu | exact Hu].
  Qed.

  (** after DELUSER no connection is still authenticated as a user of a deleted name, and that name
      cannot be authenticated against *)
  Theorem deleted_cannot_act a name c r :
    name <> "default" -> a_conns (delete_one a name) !! c = Some r ->
    u_name (deref a (c_user r)) = name -> is_Some (find_user a name) -> c_auth r = false.
  Proof.
    intros Hd. unfold delete_one. destruct (String.eqb name "default") eqn:E; [apply String.eqb_eq in E; contradiction|].
    intros Hc Hn [p Hf]. rewrite Hf in Hc. simpl in Hc. rewrite lookup_fmap in Hc.
    destruct (a_conns a !! c) as [r0|]; simpl in Hc; [|discriminate].
    destruct (String.eqb (u_name (deref a (c_user r0))) name) eqn:E2; injection Hc as <-; simpl in *; [reflexivity|].
    apply String.eqb_neq in E2. contradiction.
  Qed.

  Lemma find_all_false {A} (p : A -> bool) l : (forall x, In x l -> p x = false) -> List.find p l = None.
  Proof.
    induction l as [|x l IH]; simpl; [reflexivity|]. intros H. rewrite (H x (or_introl eq_refl)). apply IH. auto.
  Qed.

  Theorem deleted_cannot_auth a name :
    name <> "default" -> find_user (delete_one a name) name = None.
  Proof.
    intros Hd. unfold delete_one. destruct (String.eqb name "default") eqn:E; [apply String.eqb_eq in E; contradiction|].
    destruct (find_user a name) eqn:Hf; [|exact Hf].
    unfold find_user, deref. simpl. apply find_all_false. intros x Hx. apply filter_In in Hx as [_ Hx].
    apply negb_true_iff in Hx. exact Hx.
  Qed.

  (** * SAVE then LOAD REPLACE reproduces the table (serialisation trusted as the identity on the
      records), provided the users in the table are normalised and their names are distinct - which
      SetUser / Merge / NewACL establish by calling Normalise after every edit. *)
  Definition table_normal (a : acl) : Prop :=
    Forall (fun u => normalise u = u) (table a) /\ NoDup (map u_name (table a))
    /\ NoDup (a_users a) /\ (forall p, In p (a_users a) -> is_Some (a_heap a !! p)).

  Lemma find_user_self a l p :
    NoDup (map (fun q => u_name (deref a q)) l) -> In p l ->
    List.find (fun q => String.eqb (u_name (deref a q)) (u_name (deref a p))) l = Some p.
  Proof.
    induction l as [|q l IH]; simpl; [tauto|]. intros Hnd [->|Hin].
    - rewrite String.eqb_refl. reflexivity.
    - apply NoDup_cons_iff in Hnd as [Hni Hnd]. destruct (String.eqb (u_name (deref a q)) (u_name (deref a p))) eqn:E.
      + apply String.eqb_eq in E. exfalso. apply Hni. rewrite E. apply in_map_iff. exists p. auto.
      + apply IH; assumption.
  Qed.

  Lemma load_one_self a p :
    NoDup (map (fun q => u_name (deref a q)) (a_users a)) -> In p (a_users a) -> is_Some (a_heap a !! p) ->
    normalise (deref a p) = deref a p ->
    load_one false a (deref a p) = a.
  Proof.
    intros Hnd Hin [u Hu] Hn. unfold load_one. rewrite Hn. unfold find_user. rewrite (find_user_self a _ p Hnd Hin).
    unfold replace_user. destruct a as [heap users conns next req file]. unfold deref in *. simpl in *.
    unfold set; simpl. rewrite !Hu. simpl. f_equal. apply insert_id. rewrite Hu. destruct u; reflexivity.
  Qed.

  Theorem save_load_id a :
    table_normal a -> acl_load (acl_save a) "replace" = Some (acl_save a).
  Proof.
    intros (Hn & Hnd & _ & Hh). unfold acl_load.
    change (a_file (acl_save a)) with (Some (table a)). cbv iota beta. f_equal.
    change (eq_fold "replace" "merge") with false.
    set (a' := acl_save a).
    assert (Hgen: forall l, incl l (a_users a) -> fold_left (load_one false) (map (deref a) l) a' = a').
    { induction l as [|p l IH]; intros Hi; simpl; [reflexivity|].
      assert (Hp: In p (a_users a)) by (apply Hi; left; reflexivity).
      change (deref a p) with (deref a' p).
      rewrite load_one_self.
      - apply IH. intros x Hx. apply Hi. right. exact Hx.
      - unfold table in Hnd. rewrite map_map in Hnd. exact Hnd.
      - exact Hp.
      - apply Hh, Hp.
      - rewrite Forall_forall in Hn. apply Hn. apply in_map. exact Hp. }
    apply (Hgen (a_users a)). apply incl_refl.
  Qed.
End Auth.
