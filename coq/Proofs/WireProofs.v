(** C12: the connection loop.  The replies depend on the byte stream only, never on how TCP cut it into
    reads; a stream of well-formed commands gets exactly one reply per command, in order. *)
From stdpp Require Import gmap strings.
From Coq Require Import ZifyBool.
From EV Require Import Base.Str Model.Value Model.Keyspace Model.Reply Model.Dispatch Model.RespWire.
From EV Require Import Proofs.RespWireProofs.
Local Open Scope Z_scope.
Local Arguments String.append !_ _ / : simpl nomatch.

Lemma scat_app a b : scat (a ++ b) = scat a +:+ scat b.
Proof. induction a as [|x a IH]; simpl; [done|]. by rewrite IH, sapp_assoc. Qed.

(** * Reply chunking loses and adds nothing *)
Lemma chunks_f_cat fuel : forall s, scat (chunks_f fuel s) = s.
Proof.
  induction fuel as [|f IH]; intros s; cbn [chunks_f]; [simpl; apply sapp_nil_r|].
  destruct (String.length s - 1 <? chunk_size)%nat; [simpl; apply sapp_nil_r|].
  destruct (split_at chunk_size s) as [[a b]|] eqn:E; [|simpl; apply sapp_nil_r].
  cbn [scat fold_right]. change (fold_right String.append "" (chunks_f f b)) with (scat (chunks_f f b)).
  rewrite IH. symmetry. by apply split_at_join in E.
Qed.

Lemma writes_of_cat res : scat (writes_of res) = res.
Proof.
  unfold writes_of. destruct (String.eqb res "") eqn:E; [apply String.eqb_eq in E; by subst|].
  destruct (String.length res <=? chunk_size)%nat; [simpl; apply sapp_nil_r|]. apply chunks_f_cat.
Qed.

(** * [drain] *)
Lemma dec_ok_ext s q v r : decode s = DOk v r -> decode (s +:+ q) = DOk v (r +:+ q).
Proof. apply decode_ok_ext. Qed.
Lemma dec_bad_ext s q : decode s = DMalformed -> decode (s +:+ q) = DMalformed.
Proof. apply decode_bad_ext. Qed.
Lemma dec_len s v r : decode s = DOk v r -> (String.length r < String.length s)%nat.
Proof. apply decode_len. Qed.
Lemma drain_fuel f1 : forall f2 w c buf,
  (String.length buf < f1)%nat -> (String.length buf < f2)%nat -> drain f1 w c buf = drain f2 w c buf.
Proof.
  induction f1 as [|f1 IH]; intros f2 w c buf H1 H2; [lia|]. destruct f2 as [|f2]; [lia|].
  cbn [drain]. destruct (decode buf) as [| |v rest] eqn:E; try done.
  apply dec_len in E. destruct (wire_exec w c (cmd_of v)) as [w' [r|]]; [|done].
  rewrite (IH f2) by lia. done.
Qed.

Lemma drain_buf_len f : forall w c buf w1 o1 cn1,
  drain f w c buf = (w1, o1, cn1) -> (String.length (c_buf cn1) <= String.length buf)%nat.
Proof.
  induction f as [|f IH]; intros w c buf w1 o1 cn1; cbn [drain]; [intros [= <- <- <-]; simpl; lia|].
  destruct (decode buf) as [| |v rest] eqn:E.
  - intros [= <- <- <-]; simpl; lia.
  - intros [= <- <- <-]; simpl; lia.
  - apply dec_len in E. destruct (wire_exec w c (cmd_of v)) as [w' [r|]].
    + destruct (drain f w' c rest) as [[w2 o2] cn2] eqn:E2. intros [= <- <- <-].
      apply IH in E2. lia.
    + intros [= <- <- <-]; simpl; lia.
Qed.

Lemma drain_drained f : forall w c buf w1 o1 cn1,
  (String.length buf < f)%nat -> drain f w c buf = (w1, o1, cn1) -> c_closed cn1 = false ->
  decode (c_buf cn1) = DIncomplete.
Proof.
  induction f as [|f IH]; intros w c buf w1 o1 cn1 Hf; [lia|]. cbn [drain].
  destruct (decode buf) as [| |v rest] eqn:E.
  - by intros [= <- <- <-].
  - by intros [= <- <- <-].
  - apply dec_len in E. destruct (wire_exec w c (cmd_of v)) as [w' [r|]].
    + destruct (drain f w' c rest) as [[w2 o2] cn2] eqn:E2. intros [= <- <- <-].
      eapply IH; [|exact E2]. lia.
    + by intros [= <- <- <-].
Qed.

(** Draining a prefix first and the rest later is draining everything at once. *)
Lemma drain_app f1 : forall w c buf q f2 f3 w1 o1 cn1,
  (String.length buf < f1)%nat -> (String.length (buf +:+ q) < f2)%nat ->
  (String.length (buf +:+ q) < f3)%nat ->
  drain f1 w c buf = (w1, o1, cn1) ->
  drain f2 w c (buf +:+ q) =
    if c_closed cn1 then (w1, o1, cn1)
    else let '(w2, o2, cn2) := drain f3 w1 c (c_buf cn1 +:+ q) in (w2, o1 ++ o2, cn2).
Proof.
  induction f1 as [|f1 IH]; intros w c buf q f2 f3 w1 o1 cn1 H1 H2 H3; [lia|].
  destruct f2 as [|f2]; [lia|]. cbn [drain].
  destruct (decode buf) as [| |v rest] eqn:E.
  - intros [= <- <- <-]. cbn [c_closed c_buf].
    change (drain (S f2) w c (buf +:+ q) = let '(w2, o2, cn2) := drain f3 w c (buf +:+ q) in (w2, [] ++ o2, cn2)).
    rewrite (drain_fuel (S f2) f3) by lia. by destruct (drain f3 w c (buf +:+ q)) as [[??]?].
  - intros [= <- <- <-]. cbn [c_closed]. by rewrite (dec_bad_ext _ q E).
  - rewrite (dec_ok_ext _ q _ _ E). pose proof (dec_len _ _ _ E) as Hl.
    destruct (wire_exec w c (cmd_of v)) as [w' [r|]].
    + destruct (drain f1 w' c rest) as [[w1' o1'] cn1'] eqn:E2. intros [= <- <- <-].
      pose proof (drain_buf_len _ _ _ _ _ _ _ E2) as Hb.
      rewrite !slength_app in *.
      rewrite (IH w' c rest q f2 f3 _ _ _ ltac:(lia) ltac:(rewrite slength_app; lia) ltac:(rewrite slength_app; lia) E2).
      destruct (c_closed cn1'); [done|].
      destruct (drain f3 w1' c (c_buf cn1' +:+ q)) as [[w2 o2] cn2]. by rewrite app_assoc.
    + by intros [= <- <- <-].
Qed.

Lemma serve_from_closed reads : forall w c cn, c_closed cn = true -> serve_from w c cn reads = (w, [], cn).
Proof.
  induction reads as [|ch rest IH]; intros w c cn H; [done|]. cbn [serve_from]. unfold on_read. rewrite H.
  by rewrite IH.
Qed.

(** The incremental loop computes what one pass over the whole stream computes. *)
Lemma serve_from_drain reads : forall w c cn f,
  c_closed cn = false -> decode (c_buf cn) = DIncomplete ->
  (String.length (c_buf cn +:+ scat reads) < f)%nat ->
  serve_from w c cn reads = drain f w c (c_buf cn +:+ scat reads).
Proof.
  induction reads as [|ch rest IH]; intros w c cn f Hc Hd Hf.
  - cbn [serve_from scat fold_right]. rewrite sapp_nil_r in *. destruct f as [|f]; [lia|].
    cbn [drain]. rewrite Hd. destruct cn as [b cl]; simpl in *; by subst.
  - cbn [serve_from scat fold_right]. change (fold_right String.append "" rest) with (scat rest) in *.
    cbn [scat fold_right] in Hf. change (fold_right String.append "" rest) with (scat rest) in *.
    rewrite <- sapp_assoc in *. unfold on_read. rewrite Hc.
    destruct (drain (S (String.length (c_buf cn +:+ ch))) w c (c_buf cn +:+ ch)) as [[w1 o1] cn1] eqn:E.
    rewrite (drain_app (S (String.length (c_buf cn +:+ ch))) w c (c_buf cn +:+ ch) (scat rest) f f w1 o1 cn1 (Nat.lt_succ_diag_r _) Hf Hf E).
    destruct (c_closed cn1) eqn:Hc1.
    + rewrite serve_from_closed by done. by rewrite app_nil_r.
    + pose proof (drain_drained _ _ _ _ _ _ _ (Nat.lt_succ_diag_r _) E Hc1) as Hd1.
      pose proof (drain_buf_len _ _ _ _ _ _ _ E) as Hb.
      rewrite (IH w1 c cn1 f Hc1 Hd1) by (rewrite !slength_app in *; lia). done.
Qed.

Lemma decode_empty : decode "" = DIncomplete.
Proof. reflexivity. Qed.

(** ** The replies are a function of the byte stream, whatever it contains and however it is cut *)
Theorem C12_segmentation_irrelevant w c reads1 reads2 :
  scat reads1 = scat reads2 -> serve w c reads1 = serve w c reads2.
Proof.
  intros H. unfold serve.
  rewrite (serve_from_drain reads1 w c conn0 (S (String.length (scat reads1)))) by (simpl; done || lia).
  rewrite (serve_from_drain reads2 w c conn0 (S (String.length (scat reads1)))) by (simpl; done || (rewrite H; lia)).
  simpl. by rewrite H.
Qed.

(** * A stream of well-formed commands *)
Lemma cmd_value_wf argv : cmd_ok argv = true -> wf true (WArr (map WBulk argv)) = true.
Proof.
  unfold cmd_ok. intros H. apply andb_prop in H as [H1 H2]. cbn [wf negb orb].
  assert (zlen (map WBulk argv) = zlen argv) as -> by (unfold zlen; by rewrite map_length).
  rewrite H1. cbn [andb]. clear H1. induction argv as [|a l IH]; [done|]. cbn [map forallb wf negb orb] in *.
  apply andb_prop in H2 as [Ha Hl]. by rewrite Ha, IH.
Qed.

Lemma cmd_of_encode argv : cmd_of (WArr (map WBulk argv)) = argv.
Proof. cbn [cmd_of]. induction argv as [|a l IH]; [done|]. cbn [map to_str]. by rewrite IH. Qed.

Lemma drain_cmds cmds : forall w c f,
  Forall (fun a => cmd_ok a = true) cmds -> (String.length (encode_cmds cmds) < f)%nat ->
  scat (snd (fst (drain f w c (encode_cmds cmds)))) = scat (replies_of w c cmds).
Proof.
  induction cmds as [|argv rest IH]; intros w c f Hok Hf; (destruct f as [|f]; [lia|]).
  - reflexivity.
  - inversion_clear Hok as [|?? Ha Hr].
    change (encode_cmds (argv :: rest)) with (encode_cmd argv +:+ encode_cmds rest) in *.
    cbn [drain replies_of]. unfold decode, encode_cmd. rewrite encode_decode by (by apply cmd_value_wf).
    rewrite cmd_of_encode. destruct (wire_exec w c argv) as [w' [r|]]; [|done].
    destruct (drain f w' c (encode_cmds rest)) as [[w2 o2] cn2] eqn:E. cbn [fst snd].
    rewrite scat_app, writes_of_cat. cbn [scat fold_right].
    change (fold_right String.append "" (replies_of w' c rest)) with (scat (replies_of w' c rest)).
    rewrite <- (IH w' c f Hr); [by rewrite E|]. rewrite slength_app in Hf.
    unfold encode_cmd in Hf. simpl in Hf. lia.
Qed.

(** ** C12, framing: for every stream that is a concatenation of well-formed commands and every way of
    cutting it into reads, what is written to the connection is exactly one reply per command, in order
    (up to and including the acknowledgement of the first QUIT, which closes the connection). *)
Theorem one_reply_per_command w c cmds reads :
  Forall (fun a => cmd_ok a = true) cmds -> scat reads = encode_cmds cmds ->
  scat (serve w c reads) = scat (replies_of w c cmds).
Proof.
  intros Hok Hs. unfold serve.
  rewrite (serve_from_drain reads w c conn0 (S (String.length (scat reads)))) by (simpl; done || lia).
  simpl (c_buf conn0 +:+ scat reads). rewrite Hs. apply drain_cmds; [done|lia].
Qed.

(** * Every reply is exactly one well-formed frame *)
Lemma reply_ind' (P : reply -> Prop) :
  (forall s, P (RSimple s)) -> P RErr -> (forall z, P (RInt z)) -> (forall s, P (RBulk s)) -> P RNil -> P RNilArr ->
  (forall l, Forall P l -> P (RArr l)) -> (forall f, P (RFloat f)) -> (forall s, P (RRaw s)) -> P REmpty -> P RPanic ->
  forall r, P r.
Proof.
  intros H1 H2 H3 H4 H5 H6 H7 H8 H9 H10 H11. fix IH 1.
  intros [s| |z|s| | |l|f|s| |]; [apply H1|apply H2|apply H3|apply H4|apply H5|apply H6| |apply H8|apply H9|apply H10|apply H11].
  apply H7. induction l as [|x l IHl]; constructor; [apply IH|apply IHl].
Qed.

Lemma reply_value_wf r : reply_ok r = true -> wf false (reply_value r) = true.
Proof.
  induction r as [s| |z|s| | |l IH|f|s| |] using reply_ind'; cbn [reply_ok reply_value wf negb orb]; try done.
  intros H. cbn [andb]. induction l as [|x l IHl]; [done|]. cbn [map forallb] in *.
  apply andb_prop in H as [Hx Hl]. inversion_clear IH as [|?? IHx IHl']. rewrite (IHx Hx). by apply IHl.
Qed.

(** [reply_frame]: a reply without raw bytes whose simple strings contain no CR / LF is, for a strict RESP
    parser, exactly one value and nothing else — whatever bytes (CR, LF, NUL, none at all) and however many
    its bulk strings carry, at any nesting depth.  Followed by other replies it is still read as itself. *)
Theorem reply_frame r rest :
  reply_ok r = true -> decode_strict (reply_bytes r +:+ rest) = DOk (reply_value r) rest.
Proof. intros H. apply encode_decode. by apply reply_value_wf. Qed.

Corollary reply_frame_alone r : reply_ok r = true -> decode_strict (reply_bytes r) = DOk (reply_value r) "".
Proof. intros H. rewrite <- (sapp_nil_r (reply_bytes r)). by apply reply_frame. Qed.

(** Stored bytes come back intact: the bulk reply of any byte string decodes to that byte string. *)
Corollary bulk_bytes_intact s rest : decode_strict (reply_bytes (RBulk s) +:+ rest) = DOk (WBulk s) rest.
Proof. by apply (reply_frame (RBulk s)). Qed.

(** * The embedded API sees what the wire carries *)
(** The API functions parse the handler's bytes with the same reader (with its limits). *)
Definition reply_small (r : reply) : bool := wf true (reply_value r).

Lemma first_value_reply r : reply_small r = true -> first_value (reply_bytes r) = Some (reply_value r).
Proof.
  intros H. unfold first_value, decode, reply_bytes. rewrite <- (sapp_nil_r (encode (reply_value r))).
  by rewrite encode_decode.
Qed.

Theorem embedded_equals_wire r :
  reply_small r = true ->
  parse_string_response (reply_bytes r) = ApiOk (wire_string r) /\
  parse_integer_response (reply_bytes r) = ApiOk (wire_int r) /\
  parse_boolean_response (reply_bytes r) = ApiOk (negb (wire_int r =? 0)) /\
  parse_string_array_response (reply_bytes r) = ApiOk (wire_strings r) /\
  parse_integer_array_response (reply_bytes r) = ApiOk (wire_ints r).
Proof.
  intros H. unfold parse_string_response, parse_integer_response, parse_boolean_response,
    parse_string_array_response, parse_integer_array_response, wire_string, wire_int, wire_strings, wire_ints.
  rewrite (first_value_reply r H). repeat split; try done.
  destruct (reply_value r); done.
Qed.

(** Concretely: a bulk reply gives the API its bytes, an integer reply its integer, an array of bulk strings
    the list of their bytes. *)
Corollary embedded_bulk s : slen s <= max_bulk -> parse_string_response (reply_bytes (RBulk s)) = ApiOk s.
Proof.
  intros H. destruct (embedded_equals_wire (RBulk s)) as [E _]; [|exact E].
  unfold reply_small. cbn [reply_value wf negb orb]. lia.
Qed.
Corollary embedded_int z : parse_integer_response (reply_bytes (RInt z)) = ApiOk z.
Proof. by destruct (embedded_equals_wire (RInt z)) as (_ & E & _). Qed.
