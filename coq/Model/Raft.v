(** The raft state machine of a cluster node and the cluster branch of [handleCommand]:
    [internal/raft/fsm.go] (Apply, Snapshot, Restore), [internal/raft/fsm_snapshot.go] (Persist),
    [sugardb/cluster.go] (raftApplyCommand, raftApplyDeleteKey), [sugardb/modules.go] (handleCommand,
    the part after [if !server.isInCluster() || !synchronize]), [internal/memberlist/delegate.go]
    (NotifyMsg for a forwarded mutation).

    hashicorp/raft and memberlist are not modelled: the theorems take as hypothesis that every node's
    state machine is fed a prefix of one common log, in order.  What *is* modelled is everything this
    repository adds: what an entry is, what applying it does on a node with that node's own clock and
    its own source of randomness, which commands become entries, what a follower does with a write,
    what a raft snapshot contains and what restoring it does. *)
From stdpp Require Import gmap strings.
From RecordUpdate Require Import RecordSet.
Import RecordSetNotations.
From EV Require Import Base.Str Model.Value Model.Keyspace Model.Reply Model.Prog.
From EV Require Import Model.CmdList Model.CmdHash Model.CmdSet Model.CmdZSet Model.CmdGeneric Model.CmdString.
From EV Require Import Model.CmdZRand Model.CmdKeyspace.
From EV Require Import Model.Dispatch Model.AbsForm.
Local Open Scope Z_scope.

(** * Handlers on a cluster node

    [getValues] in cluster mode: an expired key reads as absent and is *not* removed locally (before
    fix 0005 the leader called raft.Apply at this point and a follower queued a gossip message; neither
    changed the local store either).  Everything else is the standalone primitive. *)
Fixpoint run_cl {R} (d : Z) (p : prog R) (s : state) : state * R :=
  match p with
  | Ret r => (s, r)
  | KeysExist ks k => run_cl d (k (keys_exist s d ks)) s
  | GetExpiry key k => run_cl d (k (get_expiry s d key)) s
  | GetValues ks k => run_cl d (k (snd (get_values s d ks))) s
  | SetValues kvs k => let '(s', ok) := set_values s d kvs in run_cl d (k ok) s'
  | SetExpiry key t _ k => run_cl d k (set_expiry s d key t)
  | DeleteKey key k => run_cl d k (delete_key s d key)
  | Now k => run_cl d (k (st_now s)) s
  | FlushDb k => run_cl d k (flush s d)
  | FlushAll k => run_cl d k (flush s (-1))
  | GetDb k => run_cl d (k d) s
  end.

(** The handler table with the node's own source of randomness ([Set.GetRandom] uses math/rand of
    the process: every node draws its own numbers). *)
Definition handler_for (pk : picker) (name : string) : option (list string -> prog reply) :=
  first_some [list_handler name; hash_handler name; set_handler pk name; zset_handler name;
              generic_handler name; string_handler name;
              zrand_handler default_zpick name; keyspace_handler default_keysource name].

(** * Log entries: [internal.ApplyRequest] *)
Inductive request :=
| ReqCommand (db : Z) (argv : list string)     (* Type "command": CMD, Database *)
| ReqDeleteKey (db : Z) (key : string)         (* Type "delete-key": Key, Database *)
| ReqOther.                                    (* any other Type *)

Inductive fsm_resp :=
| FReply (r : reply)       (* ApplyResponse{Response: res} *)
| FErr                     (* ApplyResponse{Error: err} *)
| FDeleted.                (* ApplyResponse{Response: "OK"} of delete-key (not RESP) *)

(** [FSM.Apply]: the handler is looked up by [request.CMD[0]], run with the request's database and a
    nil connection; a handler error is the response's error (what the handler had written before the
    error stays written, as in standalone mode). *)
Definition fsm_apply (pk : picker) (s : state) (e : request) : state * fsm_resp :=
  match e with
  | ReqOther => (s, FErr)
  | ReqDeleteKey d k => (delete_key s d k, FDeleted)
  | ReqCommand d argv =>
      match argv with
      | [] => (s, FErr)
      | cmd :: _ =>
          match handler_for pk (lower cmd) with
          | None => (s, FErr)
          | Some h =>
              let '(s', r) := run_cl d (h argv) s in
              (s', match r with RErr => FErr | _ => FReply r end)
          end
      end
  end.

(** A node applies the entries it is fed one after the other.  When entry number [i] is applied the
    node's clock shows [clk i] and its random source is [pk i]: both belong to the node. *)
Definition at_time (s : state) (t : Z) : state := s <| st_now := t |>.

Fixpoint apply_from (i : nat) (clk : nat -> Z) (pk : nat -> picker) (s : state) (L : list request) : state :=
  match L with
  | [] => s
  | e :: r => apply_from (S i) clk pk (fst (fsm_apply (pk i) (at_time s (clk i)) e)) r
  end.
Definition apply_all := apply_from 0.

(** What the replicas are compared on: everything but the clock. *)
Definition dataset (s : state) : state := at_time s 0.

(** * Raft snapshots

    [Snapshot] copies the store ([GetState]); [Persist] drops the entries whose deadline lies before
    the wall clock [time.Now()] and serialises the rest (typed value encoding: [Model/SnapCodec.v]);
    [Restore] (after fix 0006) empties the node, then for every entry that has not expired by the wall
    clock calls [SetValues] and [SetExpiry]. *)
Definition snapshot_data := list (Z * list (string * entry)).

Definition filter_expired (wall : Z) (db : dbmap) : list (string * entry) :=
  filter (fun '(_, e) => negb (expired wall e)) (map_to_list db).

Definition fsm_persist (wall : Z) (s : state) : snapshot_data :=
  map (fun '(d, db) => (d, filter_expired wall db)) (map_to_list (st_dbs s)).

Definition restore_entry (d : Z) (s : state) (ke : string * entry) : state :=
  let '(k, e) := ke in
  set_expiry (fst (set_values s d [(k, e_val e)])) d k (e_dl e).

Definition restore_db (wall : Z) (s : state) (dd : Z * list (string * entry)) : state :=
  let '(d, es) := dd in
  fold_left (restore_entry d) (filter (fun '(_, e) => negb (expired wall e)) es) s.

Definition fsm_restore (wall : Z) (snap : snapshot_data) (s : state) : state :=
  fold_left (restore_db wall) snap (flush s (-1)).

(** * The cluster branch of [handleCommand] *)
Record node := Node {
  n_st : state;
  n_leader : bool;     (* server.raft.IsRaftLeader() *)
  n_forward : bool;    (* config.ForwardCommand *)
}.
Global Instance eta_node : Settable _ := settable! Node <n_st; n_leader; n_forward>.

Inductive hc_result :=
| HcLocal (s' : state) (r : reply)        (* not a Sync command: the handler ran on this node *)
| HcPropose (e : request)                 (* leader: raftApplyCommand, the reply is the state machine's *)
| HcForward (db : Z) (argv : list string) (* follower with ForwardCommand: gossip message, reply +OK *)
| HcReject                                (* follower: "not cluster leader, cannot carry out command" *)
| HcUnknown.                              (* getCommand failed *)

(** [raftApplyCommand] (fixes/fix-absolute-expiry.diff): the entry carries the command in its absolute
    form ([internal.AbsoluteExpiryForm], Model/AbsForm.v) at the leader's clock, read once when the
    entry is built. *)
Definition handle_command (sync : string -> bool) (pk : picker) (n : node) (d : Z) (argv : list string)
  : hc_result :=
  match argv with
  | [] => HcUnknown
  | cmd :: _ =>
      match handler_for pk (lower cmd) with
      | None => HcUnknown
      | Some h =>
          if negb (sync (lower cmd)) then
            let '(s', r) := run_cl d (h argv) (n_st n) in HcLocal s' r
          else if n_leader n then HcPropose (ReqCommand d (absolute_form (st_now (n_st n)) argv))
          else if n_forward n then HcForward d argv
          else HcReject
      end
  end.

(** What the node's own dataset is after [handleCommand] returned, as far as this node's own code is
    concerned (an entry proposed by the leader reaches the dataset through [fsm_apply], below). *)
Definition own_state_after (n : node) (r : hc_result) : state :=
  match r with HcLocal s' _ => s' | _ => n_st n end.

(** [NotifyMsg] "MutateData" on the leader (after fix 0004 the message carries the database): the
    delegate's [ApplyMutate] is [raftApplyCommand], so the forwarded command too is put into the log in
    its absolute form at the leader's clock. *)
Definition notify_mutate (n : node) (db : Z) (argv : list string) : option request :=
  if n_leader n then Some (ReqCommand db (absolute_form (st_now (n_st n)) argv)) else None (* re-broadcast *).

(** The leader's acknowledged write: the entry is committed, the leader's state machine applies it,
    the apply future hands the response back and only then the client gets its reply. *)
Definition leader_write (pk : picker) (n : node) (e : request) : node * fsm_resp :=
  let '(s', r) := fsm_apply pk (n_st n) e in (n <| n_st := s' |>, r).
