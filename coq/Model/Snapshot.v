(** The standalone snapshot engine ([internal/snapshot/snapshot.go]) over the file-system model of
    [SnapFs.v]: [TakeSnapshot] as the sequence of its file-system operations in the order of the code,
    [Restore] (manifest first), and the wiring of [sugardb/sugardb.go] (state copy with all databases,
    expired-key filter, re-insertion with setValues + setExpiry). *)
From stdpp Require Import gmap strings.
From RecordUpdate Require Import RecordSet.
Import RecordSetNotations.
From EV Require Import Base.Str Model.Value Model.Keyspace Model.SnapCodec Model.SnapFs.
Local Open Scope Z_scope.

(** [internal.FilterExpiredKeys]: drops the keys whose deadline is before [now]; every database stays,
    even when nothing is left in it. *)
Definition filter_expired (now : Z) (dbs : gmap Z dbmap) : gmap Z dbmap :=
  (fun db : dbmap => base.filter (fun p : string * entry => expired now p.2 = false) db) <$> dbs.

Section engine.
Variable c : codec.
(** md5 of the JSON text.  Only equality of hashes is ever used. *)
Context {H : Type} `{EqDecision H}.
Variable hash : snapobj -> H.

(** [snapshot.Manifest] *)
Record manifest := Manifest { m_msec : Z; m_hash : H }.
Inductive doc := DMan (m : manifest) | DSnap (o : snapobj).
Definition sfs := fs doc.

Inductive man_rd := MNone | MBad | MOk (m : manifest).
Definition read_manifest (x : sfs) : man_rd :=
  match read_file x FMan with
  | RdNone => MNone
  | RdOk (DMan m) => MOk m
  | _ => MBad
  end.

(** [SnapshotObject{State: FilterExpiredKeys(now, getState()), LatestSnapshotMilliseconds: latest}] *)
Definition snapshot_object (s : state) (latest : Z) : snapobj :=
  SnapObj (enc_state c (filter_expired (st_now s) (st_dbs s))) latest.

Inductive snap_result := SnapOk | SnapSkip | SnapFail.
Record plan := Plan { p_ops : list (fsop doc); p_res : snap_result; p_obj : option snapobj }.

(** The part of [TakeSnapshot] after the hash test: the snapshot directory, the state file
    (replaceFile: create name.tmp, write, sync, close, rename), then the manifest the same way. *)
Definition publish_ops (msec : Z) (obj : snapobj) : list (fsop doc) :=
  [ OMkDir msec;
    OCreate (FStateTmp msec); OWrite (FStateTmp msec) (DSnap obj); OSync (FStateTmp msec);
    OClose (FStateTmp msec); ORename (FStateTmp msec) (FState msec);
    OCreate FManTmp; OWrite FManTmp (DMan (Manifest msec (hash obj))); OSync FManTmp;
    OClose FManTmp; ORename FManTmp FMan ].

(** The order of operations before the fix "snapshots are written before they are published": the
    manifest was truncated and rewritten first, then the directory and the state file.  Kept only for
    the [_refuted] witnesses in Properties/C10.v. *)
Definition legacy_publish_ops (msec : Z) (obj : snapobj) : list (fsop doc) :=
  [ OCreate FMan; OWrite FMan (DMan (Manifest msec (hash obj))); OSync FMan; OClose FMan;
    OMkDir msec; OCreate (FState msec); OWrite (FState msec) (DSnap obj); OSync (FState msec) ].

(** [TakeSnapshot] up to the decision what to write: MkdirAll(snapshots); read the manifest (a missing
    one means first snapshot, an unreadable one is an error); copy the state, drop expired keys, encode
    with the in-memory last-save time, compare the hash with the manifest's; if they differ encode
    again with the time of this snapshot. *)
Definition take_snapshot_plan (x : sfs) (s : state) (ls : Z) : plan :=
  let msec := st_now s in
  match read_manifest x with
  | MBad => Plan [OMkRoot] SnapFail None
  | r =>
      let same := match r with
                  | MOk m => bool_decide (hash (snapshot_object s ls) = m_hash m)
                  | _ => false
                  end in
      if same then Plan [OMkRoot] SnapSkip None
      else let obj := snapshot_object s msec in
           Plan (OMkRoot :: publish_ops msec obj) SnapOk (Some obj)
  end.

(** Running the operations; [fail = Some k] : the operating system refuses operation number [k]
    (counted from 0), the function returns the error at once. *)
Definition run_plan (x : sfs) (p : plan) (fail : option nat) : sfs * snap_result :=
  match fail with
  | Some k => if (k <? length (p_ops p))%nat then (apply_ops x (take k (p_ops p)), SnapFail)
              else (apply_ops x (p_ops p), p_res p)
  | None => (apply_ops x (p_ops p), p_res p)
  end.

(** The whole of [TakeSnapshot]: on success the last-save time becomes the time of the snapshot and the
    change counter is reset; otherwise neither is touched. *)
Definition take_snapshot (x : sfs) (s : state) (ls : Z) (fail : option nat) : sfs * state * Z * snap_result :=
  let '(x', r) := run_plan x (take_snapshot_plan x s ls) fail in
  match r with
  | SnapOk => (x', s <| st_changes := 0 |>, st_now s, SnapOk)
  | _ => (x', s, ls, r)
  end.

(** [TakeSnapshot] while clients are served.  The state is copied at one instant (under the command lock): [s0] is
    the store at that instant, and the number of changes counted so far is read just before.  The files are written
    from the copy while commands go on; when the attempt ends the store is [s1].  On success the changes the copy
    contains ([st_changes s0]) are discounted from the counter as it is then — the changes made meanwhile are not
    in the snapshot and keep counting towards the next one.  With [s1 = s0] this is [take_snapshot]
    ([SnapCount.take_snapshot_during_quiet]). *)
Definition take_snapshot_during (x : sfs) (s0 s1 : state) (ls : Z) (fail : option nat) : sfs * state * Z * snap_result :=
  let '(x', r) := run_plan x (take_snapshot_plan x s0 ls) fail in
  match r with
  | SnapOk => (x', s1 <| st_changes := st_changes s1 - st_changes s0 |>, st_now s0, SnapOk)
  | _ => (x', s1, ls, r)
  end.
(** The code before the repair: the counter was set to zero at the end of the attempt. *)
Definition take_snapshot_during_legacy (x : sfs) (s0 s1 : state) (ls : Z) (fail : option nat) : sfs * state * Z * snap_result :=
  let '(x', r) := run_plan x (take_snapshot_plan x s0 ls) fail in
  match r with
  | SnapOk => (x', s1 <| st_changes := 0 |>, st_now s0, SnapOk)
  | _ => (x', s1, ls, r)
  end.

(** [Restore], reading part: the manifest, then the state file it names.  [None]: an error is returned
    and nothing is loaded. *)
Definition restore_read (x : sfs) : option snapobj :=
  match read_manifest x with
  | MOk m =>
      if m_msec m =? 0 then None
      else match read_file x (FState (m_msec m)) with
           | RdOk (DSnap o) => Some o
           | _ => None
           end
  | _ => None
  end.

(** [WithSetKeyDataFunc]: setValues, then setExpiry with the stored deadline (none: the zero time). *)
Definition load_entry (d : Z) (k : string) (e : entry) (s : state) : state :=
  set_expiry (set_values s d [(k, e_val e)]).1 d k (e_dl e).
Definition load_db (d : Z) (db : dbmap) (s : state) : state := map_fold (load_entry d) s db.
Definition load_state (dbs : gmap Z dbmap) (s : state) : state := map_fold load_db s dbs.

(** [Restore] into the state [s0] of an instance that is starting. *)
Definition restore (x : sfs) (s0 : state) : option (state * Z) :=
  match restore_read x with
  | None => None
  | Some o =>
      match dec_state c (so_state o) with
      | None => None
      | Some dbs => Some (load_state (filter_expired (st_now s0) dbs) s0, so_latest o)
      end
  end.

(** Start-up with RestoreSnapshot on and RestoreAOF off: a failed restore is logged, the server starts empty. *)
Definition startup (x : sfs) (now : Z) : state * Z :=
  match restore x (init_state now) with
  | Some r => r
  | None => (init_state now, 0)
  end.

(** The body of the ticker: a snapshot when the number of changes has reached the threshold. *)
Definition tick (thr : Z) (x : sfs) (s : state) (ls : Z) : sfs * state * Z * option snap_result :=
  if thr <=? st_changes s
  then let '(x', s', ls', r) := take_snapshot x s ls None in (x', s', ls', Some r)
  else (x, s, ls, None).

End engine.
Arguments MNone {H}. Arguments MBad {H}.
