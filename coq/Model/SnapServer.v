(** A standalone server with a data directory: the keyspace and connections of [Dispatch.v], the
    snapshot directory, LASTSAVE.  Events: commands, SAVE, the ticker, clock advance, restart.
    Also the runner of the [snap] mode (same line protocol as harness/snapcrash). *)
From stdpp Require Import gmap strings.
From RecordUpdate Require Import RecordSet.
Import RecordSetNotations.
From EV Require Import Base.Str Model.Value Model.Keyspace Model.Reply Model.Prog Model.Dispatch Model.Script.
From EV Require Import Model.SnapCodec Model.SnapFs Model.Snapshot.
Local Open Scope Z_scope.

Section server.
Variable c : codec.
Context {H : Type} `{EqDecision H}.
Variable hash : snapobj -> H.
Notation sfs := (sfs (H:=H)).

Record server := Server {
  sv_w : world;            (* keyspace, clock, connections *)
  sv_fs : sfs;             (* <data-dir>/snapshots *)
  sv_ls : Z;               (* latestSnapshotMilliseconds: what LASTSAVE reports, 0 = none *)
  sv_thr : Z;              (* config.SnapShotThreshold *)
}.

Definition sv_st (v : server) : state := w_st (sv_w v).
Definition with_st (v : server) (s : state) : server :=
  Server ((sv_w v) <| w_st := s |>) (sv_fs v) (sv_ls v) (sv_thr v).

Definition init_server (now thr : Z) : server := Server (init_world now) fs_empty 0 thr.

(** SAVE (once its goroutine has finished), optionally with operation [fail] refused. *)
Definition do_snapshot (v : server) (fail : option nat) : server * snap_result :=
  let '(x, s, ls, r) := take_snapshot c hash (sv_fs v) (sv_st v) (sv_ls v) fail in
  (Server ((sv_w v) <| w_st := s |>) x ls (sv_thr v), r).

(** One tick of the snapshot ticker. *)
Definition do_tick (v : server) : server * option snap_result :=
  let '(x, s, ls, r) := tick c hash (sv_thr v) (sv_fs v) (sv_st v) (sv_ls v) in
  (Server ((sv_w v) <| w_st := s |>) x ls (sv_thr v), r).

(** The process stops (only the directory survives) and a new one starts at the same clock reading,
    with snapshot restore on. *)
Definition restart_on (x : sfs) (now thr : Z) : server :=
  let '(s, ls) := startup c x now in
  Server (World s ∅) x ls thr.
Definition do_restart (v : server) : server := restart_on (sv_fs v) (st_now (sv_st v)) (sv_thr v).

(** LASTSAVE *)
Definition lastsave_reply (v : server) : reply := if sv_ls v =? 0 then RErr else RInt (sv_ls v).

(** * Runner *)
Definition show_result (r : snap_result) : string :=
  match r with SnapOk => "ok" | SnapSkip => "skip" | SnapFail => "fail" end.

Definition file_kind (f : fileid) : string :=
  match f with FMan | FManTmp => "manifest" | FState _ | FStateTmp _ => "state" end.
Definition op_name (o : fsop (doc (H:=H))) : string :=
  match o with
  | OMkRoot => "mkroot"
  | OMkDir _ => "mkdir"
  | OCreate f => "create:" +:+ file_kind f
  | OWrite f _ => "write:" +:+ file_kind f
  | OSync f => "sync:" +:+ file_kind f
  | OClose f => "close:" +:+ file_kind f
  | ORename _ dst => "rename:" +:+ file_kind dst
  end.

(** The failpoints of the Go code, in order, each with the image of the directory at that point. *)
Definition extra_points (res : snap_result) (o : fsop (doc (H:=H))) : list string :=
  match o with
  | OMkRoot => match res with
               | SnapFail => []
               | SnapSkip => ["manifest-read"; "state-copied"; "nothing-new"]
               | SnapOk => ["manifest-read"; "state-copied"]
               end
  | ORename _ FMan => ["published"; "latest-set"]
  | _ => []
  end.
Fixpoint named_images_go (res : snap_result) (x : sfs) (ops : list (fsop doc)) : list (string * sfs) * sfs :=
  match ops with
  | [] => ([], x)
  | o :: r =>
      let x' := apply_op x o in
      let '(rest, xf) := named_images_go res x' r in
      (match torn_op x o with Some y => [(op_name o +:+ "~torn", y)] | None => [] end ++
       (op_name o, x') :: map (fun n => (n, x')) (extra_points res o) ++ rest, xf)
  end.
Definition named_images (x : sfs) (p : plan (H:=H)) : list (string * sfs) :=
  let '(l, xf) := named_images_go (p_res p) x (p_ops p) in
  ("enter", x) :: l ++ [("exit", xf)].

Definition show_restored (x : sfs) (now thr : Z) : string :=
  match restore c x (init_state now) with
  | Some (s, ls) => "err=0 ls=" +:+ show_Z ls +:+ " " +:+ show_state s
  | None => "err=1 ls=0 " +:+ show_state (init_state now)
  end.

Definition v_line (v' : server) (r : snap_result) (was : Z) : string :=
  "V " +:+ show_result r +:+ " ls=" +:+ show_Z (sv_ls v') +:+ " was=" +:+ show_Z was.

(** Which operation the harness makes fail for "F <what>" (index into the plan's operations). *)
Definition fail_index (v : server) (what : string) : option nat :=
  let msec := st_now (sv_st v) in
  if String.eqb what "mkdir" then (if bool_decide (msec ∈ f_dirs (sv_fs v)) then None else Some 1%nat)
  else if String.eqb what "state" then Some 2%nat
  else if String.eqb what "manifest" then Some 7%nat
  else None.

Definition is_cmd (name : string) (argv : list string) : bool :=
  match argv with a :: _ => String.eqb (lower a) name | [] => false end.   (* LASTSAVE ignores further arguments *)

Definition step_line (v : server) (line : string) : server * list string :=
  match split_words line with
  | ["V"] =>
      let '(v', r) := do_snapshot v None in
      (v', ["R " +:+ show_reply ROk; v_line v' r (sv_ls v)])
  | ["K"] =>
      let p := take_snapshot_plan c hash (sv_fs v) (sv_st v) (sv_ls v) in
      let now := st_now (sv_st v) in
      let '(v', r) := do_snapshot v None in
      (v', map (fun ni => "K " +:+ ni.1 +:+ " " +:+ show_restored ni.2 now (sv_thr v)) (named_images (sv_fs v) p)
           ++ [v_line v' r (sv_ls v)])
  | ["F"; what] =>
      let '(v', r) := do_snapshot v (fail_index v what) in
      (v', [v_line v' r (sv_ls v)])
  | ["T"] =>
      let v' := do_restart v in
      let e := match restore c (sv_fs v) (init_state (st_now (sv_st v))) with Some _ => "0" | None => "1" end in
      (v', ["T err=" +:+ e +:+ " ls=" +:+ show_Z (sv_ls v')])
  | "KW" :: cn :: args =>
      (* a command served between the state copy and the encoding of a snapshot: the snapshot is of the state before it *)
      match parse_int cn, unhex_all args with
      | Some c0, Some argv =>
          let s0 := sv_st v in
          let '(w1, out) := step_event (sv_w v) (ECmd c0 argv) in
          let '(x, s, ls, r) := take_snapshot_during c hash (sv_fs v) s0 (w_st w1) (sv_ls v) None in
          let v' := Server (w1 <| w_st := s |>) x ls (sv_thr v) in
          (v', v_line v' r (sv_ls v) :: out)
      | _, _ => (v, ["BAD " +:+ line])
      end
  | ["L"; _; _] =>
      (* a leftover temporary file of an earlier crash: the plan creates (truncates) its temporary files before
         writing them, so whatever they held is unobservable — C10_crash_atomic is stated for every directory content *)
      (v, [])
  | ["Z"; _] =>
      let '(v', r) := do_tick v in
      (v', ["Z taken=" +:+ (match r with Some SnapOk => "1" | _ => "0" end) +:+ " ls=" +:+ show_Z (sv_ls v')])
  | _ =>
      match parse_event line with
      | None => (v, [])
      | Some (ECmd cn argv) =>
          if is_cmd "lastsave" argv then (v, ["R " +:+ show_reply (lastsave_reply v)])
          else let '(w', out) := step_event (sv_w v) (ECmd cn argv) in
               (Server w' (sv_fs v) (sv_ls v) (sv_thr v), out)
      | Some e => let '(w', out) := step_event (sv_w v) e in
                  (Server w' (sv_fs v) (sv_ls v) (sv_thr v), out)
      end
  end.

Fixpoint run_lines (v : server) (lines : list string) : list string :=
  match lines with
  | [] => []
  | l :: r => let '(v', out) := step_line v l in out ++ run_lines v' r
  end.

Definition cfg_thr (cfg : list string) : Z :=
  fold_left (fun acc kv => match cfg_value kv with
                           | Some ("snapthreshold", v) => default acc (parse_int v)
                           | _ => acc end) cfg 1000000.

Definition run_snap_with (lines : list string) : list string :=
  match lines with
  | [] => []
  | hdr :: body =>
      match split_words hdr with
      | "S" :: id :: cfg =>
          let w := fold_left apply_cfg cfg (init_world default_now) in
          let v := Server w fs_empty 0 (cfg_thr cfg) in
          ("S " +:+ id) :: run_lines v (filter (fun l => negb (String.eqb l "E")) body) ++ ["E"]
      | _ => ["BAD " +:+ hdr]
      end
  end.

End server.

(** The instance the runner uses: any codec satisfying [codec_ok] gives the same observations (the
    encoded form is never printed); the hash is the content itself. *)
Definition run_codec : codec :=
  Codec (fun _ => true) (fun s => s) Some show_Z parse_int show_fl parse_fl.
Definition run_snap (lines : list string) : list string :=
  run_snap_with run_codec (H:=snapobj) (fun o => o) lines.
