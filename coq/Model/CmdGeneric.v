(** Generic handlers: [internal/modules/generic/commands.go] and [utils.go], one definition per Go
    handler, same order of checks.  Times are unix milliseconds. *)
From stdpp Require Import gmap strings.
From Coq Require Import QArith.
From EV Require Import Base.Str Model.Value Model.Adapt Model.Keyspace Model.Reply Model.Prog.
Local Open Scope Z_scope.


(** [encodeValue]: strings and numbers as a bulk string, anything else refused. *)
Definition encode_value (o : option value) : reply :=
  match o with
  | Some (VScal (SStr s)) => RBulk s
  | Some (VScal (SInt z)) => RBulk (show_Z z)
  | Some (VScal (SFloat f)) => match fl_text f with Some t => RBulk t | None => RFloat f end
  | _ => RErr
  end.

(** [getSetCommandOptions] *)
Record set_opts := SetOpts { so_exists : string; so_get : bool; so_expire : option Z }.

Fixpoint parse_set_opts (fuel : nat) (now : Z) (cmd : list string) (o : set_opts) : option set_opts :=
  match fuel with
  | O => None
  | S fuel' =>
    match cmd with
    | [] => Some o
    | w :: rest =>
      let lw := lower w in
      let timed (mk : Z -> Z) :=
        match rest with
        | [] => None
        | v :: rest' =>
            match so_expire o with
            | Some _ => None
            | None => match parse_int v with
                      | Some n => parse_set_opts fuel' now rest' (SetOpts (so_exists o) (so_get o) (Some (mk n)))
                      | None => None
                      end
            end
        end in
      if String.eqb lw "get" then parse_set_opts fuel' now rest (SetOpts (so_exists o) true (so_expire o))
      else if String.eqb lw "nx" then
        if String.eqb (so_exists o) "" then parse_set_opts fuel' now rest (SetOpts "NX" (so_get o) (so_expire o)) else None
      else if String.eqb lw "xx" then
        if String.eqb (so_exists o) "" then parse_set_opts fuel' now rest (SetOpts "XX" (so_get o) (so_expire o)) else None
      else if String.eqb lw "ex" then timed (fun n => now + n * 1000)
      else if String.eqb lw "px" then timed (fun n => now + n)
      else if String.eqb lw "exat" then timed (fun n => n * 1000)
      else if String.eqb lw "pxat" then timed (fun n => n)
      else None
    end
  end.

Definition handle_set (argv : list string) : prog reply :=
  if (length argv <? 3)%nat || (7 <? length argv)%nat then Ret RErr else
  let key := arg argv 1 in
  KeysExist [key] (fun ex =>
  let value := arg argv 2 in
  Now (fun now =>
  match parse_set_opts (S (length argv)) now (skipn 3 argv) (SetOpts "" false None) with
  | None => Ret RErr
  | Some o =>
      let after_get (res : reply) :=
        if String.eqb (so_exists o) "XX" && negb (ex key) then Ret RErr
        else if String.eqb (so_exists o) "NX" && ex key then Ret RErr
        else SetValues [(key, VScal (adapt_value value))] (fun ok =>
             if negb ok then Ret RErr else
             match so_expire o with
             | Some t => SetExpiry key (Some t) false (Ret res)
             | None => Ret res
             end) in
      if so_get o then
        if negb (ex key) then after_get RNil
        else GetValues [key] (fun vals =>
             match encode_value (vals key) with
             | RErr => Ret RErr
             | r => after_get r
             end)
      else after_get ROk
  end)).

Fixpoint mset_pairs (l : list string) : list (string * value) :=
  match l with
  | k :: v :: r => (k, VScal (adapt_value v)) :: mset_pairs r
  | _ => []
  end.

Definition handle_mset (argv : list string) : prog reply :=
  if negb (Nat.even (length (skipn 1 argv))) then Ret RErr else
  SetValues (mset_pairs (skipn 1 argv)) (fun ok => if ok then Ret ROk else Ret RErr).

Definition handle_get (argv : list string) : prog reply :=
  if negb (length argv =? 2)%nat then Ret RErr else
  let key := arg argv 1 in
  KeysExist [key] (fun ex =>
  if negb (ex key) then Ret RNil else
  GetValues [key] (fun vals => Ret (encode_value (vals key)))).

Definition handle_mget (argv : list string) : prog reply :=
  if (length argv <? 2)%nat then Ret RErr else
  let keys := skipn 1 argv in
  GetValues keys (fun vals =>
  Ret (RArr (map (fun k => match encode_value (vals k) with RErr => RNil | r => r end) keys))).

Fixpoint dedupe {A} `{EqDecision A} (l : list A) : list A :=
  match l with
  | [] => []
  | x :: r => if bool_decide (x ∈ r) then dedupe r else x :: dedupe r
  end.

(** DEL ranges over the map [KeysExist] returned: each distinct key once. *)
Fixpoint del_keys (ks : list string) (ex : string -> bool) (n : Z) : prog reply :=
  match ks with
  | [] => Ret (RInt n)
  | k :: r => if ex k then DeleteKey k (del_keys r ex (n + 1)) else del_keys r ex n
  end.
Definition handle_del (argv : list string) : prog reply :=
  if (length argv <? 2)%nat then Ret RErr else
  let keys := skipn 1 argv in
  KeysExist keys (fun ex => del_keys (dedupe keys) ex 0).

Definition handle_persist (argv : list string) : prog reply :=
  if negb (length argv =? 2)%nat then Ret RErr else
  let key := arg argv 1 in
  KeysExist [key] (fun ex =>
  if negb (ex key) then Ret (RInt 0) else
  GetExpiry key (fun dl =>
  match dl with
  | None => Ret (RInt 0)
  | Some _ => SetExpiry key None false (Ret (RInt 1))
  end)).

Definition handle_expiretime (argv : list string) : prog reply :=
  if negb (length argv =? 2)%nat then Ret RErr else
  let key := arg argv 1 in
  KeysExist [key] (fun ex =>
  if negb (ex key) then Ret (RInt (-2)) else
  GetExpiry key (fun dl =>
  match dl with
  | None => Ret (RInt (-1))
  | Some t => Ret (RInt (if String.eqb (lower (arg argv 0)) "pexpiretime" then t else t / 1000))
  end)).

Definition handle_ttl (argv : list string) : prog reply :=
  if negb (length argv =? 2)%nat then Ret RErr else
  let key := arg argv 1 in
  KeysExist [key] (fun ex =>
  if negb (ex key) then Ret (RInt (-2)) else
  GetExpiry key (fun dl =>
  match dl with
  | None => Ret (RInt (-1))
  | Some t =>
      Now (fun now =>
      let d := if String.eqb (lower (arg argv 0)) "pttl" then t - now else t / 1000 - now / 1000 in
      Ret (RInt (if d <=? 0 then 0 else d)))
  end)).

(** The NX / XX / GT / LT decision shared by EXPIRE, PEXPIRE, EXPIREAT, PEXPIREAT. *)
Definition expire_with_option (key : string) (t : Z) (opt : string) (cur : option Z) : prog reply :=
  let set := SetExpiry key (Some t) false (Ret (RInt 1)) in
  let o := lower opt in
  if String.eqb o "nx" then match cur with Some _ => Ret (RInt 0) | None => set end
  else if String.eqb o "xx" then match cur with None => Ret (RInt 0) | Some _ => set end
  else if String.eqb o "gt" then
    match cur with None => Ret (RInt 0) | Some c => if t <=? c then Ret (RInt 0) else set end
  else if String.eqb o "lt" then
    match cur with
    | Some c => if c <=? t then Ret (RInt 0) else SetExpiry key (Some t) false set
    | None => set
    end
  else Ret RErr.

Definition handle_expire_gen (mk : Z -> Z -> Z) (argv : list string) : prog reply :=
  if (length argv <? 3)%nat || (4 <? length argv)%nat then Ret RErr else
  let key := arg argv 1 in
  KeysExist [key] (fun ex =>
  match parse_int (arg argv 2) with
  | None => Ret RErr
  | Some n =>
      Now (fun now =>
      let t := mk now n in
      if negb (ex key) then Ret (RInt 0) else
      if (length argv =? 3)%nat then SetExpiry key (Some t) true (Ret (RInt 1))
      else GetExpiry key (fun cur => expire_with_option key t (arg argv 3) cur))
  end).

Definition handle_expire (argv : list string) : prog reply :=
  handle_expire_gen (fun now n => if String.eqb (lower (arg argv 0)) "pexpire" then now + n else now + n * 1000) argv.
Definition handle_expireat (argv : list string) : prog reply :=
  handle_expire_gen (fun _ n => if String.eqb (lower (arg argv 0)) "pexpireat" then n else n * 1000) argv.

(** INCR, DECR, INCRBY, DECRBY: [delta] is what is added (exact); a result outside int64 is refused.
    The counter is stored as an integer ([int(newValue)]), the type SET gives the same number. *)
Definition counter_step (key : string) (delta : Z) : prog reply :=
  GetValues [key] (fun vals =>
  let store (n : Z) :=
    if in_int64 n then SetValues [(key, VScal (SInt n))] (fun ok => if ok then Ret (RInt n) else Ret RErr)
    else Ret RErr in
  match vals key with
  | None => store delta
  | Some (VScal (SStr s)) => match parse_int s with Some c => store (c + delta) | None => Ret RErr end
  | Some (VScal (SInt c)) => store (c + delta)
  | Some _ => Ret RErr
  end).

Definition handle_incr (argv : list string) : prog reply :=
  if negb (length argv =? 2)%nat then Ret RErr else counter_step (arg argv 1) 1.
Definition handle_decr (argv : list string) : prog reply :=
  if negb (length argv =? 2)%nat then Ret RErr else counter_step (arg argv 1) (-1).
Definition handle_incrby (argv : list string) : prog reply :=
  if negb (length argv =? 3)%nat then Ret RErr else
  match parse_int (arg argv 2) with None => Ret RErr | Some n => counter_step (arg argv 1) n end.
Definition handle_decrby (argv : list string) : prog reply :=
  if negb (length argv =? 3)%nat then Ret RErr else
  match parse_int (arg argv 2) with None => Ret RErr | Some n => counter_step (arg argv 1) (- n) end.

Definition handle_incrbyfloat (argv : list string) : prog reply :=
  if negb (length argv =? 3)%nat then Ret RErr else
  match parse_float_arg (arg argv 2) with
  | None => Ret RErr
  | Some inc =>
      let key := arg argv 1 in
      GetValues [key] (fun vals =>
      (* the sum is printed with %g and stored through [AdaptValue], as SET stores the same text *)
      let store (f : fl) :=
        match fl_text f with
        | Some t => SetValues [(key, VScal (adapt_value t))] (fun ok => if ok then Ret (RBulk t) else Ret RErr)
        | None => Ret RPanic (* outside the modelled float text: excluded from generation *)
        end in
      match vals key with
      | None => store (FFin inc)
      | Some (VScal (SStr s)) => match parse_float_arg s with Some c => store (FFin (Qred (c + inc))) | None => Ret RErr end
      | Some (VScal (SFloat c)) => store (fl_add c (FFin inc))
      | Some (VScal (SInt c)) => store (FFin (Qred (inject_Z c + inc)))
      | Some _ => Ret RErr
      end)
  end.

Definition handle_rename (argv : list string) : prog reply :=
  if negb (length argv =? 3)%nat then Ret RErr else
  let oldKey := arg argv 1 in let newKey := arg argv 2 in
  GetValues [oldKey] (fun vals =>
  match vals oldKey with
  | None => Ret RErr
  | Some v =>
      if String.eqb oldKey newKey then Ret ROk else
      (* the deadline travels with the key *)
      GetExpiry oldKey (fun dl =>
      SetValues [(newKey, v)] (fun ok =>
      if negb ok then Ret RErr else SetExpiry newKey dl false (DeleteKey oldKey (Ret ROk))))
  end).

Definition handle_flush (argv : list string) : prog reply :=
  if negb (length argv =? 1)%nat then Ret RErr else
  if eq_fold (arg argv 0) "flushall" then FlushAll (Ret ROk)
  else FlushDb (Ret ROk).

Definition handle_getdel (argv : list string) : prog reply :=
  if negb (length argv =? 2)%nat then Ret RErr else
  let key := arg argv 1 in
  KeysExist [key] (fun ex =>
  if negb (ex key) then Ret RNil else
  GetValues [key] (fun vals =>
  match encode_value (vals key) with
  | RErr => Ret RErr
  | r => DeleteKey key (Ret r)
  end)).

Definition handle_getex (argv : list string) : prog reply :=
  if (length argv <? 2)%nat || (4 <? length argv)%nat then Ret RErr else
  let key := arg argv 1 in
  KeysExist [key] (fun ex =>
  if negb (ex key) then Ret RNil else
  GetValues [key] (fun vals =>
  match encode_value (vals key) with
  | RErr => Ret RErr
  | res =>
      if (length argv =? 2)%nat then Ret res else
      let exc := upper (arg argv 2) in
      if String.eqb exc "PERSIST" then SetExpiry key None false (Ret res) else
      if (length argv =? 3)%nat then Ret res else
      match parse_int (arg argv 3) with
      | None => Ret RErr
      | Some n =>
          Now (fun now =>
          let go t := SetExpiry key (Some t) false (Ret res) in
          if String.eqb exc "EX" then go (now + n * 1000)
          else if String.eqb exc "PX" then go (now + n)
          else if String.eqb exc "EXAT" then go (n * 1000)
          else if String.eqb exc "PXAT" then go n
          else Ret RErr)
      end
  end)).

Definition type_name (v : value) : reply :=
  match v with
  | VNil => RPanic
  | VScal (SStr _) => RSimple "string"
  | VScal (SInt _) => RSimple "integer"
  | VScal (SFloat _) => RSimple "float"
  | VList _ => RSimple "list"
  | VHash _ => RSimple "hash"
  | VSet _ => RSimple "set"
  | VZSet _ => RSimple "zset"
  end.

Definition handle_type (argv : list string) : prog reply :=
  if negb (length argv =? 2)%nat then Ret RErr else
  let key := arg argv 1 in
  KeysExist [key] (fun ex =>
  if negb (ex key) then Ret RErr else
  GetValues [key] (fun vals =>
  match vals key with Some v => Ret (type_name v) | None => Ret RPanic end)).

Definition generic_handler (name : string) : option (list string -> prog reply) :=
  if String.eqb name "set" then Some handle_set
  else if String.eqb name "mset" then Some handle_mset
  else if String.eqb name "get" then Some handle_get
  else if String.eqb name "mget" then Some handle_mget
  else if String.eqb name "del" then Some handle_del
  else if String.eqb name "persist" then Some handle_persist
  else if String.eqb name "expiretime" || String.eqb name "pexpiretime" then Some handle_expiretime
  else if String.eqb name "ttl" || String.eqb name "pttl" then Some handle_ttl
  else if String.eqb name "expire" || String.eqb name "pexpire" then Some handle_expire
  else if String.eqb name "expireat" || String.eqb name "pexpireat" then Some handle_expireat
  else if String.eqb name "incr" then Some handle_incr
  else if String.eqb name "decr" then Some handle_decr
  else if String.eqb name "incrby" then Some handle_incrby
  else if String.eqb name "decrby" then Some handle_decrby
  else if String.eqb name "incrbyfloat" then Some handle_incrbyfloat
  else if String.eqb name "rename" then Some handle_rename
  else if String.eqb name "flushall" || String.eqb name "flushdb" then Some handle_flush
  else if String.eqb name "getdel" then Some handle_getdel
  else if String.eqb name "getex" then Some handle_getex
  else if String.eqb name "type" then Some handle_type
  else None.
