(** The four generic commands that go through the keyspace functions [randomKey], [updateKeysInCache],
    [getObjectFreq], [getObjectIdleTime] ([sugardb/keyspace.go]) instead of the primitives the other
    handlers use: RANDOMKEY, TOUCH, OBJECTFREQ, OBJECTIDLETIME ([internal/modules/generic/commands.go
    handleRandomkey / handleTouch / handleObjFreq / handleObjIdleTime]).

    What is modelled here is their behaviour on the *keyspace* of a server without a memory limit
    ([st_maxmem = 0], the hypothesis of the data-command theorems).  The eviction caches they read or
    write under a limit live in the extended state of [Model/Evict.v]: TOUCH there is
    [ScriptEvict.exec_touch] ([update_keys_in_cache] run synchronously); OBJECTFREQ / OBJECTIDLETIME there
    would read [Evict.get_lfu] / [get_lru] ([c_find]); they are not commands of the C08 script runner.

    - RANDOMKEY.  Arity test of [randomKeyFunc] (the bare word only; the handler made none and extra words
      were refused by the ACL gate only, so the embedded caller got a key where a network client got an
      error: repaired, see fixes/), then a bulk string: a key of the selected database drawn by [rand.Intn],
      or the empty string when there is none.  The core has no primitive that lists a database, and the
      draw is not a function of the state: the random source is the parameter [cands], the keys in the
      order in which the source proposes them; the reply is the first proposed key that exists (a key
      whose deadline has passed does not exist: repaired, see fixes/), the empty string when no proposed
      key exists.  [Proofs/KeyspaceCmds.v]: for every source that proposes every live key the reply is a
      live key, or empty exactly when there is none; every live key is the reply of some such source.
      [handler_of] uses the source that proposes nothing.
    - TOUCH.  [updateKeysInCache] returns 0 at once when no memory limit is configured (and in a cluster):
      "+0" whatever the keys, nothing read, nothing changed.
    - OBJECTFREQ / OBJECTIDLETIME.  Both caches exist under every policy, so the replies "eviction policy
      must be a type of LFU / LRU" are unreachable; the cache of a database is filled by
      [updateKeysInCache] only, which does nothing without a memory limit: the key is not in the cache
      and the reply is the error "key does not exist", for every key, present or not. *)
From stdpp Require Import gmap strings.
From EV Require Import Base.Str Model.Value Model.Keyspace Model.Reply Model.Prog.
Local Open Scope Z_scope.

(** The random source of RANDOMKEY: keys in the order it proposes them. *)
Definition keysource := list string.
Definition default_keysource : keysource := [].

Definition first_live (ex : string -> bool) (cands : keysource) : string :=
  match filter (fun k => ex k) cands with k :: _ => k | [] => "" end.

Definition handle_randomkey (cands : keysource) (argv : list string) : prog reply :=
  if negb (length argv =? 1)%nat then Ret RErr else
  KeysExist cands (fun ex => Ret (RBulk (first_live ex cands))).

Definition handle_touch (argv : list string) : prog reply :=
  if (length argv <? 2)%nat then Ret RErr else Ret (RSimple "0").

Definition handle_objfreq (argv : list string) : prog reply :=
  if negb (length argv =? 2)%nat then Ret RErr else Ret RErr.

Definition handle_objidletime (argv : list string) : prog reply :=
  if negb (length argv =? 2)%nat then Ret RErr else Ret RErr.

Definition keyspace_handler (cands : keysource) (name : string) : option (list string -> prog reply) :=
  if String.eqb name "randomkey" then Some (handle_randomkey cands)
  else if String.eqb name "touch" then Some handle_touch
  else if String.eqb name "objectfreq" then Some handle_objfreq
  else if String.eqb name "objectidletime" then Some handle_objidletime
  else None.
