(** Script runner for C04: the line protocol of [Model/Script.v] extended (add-only) with

      W <db> <hexkey> ...   one pass of the background expiry sampler
                            ([evictKeysWithExpiredTTL], sugardb/keyspace.go) over database <db>.

    The Go sampler draws its sample with [math/rand]; what it drew is not a function of the state.
    As for every randomised choice (DESIGN §3.2) the implementation resolves it and the model
    validates it: the keys listed after <db> are the keys the pass looked at (the check takes the
    keys that disappeared between the two digests around the pass — a sampled key that stayed is
    indistinguishable from one that was not sampled).  The model then runs the deletion loop of the
    Go code on exactly that sample: an entry is deleted only if it is there, has a deadline, and the
    deadline is strictly before the clock; so a key the implementation removed although its
    deadline had not passed stays in the model and the next digest differs. *)
From stdpp Require Import gmap strings.
From RecordUpdate Require Import RecordSet.
Import RecordSetNotations.
From EV Require Import Base.Str Model.Value Model.Keyspace Model.Reply Model.Prog Model.Dispatch Model.Script.
Local Open Scope Z_scope.

(** The body of the loop [for _, k := range keys] of [evictKeysWithExpiredTTL]:
    skip keys that are gone, have no deadline, or whose deadline has not passed; delete the rest. *)
Definition sampler_key (s : state) (d : Z) (k : string) : state :=
  match get_db s d !! k with
  | None => s
  | Some e =>
      match e_dl e with
      | None => s
      | Some t => if t <? st_now s then delete_key s d k else s
      end
  end.

(** One round over a sample; a pass is a sequence of rounds (the Go code samples again while at
    least 20 % of a round's sample was deleted), i.e. one round over the concatenated samples. *)
Definition sampler_round (s : state) (d : Z) (sample : list string) : state :=
  fold_left (fun s k => sampler_key s d k) sample s.
Definition sampler_pass (s : state) (d : Z) (rounds : list (list string)) : state :=
  fold_left (fun s r => sampler_round s d r) rounds s.

Inductive xevent :=
| XBase (e : event)
| XSweep (db : Z) (sample : list string).

Definition parse_xevent (line : string) : option xevent :=
  match split_words line with
  | "W" :: db :: hs =>
      match parse_int db, unhex_all hs with
      | Some d, Some ks => Some (XSweep d ks)
      | _, _ => Some (XBase (EBad line))
      end
  | _ => XBase <$> parse_event line
  end.

Definition step_xevent (w : world) (e : xevent) : world * list string :=
  match e with
  | XBase e => step_event w e
  | XSweep d ks => (w <| w_st := sampler_round (w_st w) d ks |>, ["W ok"])
  end.

Fixpoint run_xevents (w : world) (lines : list string) : list string :=
  match lines with
  | [] => []
  | l :: r =>
      match parse_xevent l with
      | None => run_xevents w r
      | Some e => let '(w', out) := step_xevent w e in out ++ run_xevents w' r
      end
  end.

Definition run_model04 (lines : list string) : list string :=
  match lines with
  | [] => []
  | hdr :: body =>
      match split_words hdr with
      | "S" :: id :: cfg =>
          let w := fold_left apply_cfg cfg (init_world default_now) in
          ("S " +:+ id) :: run_xevents w (filter (fun l => negb (String.eqb l "E")) body) ++ ["E"]
      | _ => ["BAD " +:+ hdr]
      end
  end.
