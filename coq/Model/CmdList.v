(** List handlers: [internal/modules/list/commands.go], one definition per Go handler, same order
    of checks.  [argv] includes the command word at index 0. *)
From stdpp Require Import gmap strings.
From EV Require Import Base.Str Model.Value Model.Keyspace Model.Reply Model.Prog.
Local Open Scope Z_scope.

Notation "x <- p ;; q" := (bind p (fun x => q)) (at level 100, p at next level, right associativity).

Definition as_list (o : option value) : option (list string) :=
  match o with Some (VList l) => Some l | _ => None end.


(** list[i] = x for 0 <= i < len *)
Definition list_set (l : list string) (i : Z) (x : string) : list string :=
  zfirstn i l ++ x :: zskipn (i + 1) l.

Definition handle_llen (argv : list string) : prog reply :=
  if negb (length argv =? 2)%nat then Ret RErr else
  let key := arg argv 1 in
  KeysExist [key] (fun ex =>
  if negb (ex key) then Ret (RInt 0) else
  GetValues [key] (fun vals =>
  match as_list (vals key) with
  | Some l => Ret (RInt (zlen l))
  | None => Ret RErr
  end)).

Definition handle_lindex (argv : list string) : prog reply :=
  if negb (length argv =? 3)%nat then Ret RErr else
  let key := arg argv 1 in
  KeysExist [key] (fun ex =>
  if negb (ex key) then Ret RNil else
  GetValues [key] (fun vals =>
  match as_list (vals key) with
  | None => Ret RErr
  | Some l =>
      match parse_int (arg argv 2) with
      | None => Ret RErr
      | Some i0 =>
          let i := if i0 <? 0 then zlen l + i0 else i0 in
          if (zlen l <=? i) || (i <? 0) then Ret RNil
          else match znth l i with Some x => Ret (RBulk x) | None => Ret RPanic end
      end
  end)).

Definition handle_lrange (argv : list string) : prog reply :=
  if negb (length argv =? 4)%nat then Ret RErr else
  let key := arg argv 1 in
  KeysExist [key] (fun ex =>
  if negb (ex key) then Ret (RArr []) else
  GetValues [key] (fun vals =>
  match as_list (vals key) with
  | None => Ret RErr
  | Some l =>
      match parse_int (arg argv 2) with
      | None => Ret RErr
      | Some s0 =>
          let s1 := if s0 <? 0 then zlen l + s0 else s0 in
          match parse_int (arg argv 3) with
          | None => Ret RErr
          | Some e0 =>
              let s2 := if s1 <? 0 then 0 else s1 in
              let e1 := if e0 <? 0 then zlen l + e0 else e0 in
              let e2 := if zlen l - 1 <? e1 then zlen l - 1 else e1 in
              if (e2 <? s2) || (zlen l - 1 <? s2) then Ret (RArr [])
              else Ret (bulks (slice l s2 (e2 + 1)))
          end
      end
  end)).

Definition handle_lset (argv : list string) : prog reply :=
  if negb (length argv =? 4)%nat then Ret RErr else
  let key := arg argv 1 in
  KeysExist [key] (fun ex =>
  if negb (ex key) then Ret RErr else
  match parse_int (arg argv 2) with
  | None => Ret RErr
  | Some i0 =>
      GetValues [key] (fun vals =>
      match as_list (vals key) with
      | None => Ret RErr
      | Some l =>
          let i := if i0 <? 0 then zlen l + i0 else i0 in
          if negb ((0 <=? i) && (i <? zlen l)) then Ret RErr
          else SetValues [(key, VList (list_set l i (arg argv 3)))] (fun ok =>
               if ok then Ret ROk else Ret RErr)
      end)
  end).

Definition handle_ltrim (argv : list string) : prog reply :=
  if negb (length argv =? 4)%nat then Ret RErr else
  let key := arg argv 1 in
  KeysExist [key] (fun ex =>
  if negb (ex key) then Ret ROk else
  match parse_int (arg argv 2) with
  | None => Ret RErr
  | Some s0 =>
  match parse_int (arg argv 3) with
  | None => Ret RErr
  | Some e0 =>
      GetValues [key] (fun vals =>
      match as_list (vals key) with
      | None => Ret RErr
      | Some l =>
          let s1 := if s0 <? 0 then zlen l + s0 else s0 in
          let e1 := if e0 <? 0 then zlen l + e0 else e0 in
          let s2 := if s1 <? 0 then 0 else s1 in
          if (e1 <? s2) || (zlen l - 1 <? s2) then DeleteKey key (Ret ROk)
          else
            let e2 := if zlen l <? e1 then zlen l else e1 in
            let e3 := if e2 <=? zlen l - 1 then e2 + 1 else e2 in
            SetValues [(key, VList (slice l s2 e3))] (fun ok => if ok then Ret ROk else Ret RErr)
      end)
  end end).

(** The three loops of LREM, as written: an index walks the slice, a match is cut out in place
    ([append(list[:i], list[i+1:]...)]) and the index stays where it is.  [fuel] bounds the number of
    iterations (at most one per element); it is never exhausted when started with [length l]. *)
Definition cut_at (l : list string) (i : Z) : list string := zfirstn i l ++ zskipn (i + 1) l.

Fixpoint lrem_fwd (fuel : nat) (limited : bool) (x : string) (i : Z) (cnt : Z) (l : list string) : list string :=
  match fuel with
  | O => l
  | S fuel' =>
      if zlen l <=? i then l
      else if limited && (cnt =? 0) then l
      else match znth l i with
           | Some y => if String.eqb y x then lrem_fwd fuel' limited x i (cnt - 1) (cut_at l i)
                       else lrem_fwd fuel' limited x (i + 1) cnt l
           | None => l
           end
  end.

Fixpoint lrem_bwd (fuel : nat) (x : string) (i : Z) (cnt : Z) (l : list string) : list string :=
  match fuel with
  | O => l
  | S fuel' =>
      if i <? 0 then l
      else if cnt =? 0 then l
      else match znth l i with
           | Some y => if String.eqb y x then lrem_bwd fuel' x (i - 1) (cnt - 1) (cut_at l i)
                       else lrem_bwd fuel' x (i - 1) cnt l
           | None => l
           end
  end.

Definition handle_lrem (argv : list string) : prog reply :=
  if negb (length argv =? 4)%nat then Ret RErr else
  let key := arg argv 1 in
  KeysExist [key] (fun ex =>
  let value := arg argv 3 in
  match parse_int (arg argv 2) with
  | None => Ret RErr
  | Some count =>
      if negb (ex key) then Ret (RInt 0) else
      GetValues [key] (fun vals =>
      match as_list (vals key) with
      | None => Ret RErr
      | Some l =>
          let l' := if 0 <? count then lrem_fwd (length l) true value 0 (Z.abs count) l
                    else if count <? 0 then lrem_bwd (length l) value (zlen l - 1) (Z.abs count) l
                    else lrem_fwd (length l) false value 0 0 l in
          SetValues [(key, VList l')] (fun ok =>
          if ok then Ret (RInt (zlen l - zlen l')) else Ret RErr)
      end)
  end).

Definition is_side (s : string) : bool := String.eqb s "left" || String.eqb s "right".

Definition handle_lmove (argv : list string) : prog reply :=
  if negb (length argv =? 5)%nat then Ret RErr else
  let source := arg argv 1 in
  let destination := arg argv 2 in
  KeysExist [source; destination] (fun ex =>
  let whereFrom := lower (arg argv 3) in
  let whereTo := lower (arg argv 4) in
  if negb (is_side whereFrom) || negb (is_side whereTo) then Ret RErr else
  if negb (ex source) || negb (ex destination) then Ret RErr else
  GetValues [source; destination] (fun vals =>
  match as_list (vals source), as_list (vals destination) with
  | Some sl, Some dl =>
      match sl with
      | [] => Ret RErr
      | _ =>
          let elem := if String.eqb whereFrom "left" then hd "" sl else last sl "" in
          let remaining := if String.eqb whereFrom "left" then tl sl else removelast sl in
          let dl' := if String.eqb source destination then remaining else dl in
          let updated := if String.eqb whereTo "left" then elem :: dl' else dl' ++ [elem] in
          SetValues [(source, VList remaining); (destination, VList updated)] (fun ok =>
          if ok then Ret ROk else Ret RErr)
      end
  | _, _ => Ret RErr
  end)).

(** LPUSH / LPUSHX / RPUSH / RPUSHX *)
Definition handle_push (left : bool) (argv : list string) : prog reply :=
  if (length argv <? 3)%nat then Ret RErr else
  let key := arg argv 1 in
  let newElems := skipn 2 argv in
  let isx := String.eqb (lower (arg argv 0)) (if left then "lpushx" else "rpushx") in
  KeysExist [key] (fun ex =>
  let continue :=
    GetValues [key] (fun vals =>
    match as_list (vals key) with
    | None => Ret RErr
    | Some l =>
        SetValues [(key, VList (if left then newElems ++ l else l ++ newElems))] (fun ok =>
        if ok then Ret (RInt (zlen l + zlen newElems)) else Ret RErr)
    end) in
  if negb (ex key) then
    if isx then Ret RErr
    else SetValues [(key, VList [])] (fun ok => if ok then continue else Ret RErr)
  else continue).

(** LPOP / RPOP *)
Definition handle_pop (argv : list string) : prog reply :=
  if (length argv <? 2)%nat || (3 <? length argv)%nat then Ret RErr else
  let key := arg argv 1 in
  let left := eq_fold (arg argv 0) "lpop" in
  KeysExist (skipn 1 argv) (fun ex =>
  if negb (ex key) then Ret RNil else
  GetValues [key] (fun vals =>
  match as_list (vals key) with
  | None => Ret RErr
  | Some l =>
      let withCount := (length argv =? 3)%nat in
      let count_opt :=
        if withCount then
          match parse_int (arg argv 2) with
          | None => None
          | Some c => let c' := Z.abs c in Some (if zlen l <? c' then zlen l else c')
          end
        else Some 1 in
      match count_opt with
      | None => Ret RErr
      | Some count =>
          match l with
          | [] => Ret RNil
          | _ =>
              let popped := if left then zfirstn count l else rev (zskipn (zlen l - count) l) in
              let rest := if left then zskipn count l else zfirstn (zlen l - count) l in
              SetValues [(key, VList rest)] (fun ok =>
              if negb ok then Ret RErr else
              if negb withCount then Ret (RBulk (hd "" popped)) else Ret (bulks popped))
          end
      end
  end)).

Definition list_handler (name : string) : option (list string -> prog reply) :=
  if String.eqb name "llen" then Some handle_llen
  else if String.eqb name "lindex" then Some handle_lindex
  else if String.eqb name "lrange" then Some handle_lrange
  else if String.eqb name "lset" then Some handle_lset
  else if String.eqb name "ltrim" then Some handle_ltrim
  else if String.eqb name "lrem" then Some handle_lrem
  else if String.eqb name "lmove" then Some handle_lmove
  else if String.eqb name "lpush" || String.eqb name "lpushx" then Some (handle_push true)
  else if String.eqb name "rpush" || String.eqb name "rpushx" then Some (handle_push false)
  else if String.eqb name "lpop" || String.eqb name "rpop" then Some handle_pop
  else None.
