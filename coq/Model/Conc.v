(** Concurrent clients (C05): a pool of threads, each executing ONE keyspace primitive at a time.

    What the Go code gives:
    - every keyspace primitive ([keysExist], [getValues], [setValues], [setExpiry], [deleteKey],
      [Flush], the deletion loop of the expiry sampler, the copy loop of [getState]) runs under
      [storeLock] ([sugardb/keyspace.go]) — one primitive is one atomic step: [step_conc];
    - [handleCommand] ([sugardb/modules.go]) takes [server.commandLock] before it calls the handler and
      releases it when it returns (after the record has been appended to the log); the snapshot
      engine's getState function takes the same lock around the copy.  That lock is [p_lock]; a thread
      that uses it is [th_locked];
    - the expiry sampler ([evictKeysWithExpiredTTL]) does not take the command lock: it copies the
      volatile-key index (first step), then deletes the sampled keys that have expired under the store
      lock (second step).  Such a thread has [th_locked = false];
    - the code *before* the command lock was introduced is the same pool with [th_locked = false] for
      every command ([free_pool]).

    A schedule is a list of thread ids; [run_conc] executes it. *)
From stdpp Require Import gmap strings.
From RecordUpdate Require Import RecordSet.
Import RecordSetNotations.
From EV Require Import Base.Str Model.Value Model.Keyspace Model.Reply Model.Prog Model.Dispatch.
Local Open Scope Z_scope.

(** The sampler's deletion loop on a sample of keys (the same definition as in [Proofs/ProgLemmas]
    — kept here because [Model/] does not depend on [Proofs/]; [ConcLemmas.sweepc_is_sweep] states
    they are equal). *)
Definition sweepc_key (s : state) (d : Z) (k : string) : state :=
  match get_db s d !! k with
  | Some e => if expired (st_now s) e then delete_key s d k else s
  | None => s
  end.
Definition sweepc (s : state) (d : Z) (sample : list string) : state :=
  fold_left (fun s k => sweepc_key s d k) sample s.

(** * Activities *)
(** What a client or a background goroutine submits. *)
Inductive act :=
| ACmd (d : Z) (p : prog reply)                        (* a command, run in database d *)
| ACopy                                                (* copy of the state: snapshot, REWRITEAOF preamble *)
| ASweep (d : Z) (pick : list string -> list string).  (* one pass of the expiry sampler *)

(** What is left of it once it has started. *)
Inductive ract :=
| RCmd (d : Z) (p : prog reply)
| RCopy
| RSweep (d : Z) (sample : list string).

Inductive outcome :=
| OReply (r : reply)
| OSnap (s : state)
| OSwept.

(** Reading the clock or the connection's database is not a keyspace primitive (no lock, no yield point in
    the code): such nodes are passed silently, on the way to the next primitive. *)
Fixpoint skip_silent (d : Z) (p : prog reply) (s : state) : prog reply :=
  match p with
  | Now k => skip_silent d (k (st_now s)) s
  | GetDb k => skip_silent d (k d) s
  | _ => p
  end.

(** From the entry to the first primitive.  A handler that returns before it calls a primitive
    (wrong arity) is over at once; the sampler reads the volatile-key index and is over at once when it is
    empty. *)
Definition act_start (a : act) (s : state) : ract + outcome :=
  match a with
  | ACmd d p => match skip_silent d p s with Ret r => inr (OReply r) | p' => inl (RCmd d p') end
  | ACopy => inl RCopy
  | ASweep d pick => match pick (get_vol s d) with [] => inr OSwept | ks => inl (RSweep d ks) end
  end.

(** One primitive. *)
Definition rstep (a : ract) (s : state) : state * (ract + outcome) :=
  match a with
  | RCmd d p =>
      let '(s', p1) := step1 d p s in
      let p' := skip_silent d p1 s' in
      (s', match p' with Ret r => inr (OReply r) | _ => inl (RCmd d p') end)
  | RCopy => (s, inr (OSnap s))
  | RSweep d ks => (sweepc s d ks, inr OSwept)
  end.

(** To completion, alone. *)
Definition rrun (a : ract) (s : state) : state * outcome :=
  match a with
  | RCmd d p => let '(s', r) := run_seq d p s in (s', OReply r)
  | RCopy => (s, OSnap s)
  | RSweep d ks => (sweepc s d ks, OSwept)
  end.

Definition act_seq (a : act) (s : state) : state * outcome :=
  match a with
  | ACmd d p => let '(s', r) := run_seq d p s in (s', OReply r)
  | ACopy => (s, OSnap s)
  | ASweep d pick => (sweepc s d (pick (get_vol s d)), OSwept)
  end.

(** * Pools *)
Inductive tstate :=
| Wait                 (* submitted, not started (a locked thread: has not got the command lock) *)
| Run (a : ract)       (* between two primitives *)
| Done (o : outcome).

Record thread := Thread {
  th_locked : bool;    (* takes the command lock for its whole duration *)
  th_act : act;        (* as submitted *)
  th_st : tstate;
}.
Global Instance eta_thread : Settable _ := settable! Thread <th_locked; th_act; th_st>.

Record pool := Pool {
  p_store : state;
  p_lock : option nat;          (* server.commandLock: the thread that holds it *)
  p_threads : gmap nat thread;
  p_order : list nat;           (* ghost: threads in the order they started *)
}.
Global Instance eta_pool : Settable _ := settable! Pool <p_store; p_lock; p_threads; p_order>.

Definition set_thread (P : pool) (t : nat) (th : thread) (st : tstate) : pool :=
  P <| p_threads := <[t := th <| th_st := st |>]> (p_threads P) |>.

(** One step of thread [t]; [None]: the thread cannot step (absent, finished, or waiting for the lock). *)
Definition step_conc (P : pool) (t : nat) : option pool :=
  match p_threads P !! t with
  | None => None
  | Some th =>
      match th_st th with
      | Done _ => None
      | Wait =>
          if th_locked th && bool_decide (is_Some (p_lock P)) then None else
          match act_start (th_act th) (p_store P) with
          | inr o => Some (set_thread P t th (Done o) <| p_order := p_order P ++ [t] |>)
          | inl a =>
              Some (set_thread P t th (Run a)
                      <| p_lock := if th_locked th then Some t else p_lock P |>
                      <| p_order := p_order P ++ [t] |>)
          end
      | Run a =>
          let '(s', x) := rstep a (p_store P) in
          match x with
          | inl a' => Some (set_thread P t th (Run a') <| p_store := s' |>)
          | inr o =>
              Some (set_thread P t th (Done o) <| p_store := s' |>
                      <| p_lock := if th_locked th then None else p_lock P |>)
          end
      end
  end.

(** A schedule; a step that is not enabled is skipped (so every list is a schedule). *)
Definition sched_step (P : pool) (t : nat) : pool := default P (step_conc P t).
Definition run_conc (P : pool) (sched : list nat) : pool := fold_left sched_step sched P.

(** The strict variant used when a schedule observed on the implementation is replayed: [inr i] when
    step number [i] is not enabled. *)
Fixpoint run_conc_strict (P : pool) (sched : list nat) (i : nat) : pool + nat :=
  match sched with
  | [] => inl P
  | t :: r => match step_conc P t with
              | Some P' => run_conc_strict P' r (S i)
              | None => inr i
              end
  end.

Definition is_done (th : thread) : bool := match th_st th with Done _ => true | _ => false end.
Definition all_done (P : pool) : Prop := forall t th, p_threads P !! t = Some th -> is_done th = true.
Definition all_doneb (P : pool) : bool := forallb (fun x => is_done (snd x)) (map_to_list (p_threads P)).
Definition outcome_of (P : pool) (t : nat) : option outcome :=
  match p_threads P !! t with
  | Some th => match th_st th with Done o => Some o | _ => None end
  | None => None
  end.

(** * Submitting *)
(** [acts]: thread id -> (takes the command lock, activity). *)
Definition init_pool (acts : gmap nat (bool * act)) (s0 : state) : pool :=
  {| p_store := s0; p_lock := None;
     p_threads := (fun '(l, a) => {| th_locked := l; th_act := a; th_st := Wait |}) <$> acts;
     p_order := [] |}.

(** The code as it is: commands and state copies take the command lock, the sampler does not. *)
Definition locks (a : act) : bool := match a with ASweep _ _ => false | _ => true end.
Definition fixed_pool (acts : gmap nat act) (s0 : state) : pool :=
  init_pool ((fun a => (locks a, a)) <$> acts) s0.
(** The code before the command lock: only the store lock, per primitive. *)
Definition free_pool (acts : gmap nat act) (s0 : state) : pool :=
  init_pool ((fun a => (false, a)) <$> acts) s0.

(** A command as a client sends it: [handleCommand] looks the handler up; an unknown command is an
    error reply. *)
Definition cmd_prog (argv : list string) : prog reply :=
  match argv with
  | [] => Ret RErr
  | c :: _ => match handler_of (lower c) with Some h => h argv | None => Ret RErr end
  end.
Definition cmd_act (d : Z) (argv : list string) : act := ACmd d (cmd_prog argv).

(** * The sequential reference: the same activities one after the other *)
Definition serial_step (acts : gmap nat act) (st : state * gmap nat outcome) (t : nat) : state * gmap nat outcome :=
  match acts !! t with
  | Some a => let '(s', o) := act_seq a (fst st) in (s', <[t := o]> (snd st))
  | None => st
  end.
Definition run_serial (acts : gmap nat act) (perm : list nat) (s0 : state) : state * gmap nat outcome :=
  fold_left (serial_step acts) perm (s0, ∅).

(** The order in which the threads that take the command lock got it. *)
Definition lockedb (P : pool) (t : nat) : bool :=
  match p_threads P !! t with Some th => th_locked th | None => false end.
Definition acq_order (P : pool) : list nat := List.filter (lockedb P) (p_order P).
