(** Handlers are programs over the keyspace primitives that [HandlerFuncParams] offers
    ([sugardb/modules.go:40-104]).  One definition per Go handler; two interpretations:
    [run_seq] (each primitive to completion) and, in [Conc.v], one primitive at a time. *)
From stdpp Require Import gmap strings.
From EV Require Import Base.Str Model.Value Model.Keyspace.
Local Open Scope Z_scope.

Inductive prog (R : Type) : Type :=
| Ret (r : R)
| KeysExist (ks : list string) (k : (string -> bool) -> prog R)
| GetExpiry (key : string) (k : option Z -> prog R)
| GetValues (ks : list string) (k : (string -> option value) -> prog R)
| SetValues (kvs : list (string * value)) (k : bool -> prog R)
| SetExpiry (key : string) (t : option Z) (touch : bool) (k : prog R)
| DeleteKey (key : string) (k : prog R)
| Now (k : Z -> prog R)
| FlushDb (k : prog R)
| FlushAll (k : prog R)
| GetDb (k : Z -> prog R).
Arguments Ret {R}. Arguments KeysExist {R}. Arguments GetExpiry {R}. Arguments GetValues {R}.
Arguments SetValues {R}. Arguments SetExpiry {R}. Arguments DeleteKey {R}. Arguments Now {R}.
Arguments FlushDb {R}. Arguments FlushAll {R}. Arguments GetDb {R}.

Fixpoint bind {A B} (p : prog A) (f : A -> prog B) : prog B :=
  match p with
  | Ret r => f r
  | KeysExist ks k => KeysExist ks (fun x => bind (k x) f)
  | GetExpiry key k => GetExpiry key (fun x => bind (k x) f)
  | GetValues ks k => GetValues ks (fun x => bind (k x) f)
  | SetValues kvs k => SetValues kvs (fun x => bind (k x) f)
  | SetExpiry key t touch k => SetExpiry key t touch (bind k f)
  | DeleteKey key k => DeleteKey key (bind k f)
  | Now k => Now (fun x => bind (k x) f)
  | FlushDb k => FlushDb (bind k f)
  | FlushAll k => FlushAll (bind k f)
  | GetDb k => GetDb (fun x => bind (k x) f)
  end.

(** Sequential interpretation in database [d]. *)
Fixpoint run_seq {R} (d : Z) (p : prog R) (s : state) : state * R :=
  match p with
  | Ret r => (s, r)
  | KeysExist ks k => run_seq d (k (keys_exist s d ks)) s
  | GetExpiry key k => run_seq d (k (get_expiry s d key)) s
  | GetValues ks k => let '(s', f) := get_values s d ks in run_seq d (k f) s'
  | SetValues kvs k => let '(s', ok) := set_values s d kvs in run_seq d (k ok) s'
  | SetExpiry key t _ k => run_seq d k (set_expiry s d key t)
  | DeleteKey key k => run_seq d k (delete_key s d key)
  | Now k => run_seq d (k (st_now s)) s
  | FlushDb k => run_seq d k (flush s d)
  | FlushAll k => run_seq d k (flush s (-1))
  | GetDb k => run_seq d (k d) s
  end.

(** One primitive step: used by the interleaving semantics. *)
Definition step1 {R} (d : Z) (p : prog R) (s : state) : state * prog R :=
  match p with
  | Ret r => (s, Ret r)
  | KeysExist ks k => (s, k (keys_exist s d ks))
  | GetExpiry key k => (s, k (get_expiry s d key))
  | GetValues ks k => let '(s', f) := get_values s d ks in (s', k f)
  | SetValues kvs k => let '(s', ok) := set_values s d kvs in (s', k ok)
  | SetExpiry key t _ k => (set_expiry s d key t, k)
  | DeleteKey key k => (delete_key s d key, k)
  | Now k => (s, k (st_now s))
  | FlushDb k => (flush s d, k)
  | FlushAll k => (flush s (-1), k)
  | GetDb k => (s, k d)
  end.

Definition is_ret {R} (p : prog R) : bool := match p with Ret _ => true | _ => false end.

(** [params.Command[i]] (handlers test the arity first). *)
Definition arg (argv : list string) (i : nat) : string := nth i argv "".
