(** Runner for the twin-FSM harness ([harness/fsm/main.go]): same line protocol, same output lines. *)
From stdpp Require Import gmap strings.
From RecordUpdate Require Import RecordSet.
Import RecordSetNotations.
From EV Require Import Base.Str Model.Value Model.Keyspace Model.Reply Model.Prog Model.CmdSet Model.Dispatch.
From EV Require Import Model.Script Model.TableTypes Model.Raft Gen.CmdTable.
Local Open Scope Z_scope.

Definition table_sync_run (name : string) : bool :=
  existsb (fun r => String.eqb (cr_name r) name && String.eqb (cr_sub r) "" && cr_sync r) cmd_table.

Record cl := Cl {
  cl_nodes : list state;                         (* each with its own clock *)
  cl_out : list (list (Z * list string));        (* per node: queued gossip messages *)
  cl_leader : nat;
  cl_forward : bool;
  cl_snap : snapshot_data;
  cl_begun : state;                              (* the state FSM.Snapshot() captured (ZB), persisted later (ZP) *)
}.
Global Instance eta_cl : Settable _ := settable! Cl <cl_nodes; cl_out; cl_leader; cl_forward; cl_snap; cl_begun>.

Definition show_resp (r : fsm_resp) : string :=
  match r with FReply r => show_reply r | FErr => "-" | FDeleted => "?4f4b" end.

Definition nth_state (c : cl) (i : nat) : state := nth i (cl_nodes c) (init_state 0).
Definition set_node (c : cl) (i : nat) (s : state) : cl :=
  c <| cl_nodes := <[i := s]> (cl_nodes c) |>.

(** a committed entry: every node's state machine applies it, at its own clock *)
Definition feed (c : cl) (e : request) : cl * list fsm_resp :=
  let rs := map (fun s => fsm_apply default_pick s e) (cl_nodes c) in
  (c <| cl_nodes := map fst rs |>, map snd rs).

Fixpoint numbered {A} (i : nat) (l : list A) : list (nat * A) :=
  match l with [] => [] | x :: r => (i, x) :: numbered (S i) r end.
Definition show_nat (n : nat) : string := show_Z (Z.of_nat n).

Definition node_of (c : cl) (i : nat) : node := Node (nth_state c i) (Nat.eqb i (cl_leader c)) (cl_forward c).

Definition msg_eqb (a b : Z * list string) : bool :=
  (fst a =? fst b) && list_string_eqb (snd a) (snd b).
Definition enqueue (q : list (Z * list string)) (m : Z * list string) : list (Z * list string) :=
  filter (fun x => negb (msg_eqb x m)) q ++ [m].

(** one gossip round: every queued message goes to every other node; the leader applies it, any
    other node queues it again *)
Definition deliver (c : cl) (from : nat) (m : Z * list string) : cl :=
  fold_left (fun c j =>
    if Nat.eqb j from then c
    else if Nat.eqb j (cl_leader c) then
      match notify_mutate (node_of c j) (fst m) (snd m) with
      | Some e => fst (feed c e)
      | None => c
      end
    else c <| cl_out := <[j := enqueue (nth j (cl_out c) []) m]> (cl_out c) |>)
    (seq 0 (length (cl_nodes c))) c.

Definition gossip (c : cl) : cl * nat :=
  let queued := cl_out c in
  let c0 := c <| cl_out := map (fun _ => []) queued |> in
  let msgs := concat (map (fun '(i, q) => map (fun m => (i, m)) q) (numbered 0 queued)) in
  (fold_left (fun c '(i, m) => deliver c i m) msgs c0, length msgs).

Definition parse_nat_Z (s : string) : option nat :=
  match parse_int s with Some z => if 0 <=? z then Some (Z.to_nat z) else None | None => None end.

Definition step_line (c : cl) (line : string) : cl * list string :=
  match split_words line with
  | "L" :: db :: args =>
      match parse_int db, unhex_all args with
      | Some d, Some argv =>
          let '(c', rs) := feed c (ReqCommand d argv) in
          (c', map (fun '(i, r) => "R" +:+ show_nat i +:+ " " +:+ show_resp r) (numbered 0 rs))
      | _, _ => (c, ["BAD " +:+ line])
      end
  | ["K"; db; hk] =>
      match parse_int db, unhex_arg hk with
      | Some d, Some k =>
          let '(c', rs) := feed c (ReqDeleteKey d k) in
          (c', map (fun '(i, r) => "R" +:+ show_nat i +:+ " " +:+ show_resp r) (numbered 0 rs))
      | _, _ => (c, ["BAD " +:+ line])
      end
  | ["Y"; _] =>
      let '(c', rs) := feed c ReqOther in
      (c', map (fun '(i, r) => "R" +:+ show_nat i +:+ " " +:+ show_resp r) (numbered 0 rs))
  | ["A"; n; ms] =>
      match parse_nat_Z n, parse_int ms with
      | Some i, Some z => (set_node c i (at_time (nth_state c i) (st_now (nth_state c i) + z)), [])
      | _, _ => (c, ["BAD " +:+ line])
      end
  | ["Z"; n; wall] =>
      match parse_nat_Z n, parse_int wall with
      | Some i, Some w => (c <| cl_snap := fsm_persist w (nth_state c i) |>, ["Z ok"])
      | _, _ => (c, ["BAD " +:+ line])
      end
  | ["ZB"; n] =>
      (* hashicorp/raft calls FSM.Snapshot() between two applies and Persist later, while further entries are
         applied: the snapshot is the state at the moment of Snapshot() *)
      match parse_nat_Z n with
      | Some i => (c <| cl_begun := nth_state c i |>, [])
      | None => (c, ["BAD " +:+ line])
      end
  | ["ZP"; wall] =>
      match parse_int wall with
      | Some w => (c <| cl_snap := fsm_persist w (cl_begun c) |>, ["Z ok"])
      | None => (c, ["BAD " +:+ line])
      end
  | "LO" :: n :: db :: args =>
      (* a committed entry replayed on one node only (the suffix of the log a node applies after installing a snapshot) *)
      match parse_nat_Z n, parse_int db, unhex_all args with
      | Some i, Some d, Some argv =>
          let '(s', r) := fsm_apply default_pick (nth_state c i) (ReqCommand d argv) in
          (set_node c i s', ["R" +:+ show_nat i +:+ " " +:+ show_resp r])
      | _, _, _ => (c, ["BAD " +:+ line])
      end
  | ["BL"; _] => (c, [])     (* the next entries arrive as one raft batch: the state machine must apply them in log order *)
  | ["V"; n; wall] =>
      match parse_nat_Z n, parse_int wall with
      | Some i, Some w => (set_node c i (fsm_restore w (cl_snap c) (nth_state c i)), ["V ok"])
      | _, _ => (c, ["BAD " +:+ line])
      end
  | ["F"; n] =>
      match parse_nat_Z n with
      | Some i => (set_node c i (init_state (st_now (nth_state c i))), [])
      | None => (c, ["BAD " +:+ line])
      end
  | "H" :: n :: db :: args =>
      match parse_nat_Z n, parse_int db, unhex_all args with
      | Some i, Some d, Some argv =>
          match handle_command table_sync_run default_pick (node_of c i) d argv with
          | HcLocal s' r => (set_node c i s', ["H " +:+ show_reply r])
          | HcPropose e =>
              let '(c', rs) := feed c e in
              (c', ["H " +:+ show_resp (nth (cl_leader c) rs FErr)])
          | HcForward d' argv' =>
              (c <| cl_out := <[i := enqueue (nth i (cl_out c) []) (d', argv')]> (cl_out c) |>, ["H " +:+ show_reply ROk])
          | HcReject | HcUnknown => (c, ["H -"])
          end
      | _, _, _ => (c, ["BAD " +:+ line])
      end
  | ["M"] => let '(c', n) := gossip c in (c', ["M " +:+ show_nat n])
  | ["G"] => (c, map (fun '(i, s) => "G" +:+ show_nat i +:+ " " +:+ show_state s) (numbered 0 (cl_nodes c)))
  | _ => (c, ["BAD " +:+ line])
  end.

Fixpoint run_lines (c : cl) (lines : list string) : list string :=
  match lines with
  | [] => []
  | l :: r => let '(c', out) := step_line c l in out ++ run_lines c' r
  end.

Definition parse_nows (v : string) : list Z :=
  omap parse_int (split_on ","%char "" v).

Definition init_cl (cfg : list string) : cl :=
  let get k := fold_left (fun acc kv => match cfg_value kv with
                                       | Some (k', v) => if String.eqb k k' then Some v else acc
                                       | None => acc end) cfg None in
  let n := match get "nodes" with Some v => default 3%nat (parse_nat_Z v) | None => 3%nat end in
  let nows := match get "now" with Some v => parse_nows v | None => [] end in
  let leader := match get "leader" with Some v => default 0%nat (parse_nat_Z v) | None => 0%nat end in
  let fwd := match get "forward" with Some v => String.eqb v "1" | None => false end in
  let maxmem := match get "maxmem" with Some v => default 0 (parse_int v) | None => 0 end in
  {| cl_nodes := map (fun i => (init_state (nth i nows default_now)) <| st_maxmem := maxmem |>) (seq 0 n);
     cl_out := map (fun _ => []) (seq 0 n);
     cl_leader := leader; cl_forward := fwd; cl_snap := []; cl_begun := init_state 0 |}.

Definition run_raft (lines : list string) : list string :=
  match lines with
  | [] => []
  | hdr :: body =>
      match split_words hdr with
      | "S" :: id :: cfg =>
          ("S " +:+ id) :: run_lines (init_cl cfg) (filter (fun l => negb (String.eqb l "E")) body) ++ ["E"]
      | _ => ["BAD " +:+ hdr]
      end
  end.
