(** Script runner for C08: the line protocol of [Model/Script.v] extended (add-only) with
      H <db>:<hexkey> ...   hints for the evictions of the following updates (taken from the implementation's run)
      Q                     the cache updates started so far run, in the order they were started
      K                     dump of the eviction caches
    A command's cache-update goroutines are parked by the harness until [Q], so the schedule is:
    the command runs to completion, then its updates run one after the other.  TOUCH runs its
    update inside the command, as in the Go code.  Every update call gets a fresh logical stamp. *)
From stdpp Require Import gmap strings.
From RecordUpdate Require Import RecordSet.
Import RecordSetNotations.
From EV Require Import Base.Str Model.Value Model.Keyspace Model.Reply Model.Prog Model.Dispatch Model.Script Model.Evict.
Local Open Scope Z_scope.

Record eworld := EWorld {
  ew_es : estate;
  ew_tick : Z;                 (* logical stamp of the next update call *)
  ew_pending : list spawn;     (* started, parked cache updates *)
  ew_hints : hints;
}.
Global Instance eta_eworld : Settable _ := settable! EWorld <ew_es; ew_tick; ew_pending; ew_hints>.

Definition parse_hint (s : string) : option (Z * string) :=
  match split_on ":"%char "" s with
  | [d; k] => match parse_int d, unhex_arg k with
              | Some d', Some k' => Some (d', k')
              | _, _ => None
              end
  | _ => None
  end.

(** [handleTouch]: arity, then [updateKeysInCache] synchronously; an eviction pass that reports an
    error makes the command fail (the evictions done so far stay). *)
Definition exec_touch (w : eworld) (d : Z) (argv : list string) : eworld * reply :=
  match argv with
  | _ :: k :: ks =>
      let '(es', n, ok, _) := update_keys_in_cache (ew_tick w) (ew_hints w) d (k :: ks) (ew_es w) in
      (w <| ew_es := es' |> <| ew_tick := ew_tick w + 1 |>, if ok then RSimple (show_Z n) else RErr)
  | _ => (w, RErr)
  end.

Definition e_exec_cmd (w : eworld) (argv : list string) : eworld * reply :=
  match argv with
  | [] => (w, RErr)
  | cmd :: _ =>
      if String.eqb (lower cmd) "touch" then exec_touch w 0 argv else
      match handler_of (lower cmd) with
      | None => (w, RErr)
      | Some h =>
          let '(es', r, sp) := e_run 0 (h argv) (ew_es w) (ew_pending w) in
          (w <| ew_es := es' |> <| ew_pending := sp |>, r)
      end
  end.

(** The calls of one goroutine follow each other within microseconds: they share the stamp. *)
Definition run_pending (w : eworld) : eworld :=
  fold_left (fun w '(d, calls) =>
               let es' := fold_left (fun es ks => let '(es', _, _, _) := update_keys_in_cache (ew_tick w) (ew_hints w) d ks es in es')
                                    calls (ew_es w) in
               w <| ew_es := es' |> <| ew_tick := ew_tick w + 1 |>)
            (ew_pending w) (w <| ew_pending := [] |>).

Definition show_lru (c : cache lru_ent) : string :=
  "lru[" +:+ join "," (map (fun e => hexs (lru_key e) +:+ "@" +:+ show_Z (lru_time e)) (c_ents c)) +:+ "]k[" +:+
  join "," (map hexs (sort_strings (elements (c_keys c)))) +:+ "]".
Definition show_lfu (c : cache lfu_ent) : string :=
  "lfu[" +:+ join "," (map (fun e => hexs (lfu_key e) +:+ "#" +:+ show_Z (lfu_count e) +:+ "@" +:+ show_Z (lfu_added e)) (c_ents c)) +:+ "]k[" +:+
  join "," (map hexs (sort_strings (elements (c_keys c)))) +:+ "]".
Definition show_caches (es : estate) : string :=
  join " " (map (fun d => "db" +:+ show_Z d +:+ " " +:+ show_lru (get_lru es d) +:+ " " +:+ show_lfu (get_lfu es d))
                (Z_leb_sort (map fst (map_to_list (st_dbs (es_st es)))))).

Definition e_step_line (w : eworld) (line : string) : eworld * list string :=
  match split_words line with
  | "H" :: hs => (w <| ew_hints := omap parse_hint hs |>, [])
  | ["Q"] => (run_pending w, ["Q ok"])
  | ["K"] => (w, ["K " +:+ show_caches (ew_es w)])
  | _ =>
    match parse_event line with
    | None => (w, [])
    | Some (EPreset db k v dl) =>
        let '(es1, ok) := e_set_values (ew_es w) db [(k, v)] in
        if ok then
          let es2 := if dl =? 0 then es1 else e_set_expiry es1 db k (Some dl) in
          (w <| ew_es := es2 |> <| ew_pending := ew_pending w ++ [(db, [[k]])] |>, [])
        else (w, ["P -"])
    | Some (ECmd _ argv) => let '(w', r) := e_exec_cmd w argv in (w', ["R " +:+ show_reply r])
    | Some (EAdvance ms) =>
        (w <| ew_es := (ew_es w) <| es_st := (es_st (ew_es w)) <| st_now := st_now (es_st (ew_es w)) + ms |> |> |>, [])
    | Some EDigest => (w, ["G " +:+ show_state (es_st (ew_es w))])
    | Some (EBad l) => (w, ["BAD " +:+ l])
    | Some _ => (w, [])   (* connection events: C08 scripts use the embedded caller in database 0 only *)
    end
  end.

Fixpoint e_run_lines (w : eworld) (lines : list string) : list string :=
  match lines with
  | [] => []
  | l :: r => let '(w', out) := e_step_line w l in out ++ e_run_lines w' r
  end.

Definition cfg_lookup (k : string) (cfg : list string) : option string :=
  list_find (fun kv => String.eqb (fst kv) k) (omap cfg_value cfg) ≫= fun x => Some (snd (snd x)).

(** [newest_first = true]: the code as it is; [false]: the order the property asks for. *)
Definition run_script08_gen (newest_first : bool) (lines : list string) : list string :=
  match lines with
  | [] => []
  | hdr :: body =>
      match split_words hdr with
      | "S" :: id :: cfg =>
          let now := default default_now (cfg_lookup "now" cfg ≫= parse_int) in
          let maxmem := default 0 (cfg_lookup "maxmem" cfg ≫= parse_int) in
          match policy_of_string (default "noeviction" (cfg_lookup "policy" cfg)) with
          | Some p =>
              let w := EWorld (init_estate now p maxmem newest_first) 1 [] [] in
              ("S " +:+ id) :: e_run_lines w (filter (fun l => negb (String.eqb l "E")) body) ++ ["E"]
          | None => ["BAD " +:+ hdr]
          end
      | _ => ["BAD " +:+ hdr]
      end
  end.

Definition run_model08 := run_script08_gen true.
