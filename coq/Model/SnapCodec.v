(** The JSON form of a snapshot ([internal/keydata_json.go], [internal/types.go] SnapshotObject):
    every value is written with the name of its type, every string (values, list elements, hash
    fields, set and sorted-set members, and the key names themselves) goes through [EncodeString]:
    ["s" + text] when the bytes are valid UTF-8, ["b" + base64] otherwise.

    What is modelled as executable Gallina: the tagging scheme and the shape of each payload, member
    by member.  What is assumed of the Go libraries, as the three round-trip hypotheses of [codec_ok]
    (never as axioms): base64 decodes what it encoded; strconv parses back the integers and the floats
    it printed ('g', -1, 64 is the shortest text that parses back to the same binary64).  The text
    layer below (encoding/json: quoting, member order, the RFC 3339 text of a deadline) is trusted to
    give back the strings, arrays and times it was given; the member lists below are that layer's view. *)
From stdpp Require Import gmap strings.
From EV Require Import Base.Str Model.Value Model.Keyspace.
Local Open Scope Z_scope.

Record codec := Codec {
  utf8_valid : string -> bool;               (* unicode/utf8.ValidString *)
  b64_enc : string -> string;                (* base64.StdEncoding.EncodeToString *)
  b64_dec : string -> option string;         (* base64.StdEncoding.DecodeString *)
  int_fmt : Z -> string;                     (* strconv.Itoa / FormatInt *)
  int_parse : string -> option Z;            (* strconv.Atoi / ParseInt *)
  float_fmt : fl -> string;                  (* strconv.FormatFloat(f, 'g', -1, 64) *)
  float_parse : string -> option fl;         (* strconv.ParseFloat(t, 64) *)
}.

Record codec_ok (c : codec) : Prop := CodecOk {
  b64_rt : forall s, b64_dec c (b64_enc c s) = Some s;
  int_rt : forall z, int_parse c (int_fmt c z) = Some z;
  float_rt : forall f, float_parse c (float_fmt c f) = Some f;
}.

Section codec.
Variable c : codec.

(** [EncodeString] / [DecodeString] *)
Definition enc_string (s : string) : string :=
  if utf8_valid c s then String "s" s else String "b" (b64_enc c s).
Definition dec_string (t : string) : option string :=
  match t with
  | String "s" r => Some r
  | String "b" r => b64_dec c r
  | _ => None
  end.

(** [encodeScalar] / [decodeScalar] ("l" is the tag of an int64; the store only holds int) *)
Definition enc_scalar (x : scalar) : string :=
  match x with
  | SStr s => enc_string s
  | SInt z => String "i" (int_fmt c z)
  | SFloat f => String "f" (float_fmt c f)
  end.
Definition dec_scalar (t : string) : option scalar :=
  match t with
  | String "s" _ | String "b" _ => SStr <$> dec_string t
  | String "i" r | String "l" r => SInt <$> int_parse c r
  | String "f" r => SFloat <$> float_parse c r
  | _ => None
  end.

(** The payload ("Value") of one entry, as encoding/json sees it. *)
Inductive jval :=
| JNull
| JStr (s : string)                      (* "scalar": one tagged string *)
| JStrs (l : list string)                (* "list", "set": array of tagged strings *)
| JPairs (l : list (string * string)).   (* "hash", "zset": array of two-element arrays *)

Record jentry := JEntry { j_type : string; j_val : jval; j_exp : option Z }.

Definition pair_leb {A} (a b : string * A) : bool := str_leb a.1 b.1.
Definition sorted_pairs {A} (m : gmap string A) : list (string * A) := sort_by pair_leb (map_to_list m).

(** [KeyData.MarshalJSON], [Set.MarshalJSON], [SortedSet.MarshalJSON] *)
Definition enc_value (v : value) : string * jval :=
  match v with
  | VNil => ("nil", JNull)
  | VScal x => ("scalar", JStr (enc_scalar x))
  | VList l => ("list", JStrs (map enc_string l))
  | VHash h => ("hash", JPairs (map (fun p => (enc_string p.1, enc_scalar p.2)) (sorted_pairs h)))
  | VSet m => ("set", JStrs (map enc_string (sorted_elems m)))
  | VZSet z => ("zset", JPairs (map (fun p => (enc_string p.1, float_fmt c p.2)) (sorted_pairs z)))
  end.

Definition dec_pair {A} (f : string -> option A) (p : string * string) : option (string * A) :=
  match dec_string p.1, f p.2 with
  | Some k, Some x => Some (k, x)
  | _, _ => None
  end.

(** [KeyData.UnmarshalJSON] and the registered decoders of "set" and "zset" *)
Definition dec_value (ty : string) (j : jval) : option value :=
  if String.eqb ty "nil" then Some VNil
  else if String.eqb ty "scalar" then
    match j with JStr t => VScal <$> dec_scalar t | _ => None end
  else if String.eqb ty "list" then
    match j with JStrs l => VList <$> mapM dec_string l | _ => None end
  else if String.eqb ty "hash" then
    match j with JPairs l => (fun r => VHash (list_to_map r)) <$> mapM (dec_pair dec_scalar) l | _ => None end
  else if String.eqb ty "set" then
    match j with JStrs l => (fun r => VSet (list_to_set r)) <$> mapM dec_string l | _ => None end
  else if String.eqb ty "zset" then
    match j with JPairs l => (fun r => VZSet (list_to_map r)) <$> mapM (dec_pair (float_parse c)) l | _ => None end
  else None.

Definition enc_entry (e : entry) : jentry :=
  let '(t, j) := enc_value (e_val e) in JEntry t j (e_dl e).
Definition dec_entry (je : jentry) : option entry :=
  match dec_value (j_type je) (j_val je) with
  | Some v => Some (Entry v (j_exp je))
  | None => None
  end.

(** One database: the members of a JSON object, name = the key through [EncodeString]
    ([SnapshotObject.MarshalJSON]).  encoding/json writes the members sorted by name; the order does
    not matter to the decoder, which inserts them one by one into a Go map. *)
Definition jdb := list (string * jentry).
Definition jstate := list (Z * jdb).

Definition enc_db (db : dbmap) : jdb := map (fun p => (enc_string p.1, enc_entry p.2)) (map_to_list db).
Definition dec_member (p : string * jentry) : option (string * entry) :=
  match dec_string p.1, dec_entry p.2 with
  | Some k, Some e => Some (k, e)
  | _, _ => None
  end.
Definition dec_db (j : jdb) : option dbmap := list_to_map <$> mapM dec_member j.

Definition enc_state (dbs : gmap Z dbmap) : jstate := map (fun p => (p.1, enc_db p.2)) (map_to_list dbs).
Definition dec_dbmember (p : Z * jdb) : option (Z * dbmap) :=
  match dec_db p.2 with Some db => Some (p.1, db) | None => None end.
Definition dec_state (j : jstate) : option (gmap Z dbmap) := list_to_map <$> mapM dec_dbmember j.

(** [internal.SnapshotObject] *)
Record snapobj := SnapObj { so_state : jstate; so_latest : Z }.

End codec.

Global Instance jval_eq_dec : EqDecision jval.
Proof. solve_decision. Defined.
Global Instance jentry_eq_dec : EqDecision jentry.
Proof. solve_decision. Defined.
Global Instance snapobj_eq_dec : EqDecision snapobj.
Proof. solve_decision. Defined.
