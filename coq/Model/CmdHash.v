(** Hash handlers: [internal/modules/hash/commands.go], one definition per Go handler, same order
    of checks; arity tests from [key_funcs.go].  [argv] includes the command word at index 0.
    Replies that the Go code produces by ranging over a map are emitted in sorted field order. *)
From stdpp Require Import gmap strings.
From EV Require Import Base.Str Model.Value Model.Adapt Model.Keyspace Model.Reply Model.Prog Model.HashVal.
Local Open Scope Z_scope.

Definition as_hash (o : option value) : option hmap :=
  match o with Some (VHash h) => Some h | _ => None end.

Definition harg (argv : list string) (i : nat) : string := nth i argv "".

(** [handleHSET], registered for HSET and HSETNX. *)
Definition handle_hset (argv : list string) : prog reply :=
  if (length argv <? 4)%nat then Ret RErr else
  let key := harg argv 1 in
  KeysExist [key] (fun ex =>
  if Nat.odd (length (skipn 2 argv)) then Ret RErr else
  let entries := entries_of (skipn 2 argv) in
  if negb (ex key) then
    SetValues [(key, VHash entries)] (fun ok => if ok then Ret (RInt (hsize entries)) else Ret RErr)
  else
  GetValues [key] (fun vals =>
  match as_hash (vals key) with
  | None =>
      (* not a hash: the entries replace whatever is there *)
      SetValues [(key, VHash entries)] (fun ok => if ok then Ret (RInt (hsize entries)) else Ret RErr)
  | Some h =>
      if String.eqb (lower (harg argv 0)) "hsetnx" then
        (* count the given fields that are new, then let the stored values win *)
        SetValues [(key, VHash (h ∪ entries))] (fun ok =>
        if ok then Ret (RInt (hsize (entries ∖ h))) else Ret RErr)
      else
        (* stored fields that are not given again are kept; the reply is the size of the result *)
        SetValues [(key, VHash (entries ∪ h))] (fun ok =>
        if ok then Ret (RInt (hsize (entries ∪ h))) else Ret RErr)
  end)).

(** [handleHGET] and [handleHMGET] (two Go functions with the same behaviour). *)
Definition handle_hget (argv : list string) : prog reply :=
  if (length argv <? 3)%nat then Ret RErr else
  let key := harg argv 1 in
  KeysExist [key] (fun ex =>
  let fields := skipn 2 argv in
  if negb (ex key) then Ret RNil else
  GetValues [key] (fun vals =>
  match as_hash (vals key) with
  | None => Ret RErr
  | Some h => Ret (RArr (map (fun f => field_reply (h !! f)) fields))
  end)).

Definition handle_hstrlen (argv : list string) : prog reply :=
  if (length argv <? 3)%nat then Ret RErr else
  let key := harg argv 1 in
  KeysExist [key] (fun ex =>
  let fields := skipn 2 argv in
  if negb (ex key) then Ret RNil else
  GetValues [key] (fun vals =>
  match as_hash (vals key) with
  | None => Ret RErr
  | Some h => Ret (RArr (map (fun f => strlen_reply (h !! f)) fields))
  end)).

(** The four whole-hash readers share their shape. *)
Definition hash_reader (absent : reply) (f : hmap -> reply) (argv : list string) : prog reply :=
  if negb (length argv =? 2)%nat then Ret RErr else
  let key := harg argv 1 in
  KeysExist [key] (fun ex =>
  if negb (ex key) then Ret absent else
  GetValues [key] (fun vals =>
  match as_hash (vals key) with
  | None => Ret RErr
  | Some h => Ret (f h)
  end)).

Definition handle_hvals := hash_reader (RArr []) hvals_reply.
Definition handle_hlen := hash_reader (RInt 0) (fun h => RInt (hsize h)).
Definition handle_hkeys := hash_reader (RArr []) hkeys_reply.
Definition handle_hgetall := hash_reader (RArr []) hgetall_reply.

(** [handleHRANDFIELD].  The random selection is represented by [hrand_pick]; which selections
    are allowed is stated in [Spec/SpecHash.v] ([hrand_allowed]). *)
Definition handle_hrandfield (argv : list string) : prog reply :=
  if (length argv <? 2)%nat || (4 <? length argv)%nat then Ret RErr else
  let key := harg argv 1 in
  KeysExist [key] (fun ex =>
  match (if (3 <=? length argv)%nat then parse_int (harg argv 2) else Some 1) with
  | None => Ret RErr
  | Some count =>
      let withvalues := (length argv =? 4)%nat in
      if withvalues && negb (eq_fold (harg argv 3) "withvalues") then Ret RErr else
      if negb (ex key) then Ret (RArr []) else
      GetValues [key] (fun vals =>
      match as_hash (vals key) with
      | None => Ret RErr
      | Some h => Ret (RArr (with_vals h withvalues (hrand_pick h count)))
      end)
  end).

(** [handleHINCRBY], registered for HINCRBY and HINCRBYFLOAT. *)
Definition handle_hincrby (argv : list string) : prog reply :=
  if negb (length argv =? 4)%nat then Ret RErr else
  let key := harg argv 1 in
  KeysExist [key] (fun ex =>
  let field := harg argv 2 in
  match parse_incr (eq_fold (harg argv 0) "hincrbyfloat") (harg argv 3) with
  | None => Ret RErr
  | Some inc =>
      if negb (ex key) then
        SetValues [(key, VHash {[ field := incr_scalar inc ]})] (fun ok =>
        if ok then Ret (val_reply (incr_scalar inc)) else Ret RErr)
      else
      GetValues [key] (fun vals =>
      match as_hash (vals key) with
      | None => Ret RErr
      | Some h =>
          match hincr (default (SInt 0) (h !! field)) inc with
          | None => Ret RErr
          | Some x =>
              SetValues [(key, VHash (<[field := x]> h))] (fun ok =>
              if ok then Ret (val_reply x) else Ret RErr)
          end
      end)
  end).

Definition handle_hexists (argv : list string) : prog reply :=
  if negb (length argv =? 3)%nat then Ret RErr else
  let key := harg argv 1 in
  KeysExist [key] (fun ex =>
  let field := harg argv 2 in
  if negb (ex key) then Ret (RInt 0) else
  GetValues [key] (fun vals =>
  match as_hash (vals key) with
  | None => Ret RErr
  | Some h => Ret (RInt (match h !! field with Some _ => 1 | None => 0 end))
  end)).

Definition handle_hdel (argv : list string) : prog reply :=
  if (length argv <? 3)%nat then Ret RErr else
  let key := harg argv 1 in
  KeysExist [key] (fun ex =>
  let fields := skipn 2 argv in
  if negb (ex key) then Ret (RInt 0) else
  GetValues [key] (fun vals =>
  match as_hash (vals key) with
  | None => Ret RErr
  | Some h =>
      let '(h', count) := hdel_loop fields h 0 in
      SetValues [(key, VHash h')] (fun ok => if ok then Ret (RInt count) else Ret RErr)
  end)).

Definition hash_handler (name : string) : option (list string -> prog reply) :=
  if String.eqb name "hset" || String.eqb name "hsetnx" then Some handle_hset
  else if String.eqb name "hget" || String.eqb name "hmget" then Some handle_hget
  else if String.eqb name "hstrlen" then Some handle_hstrlen
  else if String.eqb name "hvals" then Some handle_hvals
  else if String.eqb name "hrandfield" then Some handle_hrandfield
  else if String.eqb name "hlen" then Some handle_hlen
  else if String.eqb name "hkeys" then Some handle_hkeys
  else if String.eqb name "hincrby" || String.eqb name "hincrbyfloat" then Some handle_hincrby
  else if String.eqb name "hgetall" then Some handle_hgetall
  else if String.eqb name "hexists" then Some handle_hexists
  else if String.eqb name "hdel" then Some handle_hdel
  else None.
