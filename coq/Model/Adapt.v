(** [internal.AdaptValue] / [internal.AdaptType]: how a written token becomes a stored scalar, and
    how numeric arguments are read.

    [AdaptValue] (stored values) re-types a token to int / float64 only when printing the number
    gives back the token.  Modelled exactly for: canonical decimal integers within int64; plain
    decimals [-]d+.d+ without superfluous zeros, at most 15 significant digits, magnitude >= 1e-4;
    "+Inf" / "-Inf"; every other token stays the string it is.  Tokens on which this and the Go code
    can differ (a decimal with 16+ significant digits that happens to be the shortest rendering of a
    binary64, exponent renderings such as "1e+21") are excluded by [simple_token]. *)
From stdpp Require Import strings.
From Coq Require Import QArith.
From EV Require Import Base.Str Model.Value.
Local Open Scope Z_scope.

Definition canonical_int (s : string) : option Z :=
  match parse_int s with
  | Some z => if String.eqb (show_Z z) s then Some z else None
  | None => None
  end.

Fixpoint all_digits (s : string) : bool :=
  match s with EmptyString => true | String c r => is_digit c && all_digits r end.
Fixpoint last_char (s : string) (d : ascii) : ascii :=
  match s with EmptyString => d | String c r => last_char r c end.
Fixpoint strip_leading_zeros (s : string) : string :=
  match s with String "0"%char r => strip_leading_zeros r | _ => s end.

(** [-]int.frac with: int = "0" or no leading zero; frac non-empty, not ending in '0'. *)
Definition simple_decimal (s : string) : option Q :=
  let '(neg, body) := match s with String "-"%char r => (true, r) | _ => (false, s) end in
  match split_on "."%char "" body with
  | [ip; fp] =>
      if negb (String.eqb ip "") && all_digits ip && negb (String.eqb fp "") && all_digits fp
         && (String.eqb ip "0" || negb (String.eqb (String.substring 0 1 ip) "0"))
         && negb (Ascii.eqb (last_char fp "0"%char) "0"%char)
      then
        match parse_nat ip, parse_nat fp with
        | Some i, Some f =>
            let k := Z.of_nat (String.length fp) in
            let num := i * 10 ^ k + f in
            let sig := String.length (strip_leading_zeros (ip +:+ fp)) in
            if (sig <=? 15)%nat && (10 ^ k <=? num * 10000)
            then Some (Qred (Qmake (if neg then - num else num) (Z.to_pos (10 ^ k))))
            else None
        | _, _ => None
        end
      else None
  | _ => None
  end.

Definition adapt_value (s : string) : scalar :=
  match canonical_int s with
  | Some z => SInt z
  | None =>
      match simple_decimal s with
      | Some q => SFloat (FFin q)
      | None =>
          if String.eqb s "+Inf" then SFloat FPInf
          else if String.eqb s "-Inf" then SFloat FNInf
          else SStr s
      end
  end.

(** Characters that can occur in a token [big.ParseFloat] accepts. *)
Definition numeric_char (c : ascii) : bool :=
  is_digit c || (fun n => existsb (Nat.eqb n)
     [43; 45; 46; 69; 101; 80; 112; 88; 120; 95; 73; 105; 78; 110; 70; 102]%nat) (nat_of_ascii c).
Fixpoint has_nonnumeric_char (s : string) : bool :=
  match s with EmptyString => false | String c r => negb (numeric_char c) || has_nonnumeric_char r end.

(** Tokens on which [adapt_value] is the Go function, by construction of the grammar above. *)
Definition simple_token (s : string) : bool :=
  match canonical_int s, simple_decimal s with
  | Some _, _ | _, Some _ => true
  | None, None => String.eqb s "" || has_nonnumeric_char s || all_digits s
                  || (match s with String "-"%char r | String "+"%char r => all_digits r && negb (String.eqb r "") | _ => false end)
  end.

(** How a stored scalar is printed by [fmt.Sprintf("%v")] / as a bulk string. Floats are compared as
    numbers by the harness, so their text is not modelled. *)
Definition scalar_text (x : scalar) : option string :=
  match x with
  | SStr s => Some s
  | SInt z => Some (show_Z z)
  | SFloat _ => None
  end.

(** [AdaptType(s).(int)]: numeric arguments that must be integers (offsets, counts, limits).
    Exact for optionally signed digit strings within int64; other tokens are not integers here. *)
Definition adapt_int (s : string) : option Z :=
  match s with
  | String "+"%char r => if all_digits r && negb (String.eqb r "") then parse_int s else None
  | _ => parse_int s
  end.

(** [fmt.Sprintf("%g", f)] for a finite float whose exact decimal expansion is short (the reduced
    denominator divides [10^k], [k <= 12]): that expansion is then also the shortest rendering that
    round-trips.  [None] for other values (excluded from generation). *)
Fixpoint find_pow10 (fuel : nat) (k : Z) (den : Z) : option Z :=
  match fuel with
  | O => None
  | S f => if (10 ^ k) mod den =? 0 then Some k else find_pow10 f (k + 1) den
  end.
Fixpoint zeros (n : nat) : string := match n with O => "" | S n' => String "0"%char (zeros n') end.
(** left-pads [s] with zeros to width [n] (5007/1000 is "5.007": the fraction digits "7" become "007") *)
Definition pad_zeros (n : nat) (s : string) : string := zeros (n - String.length s) +:+ s.
Fixpoint strip_trailing_zeros_aux (l : list ascii) : list ascii :=
  match l with "0"%char :: r => strip_trailing_zeros_aux r | _ => l end.
Definition show_decimal (q : Q) : option string :=
  let q' := Qred q in
  let den := Zpos (Qden q') in
  match find_pow10 13 0 den with
  | None => None
  | Some k =>
      let scaled := Qnum q' * (10 ^ k / den) in
      let neg := scaled <? 0 in
      let a := Z.abs scaled in
      let ip := a / 10 ^ k in
      let fp := a mod 10 ^ k in
      let fps := pad_zeros (Z.to_nat k) (show_Z fp) in
      Some ((if neg then "-" else "") +:+ show_Z ip +:+ (if k =? 0 then "" else "." +:+ fps))
  end.
Definition fl_text (f : fl) : option string :=
  match f with
  | FFin q => show_decimal q
  | FPInf => Some "+Inf"
  | FNInf => Some "-Inf"
  end.

(** [strconv.ParseFloat] on the tokens the generators use: signed digit strings and plain decimals
    (any zeros allowed), "inf"-family excluded. *)
Definition parse_float_arg (s : string) : option Q :=
  let '(neg, body) := match s with
                      | String "-"%char r => (true, r)
                      | String "+"%char r => (false, r)
                      | _ => (false, s) end in
  let mk (num : Z) (k : Z) := Some (Qred (Qmake (if neg then - num else num) (Z.to_pos (10 ^ k)))) in
  match split_on "."%char "" body with
  | [ip] => if negb (String.eqb ip "") && all_digits ip then
              match parse_nat ip with Some i => mk i 0 | None => None end
            else None
  | [ip; fp] =>
      if all_digits ip && all_digits fp && negb (String.eqb (ip +:+ fp) "") then
        match digits_val 0 ip, digits_val 0 fp with
        | Some i, Some f => let k := Z.of_nat (String.length fp) in mk (i * 10 ^ k + f) k
        | _, _ => None
        end
      else None
  | _ => None
  end.
