(** [handleCommand] ([sugardb/modules.go:106]) for a standalone server: decode, look the command
    up case-insensitively, run its handler in the caller's database. *)
From stdpp Require Import gmap strings.
From RecordUpdate Require Import RecordSet.
Import RecordSetNotations.
From EV Require Import Base.Str Model.Value Model.Keyspace Model.Reply Model.Prog.
From EV Require Import Model.CmdList Model.CmdHash Model.CmdSet Model.CmdZSet Model.CmdGeneric Model.CmdString.
Local Open Scope Z_scope.

Record world := World {
  w_st : state;
  w_conns : gmap Z Z;      (* connection id -> selected database; id 0 is the embedded caller *)
}.
Global Instance eta_world : Settable _ := settable! World <w_st; w_conns>.

Definition init_world (now : Z) : world := {| w_st := init_state now; w_conns := ∅ |}.
Definition conn_db (w : world) (c : Z) : Z := default 0 (w_conns w !! c).

Definition first_some {A} (l : list (option A)) : option A :=
  fold_right (fun o acc => match o with Some x => Some x | None => acc end) None l.

Definition handler_of (name : string) : option (list string -> prog reply) :=
  first_some [list_handler name; hash_handler name; set_handler default_pick name; zset_handler name;
              generic_handler name; string_handler name].

Definition exec_cmd (w : world) (c : Z) (argv : list string) : world * reply :=
  match argv with
  | [] => (w, RErr)
  | cmd :: _ =>
      match handler_of (lower cmd) with
      | None => (w, RErr)
      | Some h =>
          let '(s', r) := run_seq (conn_db w c) (h argv) (w_st w) in
          (w <| w_st := s' |>, r)
      end
  end.
