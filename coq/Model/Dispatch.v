(** [handleCommand] ([sugardb/modules.go:106]) for a standalone server: decode, look the command
    up case-insensitively, run its handler in the caller's database. *)
From stdpp Require Import gmap strings.
From RecordUpdate Require Import RecordSet.
Import RecordSetNotations.
From EV Require Import Base.Str Model.Value Model.Keyspace Model.Reply Model.Prog.
From EV Require Import Model.CmdList Model.CmdHash Model.CmdSet Model.CmdZSet Model.CmdGeneric Model.CmdString.
From EV Require Import Model.CmdZRand Model.CmdKeyspace.
Local Open Scope Z_scope.

Record world := World {
  w_st : state;
  w_conns : gmap Z Z;      (* connection id -> selected database; id 0 is the embedded caller *)
}.
Global Instance eta_world : Settable _ := settable! World <w_st; w_conns>.

Definition init_world (now : Z) : world := {| w_st := init_state now; w_conns := ∅ |}.
Definition conn_db (w : world) (c : Z) : Z := default 0 (w_conns w !! c).

Definition first_some {A} (l : list (option A)) : option A :=
  fold_right (fun o acc => match o with Some x => Some x | None => acc end) None l.

Definition handler_of (name : string) : option (list string -> prog reply) :=
  first_some [list_handler name; hash_handler name; set_handler default_pick name; zset_handler name;
              generic_handler name; string_handler name;
              zrand_handler default_zpick name; keyspace_handler default_keysource name].

(** Connection-level commands ([internal/modules/connection/commands.go]): they act on the
    connection table, not on the keyspace.  Connection 0 is the embedded caller, whose database is
    only changed by the API call [SelectDB]; a SELECT *command* issued through the embedded API writes
    the record of the nil connection (kept here under key [-1]) and does not move the embedded caller. *)
Definition conn_key (c : Z) : Z := if c =? 0 then -1 else c.

Definition exec_conn_cmd (w : world) (c : Z) (name : string) (argv : list string) : option (world * reply) :=
  if String.eqb name "select" then
    Some (if negb (length argv =? 2)%nat then (w, RErr) else
          match parse_int (arg argv 1) with
          | None => (w, RErr)
          | Some d => if d <? 0 then (w, RErr)
                      else (w <| w_conns := <[conn_key c := d]> (w_conns w) |>, ROk)
          end)
  else if String.eqb name "swapdb" then
    Some (if negb (length argv =? 3)%nat then (w, RErr) else
          match parse_int (arg argv 1), parse_int (arg argv 2) with
          | Some d1, Some d2 =>
              if (d1 <? 0) || (d2 <? 0) then (w, RErr)
              else (w <| w_conns := map_imap (fun c d => Some (if c =? 0 then d else
                                          if d =? d1 then d2 else if d =? d2 then d1 else d)) (w_conns w) |>, ROk)
          | _, _ => (w, RErr)
          end)
  else if String.eqb name "ping" then
    Some (match argv with
          | [_] => (w, RSimple "PONG")
          | [_; m] => (w, RBulk m)
          | _ => (w, RErr)
          end)
  else if String.eqb name "echo" then
    Some (match argv with [_; m] => (w, RBulk m) | _ => (w, RErr) end)
  else None.

(** [handleConnection] / [VerifNewConn]: a new TCP connection starts in database 0. *)
Definition register_conn (w : world) (c : Z) : world :=
  if c =? 0 then w else
  match w_conns w !! c with Some _ => w | None => w <| w_conns := <[c := 0]> (w_conns w) |> end.

Definition exec_cmd (w : world) (c : Z) (argv : list string) : world * reply :=
  match argv with
  | [] => (w, RErr)
  | cmd :: _ =>
      match exec_conn_cmd w c (lower cmd) argv with
      | Some r => r
      | None =>
          match handler_of (lower cmd) with
          | None => (w, RErr)
          | Some h =>
              let '(s', r) := run_seq (conn_db w c) (h argv) (w_st w) in
              (w <| w_st := s' |>, r)
          end
      end
  end.
