(** Front end of the log model for the crash harness ([harness/crash]): reads the same script lines,
    prints the same observation lines (replies, restored digests of every crash image, the bytes of
    the log, the synced size).  Mode [aof] of the runner. *)
From stdpp Require Import gmap strings.
From RecordUpdate Require Import RecordSet.
Import RecordSetNotations.
From EV Require Import Base.Str Model.Value Model.Keyspace Model.Reply Model.Prog Model.Dispatch Model.Script.
From EV Require Import Model.Resp Model.Disk Model.Aof Model.AbsForm.
Local Open Scope Z_scope.

Record aw := AW {
  aw_live : option state;
  aw_conns : gmap Z Z;
  aw_aof : aof;
  aw_pre : pre_file;
  aw_gen : Z;            (* number of the last rewrite: in preamble.bin and in both stores *)
  aw_pol : policy;
  aw_now : Z;
  aw_before : nat;       (* size of the log before the last command *)
  aw_images : bool;
}.
Global Instance eta_aw : Settable _ :=
  settable! AW <aw_live; aw_conns; aw_aof; aw_pre; aw_gen; aw_pol; aw_now; aw_before; aw_images>.

Definition aw_init : aw :=
  {| aw_live := None; aw_conns := ∅; aw_aof := aof_fresh; aw_pre := PreEmpty; aw_gen := 0; aw_pol := Always;
     aw_now := default_now; aw_before := 0; aw_images := true |}.

Definition hexb (b : bytes) : string := match b with [] => "-" | _ => hex_of_string (of_chars b) end.
Definition log_bytes (w : aw) : bytes := f_all (a_log (aw_aof w)).
Definition img_line_g (w : aw) (label : string) (pre : pre_file) (g : Z) (log : bytes) : string :=
  "I " +:+ label +:+ " " +:+ show_state (restore_pg (aw_now w) pre g log).
Definition img_line (w : aw) (label : string) (pre : pre_file) (log : bytes) : string :=
  img_line_g w label pre (aw_gen w) log.
Definition files_lines (w : aw) : list string :=
  ["L " +:+ hexb (log_bytes w);
   "Y " +:+ match aw_pol w with
            | EverySec => "*"
            | _ => show_Z (zlen (f_synced (a_log (aw_aof w))))
            end].

Definition apply_acfg (w : aw) (kv : string) : aw :=
  match cfg_value kv with
  | Some ("now", v) => match parse_int v with Some z => w <| aw_now := z |> | None => w end
  | Some ("aofsync", v) =>
      w <| aw_pol := if String.eqb v "always" then Always else if String.eqb v "everysec" then EverySec else NoSync |>
  | Some ("images", v) => w <| aw_images := negb (String.eqb v "0") |>
  | _ => w
  end.

(** Re-marshalled bytes of a value ([Value.MarshalRESP]). *)
Fixpoint marshal (v : rv) : bytes :=
  match v with
  | VSimple s => "+"%char :: chars s ++ CRLF
  | VErrS s => "-"%char :: chars s ++ CRLF
  | VInt z => ":"%char :: chars (show_Z z) ++ CRLF
  | VBulk s => enc_bulk s
  | VNullBulk | VNull => chars "$-1" ++ CRLF
  | VNullArr => chars "*-1" ++ CRLF
  | VArr l => "*"%char :: show_len (length l) ++ CRLF ++ concat (map marshal l)
  end.

(** What the restore loop hands to [handleCommand], in order. *)
Fixpoint dispatch_list (db : Z) (vs : list rv) : list string :=
  match vs with
  | [] => []
  | v :: r =>
      match cmd_of_value v with
      | [] => dispatch_list db r
      | c0 :: args =>
          if eq_fold c0 "generation" then dispatch_list db r
          else if eq_fold c0 "select" then
            match args with
            | [] => []
            | a :: _ => match parse_int a with Some d => dispatch_list d r | None => [] end
            end
          else ("D " +:+ show_Z db +:+ " " +:+ hexb (marshal v)) :: dispatch_list db r
      end
  end.

Definition set_clock (s : state) (now : Z) : state := s <| st_now := now |>.

Definition cmd_lines (w : aw) (s : state) (c : Z) (argv : list string) : aw * list string :=
  let d := default 0 (aw_conns w !! c) in
  let '(s', r) := exec_db s d argv in
  let a := aw_aof w in
  let pre := aw_pre w in
  let before := f_all (a_log a) in
  let lg := logged argv r in
  (* what [handleCommand] hands to [LogCommand]: the absolute form at the clock the handler has just seen
     (fixes/fix-absolute-expiry.diff) *)
  let largv := absolute_form (st_now s) argv in
  let a' := if lg then aof_write (aw_pol w) a d largv else a in
  let marker := if d =? a_cur a then [] else select_marker d in
  let imgs :=
    if negb (aw_images w) || is_err r then []
    else
      [img_line w "cmd.after_handler" pre before] ++
      (if lg then
         (if d =? a_cur a then [] else [img_line w "log.write.after_select" pre (before ++ marker)]) ++
         [img_line w "log.write.after_cmd" pre (before ++ marker ++ encode_cmd largv)] ++
         (match aw_pol w with Always => [img_line w "log.write.after_sync" pre (f_all (a_log a'))] | _ => [] end)
       else []) ++
      [img_line w "cmd.after_log" pre (f_all (a_log a'))] in
  let w' := w <| aw_live := Some s' |> <| aw_aof := a' |> <| aw_before := length before |> in
  (w', ("R " +:+ show_reply r) :: imgs ++ files_lines w').

(** REWRITEAOF as repaired: the images at the failpoints, in the order the code reaches them, then the
    torn writes of the log's header at every byte ("IP <offset>"), and "IP 0": a half-written temporary
    file next to the old preamble and the old log. *)
Definition rewrite_lines (w : aw) (s : state) : aw * list string :=
  let a := aw_aof w in
  let pre := aw_pre w in
  let g := aw_gen w in
  let g' := g + 1 in
  let before := f_all (a_log a) in
  let pre' := PreFull (snapshot_of s) in
  let genb := gen_marker g' in
  let hdr := genb ++ trunc_header (a_cur a) in
  let a' := Aof (apply_ops empty_file (hdr_ops g' (a_cur a))) (a_cur a) in
  let old l := img_line_g w l pre g before in
  let new l log := img_line_g w l pre' g' log in
  let imgs :=
    if aw_images w then
      [old "rewrite.begin"; old "pre.create.after_state"; old "pre.create.after_create";
       old "pre.create.after_write"; old "pre.create.after_sync";
       new "pre.create.after_rename" before; new "rewrite.after_preamble" before;
       new "log.trunc.after_truncate" []; new "log.trunc.after_generation" genb;
       new "log.trunc.after_header" hdr; new "log.trunc.after_sync" hdr; new "rewrite.after_truncate" hdr;
       new "cmd.after_handler" hdr; new "cmd.after_log" hdr;
       "IP 0 " +:+ show_state (restore_pg (aw_now w) pre g before)] ++
      map (fun off => "IP " +:+ show_Z (Z.of_nat off) +:+ " " +:+
                      show_state (restore_pg (aw_now w) pre' g' (firstn off hdr)))
          (seq 1 (length hdr - 1))
    else [] in
  let w' := w <| aw_aof := a' |> <| aw_pre := pre' |> <| aw_gen := g' |> <| aw_before := length before |> in
  (w', ("R " +:+ show_reply ROk) :: imgs ++ files_lines w').

(** REWRITEAOF cut short at a failpoint (the process is about to be abandoned): the directory as it is
    at that instant.  The stores of the dying process are of no interest: the next line is a kill. *)
Definition rewrite_cut (w : aw) (s : state) (point : string) : aw :=
  let a := aw_aof w in
  let g' := aw_gen w + 1 in
  let pre' := PreFull (snapshot_of s) in
  let genb := gen_marker g' in
  let at_log log := w <| aw_pre := pre' |> <| aw_gen := g' |> <| aw_aof := Aof (f_of_bytes log) (a_cur a) |> in
  if String.eqb point "pre.create.after_rename" || String.eqb point "rewrite.after_preamble" || String.eqb point "log.trunc.begin"
  then at_log (f_all (a_log a))
  else if String.eqb point "log.trunc.after_truncate" then at_log []
  else if String.eqb point "log.trunc.after_generation" then at_log genb
  else if String.eqb point "log.trunc.after_header" || String.eqb point "log.trunc.after_sync" || String.eqb point "rewrite.after_truncate"
  then at_log (genb ++ trunc_header (a_cur a))
  else w.

Definition down (w : aw) : aw :=
  w <| aw_live := None |> <| aw_aof := Aof (f_of_bytes (log_bytes w)) (a_cur (aw_aof w)) |>.

Definition astep (w : aw) (line : string) : aw * list string :=
  match split_words line with
  | ["O"] =>
      let log := log_bytes w in
      let s := restore_pg (aw_now w) (aw_pre w) (aw_gen w) log in
      (w <| aw_live := Some s |> <| aw_conns := ∅ |>
         <| aw_aof := Aof (recovered_pg (aw_pre w) (aw_gen w) log) (-1) |>, ["O ok"])
  | ["D"; c; d] =>
      match parse_int c, parse_int d with
      | Some c', Some d' => (w <| aw_conns := <[c' := d']> (aw_conns w) |>, [])
      | _, _ => (w, ["BAD " +:+ line])
      end
  | "C" :: c :: args =>
      match parse_int c, unhex_all args, aw_live w with
      | Some c', Some argv, Some s => cmd_lines w s c' argv
      | _, _, _ => (w, ["BAD " +:+ line])
      end
  | "WW" :: _ :: c1 :: n1 :: rest =>
      (* two writers: the first parked between its handler and its log record, the second started meanwhile: a command and
         its log record are one critical section, so the second waits; both are logged in the order they executed *)
      match parse_int c1, parse_int n1, aw_live w with
      | Some c1', Some n, Some s =>
          let k := Z.to_nat n in
          match unhex_all (firstn k rest), skipn k rest with
          | Some argv1, c2 :: args2 =>
              match parse_int c2, unhex_all args2 with
              | Some c2', Some argv2 =>
                  let w0 := w <| aw_images := false |> in
                  let '(w1, l1) := cmd_lines w0 s c1' argv1 in
                  match aw_live w1 with
                  | Some s1 =>
                      let '(w2, l2) := cmd_lines w1 s1 c2' argv2 in
                      (w2 <| aw_images := aw_images w |>, "SCHED ww parked blocked" :: hd "" l1 :: l2)
                  | None => (w, ["BAD " +:+ line])
                  end
              | _, _ => (w, ["BAD " +:+ line])
              end
          | _, _ => (w, ["BAD " +:+ line])
          end
      | _, _, _ => (w, ["BAD " +:+ line])
      end
  | ["LT"; _] => (w, [])    (* a leftover temporary preamble of an earlier crash: the rewrite creates (truncates) its own *)
  | ["TORN"] =>
      let all := log_bytes w in
      let n := (length all - aw_before w)%nat in
      (w, map (fun off => "T " +:+ show_Z (Z.of_nat off) +:+ " " +:+
                          show_state (restore_pg (aw_now w) (aw_pre w) (aw_gen w) (firstn (aw_before w + off) all)))
              (seq 1 (n - 1)))
  | ["RW"; _] =>
      match aw_live w with
      | Some s => rewrite_lines w s
      | None => (w, ["BAD " +:+ line])
      end
  | ["RWK"; _; point] =>
      match aw_live w with
      | Some s => (rewrite_cut w s point, ["R !"])
      | None => (w, ["BAD " +:+ line])
      end
  | ["G"] => (w, ["G " +:+ match aw_live w with Some s => show_state s | None => "down" end])
  | ["A"; ms] =>
      match parse_int ms with
      | Some z => (w <| aw_now := aw_now w + z |>
                     <| aw_live := (fun s => set_clock s (aw_now w + z)) <$> aw_live w |>, [])
      | None => (w, ["BAD " +:+ line])
      end
  | ["K"] | ["Q"] => (down w, [])
  | ["CUT"; n] =>
      match parse_int n with
      | Some z => let all := log_bytes w in
                  (w <| aw_aof := Aof (f_of_bytes (firstn (length all - Z.to_nat z) all)) (a_cur (aw_aof w)) |>, [])
      | None => (w, ["BAD " +:+ line])
      end
  | ["X"; h] =>
      match unhex_arg h with
      | Some b => (w <| aw_aof := Aof (f_of_bytes (log_bytes w ++ chars b)) (a_cur (aw_aof w)) |>, [])
      | None => (w, ["BAD " +:+ line])
      end
  | ["DEC"] =>
      let '(vs, t) := decode_all (log_bytes w) in
      (w, dispatch_list 0 vs ++
          match t with
          | TTorn rest => if replay_stops vs then [] else ["DT " +:+ show_Z (Z.of_nat (length (log_bytes w) - length rest))]
          | _ => []
          end ++ ["DE ok"])
  | ["IMG"] => (w, [img_line w "now" (aw_pre w) (log_bytes w)])
  | "N" :: _ => (w, [])
  | _ => (w, ["BAD " +:+ line])
  end.

Fixpoint arun (w : aw) (lines : list string) : list string :=
  match lines with
  | [] => []
  | l :: r => let '(w', out) := astep w l in out ++ arun w' r
  end.

Definition run_aof (lines : list string) : list string :=
  match lines with
  | [] => []
  | hdr :: body =>
      match split_words hdr with
      | "S" :: id :: cfg =>
          let w := fold_left apply_acfg cfg aw_init in
          ("S " +:+ id) :: arun w (List.filter (fun l => negb (String.eqb l "E")) body) ++ ["E"]
      | _ => ["BAD " +:+ hdr]
      end
  end.
