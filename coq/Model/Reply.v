(** Replies, as RESP values; rendered exactly as the harness' strict parser renders the bytes
    the server produced. *)
From stdpp Require Import strings.
From EV Require Import Base.Str Model.Value.
Local Open Scope Z_scope.

Inductive reply :=
| RSimple (s : string)        (* +s *)
| RErr                        (* handler returned an error: only the class is compared *)
| RInt (z : Z)                (* :z *)
| RBulk (s : string)          (* $len s *)
| RNil                        (* $-1 *)
| RNilArr                     (* *-1 *)
| RArr (l : list reply)       (* *n ... *)
| RFloat (f : fl)             (* a float printed as text (bulk or simple); compared as a number *)
| RRaw (s : string)           (* bytes that are not one well-formed RESP value *)
| REmpty                      (* no bytes at all *)
| RPanic.                     (* the handler panicked *)

Definition ROk := RSimple "OK".

Fixpoint show_reply (r : reply) : string :=
  match r with
  | RSimple s => "+" +:+ hex_of_string s
  | RErr => "-"
  | RInt z => ":" +:+ show_Z z
  | RBulk s => "$" +:+ hex_of_string s
  | RNil => "_"
  | RNilArr => "*_"
  | RArr l => "[" +:+ join " " (map show_reply l) +:+ "]"
  | RFloat f => "f" +:+ show_fl f
  | RRaw s => "?" +:+ hex_of_string s
  | REmpty => "0"
  | RPanic => "!"
  end.

Definition is_err (r : reply) : bool := match r with RErr => true | _ => false end.
Definition bulks (l : list string) : reply := RArr (map RBulk l).
