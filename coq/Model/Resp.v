(** RESP as the append-only log uses it: the encoder the writers use ([internal.EncodeCommand], the
    harness' and the clients' framing of a command), and a total streaming decoder that mirrors the
    reader the restore path really uses (tidwall/resp v0.1.1 [Reader.ReadValue] as called from
    [internal/aof/log/store.go] Restore): nested arrays, simple strings, integers, null values, the
    inline ("telnet") mode for a first byte that is no RESP type, the limits 512 MiB / 1 Mi elements,
    and the three outcomes  Ok / Incomplete (unexpected EOF) / Malformed (protocol or number error). *)
From Coq Require Import String Ascii List ZArith Lia Bool.
From EV Require Import Base.Str.
Import ListNotations.
Local Open Scope Z_scope.

Definition bytes := list ascii.
Definition CR : ascii := "013"%char.
Definition LF : ascii := "010"%char.
Definition CRLF : bytes := [CR; LF].

(** * Encoder *)
(** Decimal digits of a non-negative number, most significant first ([strconv.Itoa], [%d]). *)
Definition digit (n : Z) : ascii := ascii_of_nat (Z.to_nat (48 + n)).
Fixpoint digits_of (fuel : nat) (n : Z) : bytes :=
  match fuel with
  | O => []
  | S f => if n <? 10 then [digit n] else digits_of f (n / 10) ++ [digit (n mod 10)]
  end.
Definition show_len (n : nat) : bytes := digits_of (S n) (Z.of_nat n).

Definition enc_bulk (s : string) : bytes :=
  "$"%char :: show_len (String.length s) ++ CRLF ++ chars s ++ CRLF.
(** [*<argc>\r\n] followed by one bulk string per argument. *)
Definition encode_cmd (argv : list string) : bytes :=
  "*"%char :: show_len (length argv) ++ CRLF ++ concat (map enc_bulk argv).

(** * Decoder *)
Inductive rv :=
| VSimple (s : string) | VErrS (s : string) | VInt (z : Z) | VBulk (s : string) | VNullBulk
| VArr (l : list rv) | VNullArr
| VNull.   (* the reader's [nullValue] (type 0), returned for an array header above 1 Mi *)

Inductive res (A : Type) := Ok (a : A) (rest : bytes) | Incomplete | Malformed.
Arguments Ok {A}. Arguments Incomplete {A}. Arguments Malformed {A}.

(** [readLine]: up to the first LF that directly follows a CR (a lone LF does not end the line). *)
Fixpoint read_line_go (acc : bytes) (s : bytes) : option (bytes * bytes) :=
  match s with
  | [] => None
  | c :: r =>
      if Ascii.eqb c LF then
        match acc with
        | p :: acc' => if Ascii.eqb p CR then Some (rev acc', r) else read_line_go (c :: acc) r
        | [] => read_line_go (c :: acc) r
        end
      else read_line_go (c :: acc) r
  end.
Definition read_line (s : bytes) : option (bytes * bytes) := read_line_go [] s.

(** [readInt]: a line parsed by [strconv.ParseInt(line, 10, 64)]. *)
Definition read_int (s : bytes) : res Z :=
  match read_line s with
  | None => Incomplete
  | Some (l, r) => match parse_int (of_chars l) with Some z => Ok z r | None => Malformed end
  end.

Definition max_bulk : Z := 512 * 1024 * 1024.
Definition max_array : Z := 1024 * 1024.

(** [readBulkValue] (after the '$'). *)
Definition read_bulk (s : bytes) : res rv :=
  match read_int s with
  | Ok l r =>
      if l <? 0 then Ok VNullBulk r
      else if max_bulk <? l then Malformed
      else if zlen r <? l + 2 then Incomplete
      else
        let n := Z.to_nat l in
        match skipn n r with
        | a :: b :: rest =>
            if Ascii.eqb a CR && Ascii.eqb b LF then Ok (VBulk (of_chars (firstn n r))) rest else Malformed
        | _ => Incomplete
        end
  | Incomplete => Incomplete
  | Malformed => Malformed
  end.

Definition read_simple (mk : string -> rv) (s : bytes) : res rv :=
  match read_line s with
  | None => Incomplete
  | Some (l, r) => Ok (mk (of_chars l)) r
  end.

(** [readTelnetMultiBulk]: one line split on spaces; a double quote opens a quoted word.  (As in the Go
    code the [quote] flag is never reset, so a line with a quote always ends in a protocol error.) *)
Definition SP : ascii := " "%char.
Definition DQ : ascii := """"%char.
Definition nonempty {A} (l : list A) : bool := match l with [] => false | _ => true end.
Fixpoint telnet_go (s : bytes) (values : list string) (bline : bytes) (quote mustspace : bool) : res rv :=
  match s with
  | [] => Incomplete
  | c :: r =>
      if Ascii.eqb c LF then
        let bline' := match bline with p :: b' => if Ascii.eqb p CR then b' else bline | [] => [] end in
        if quote then Malformed
        else
          let values' := if nonempty bline' then of_chars (rev bline') :: values else values in
          Ok (VArr (map VBulk (rev values'))) r
      else if mustspace && negb (Ascii.eqb c SP) then Malformed
      else if Ascii.eqb c SP then
        if quote then telnet_go r values (c :: bline) quote mustspace
        else telnet_go r (of_chars (rev bline) :: values) [] quote mustspace
      else if Ascii.eqb c DQ then
        if quote then telnet_go r values bline quote true
        else if nonempty bline then Malformed
        else telnet_go r values bline true mustspace
      else telnet_go r values (c :: bline) quote mustspace
  end.
Definition read_telnet (s : bytes) : res rv := telnet_go s [] [] false false.

(** [n] values in a row. *)
Fixpoint read_n {A} (rd : bytes -> res A) (n : nat) (s : bytes) : res (list A) :=
  match n with
  | O => Ok [] s
  | S n' =>
      match rd s with
      | Ok v r => match read_n rd n' r with
                  | Ok vs r' => Ok (v :: vs) r'
                  | Incomplete => Incomplete
                  | Malformed => Malformed
                  end
      | Incomplete => Incomplete
      | Malformed => Malformed
      end
  end.

(** [readValue(multibulk=false, child)].  [fuel] bounds the nesting depth (one unit per level); the
    number of bytes is an upper bound for it, so [read_top] never runs out. *)
Fixpoint read_value (fuel : nat) (child : bool) (s : bytes) : res rv :=
  match fuel with
  | O => Malformed
  | S f =>
      match s with
      | [] => Incomplete
      | c :: r =>
          if Ascii.eqb c "*"%char then
            match read_int r with
            | Ok l r' =>
                if max_array <? l then Ok VNull r'
                else if l <? 0 then Ok VNullArr r'
                else match read_n (read_value f true) (Z.to_nat l) r' with
                     | Ok vs r'' => Ok (VArr vs) r''
                     | Incomplete => Incomplete
                     | Malformed => Malformed
                     end
            | Incomplete => Incomplete
            | Malformed => Malformed
            end
          else if Ascii.eqb c "+"%char then read_simple VSimple r
          else if Ascii.eqb c "-"%char then read_simple VErrS r
          else if Ascii.eqb c ":"%char then
            match read_int r with Ok z r' => Ok (VInt z) r' | Incomplete => Incomplete | Malformed => Malformed end
          else if Ascii.eqb c "$"%char then read_bulk r
          else if child then Malformed
          else read_telnet s
      end
  end.

Definition read_top (s : bytes) : res rv := read_value (S (length s)) false s.

(** How the stream ended. *)
Inductive tail :=
| TClean                     (* end of file at a record boundary *)
| TTorn (rest : bytes)       (* the reader hit end of file inside a value *)
| TBad (rest : bytes).       (* protocol error *)

(** The read loop of [Restore]: value after value until the end, an unexpected end, or an error. *)
Fixpoint decode_stream (fuel : nat) (s : bytes) : list rv * tail :=
  match fuel with
  | O => ([], TBad s)
  | S f =>
      match s with
      | [] => ([], TClean)
      | _ => match read_top s with
             | Ok v r => let '(vs, t) := decode_stream f r in (v :: vs, t)
             | Incomplete => ([], TTorn s)
             | Malformed => ([], TBad s)
             end
      end
  end.
Definition decode_all (s : bytes) : list rv * tail := decode_stream (S (length s)) s.

(** * From a value to a command *)
(** [Value.String()]; a nested array prints through [fmt]'s %v as "[a b]". *)
Fixpoint rv_string (v : rv) : string :=
  match v with
  | VSimple s | VErrS s | VBulk s => s
  | VInt z => show_Z z
  | VNullBulk | VNull => ""
  | VNullArr => "[]"
  | VArr l => ("[" ++ join " " (map rv_string l) ++ "]")%string
  end.
(** [internal.Decode] of the re-marshalled value: the elements of an array, nothing otherwise. *)
Definition cmd_of_value (v : rv) : list string :=
  match v with
  | VArr l => map rv_string l
  | _ => []
  end.
Definition value_of_cmd (argv : list string) : rv := VArr (map VBulk argv).
