(** The script runner: parses the line protocol shared with the Go harness and prints the same
    observation lines.  Everything (hex, decimal, dispatch, rendering) happens in Gallina so that the
    [vm_compute] and the extracted runs execute the same definitions. *)
From stdpp Require Import gmap strings.
From RecordUpdate Require Import RecordSet.
Import RecordSetNotations.
From EV Require Import Base.Str Model.Value Model.Keyspace Model.Reply Model.Prog Model.Dispatch.
Local Open Scope Z_scope.

Inductive event :=
| ECmd (conn : Z) (argv : list string)
| EAdvance (ms : Z)
| EDigest
| EBad (line : string).

Definition unhex_arg (h : string) : option string :=
  if String.eqb h "-" then Some "" else string_of_hex h.

Fixpoint unhex_all (l : list string) : option (list string) :=
  match l with
  | [] => Some []
  | h :: r => match unhex_arg h, unhex_all r with
              | Some a, Some b => Some (a :: b)
              | _, _ => None
              end
  end.

Definition parse_event (line : string) : option event :=
  match split_words line with
  | "C" :: c :: args =>
      match parse_int c, unhex_all args with
      | Some c', Some argv => Some (ECmd c' argv)
      | _, _ => Some (EBad line)
      end
  | ["A"; ms] => match parse_int ms with Some z => Some (EAdvance z) | None => Some (EBad line) end
  | ["G"] => Some EDigest
  | "N" :: _ => None
  | _ => Some (EBad line)
  end.

Definition cfg_value (kv : string) : option (string * string) :=
  match split_on "="%char "" kv with
  | [k; v] => Some (k, v)
  | _ => None
  end.

(** The "S id k=v ..." header: builds the initial world. *)
Definition apply_cfg (w : world) (kv : string) : world :=
  match cfg_value kv with
  | Some ("now", v) => match parse_int v with
                       | Some z => w <| w_st := (w_st w) <| st_now := z |> |>
                       | None => w end
  | Some ("maxmem", v) => match parse_int v with
                          | Some z => w <| w_st := (w_st w) <| st_maxmem := z |> |>
                          | None => w end
  | Some ("policy", v) => w <| w_st := (w_st w) <| st_noevict := String.eqb v "noeviction" |> |>
  | _ => w
  end.

Definition default_now : Z := 1700000000000.

Definition step_event (w : world) (e : event) : world * list string :=
  match e with
  | ECmd c argv => let '(w', r) := exec_cmd w c argv in (w', ["R " +:+ show_reply r])
  | EAdvance ms => (w <| w_st := (w_st w) <| st_now := st_now (w_st w) + ms |> |>, [])
  | EDigest => (w, ["G " +:+ show_state (w_st w)])
  | EBad l => (w, ["BAD " +:+ l])
  end.

Fixpoint run_events (w : world) (lines : list string) : list string :=
  match lines with
  | [] => []
  | l :: r =>
      match parse_event l with
      | None => run_events w r
      | Some e => let '(w', out) := step_event w e in out ++ run_events w' r
      end
  end.

(** One whole script: header line, event lines, "E". *)
Definition run_script (lines : list string) : list string :=
  match lines with
  | [] => []
  | hdr :: body =>
      match split_words hdr with
      | "S" :: id :: cfg =>
          let w := fold_left apply_cfg cfg (init_world default_now) in
          ("S " +:+ id) :: run_events w (filter (fun l => negb (String.eqb l "E")) body) ++ ["E"]
      | _ => ["BAD " +:+ hdr]
      end
  end.
