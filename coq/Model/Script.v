(** The script runner: parses the line protocol shared with the Go harness and prints the same
    observation lines.  Everything (hex, decimal, dispatch, rendering) happens in Gallina so that the
    [vm_compute] and the extracted runs execute the same definitions. *)
From stdpp Require Import gmap strings.
From Coq Require Import QArith.
From RecordUpdate Require Import RecordSet.
Import RecordSetNotations.
From EV Require Import Base.Str Model.Value Model.Keyspace Model.Reply Model.Prog Model.Dispatch.
Local Open Scope Z_scope.

Definition unhex_arg (h : string) : option string :=
  if String.eqb h "-" then Some "" else string_of_hex h.

Fixpoint unhex_all (l : list string) : option (list string) :=
  match l with
  | [] => Some []
  | h :: r => match unhex_arg h, unhex_all r with
              | Some a, Some b => Some (a :: b)
              | _, _ => None
              end
  end.

(** * Parsing canonical values (the digest format), for presets *)
Definition strip_wrap (open close : ascii) (s : string) : option string :=
  match s with
  | String c r =>
      if Ascii.eqb c open then
        match string_rev r with
        | String c' r' => if Ascii.eqb c' close then Some (string_rev r') else None
        | EmptyString => None
        end
      else None
  | EmptyString => None
  end.

Definition split_commas (s : string) : list string :=
  if String.eqb s "" then [] else split_on ","%char "" s.

Definition parse_Q (s : string) : option Q :=
  match split_on "/"%char "" s with
  | [p; q] => match parse_int p, parse_nat q with
              | Some p', Some q' => if 0 <? q' then Some (Qred (Qmake p' (Z.to_pos q'))) else None
              | _, _ => None
              end
  | _ => None
  end.
Definition parse_fl (s : string) : option fl :=
  if String.eqb s "inf" then Some FPInf else if String.eqb s "-inf" then Some FNInf
  else FFin <$> parse_Q s.

Definition parse_scalar (s : string) : option scalar :=
  match s with
  | String "s"%char r => SStr <$> unhex_arg r
  | String "i"%char r => SInt <$> parse_int r
  | String "f"%char r => SFloat <$> parse_fl r
  | _ => None
  end.

Fixpoint sequence_opt {A} (l : list (option A)) : option (list A) :=
  match l with
  | [] => Some []
  | Some x :: r => match sequence_opt r with Some r' => Some (x :: r') | None => None end
  | None :: _ => None
  end.

Definition parse_pair {A} (f : string -> option A) (s : string) : option (string * A) :=
  match split_on ":"%char "" s with
  | [k; v] => match unhex_arg k, f v with
              | Some k', Some v' => Some (k', v')
              | _, _ => None
              end
  | _ => None
  end.

Definition unhex_elem (h : string) : option string := unhex_arg h.

Definition parse_value (s : string) : option value :=
  match s with
  | String "l"%char r =>
      match strip_wrap "["%char "]"%char r with
      | Some body => VList <$> sequence_opt (map unhex_elem (split_commas body))
      | None => None
      end
  | String "h"%char r =>
      match strip_wrap "{"%char "}"%char r with
      | Some body => (fun l => VHash (list_to_map l)) <$> sequence_opt (map (parse_pair parse_scalar) (split_commas body))
      | None => None
      end
  | String "S"%char r =>
      match strip_wrap "{"%char "}"%char r with
      | Some body => (fun l => VSet (list_to_set l)) <$> sequence_opt (map unhex_elem (split_commas body))
      | None => None
      end
  | String "z"%char r =>
      match strip_wrap "{"%char "}"%char r with
      | Some body => (fun l => VZSet (list_to_map l)) <$> sequence_opt (map (parse_pair parse_fl) (split_commas body))
      | None => None
      end
  | _ => VScal <$> parse_scalar s
  end.

Inductive event :=
| EPreset (db : Z) (key : string) (v : value) (dl : Z)
| ECmd (conn : Z) (argv : list string)
| ESelectEmbedded (db : Z)
| ENewConn (c : Z)
| EAdvance (ms : Z)
| EDigest
| EBad (line : string).

Definition parse_event (line : string) : option event :=
  match split_words line with
  | "C" :: c :: args =>
      match parse_int c, unhex_all args with
      | Some c', Some argv => Some (ECmd c' argv)
      | _, _ => Some (EBad line)
      end
  | ["P"; db; hk; v; dl] =>
      match parse_int db, unhex_arg hk, parse_value v, parse_int dl with
      | Some db', Some k, Some v', Some dl' => Some (EPreset db' k v' dl')
      | _, _, _, _ => Some (EBad line)
      end
  | ["D"; db] => match parse_int db with Some z => Some (ESelectEmbedded z) | None => Some (EBad line) end
  | ["A"; ms] => match parse_int ms with Some z => Some (EAdvance z) | None => Some (EBad line) end
  | ["G"] => Some EDigest
  | ["N"; c] => match parse_int c with Some z => Some (ENewConn z) | None => Some (EBad line) end
  | _ => Some (EBad line)
  end.

Definition cfg_value (kv : string) : option (string * string) :=
  match split_on "="%char "" kv with
  | [k; v] => Some (k, v)
  | _ => None
  end.

(** The "S id k=v ..." header: builds the initial world. *)
Definition apply_cfg (w : world) (kv : string) : world :=
  match cfg_value kv with
  | Some ("now", v) => match parse_int v with
                       | Some z => w <| w_st := (w_st w) <| st_now := z |> |>
                       | None => w end
  | Some ("maxmem", v) => match parse_int v with
                          | Some z => w <| w_st := (w_st w) <| st_maxmem := z |> |>
                          | None => w end
  | Some ("policy", v) => w <| w_st := (w_st w) <| st_noevict := String.eqb v "noeviction" |> |>
  | _ => w
  end.

Definition default_now : Z := 1700000000000.

Definition step_event (w : world) (e : event) : world * list string :=
  match e with
  | EPreset db k v dl =>
      (* as the suite's presetKeyData: setValues, then setExpiry when a deadline is given *)
      let '(s1, _) := set_values (w_st w) db [(k, v)] in
      let s2 := if dl =? 0 then s1 else set_expiry s1 db k (Some dl) in
      (w <| w_st := s2 |>, [])
  | ECmd c argv => let '(w', r) := exec_cmd (register_conn w c) c argv in (w', ["R " +:+ show_reply r])
  | ENewConn c => (register_conn w c, [])
  | ESelectEmbedded d => (w <| w_conns := <[0 := d]> (w_conns w) |>, [])
  | EAdvance ms => (w <| w_st := (w_st w) <| st_now := st_now (w_st w) + ms |> |>, [])
  | EDigest => (w, ["G " +:+ show_state (w_st w)])
  | EBad l => (w, ["BAD " +:+ l])
  end.

Fixpoint run_events (w : world) (lines : list string) : list string :=
  match lines with
  | [] => []
  | l :: r =>
      match parse_event l with
      | None => run_events w r
      | Some e => let '(w', out) := step_event w e in out ++ run_events w' r
      end
  end.

(** One whole script: header line, event lines, "E". *)
Definition run_script (lines : list string) : list string :=
  match lines with
  | [] => []
  | hdr :: body =>
      match split_words hdr with
      | "S" :: id :: cfg =>
          let w := fold_left apply_cfg cfg (init_world default_now) in
          ("S " +:+ id) :: run_events w (filter (fun l => negb (String.eqb l "E")) body) ++ ["E"]
      | _ => ["BAD " +:+ hdr]
      end
  end.
