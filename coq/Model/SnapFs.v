(** A small model of the part of the file system the snapshot engine uses:
    <data-dir>/snapshots/ with manifest.bin, manifest.bin.tmp, and one directory <msec>/ per snapshot
    holding state.bin and state.bin.tmp.

    Assumptions about the operating system, stated here and nowhere hidden:
    - the process can stop between any two operations and in the middle of a write; operations that
      completed before the stop are visible afterwards (process death; the Sync calls are in the
      sequence, and are the identity in this model);
    - create-or-truncate, mkdir, rename are atomic; rename replaces the destination;
    - a write interrupted at a byte offset strictly inside the content leaves a strict, non-empty
      prefix of it ([FPart]); interrupted at offset 0 it leaves the file as it was (empty);
    - a strict prefix of the JSON text of a document does not parse as a document (the text of an
      object ends with its closing brace): reading [FEmpty] or [FPart] is a parse error.  The check
      C10 confirms this on the real files at every offset. *)
From stdpp Require Import gmap strings.
Local Open Scope Z_scope.

Inductive fileid := FMan | FManTmp | FState (m : Z) | FStateTmp (m : Z).
Global Instance fileid_eq_dec : EqDecision fileid.
Proof. solve_decision. Defined.
Global Instance fileid_countable : Countable fileid.
Proof.
  refine (inj_countable'
    (fun f => match f with FMan => inl (inl ()) | FManTmp => inl (inr ()) | FState m => inr (inl m) | FStateTmp m => inr (inr m) end)
    (fun x => match x with inl (inl _) => FMan | inl (inr _) => FManTmp | inr (inl m) => FState m | inr (inr m) => FStateTmp m end) _).
  by intros [].
Defined.

Section fs.
Context {D : Type}.          (* documents *)

Inductive fdata := FEmpty | FPart (d : D) | FWhole (d : D).

Record fs := Fs {
  f_root : bool;                   (* snapshots/ exists *)
  f_dirs : gset Z;                 (* snapshots/<msec>/ *)
  f_files : gmap fileid fdata;
}.

Definition fs_empty : fs := Fs false ∅ ∅.

Inductive fsop :=
| OMkRoot                          (* os.MkdirAll(<dir>/snapshots) *)
| OMkDir (m : Z)                   (* os.MkdirAll(<dir>/snapshots/<msec>) *)
| OCreate (f : fileid)             (* os.Create: create or truncate *)
| OWrite (f : fileid) (d : D)      (* File.Write of the whole content to the file just created *)
| OSync (f : fileid)
| OClose (f : fileid)
| ORename (src dst : fileid).      (* os.Rename *)

Definition set_files (x : fs) (m : gmap fileid fdata) : fs := Fs (f_root x) (f_dirs x) m.

Definition apply_op (x : fs) (o : fsop) : fs :=
  match o with
  | OMkRoot => Fs true (f_dirs x) (f_files x)
  | OMkDir m => Fs (f_root x) ({[m]} ∪ f_dirs x) (f_files x)
  | OCreate f => set_files x (<[f := FEmpty]> (f_files x))
  | OWrite f d => set_files x (<[f := FWhole d]> (f_files x))
  | OSync _ | OClose _ => x
  | ORename src dst =>
      match f_files x !! src with
      | Some c => set_files x (<[dst := c]> (delete src (f_files x)))
      | None => x
      end
  end.

(** The image left by an operation interrupted half-way: only a write can be half-done. *)
Definition torn_op (x : fs) (o : fsop) : option fs :=
  match o with
  | OWrite f d => Some (set_files x (<[f := FPart d]> (f_files x)))
  | _ => None
  end.

Definition apply_ops (x : fs) (ops : list fsop) : fs := fold_left apply_op ops x.

(** Every image a stop of the process can leave while [ops] run from [x]. *)
Inductive crash_image (x : fs) (ops : list fsop) : fs -> Prop :=
| ci_between k : (k <= length ops)%nat -> crash_image x ops (apply_ops x (take k ops))
| ci_torn k o y : ops !! k = Some o -> torn_op (apply_ops x (take k ops)) o = Some y -> crash_image x ops y.

(** The same, as a list (used by the runner; [crash_images_spec] in Proofs/SnapProofs.v). *)
Fixpoint crash_images (x : fs) (ops : list fsop) : list fs :=
  x :: match ops with
       | [] => []
       | o :: r => match torn_op x o with Some y => [y] | None => [] end ++ crash_images (apply_op x o) r
       end.

(** Reading a file back. *)
Inductive rd := RdNone | RdBad | RdOk (d : D).
Definition read_file (x : fs) (f : fileid) : rd :=
  match f_files x !! f with
  | None => RdNone
  | Some (FWhole d) => RdOk d
  | Some _ => RdBad
  end.

End fs.
Arguments fdata : clear implicits.
Arguments fs : clear implicits.
Arguments fsop : clear implicits.
Arguments rd : clear implicits.
