(** The sorted-set commands that read several keys: ZINTER, ZINTERSTORE, ZUNION, ZUNIONSTORE, ZDIFF,
    ZDIFFSTORE, ZMPOP ([commands.go], [utils.go: extractKeysWeightsAggregateWithScores], [sorted_set.go:
    Union / Intersect / Subtract]).  As in [ZSetOps.v] everything is a pure function: a command is decoded
    into the list of keys it looks at and a function from what is stored at those keys (in that order) to
    an optional write and a reply. *)
From stdpp Require Import gmap strings.
From Coq Require Import QArith.
From EV Require Import Base.Str Model.Value Model.Reply Model.ZSetOps.
Local Open Scope Z_scope.

Definition fl_sign (a : fl) : Z :=
  match a with FNInf => -1 | FPInf => 1 | FFin q => Z.sgn (Qnum q) end.
(** [Score * Score(weight)]; 0 * inf is NaN in binary64: excluded from generation. *)
Definition fl_mul (a b : fl) : fl :=
  match a, b with
  | FFin x, FFin y => FFin (Qred (x * y))
  | _, _ => let s := fl_sign a * fl_sign b in if s <? 0 then FNInf else if 0 <? s then FPInf else FFin 0
  end.

Inductive agg := ASum | AMin | AMax.
(** [left + right], [compareScores(left, right, "lt")], [compareScores(left, right, "gt")]. *)
Definition aggf (a : agg) (l r : fl) : fl :=
  match a with
  | ASum => fl_add l r
  | AMin => if fl_ltb r l then r else l
  | AMax => if fl_ltb l r then r else l
  end.
Definition parse_agg (s : string) : option agg :=
  if String.eqb s "sum" then Some ASum else if String.eqb s "min" then Some AMin
  else if String.eqb s "max" then Some AMax else None.

Definition zinter2 (a : agg) (x y : zmap) : zmap :=
  merge (fun p q => match p, q with Some u, Some v => Some (aggf a u v) | _, _ => None end) x y.
Definition zunion2 (a : agg) (x y : zmap) : zmap :=
  merge (fun p q => match p, q with
                    | Some u, Some v => Some (aggf a u v)
                    | Some u, None => Some u
                    | None, q => q
                    end) x y.
Definition zdiff2 (x y : zmap) : zmap :=
  merge (fun p q => match p, q with Some u, None => Some u | _, _ => None end) x y.
Definition weighted (zw : zmap * fl) : zmap := (fun s => fl_mul s (snd zw)) <$> fst zw.

(** [Intersect] / [Union] split their operands in halves and combine the two results; the three
    aggregates are associative and commutative (exactly so on the generated scores), so that is the
    left-to-right fold. *)
Definition zinter_all (a : agg) (l : list (zmap * fl)) : zmap :=
  match l with [] => ∅ | x :: r => fold_left (fun acc y => zinter2 a acc (weighted y)) r (weighted x) end.
Definition zunion_all (a : agg) (l : list (zmap * fl)) : zmap :=
  fold_left (fun acc y => zunion2 a acc (weighted y)) l ∅.

(** [extractKeysWeightsAggregateWithScores]: keys are the words before the first of WEIGHTS / AGGREGATE /
    WITHSCORES. *)
Fixpoint take_weights (l : list string) : option (list fl) :=
  match l with
  | [] => Some []
  | x :: r => if str_in_list (lower x) ["aggregate"; "withscores"] then Some [] else
              match float64_score x, take_weights r with
              | Some w, Some ws => Some (w :: ws)
              | _, _ => None
              end
  end.
Definition opt_min (a b : option nat) : option nat :=
  match a, b with
  | Some x, Some y => Some (Nat.min x y)
  | Some x, None => Some x
  | None, y => y
  end.
Definition keys_before_modifiers (cmd : list string) : list string :=
  match opt_min (index_opt "weights" cmd 0) (opt_min (index_opt "aggregate" cmd 0) (index_opt "withscores" cmd 0)) with
  | None => skipn 1 cmd
  | Some f => firstn (f - 1) (skipn 1 cmd)
  end.
Definition extract_kwa (cmd : list string) : option (list string * list fl * agg * bool) :=
  let widx := index_opt "weights" cmd 0 in
  let aidx := index_opt "aggregate" cmd 0 in
  let sidx := index_opt "withscores" cmd 0 in
  match (match widx with Some i => take_weights (skipn (S i) cmd) | None => Some [] end) with
  | None => None
  | Some ws =>
      match (match aidx with
             | None => Some ASum
             | Some i => if (length cmd <=? S i)%nat then None else parse_agg (lower (nth (S i) cmd ""))
             end) with
      | None => None
      | Some ag =>
          let keys := keys_before_modifiers cmd in
          match widx with
          | Some _ => if (length keys =? length ws)%nat then Some (keys, ws, ag, bool_decide (is_Some sidx)) else None
          | None => Some (keys, repeat (FFin 1) (length keys), ag, bool_decide (is_Some sidx))
          end
      end
  end.

Definition is_modifier (s : string) : bool := str_in_list (lower s) ["weights"; "aggregate"; "withscores"].
Fixpoint first_modifier (l : list string) (i : nat) : option nat :=
  match l with [] => None | x :: r => if is_modifier x then Some i else first_modifier r (S i) end.

(** An optional write (key, new sorted set) and the reply. *)
Definition zmresult := (option (string * zmap) * reply)%type.

Record zmdecoded := ZMDecoded {
  zm_keys : list string;       (* the keys given to KeysExist *)
  zm_eager : bool;             (* GetValues on all of them (true) or only on those that exist (false) *)
  zm_body : option (list (option zval) -> zmresult);   (* None: an argument is refused *)
}.

(** Operands in argument order.  [inter]: the first missing key ends the scan with [Some None] (empty
    result); a key of another type met before that is an error ([None]).  Otherwise missing keys are
    skipped. *)
Fixpoint operands (inter : bool) (vals : list (option zval)) (ws : list fl)
  : option (option (list (zmap * fl))) :=
  match vals, ws with
  | v :: vr, w :: wr =>
      match v with
      | None => if inter then Some None else operands inter vr wr
      | Some ZOther => None
      | Some (ZSet z) =>
          match operands inter vr wr with
          | Some (Some l) => Some (Some ((z, w) :: l))
          | r => r
          end
      end
  | _, _ => Some (Some [])
  end.

(** The arity tests of [zinterKeyFunc] / [zunionKeyFunc] / [zinterstoreKeyFunc] / [zunionstoreKeyFunc]. *)
Definition algebra_arity_ok (store : bool) (argv : list string) : bool :=
  negb (length argv <? (if store then 3 else 2))%nat &&
  match first_modifier (skipn 1 argv) 0 with
  | Some i => negb (i <? (if store then 2 else 1))%nat
  | None => true
  end.

Definition decode_zinter (store : bool) (argv : list string) : option zmdecoded :=
  if negb (algebra_arity_ok store argv) then None else
  let dst := arg argv 1 in
  let cmd := if store then arg argv 0 :: skipn 2 argv else argv in
  Some (ZMDecoded (keys_before_modifiers cmd) true
    match extract_kwa cmd with
    | None => None
    | Some (_, ws, ag, withscores) =>
        Some (fun vals =>
          match operands true vals ws with
          | None => (None, RErr)
          | Some None => (None, if store then RInt 0 else RArr [])
          | Some (Some l) =>
              let z := zinter_all ag l in
              if store then (Some (dst, z), RInt (zcard z)) else (None, items_reply withscores (zsorted z))
          end)
    end).

(** ZUNIONSTORE drops every argument equal to the destination before parsing (pinned by the suite:
    known finding); the documented reading drops the destination argument only. *)
Definition decode_zunion (strict : bool) (store : bool) (argv : list string) : option zmdecoded :=
  if negb (algebra_arity_ok store argv) then None else
  let dst := arg argv 1 in
  let cmd := if store
             then (if strict then arg argv 0 :: skipn 2 argv
                   else filter (fun s => negb (String.eqb s dst)) argv)
             else argv in
  Some (ZMDecoded (keys_before_modifiers cmd) true
    match extract_kwa cmd with
    | None => None
    | Some (_, ws, ag, withscores) =>
        Some (fun vals =>
          match operands false vals ws with
          | Some (Some l) =>
              let z := zunion_all ag l in
              if store then (Some (dst, z), RInt (zcard z)) else (None, items_reply withscores (zsorted z))
          | _ => (None, RErr)
          end)
    end).

Definition decode_zdiff (store : bool) (argv : list string) : option zmdecoded :=
  if (length argv <? (if store then 3 else 2))%nat then None else
  let sidx := if store then None else index_opt "withscores" argv 0 in
  let keys := if store then skipn 2 argv
              else match sidx with Some i => firstn (i - 1) (skipn 1 argv) | None => skipn 1 argv end in
  Some (ZMDecoded keys false
    match sidx with
    | Some 0%nat | Some 1%nat => None
    | _ =>
      Some (fun vals =>
        match vals with
        | [] => (None, RErr)
        | None :: _ => (None, if store then RInt 0 else RArr [])
        | Some ZOther :: _ => (None, RErr)
        | Some (ZSet z) :: others =>
            match operands false others (repeat (FFin 1) (length others)) with
            | Some (Some l) =>
                let r := fold_left (fun acc y => zdiff2 acc (fst y)) l z in
                if store then (Some (arg argv 1, r), RInt (zcard r))
                else (None, items_reply (bool_decide (is_Some sidx)) (zsorted r))
            | _ => (None, RErr)
            end
        end)
    end).

(** ZMPOP key [key ...] [MIN | MAX] [COUNT count]: pops from the first key that holds a non-empty sorted
    set.  A key of another type met on the way is an error in the documented reading; the code skips it
    (pinned by the suite: known finding). *)
Fixpoint first_zmpop_modifier (l : list string) (i : nat) : option nat :=
  match l with
  | [] => None
  | x :: r => if str_in_list (upper x) ["MIN"; "MAX"; "COUNT"] then Some i else first_zmpop_modifier r (S i)
  end.
Fixpoint first_policy (l : list string) : bool :=
  match l with
  | [] => false
  | x :: r => if String.eqb (lower x) "min" then false else if String.eqb (lower x) "max" then true else first_policy r
  end.
Fixpoint zmpop_scan (strict maxp : bool) (n : Z) (kvs : list (string * option zval)) : zmresult :=
  match kvs with
  | [] => (None, RArr [])
  | (k, v) :: r =>
      match v with
      | Some (ZSet z) =>
          if 0 <? zcard z
          then let '(popped, z') := zpop maxp n z in (Some (k, z'), items_reply true popped)
          else zmpop_scan strict maxp n r
      | Some ZOther => if strict then (None, RErr) else zmpop_scan strict maxp n r
      | None => zmpop_scan strict maxp n r
      end
  end.
Definition decode_zmpop (strict : bool) (argv : list string) : option zmdecoded :=
  if (length argv <? 2)%nat then None else
  match (match first_zmpop_modifier argv 0 with
         | Some i => if (i <? 2)%nat then None else Some (firstn (i - 1) (skipn 1 argv))
         | None => Some (skipn 1 argv)
         end) with
  | None => None
  | Some keys =>
      let count :=
        match index_opt "count" argv 0 with
        | None => Some 1
        | Some i => if (length argv <=? S i)%nat then None
                    else match parse_int (nth (S i) argv "") with
                         | Some c => if c <=? 0 then None else Some c
                         | None => None
                         end
        end in
      Some (ZMDecoded keys false
        match count with
        | None => None
        | Some n => Some (fun vals => zmpop_scan strict (first_policy argv) n (combine keys vals))
        end)
  end.

Definition decode_multi (strict : bool) (argv : list string) : option zmdecoded :=
  let name := lower (arg argv 0) in
  if String.eqb name "zinter" then decode_zinter false argv
  else if String.eqb name "zinterstore" then decode_zinter true argv
  else if String.eqb name "zunion" then decode_zunion strict false argv
  else if String.eqb name "zunionstore" then decode_zunion strict true argv
  else if String.eqb name "zdiff" then decode_zdiff false argv
  else if String.eqb name "zdiffstore" then decode_zdiff true argv
  else if String.eqb name "zmpop" then decode_zmpop strict argv
  else None.

Definition act_of (res : zmresult) : string * zact :=
  match res with
  | (None, r) => (""%string, ZRet r)
  | (Some (k, z), r) => (k, ZPut z r)
  end.

(** * All the modelled sorted-set commands *)
Inductive zdec := DSingle (d : zdecoded) | DMulti (d : zmdecoded).

Definition decode_any (strict : bool) (argv : list string) : option zdec :=
  let name := lower (arg argv 0) in
  if String.eqb name "zadd" then DSingle <$> decode_zadd strict argv
  else if String.eqb name "zcard" then DSingle <$> decode_zcard argv
  else if String.eqb name "zscore" then DSingle <$> decode_zscore argv
  else if String.eqb name "zmscore" then DSingle <$> decode_zmscore argv
  else if String.eqb name "zrem" then DSingle <$> decode_zrem argv
  else if String.eqb name "zincrby" then DSingle <$> decode_zincrby argv
  else if String.eqb name "zcount" then DSingle <$> decode_zcount argv
  else if String.eqb name "zrank" || String.eqb name "zrevrank" then DSingle <$> decode_zrank argv
  else if String.eqb name "zpopmin" || String.eqb name "zpopmax" then DSingle <$> decode_zpop argv
  else if String.eqb name "zrange" then DSingle <$> decode_zrange strict argv
  else if String.eqb name "zrangestore" then DSingle <$> decode_zrangestore strict argv
  else if String.eqb name "zlexcount" then DSingle <$> decode_zlexcount argv
  else if String.eqb name "zremrangebyscore" then DSingle <$> decode_zremrangebyscore argv
  else if String.eqb name "zremrangebylex" then DSingle <$> decode_zremrangebylex argv
  else if String.eqb name "zremrangebyrank" then DSingle <$> decode_zremrangebyrank argv
  else if String.eqb name "zinter" then DMulti <$> decode_zinter false argv
  else if String.eqb name "zinterstore" then DMulti <$> decode_zinter true argv
  else if String.eqb name "zunion" then DMulti <$> decode_zunion strict false argv
  else if String.eqb name "zunionstore" then DMulti <$> decode_zunion strict true argv
  else if String.eqb name "zdiff" then DMulti <$> decode_zdiff false argv
  else if String.eqb name "zdiffstore" then DMulti <$> decode_zdiff true argv
  else if String.eqb name "zmpop" then DMulti <$> decode_zmpop strict argv
  else None.
