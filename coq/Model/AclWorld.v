(** [handleCommand] for a TCP connection with the authorization gate in place
    ([sugardb/modules.go:106-189]: decode, look the command and sub-command up, gate
    [conn != nil && acl != nil && !embedded], handler), the ACL / AUTH / HELLO / PING / ECHO / SELECT
    handlers, and the script runner of the "acl" mode (same line protocol as the Go worker). *)
From stdpp Require Import gmap strings.
From RecordUpdate Require Import RecordSet.
Import RecordSetNotations.
From EV Require Import Base.Str Model.Value Model.Keyspace Model.Reply Model.Prog Model.Dispatch Model.Script.
From EV Require Import Model.TableTypes Model.KeyFuncs Model.Acl Gen.CmdTable.
Local Open Scope string_scope.
Local Open Scope list_scope.

Record conn_info := ConnInfo { ci_proto : Z; ci_name : string }.

Record aworld := AWorld {
  aw_w : world;                        (* dataset + selected database per connection *)
  aw_acl : acl;
  aw_info : gmap Z conn_info;          (* protocol and name per connection *)
  aw_path : bool;                      (* an ACL config file path is configured *)
}.
Global Instance eta_aworld : Settable _ := settable! AWorld <aw_w; aw_acl; aw_info; aw_path>.

(** [getCommand]: first row whose name equals the word case-insensitively *)
Definition find_cmd (word : string) : option cmd_row :=
  List.find (fun r => String.eqb (cr_sub r) "" && eq_fold (cr_name r) word) cmd_table.
(** [GetSubCommand] *)
Definition find_sub (parent : cmd_row) (word : string) : option cmd_row :=
  List.find (fun r => String.eqb (cr_name r) (cr_name parent) && negb (String.eqb (cr_sub r) "") && eq_fold (cr_sub r) word) cmd_table.

Inductive lookup_res :=
| LNone                                   (* rejected before the gate *)
| LCmd (parent : cmd_row) (sub : option cmd_row).

Definition lookup_cmd (argv : list string) : lookup_res :=
  match argv with
  | [] => LNone
  | w :: rest =>
      match find_cmd w with
      | None => LNone
      | Some p =>
          if cr_has_sub p then
            match rest with
            | [] => LCmd p None
            | sw :: _ => match find_sub p sw with Some s => LCmd p (Some s) | None => LNone end
            end
          else LCmd p None
      end
  end.

Section Ext.
  Variable glob_match : string -> string -> bool.
  Variable sha256 : string -> string.
  (** the decision procedure of the gate: [authorize glob_match] for the model of the code,
      [allowed_b glob_match] ([Spec/SpecAcl.v]) for the reference *)
  Variable authz : acl -> Z -> cmd_row -> option cmd_row -> list string -> bool.

  Inductive decision := DAllow | DDeny | DNoCmd.

  (** the decision of the gate for [argv] on TCP connection [c] *)
  Definition gate (aw : aworld) (c : Z) (argv : list string) : decision :=
    match lookup_cmd argv with
    | LNone => DNoCmd
    | LCmd p s => if authz (aw_acl aw) c p s argv then DAllow else DDeny
    end.

  Definition with_acl (aw : aworld) (a : acl) : aworld := aw <| aw_acl := a |>.

  (** [getHelloOptions] *)
  Fixpoint hello_opts (fuel : nat) (l : list string) (name : string) (au : option (string * string))
    : option (string * option (string * string)) :=
    match fuel with
    | O => None
    | S f =>
        match l with
        | [] => Some (name, au)
        | w :: r =>
            if String.eqb (lower w) "auth" then
              match r with
              | u :: p :: r' => hello_opts f r' name (Some (u, p))
              | _ => None
              end
            else if String.eqb (lower w) "setname" then
              match r with
              | n :: r' => hello_opts f r' n au
              | _ => None
              end
            else None
        end
    end.

  Definition info_of (aw : aworld) (c : Z) : conn_info := default (ConnInfo 2 "") (aw_info aw !! c).

  (** the handlers this file models; [None]: the command is left to [exec_cmd] *)
  Definition conn_acl_handler (aw : aworld) (c : Z) (p : cmd_row) (s : option cmd_row) (argv : list string)
    : option (aworld * reply) :=
    let n := length argv in
    match cr_name p, s with
    | "auth", _ =>
        Some (if (n <? 2)%nat || (3 <? n)%nat then (aw, RErr) else
              match authenticate sha256 (aw_acl aw) c argv with
              | Some a => (with_acl aw a, ROk)
              | None => (aw, RErr)
              end)
    | "ping", _ =>
        Some (match argv with [_] => (aw, RSimple "PONG") | [_; m] => (aw, RBulk m) | _ => (aw, RErr) end)
    | "echo", _ => Some (match argv with [_; m] => (aw, RBulk m) | _ => (aw, RErr) end)
    | "hello", _ =>
        Some (if negb (existsb (Nat.eqb n) [1; 2; 4; 5; 7])%nat then (aw, RErr) else
              match argv with
              | [_] => (aw, RSimple "HELLO")
              | _ :: pv :: opts =>
                  match hello_opts (S (length opts)) opts "" None with
                  | None => (aw, RErr)
                  | Some (name, au) =>
                      match parse_int pv with
                      | Some proto =>
                          if negb ((proto =? 2)%Z || (proto =? 3)%Z) then (aw, RErr) else
                          let finish (aw' : aworld) :=
                            let old := info_of aw' c in
                            (aw' <| aw_info := <[c := ConnInfo proto (if String.eqb name "" then ci_name old else name)]> (aw_info aw') |>,
                             RSimple "HELLO") in
                          match au with
                          | None => finish aw
                          | Some (u, pw) =>
                              match authenticate sha256 (aw_acl aw) c ["AUTH"; u; pw] with
                              | Some a => finish (with_acl aw a)
                              | None => (aw, RErr)
                              end
                          end
                      | None => (aw, RErr)
                      end
                  end
              | [] => (aw, RErr)
              end)
    | "select", _ =>
        Some (match argv with
              | [_; d] => match parse_int d with
                          | Some z => if (z <? 0)%Z then (aw, RErr)
                                      else (aw <| aw_w := (aw_w aw) <| w_conns := <[c := z]> (w_conns (aw_w aw)) |> |>, ROk)
                          | None => (aw, RErr)
                          end
              | _ => (aw, RErr)
              end)
    | "acl", Some sr =>
        match cr_sub sr with
        | "setuser" => Some (if (n <? 3)%nat then (aw, RErr) else (with_acl aw (set_user (aw_acl aw) (skipn 2 argv)), ROk))
        | "deluser" => Some (if (n <? 3)%nat then (aw, RErr) else (with_acl aw (delete_users (aw_acl aw) (skipn 2 argv)), ROk))
        | "users" => Some (aw, RArr (map (fun u => RBulk (u_name u)) (table (aw_acl aw))))
        | "whoami" => Some (match a_conns (aw_acl aw) !! c with
                            | Some r => (aw, RBulk (u_name (deref (aw_acl aw) (c_user r))))
                            | None => (aw, RPanic)
                            end)
        | "load" => Some (match argv with
                          | [_; _; mode] => match acl_load (aw_acl aw) mode with
                                            | Some a => (with_acl aw a, ROk)
                                            | None => (aw, RErr)
                                            end
                          | _ => (aw, RErr)
                          end)
        | "save" => Some (if (2 <? n)%nat then (aw, RErr)
                          else if aw_path aw then (with_acl aw (acl_save (aw_acl aw)), ROk) else (aw, RErr))
        | _ => None
        end
    | _, _ => None
    end.

  (** [handleCommand] on TCP connection [c] *)
  Definition acl_handle (aw : aworld) (c : Z) (argv : list string) : aworld * reply :=
    match lookup_cmd argv with
    | LNone => (aw, RErr)
    | LCmd p s =>
        if negb (authz (aw_acl aw) c p s argv) then (aw, RErr)
        else match conn_acl_handler aw c p s argv with
             | Some res => res
             | None => let '(w', r) := exec_cmd (aw_w aw) c argv in (aw <| aw_w := w' |>, r)
             end
    end.

  (** * Digest of the ACL and connection state (same text as [VerifAclDigest]) *)
  Definition show_b (b : bool) : string := if b then "1" else "0".
  Definition show_set (l : list string) : string := join "," (sort_strings (map hexs l)).
  Definition show_user (u : user) : string :=
    hexs (u_name u) +:+ "{on=" +:+ show_b (u_enabled u) +:+ " nopass=" +:+ show_b (u_nopass u) +:+ " nokeys=" +:+ show_b (u_nokeys u)
    +:+ " pw=[" +:+ join "," (sort_strings (map (fun p => pw_type p +:+ ":" +:+ hexs (pw_value p)) (u_pws u)))
    +:+ "] ic=[" +:+ show_set (u_icat u) +:+ "] xc=[" +:+ show_set (u_xcat u)
    +:+ "] im=[" +:+ show_set (u_icmd u) +:+ "] xm=[" +:+ show_set (u_xcmd u)
    +:+ "] rk=[" +:+ show_set (u_rkeys u) +:+ "] wk=[" +:+ show_set (u_wkeys u)
    +:+ "] ip=[" +:+ show_set (u_ichan u) +:+ "] xp=[" +:+ show_set (u_xchan u) +:+ "]}".

  Definition show_conn (aw : aworld) (c : Z) : string :=
    match a_conns (aw_acl aw) !! c with
    | None => "?"
    | Some r =>
        let a := aw_acl aw in
        let live := existsb (Nat.eqb (c_user r)) (a_users a) in
        let i := info_of aw c in
        show_b (c_auth r) +:+ ":" +:+ hexs (u_name (deref a (c_user r))) +:+ ":" +:+ (if live then "L" else "O")
        +:+ ":db" +:+ show_Z (conn_db (aw_w aw) c) +:+ ":p" +:+ show_Z (ci_proto i) +:+ ":" +:+ hexs (ci_name i)
        +:+ (if live then "" else ":" +:+ show_user (deref a (c_user r)))
    end.

  Definition show_acl (aw : aworld) (conns : list Z) : string :=
    "users[" +:+ join " " (map show_user (table (aw_acl aw))) +:+ "] conns[" +:+ join " " (map (show_conn aw) conns) +:+ "]".

  (** * Events *)
  Definition show_decision (d : decision) : string :=
    match d with DAllow => "allow" | DDeny => "deny" | DNoCmd => "nocmd" end.

  Definition conn_args (line : string) : option (Z * list string) :=
    match split_words line with
    | _ :: c :: args => match parse_int c, unhex_all args with
                        | Some c', Some argv => Some (c', argv)
                        | _, _ => None
                        end
    | _ => None
    end.

  (** [conns]: the registered connections in increasing order (the harness lists them so) *)
  Definition step_line (st : aworld * list Z) (line : string) : (aworld * list Z) * list string :=
    let '(aw, conns) := st in
    match split_words line with
    | ["N"; c] =>
        match parse_int c with
        | Some c' => ((aw <| aw_acl := register_conn (aw_acl aw) c' |>
                          <| aw_info := <[c' := ConnInfo 2 ""]> (aw_info aw) |>,
                       sort_by Z.leb (c' :: filter (fun x => negb (x =? c')%Z) conns)), [])
        | None => (st, ["BAD " +:+ line])
        end
    | "C" :: _ => match conn_args line with
                  | Some (c, argv) => let '(aw', r) := acl_handle aw c argv in ((aw', conns), ["R " +:+ show_reply r])
                  | None => (st, ["BAD " +:+ line])
                  end
    | "AQ" :: _ => match conn_args line with
                  | Some (c, argv) => (st, ["Z " +:+ show_decision (gate aw c argv)])
                  | None => (st, ["BAD " +:+ line])
                  end
    | "AD" :: _ => match conn_args line with
                  | Some (c, argv) =>
                      match gate aw c argv with
                      | DDeny => let '(aw', r) := acl_handle aw c argv in
                                 ((aw', conns), ["Z deny"; "R " +:+ show_reply r])
                      | d => (st, ["Z " +:+ show_decision d])
                      end
                  | None => (st, ["BAD " +:+ line])
                  end
    | ["AU"] => (st, ["U " +:+ show_acl aw conns])
    | ["AB"] => (st, ["B"])
    | _ =>
        (* presets, clock, data digest: as in the plain script runner *)
        match parse_event line with
        | None => (st, [])
        | Some (ECmd _ _) => (st, ["BAD " +:+ line])
        | Some e => let '(w', out) := step_event (aw_w aw) e in ((aw <| aw_w := w' |>, conns), out)
        end
    end.

  Fixpoint run_lines (st : aworld * list Z) (lines : list string) : list string :=
    match lines with
    | [] => []
    | l :: r => let '(st', out) := step_line st l in out ++ run_lines st' r
    end.
End Ext.

(** * The header: configuration, the initial ACL file, the digest table *)
Definition unhex_list (s : string) : option (list string) :=
  if String.eqb s "" then Some [] else unhex_all (split_on ","%char "" s).

Definition parse_pw (s : string) : option password :=
  match s with
  | String "p"%char r => Pw pw_plain <$> unhex_arg r
  | String "s"%char r => Pw pw_sha <$> unhex_arg r
  | _ => None
  end.

Definition flag (n : nat) (s : string) : bool := char_is n s "1".

(** name:flags:pws:ic:xc:im:xm:rk:wk:ip:xp *)
Definition parse_user (s : string) : option user :=
  match split_on ":"%char "" s with
  | [nm; fl; pws; ic; xc; im; xm; rk; wk; ip; xp] =>
      match unhex_arg nm, sequence_opt (map parse_pw (if String.eqb pws "" then [] else split_on ","%char "" pws)),
            unhex_list ic, unhex_list xc, unhex_list im, unhex_list xm with
      | Some nm', Some pws', Some ic', Some xc', Some im', Some xm' =>
          match unhex_list rk, unhex_list wk, unhex_list ip, unhex_list xp with
          | Some rk', Some wk', Some ip', Some xp' =>
              Some (User nm' (flag 0 fl) (flag 1 fl) (flag 2 fl) pws' ic' xc' im' xm' rk' wk' ip' xp')
          | _, _, _, _ => None
          end
      | _, _, _, _, _, _ => None
      end
  | _ => None
  end.

Record acl_cfg := AclCfg {
  cf_require : bool; cf_password : string; cf_path : bool; cf_users : option (list user);
  cf_sha : list (string * string);
}.
Global Instance eta_acl_cfg : Settable _ := settable! AclCfg <cf_require; cf_password; cf_path; cf_users; cf_sha>.

Definition parse_sha (s : string) : list (string * string) :=
  omap (fun kv => match split_on ":"%char "" kv with
                  | [k; v] => match unhex_arg k with Some k' => Some (k', v) | None => None end
                  | _ => None
                  end) (if String.eqb s "" then [] else split_on ","%char "" s).

Definition acl_cfg_step (cf : acl_cfg) (kv : string) : acl_cfg :=
  match cfg_value kv with
  | Some ("requirepass", v) => cf <| cf_require := String.eqb v "1" |>
  | Some ("password", v) => cf <| cf_password := default "" (unhex_arg v) |>
  | Some ("aclconfig", _) => cf <| cf_path := true |>
  | Some ("aclusers", v) =>
      cf <| cf_users := sequence_opt (map parse_user (if String.eqb v "-" then [] else split_on ";"%char "" v)) |>
  | Some ("sha", v) => cf <| cf_sha := parse_sha v |>
  | _ => cf
  end.

Definition sha_of (tbl : list (string * string)) (pw : string) : string :=
  match List.find (fun kv => String.eqb (fst kv) pw) tbl with Some kv => snd kv | None => "" end.

Definition run_acl_with (authz : acl -> Z -> cmd_row -> option cmd_row -> list string -> bool) (lines : list string) : list string :=
  match lines with
  | [] => []
  | hdr :: body =>
      match split_words hdr with
      | "S" :: id :: cfg =>
          let w := fold_left apply_cfg cfg (init_world default_now) in
          let cf := fold_left acl_cfg_step cfg (AclCfg false "" false None []) in
          let aw := AWorld w (new_acl (cf_require cf) (cf_password cf) (cf_users cf)) ∅ (cf_path cf) in
          ("S " +:+ id) :: run_lines (sha_of (cf_sha cf)) authz (aw, [])
                             (filter (fun l => negb (String.eqb l "E")) body) ++ ["E"]
      | _ => ["BAD " +:+ hdr]
      end
  end.

Definition run_acl_script := run_acl_with (authorize glob_simple).
