(** The ACL module ([internal/modules/acl/{acl,user,commands}.go]) as it is in the repository now:
    users, the SETUSER rule parser ([UpdateUser]), [Normalise], [Merge]/[Replace], [SetUser],
    [DeleteUser], [RegisterConnection], [AuthenticateConnection], [AuthorizeConnection].

    Sharing.  In Go a connection record holds a *pointer* to a [User]; the table [acl.Users] holds
    pointers too.  The model keeps a heap of user records ([a_heap], address -> record); the table
    is a list of addresses and a connection holds an address.  SETUSER / LOAD edit the record in
    place (seen by every connection that holds the address), DELUSER removes the address from the
    table only (connections of the deleted user keep the orphaned record).

    Unordered lists.  [RemoveDuplicateEntries] builds its result by ranging over a Go map; only
    membership in the rule lists is ever consulted, so the model keeps them sorted and the harness
    compares them as sets.

    External functions are Section variables: [glob_match] (gobwas/glob) and [sha256] (hex digest). *)
From stdpp Require Import gmap strings.
From RecordUpdate Require Import RecordSet.
Import RecordSetNotations.
From EV Require Import Base.Str Model.TableTypes Model.KeyFuncs.
Local Open Scope string_scope.
Local Open Scope list_scope.

Definition pw_plain : string := "plaintext".
Definition pw_sha : string := "SHA256".

Record password := Pw { pw_type : string; pw_value : string }.
Global Instance password_eq_dec : EqDecision password.
Proof. solve_decision. Defined.

Record user := User {
  u_name : string;
  u_enabled : bool;
  u_nopass : bool;
  u_nokeys : bool;
  u_pws : list password;
  u_icat : list string;     (* IncludedCategories *)
  u_xcat : list string;     (* ExcludedCategories *)
  u_icmd : list string;     (* IncludedCommands *)
  u_xcmd : list string;     (* ExcludedCommands *)
  u_rkeys : list string;    (* IncludedReadKeys *)
  u_wkeys : list string;    (* IncludedWriteKeys *)
  u_ichan : list string;    (* IncludedPubSubChannels *)
  u_xchan : list string;    (* ExcludedPubSubChannels *)
}.
Global Instance eta_user : Settable _ :=
  settable! User <u_name; u_enabled; u_nopass; u_nokeys; u_pws; u_icat; u_xcat; u_icmd; u_xcmd; u_rkeys; u_wkeys; u_ichan; u_xchan>.
Global Instance user_eq_dec : EqDecision user.
Proof. solve_decision. Defined.

Definition mem (s : string) (l : list string) : bool := existsb (String.eqb s) l.

(** * [CreateUser], [RemoveDuplicateEntries], [Normalise] *)
Definition create_user (name : string) : user :=
  {| u_name := name; u_enabled := true; u_nopass := false; u_nokeys := false; u_pws := [];
     u_icat := []; u_xcat := []; u_icmd := []; u_xcmd := []; u_rkeys := []; u_wkeys := [];
     u_ichan := []; u_xchan := [] |}.

Fixpoint dedup_sorted (l : list string) : list string :=
  match l with
  | a :: (b :: _) as r => if String.eqb a b then dedup_sorted r else a :: dedup_sorted r
  | _ => l
  end.

Definition remove_dups (entries : list string) (alias : string) : list string :=
  let keys := dedup_sorted (sort_strings (map (fun e => if String.eqb e alias then "*" else e) entries)) in
  match keys with
  | ["*"] => ["*"]
  | _ => filter (fun k => negb (String.eqb k "*")) keys
  end.

(** stable sort of the passwords by type: everything that is not SHA256 first *)
Definition sort_pws (l : list password) : list password :=
  filter (fun p => negb (String.eqb (pw_type p) pw_sha)) l ++ filter (fun p => String.eqb (pw_type p) pw_sha) l.

Definition normalise (u : user) : user :=
  let icat := remove_dups (u_icat u) "allCategories" in
  let icat := match icat with [] => ["*"] | _ => icat end in
  let xcat := remove_dups (u_xcat u) "allCategories" in
  let icat := if mem "*" xcat then [] else icat in
  let icmd := remove_dups (u_icmd u) "allCommands" in
  let icmd := match icmd with [] => ["*"] | _ => icmd end in
  let xcmd := remove_dups (u_xcmd u) "allCommands" in
  let icmd := if mem "*" xcmd then [] else icmd in
  let rk := remove_dups (u_rkeys u) "allKeys" in
  let rk := match rk with [] => if u_nokeys u then [] else ["*"] | _ => rk end in
  let wk := remove_dups (u_wkeys u) "allKeys" in
  let wk := match wk with [] => if u_nokeys u then [] else ["*"] | _ => wk end in
  let ich := remove_dups (u_ichan u) "allChannels" in
  let ich := match ich with [] => ["*"] | _ => ich end in
  let xch := remove_dups (u_xchan u) "allChannels" in
  let ich := if mem "*" xch then [] else ich in
  u <| u_icat := icat |> <| u_xcat := xcat |> <| u_icmd := icmd |> <| u_xcmd := xcmd |>
    <| u_rkeys := rk |> <| u_wkeys := wk |> <| u_ichan := ich |> <| u_xchan := xch |>
    <| u_pws := sort_pws (u_pws u) |>.

(** * [UpdateUser] *)
Definition str_drop (n : nat) (s : string) : string := of_chars (skipn n (chars s)).
Definition str_take (n : nat) (s : string) : string := of_chars (firstn n (chars s)).
Definition char_at (n : nat) (s : string) : option ascii := nth_error (chars s) n.
Definition char_is (n : nat) (s : string) (c : ascii) : bool :=
  match char_at n s with Some c' => Ascii.eqb c c' | None => false end.
Definition all_word (s : string) : string := if eq_fold s "all" then "*" else s.

Definition index_tilde (s : string) : nat :=
  (fix go (l : list ascii) (i : nat) := match l with
                                        | [] => 0
                                        | c :: r => if Ascii.eqb c "~"%char then i else go r (S i)
                                        end) (chars s) 0%nat.

(** one token of the first loop of [UpdateUser] *)
Definition update_token (u : user) (str : string) : user :=
  if String.eqb str "" then u else
  let n := String.length str in
  let u := if eq_fold str "on" then u <| u_enabled := true |> else u in
  let u := if eq_fold str "off" then u <| u_enabled := false |> else u in
  if char_is 0 str ">" || char_is 0 str "#" then
    u <| u_pws := u_pws u ++ [Pw (if char_is 0 str "#" then pw_sha else pw_plain) (str_drop 1 str)] |>
      <| u_nopass := false |>
  else if char_is 0 str "<" then
    u <| u_pws := filter (fun p => negb (eq_fold (pw_type p) pw_plain && String.eqb (pw_value p) (str_drop 1 str))) (u_pws u) |>
  else if char_is 0 str "!" then
    u <| u_pws := filter (fun p => negb (eq_fold (pw_type p) pw_sha && String.eqb (pw_value p) (str_drop 1 str))) (u_pws u) |>
  else if eq_fold str "nocommands" then u <| u_xcat := ["*"] |> <| u_xcmd := ["*"] |>
  else if eq_fold str "allCategories" then u <| u_icat := ["*"] |>
  else if (2 <? n)%nat && char_is 1 str "@" && char_is 0 str "+" then
    u <| u_icat := u_icat u ++ [all_word (str_drop 2 str)] |>
  else if (2 <? n)%nat && char_is 1 str "@" && char_is 0 str "-" then
    u <| u_xcat := u_xcat u ++ [all_word (str_drop 2 str)] |>
  else if eq_fold str "allKeys" then u <| u_rkeys := ["*"] |> <| u_wkeys := ["*"] |> <| u_nokeys := false |>
  else if ((1 <? n)%nat && char_is 0 str "~") || ((4 <? n)%nat && eq_fold (str_take 4 str) "%RW~") then
    let k := str_drop (S (index_tilde str)) str in
    u <| u_rkeys := u_rkeys u ++ [k] |> <| u_wkeys := u_wkeys u ++ [k] |> <| u_nokeys := false |>
  else if (3 <? n)%nat && eq_fold (str_take 3 str) "%R~" then
    u <| u_rkeys := u_rkeys u ++ [str_drop 3 str] |> <| u_nokeys := false |>
  else if (3 <? n)%nat && eq_fold (str_take 3 str) "%W~" then
    u <| u_wkeys := u_wkeys u ++ [str_drop 3 str] |> <| u_nokeys := false |>
  else if eq_fold str "allChannels" then u <| u_ichan := ["*"] |>
  else if (2 <? n)%nat && char_is 1 str "&" && char_is 0 str "+" then u <| u_ichan := u_ichan u ++ [str_drop 2 str] |>
  else if (2 <? n)%nat && char_is 1 str "&" && char_is 0 str "-" then u <| u_xchan := u_xchan u ++ [str_drop 2 str] |>
  else if eq_fold str "allCommands" then u <| u_icmd := ["*"] |> <| u_xcmd := [] |>
  else if (2 <? n)%nat && negb (char_is 1 str "&") && negb (char_is 1 str "@") && char_is 0 str "+" then
    u <| u_icmd := u_icmd u ++ [all_word (str_drop 1 str)] |>
  else if (2 <? n)%nat && negb (char_is 1 str "&") && negb (char_is 1 str "@") && char_is 0 str "-" then
    u <| u_xcmd := u_xcmd u ++ [all_word (str_drop 1 str)] |>
  else u.

Definition update_nopass (u : user) (str : string) : user :=
  if eq_fold str "nopass" then u <| u_pws := [] |> <| u_nopass := true |> else u.

Definition update_reset (u : user) (str : string) : user :=
  let u := if eq_fold str "resetpass" then u <| u_pws := [] |> <| u_nopass := false |> else u in
  let u := if eq_fold str "nocommands"
           then u <| u_icmd := [] |> <| u_xcmd := ["*"] |> <| u_icat := [] |> <| u_xcat := ["*"] |> else u in
  let u := if mem str ["resetkeys"; "nokeys"] then u <| u_rkeys := [] |> <| u_wkeys := [] |> <| u_nokeys := true |> else u in
  if eq_fold str "resetchannels" then u <| u_ichan := [] |> <| u_xchan := ["*"] |> else u.

Definition update_user (u : user) (cmd : list string) : user :=
  fold_left update_reset cmd (fold_left update_nopass cmd (fold_left update_token cmd u)).

(** * [Merge], [Replace] *)
Definition merge_user (u new : user) : user :=
  normalise
    (u <| u_enabled := u_enabled new |> <| u_nokeys := u_nokeys new |> <| u_nopass := u_nopass new |>
       <| u_icat := u_icat u ++ u_icat new |> <| u_xcat := u_xcat u ++ u_xcat new |>
       <| u_icmd := u_icmd u ++ u_icmd new |> <| u_xcmd := u_xcmd u ++ u_xcmd new |>
       <| u_rkeys := u_rkeys u ++ u_rkeys new |> <| u_wkeys := u_wkeys u ++ u_wkeys new |>
       <| u_ichan := u_ichan u ++ u_ichan new |> <| u_xchan := u_xchan u ++ u_xchan new |>
       <| u_pws := fold_left (fun acc p => if bool_decide (p ∈ acc) then acc else acc ++ [p]) (u_pws new) (u_pws u) |>).

Definition replace_user (u new : user) : user := new <| u_name := u_name u |>.

(** * The ACL state *)
Record conn_rec := ConnRec { c_auth : bool; c_user : nat }.

Record acl := Acl {
  a_heap : gmap nat user;          (* the [User] records, by address *)
  a_users : list nat;              (* [acl.Users] *)
  a_conns : gmap Z conn_rec;       (* [acl.Connections] *)
  a_next : nat;                    (* next fresh address *)
  a_require : bool;                (* [Config.RequirePass] *)
  a_file : option (list user);     (* content of the ACL config file, [None] when it does not exist *)
}.
Global Instance eta_acl : Settable _ := settable! Acl <a_heap; a_users; a_conns; a_next; a_require; a_file>.

Definition deref (a : acl) (p : nat) : user := default (create_user "") (a_heap a !! p).
Definition table (a : acl) : list user := map (deref a) (a_users a).

(** first address in the table whose user has the given name *)
Definition find_user (a : acl) (name : string) : option nat :=
  List.find (fun p => String.eqb (u_name (deref a p)) name) (a_users a).

(** [NewACL]: the default user (with the configured password when one is required), then the users
    of the config file, each normalised. *)
Definition first_char_hash (s : string) : bool := char_is 0 s "#".
Definition new_acl (require : bool) (password : string) (file : option (list user)) : acl :=
  let d := create_user "default" in
  let d := if require then d <| u_pws := [Pw (if first_char_hash password then pw_sha else pw_plain) password] |> else d in
  (* without RequirePass, CreateUser leaves NoPassword = false and no password *)
  let fu := default [] file in
  let us := if existsb (fun u => String.eqb (u_name u) "default") fu then fu else d :: fu in
  let us := map normalise us in
  {| a_heap := list_to_map (zip (seq 0 (length us)) us); a_users := seq 0 (length us); a_conns := ∅;
     a_next := length us; a_require := require; a_file := file |}.

(** [RegisterConnection] *)
Definition register_conn (a : acl) (c : Z) : acl :=
  match find_user a "default" with
  | Some p => a <| a_conns := <[c := ConnRec (u_nopass (deref a p)) p]> (a_conns a) |>
  | None => a      (* Go: index -1, panic; unreachable, see [default_in_table] *)
  end.

(** [SetUser cmd]: [cmd] is the argument vector after "ACL SETUSER" - the user name is its first
    element and is parsed as a rule token too, as in the code. *)
Definition set_user (a : acl) (cmd : list string) : acl :=
  match cmd with
  | [] => a
  | name :: _ =>
      match find_user a name with
      | Some p => a <| a_heap := <[p := normalise (update_user (deref a p) cmd)]> (a_heap a) |>
      | None =>
          let u := normalise (update_user (create_user name) cmd) in
          a <| a_heap := <[a_next a := u]> (a_heap a) |> <| a_users := a_users a ++ [a_next a] |>
            <| a_next := S (a_next a) |>
      end
  end.

(** [DeleteUser]: never the default user; the connections of a deleted user lose their
    authentication (and, over TCP, get their read deadline set in the past). *)
Definition delete_one (a : acl) (name : string) : acl :=
  if String.eqb name "default" then a else
  match find_user a name with
  | None => a
  | Some _ =>
      a <| a_conns := (fun r => if String.eqb (u_name (deref a (c_user r))) name then ConnRec false (c_user r) else r) <$> a_conns a |>
        <| a_users := filter (fun p => negb (String.eqb (u_name (deref a p)) name)) (a_users a) |>
  end.
Definition delete_users (a : acl) (names : list string) : acl := fold_left delete_one names a.

(** [handleLoad]: every user of the file is normalised, then merged into / replaces the user of
    the same name, or is appended. *)
Definition load_one (merge : bool) (a : acl) (fu : user) : acl :=
  let fu := normalise fu in
  match find_user a (u_name fu) with
  | Some p => a <| a_heap := <[p := (if merge then merge_user else replace_user) (deref a p) fu]> (a_heap a) |>
  | None => a <| a_heap := <[a_next a := fu]> (a_heap a) |> <| a_users := a_users a ++ [a_next a] |>
              <| a_next := S (a_next a) |>
  end.
Definition acl_load (a : acl) (mode : string) : option acl :=
  match a_file a with
  | None => None
  | Some fus => Some (fold_left (load_one (eq_fold mode "merge")) fus a)
  end.
Definition acl_save (a : acl) : acl := a <| a_file := Some (table a) |>.

Section External.
  Variable glob_match : string -> string -> bool.     (* pattern, subject *)
  Variable sha256 : string -> string.                 (* hex digest *)

  (** * [AuthenticateConnection] ([cmd] = AUTH [user] password); [None] = error *)
  Definition pw_ok (u : user) (pw : string) : bool :=
    existsb (fun p => (String.eqb (pw_type p) pw_plain && String.eqb (pw_value p) pw)
                      || (String.eqb (pw_type p) pw_sha && String.eqb (pw_value p) (sha256 pw))) (u_pws u).

  Definition authenticate (a : acl) (c : Z) (cmd : list string) : option acl :=
    let target := match cmd with
                  | [_; pw] => match find_user a "default" with Some p => Some (p, pw) | None => None end
                  | [_; name; pw] => match find_user a name with Some p => Some (p, pw) | None => None end
                  | _ => None
                  end in
    match target with
    | None => None
    | Some (p, pw) =>
        let u := deref a p in
        if negb (u_enabled u) then None
        else if u_nopass u then Some (a <| a_conns := <[c := ConnRec true p]> (a_conns a) |>)
        else if pw_ok u pw then Some (a <| a_conns := <[c := ConnRec true p]> (a_conns a) |>)
        else None
    end.

  (** * [AuthorizeConnection] *)
  Definition exempt_comm (comm : string) : bool :=
    eq_fold comm "ack" || mem (lower comm) ["ping"; "echo"; "hello"] || eq_fold comm "auth".

  Definition any_glob (pats : list string) (s : string) : bool := existsb (fun g => glob_match g s) pats.

  (** steps 1-9 for a user record, after the exemptions *)
  Definition user_allows (u : user) (comm : string) (cats channels rd wr : list string) : bool :=
    u_enabled u
    && (mem "*" (u_icat u) || forallb (fun c => mem c (u_icat u)) cats)                       (* 2 *)
    && negb (existsb (fun c => existsb (fun x => String.eqb x "*" || String.eqb x c) (u_xcat u)) cats)   (* 3 *)
    && existsb (fun i => String.eqb i "*" || String.eqb i comm) (u_icmd u)                     (* 4 *)
    && negb (existsb (fun x => String.eqb x "*" || String.eqb x comm) (u_xcmd u))              (* 5 *)
    && (if mem "pubsub" cats
        then forallb (fun ch => any_glob (u_ichan u) ch && negb (any_glob (u_xchan u) ch)) channels   (* 6 *)
        else match rd ++ wr with
             | [] => true
             | _ => negb (u_nokeys u)                                                          (* 7 *)
                    && forallb (any_glob (u_rkeys u)) rd                                       (* 8 *)
                    && forallb (any_glob (u_wkeys u)) wr                                       (* 9 *)
             end).

  (** [parent] is the command's row, [sub] the sub-command's row when the second word names one.
      [false] = the gate returns an error. *)
  Definition authorize (a : acl) (c : Z) (parent : cmd_row) (sub : option cmd_row) (argv : list string) : bool :=
    match key_extract (cr_name parent) "" argv with
    | KxOk ch rd wr =>
        let res := match sub with
                   | None => Some (cr_name parent, cr_cats parent, ch, rd, wr)
                   | Some s => match key_extract (cr_name s) (cr_sub s) argv with
                               | KxOk ch' rd' wr' => Some (comm_of s, cr_cats parent ++ cr_cats s, ch', rd', wr')
                               | _ => None
                               end
                   end in
        match res with
        | None => false
        | Some (comm, cats, ch, rd, wr) =>
            if exempt_comm comm then true
            else if negb (a_require a) then true
            else match a_conns a !! c with
                 | None => false                      (* zero Connection: not authenticated *)
                 | Some r => c_auth r && user_allows (deref a (c_user r)) comm cats ch rd wr
                 end
        end
    | _ => false
    end.
End External.

(** * An executable instance of [glob_match] for the fragment [*], [?], literal bytes *)
Fixpoint glob_chars (fuel : nat) (p s : list ascii) : bool :=
  match fuel with
  | O => false
  | S f =>
      match p with
      | [] => match s with [] => true | _ => false end
      | "*"%char :: p' =>
          glob_chars f p' s || match s with [] => false | _ :: s' => glob_chars f p s' end
      | "?"%char :: p' => match s with [] => false | _ :: s' => glob_chars f p' s' end
      | c :: p' => match s with [] => false | c' :: s' => Ascii.eqb c c' && glob_chars f p' s' end
      end
  end.
Definition glob_simple (p s : string) : bool :=
  glob_chars (S (String.length p + String.length s)) (chars p) (chars s).
