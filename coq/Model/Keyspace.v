(** The keyspace and its primitives, mirroring [sugardb/keyspace.go] function by function. *)
From stdpp Require Import gmap strings.
From RecordUpdate Require Import RecordSet.
Import RecordSetNotations.
From EV Require Import Base.Str Model.Value.
Local Open Scope Z_scope.

Record entry := Entry { e_val : value; e_dl : option Z (* deadline, unix ms *) }.
Notation dbmap := (gmap string entry).

Record state := State {
  st_dbs : gmap Z dbmap;            (* server.store *)
  st_vol : gmap Z (list string);    (* server.keysWithExpiry.keys *)
  st_mem : Z;                       (* server.memUsed *)
  st_now : Z;                       (* server.clock.Now(), unix ms *)
  st_maxmem : Z;                    (* config.MaxMemory, 0 = no limit *)
  st_noevict : bool;                (* config.EvictionPolicy == noeviction *)
  st_changes : Z;                   (* snapshot engine change counter *)
}.
Global Instance eta_state : Settable _ :=
  settable! State <st_dbs; st_vol; st_mem; st_now; st_maxmem; st_noevict; st_changes>.

Definition init_state (now : Z) : state :=
  {| st_dbs := ∅; st_vol := ∅; st_mem := 0; st_now := now; st_maxmem := 0; st_noevict := true;
     st_changes := 0 |}.

Definition get_db (s : state) (d : Z) : dbmap := default ∅ (st_dbs s !! d).
Definition get_vol (s : state) (d : Z) : list string := default [] (st_vol s !! d).

Definition expired (now : Z) (e : entry) : bool :=
  match e_dl e with Some t => t <? now | None => false end.

Definition key_overhead (k : string) : Z := sz_string + slen k.
Definition entry_mem (k : string) (e : entry) : Z := mem_value (e_val e) + key_overhead k.

Definition str_in (k : string) (ks : list string) : bool := bool_decide (k ∈ ks).

(** [keysExist]: a key whose deadline has passed is reported absent. *)
Definition keys_exist (s : state) (d : Z) (ks : list string) : string -> bool :=
  fun k => str_in k ks &&
    match get_db s d !! k with
    | Some e => negb (expired (st_now s) e)
    | None => false
    end.

(** [getExpiry]: an expired key has no deadline to report. *)
Definition get_expiry (s : state) (d : Z) (k : string) : option Z :=
  match get_db s d !! k with
  | Some e => if expired (st_now s) e then None else e_dl e
  | None => None
  end.

(** [deleteKey]: subtracts the size of the entry, removes it and its volatile-index record; nothing
    happens for a key that is not there. *)
Definition delete_key (s : state) (d : Z) (k : string) : state :=
  let db := get_db s d in
  match db !! k with
  | None => s
  | Some e =>
      s <| st_mem := st_mem s - entry_mem k e |>
        <| st_dbs := <[d := delete k db]> (st_dbs s) |>
        <| st_vol := <[d := filter (fun x => negb (String.eqb x k)) (get_vol s d)]> (st_vol s) |>
  end.

(** [getValues]: lazily deletes expired keys it meets; absent / expired keys read as [None]. *)
Fixpoint get_values_go (s : state) (d : Z) (ks : list string) (acc : list (string * option value))
  : state * list (string * option value) :=
  match ks with
  | [] => (s, acc)
  | k :: ks' =>
      match get_db s d !! k with
      | None => get_values_go s d ks' ((k, None) :: acc)
      | Some e =>
          if expired (st_now s) e
          then get_values_go (delete_key s d k) d ks' ((k, None) :: acc)
          else get_values_go s d ks' ((k, Some (e_val e)) :: acc)
      end
  end.

Fixpoint assoc {A} (k : string) (l : list (string * A)) : option A :=
  match l with
  | [] => None
  | (k', v) :: l' => if String.eqb k k' then Some v else assoc k l'
  end.

Definition get_values (s : state) (d : Z) (ks : list string) : state * (string -> option value) :=
  let '(s', acc) := get_values_go s d ks [] in
  (s', fun k => match assoc k acc with Some r => r | None => None end).

Definition max_memory_exceeded (s : state) : bool :=
  negb (st_maxmem s =? 0) && (st_maxmem s <=? st_mem s).

(** One iteration of the loop in [setValues]. *)
Definition set_value1 (s : state) (d : Z) (k : string) (v : value) : state :=
  let s1 := match get_db s d !! k with
            | Some e => if expired (st_now s) e then delete_key s d k else s
            | None => s
            end in
  let db := get_db s1 d in
  let dl := match db !! k with Some e => e_dl e | None => None end in
  let m_old := match db !! k with Some e => entry_mem k e | None => 0 end in
  let e' := Entry v dl in
  s1 <| st_mem := st_mem s1 - m_old + entry_mem k e' |>
     <| st_dbs := <[d := <[k := e']> db]> (st_dbs s1) |>
     <| st_changes := st_changes s1 + 1 |>.

(** The Go code ranges over a map: keys are unique, the last binding of a key wins. *)
Fixpoint dedupe_last {A} (kvs : list (string * A)) : list (string * A) :=
  match kvs with
  | [] => []
  | (k, v) :: r => if bool_decide (k ∈ map fst r) then dedupe_last r else (k, v) :: dedupe_last r
  end.

(** [setValues]: refused as a whole when over the limit under noeviction. *)
Definition set_values (s : state) (d : Z) (kvs : list (string * value)) : state * bool :=
  if max_memory_exceeded s && st_noevict s then (s, false)
  else (fold_left (fun s '(k, v) => set_value1 s d k v) (dedupe_last kvs) s, true).

(** [setExpiry]: only for a key that is there and has not expired; rewrites the entry with the given
    deadline; the volatile index gains the key when a deadline is set and loses it when removed. *)
Definition set_expiry (s : state) (d : Z) (k : string) (t : option Z) : state :=
  let db := get_db s d in
  match db !! k with
  | None => s
  | Some e =>
      if expired (st_now s) e then s else
      let vol := get_vol s d in
      s <| st_dbs := <[d := <[k := Entry (e_val e) t]> db]> (st_dbs s) |>
        <| st_vol := <[d := match t with
                            | None => filter (fun x => negb (String.eqb x k)) vol
                            | Some _ => if str_in k vol then vol else vol ++ [k]
                            end]> (st_vol s) |>
  end.

(** [Flush]: one database, or all of them for [-1]. *)
Definition flush_db (s : state) (d : Z) : state :=
  match st_dbs s !! d with
  | None => s
  | Some db =>
      let m := sum_Z (map (fun '(k, e) => entry_mem k e) (map_to_list db)) in
      s <| st_mem := st_mem s - m |>
        <| st_dbs := <[d := ∅]> (st_dbs s) |>
        <| st_vol := <[d := []]> (st_vol s) |>
  end.
Definition flush (s : state) (d : Z) : state :=
  if d =? -1 then fold_left flush_db (map fst (map_to_list (st_dbs s))) s else flush_db s d.

(** * Canonical digest (same text as the harness' [VerifDigest], empty databases dropped) *)
Definition show_dl (o : option Z) : string := match o with Some t => show_Z t | None => "0" end.
Definition show_db (s : state) (d : Z) : string :=
  let db := get_db s d in
  "db" +:+ show_Z d +:+ "{" +:+
  join " " (map (fun k => match db !! k with
                          | Some e => hexs k +:+ "=" +:+ show_value (e_val e) +:+ "@" +:+ show_dl (e_dl e)
                          | None => "" end) (sorted_keys db)) +:+
  "}v[" +:+ join "," (map hexs (get_vol s d)) +:+ "]".

Definition Z_leb_sort (l : list Z) : list Z := sort_by Z.leb l.
Definition live_dbs (s : state) : list Z :=
  Z_leb_sort (filter (fun d => negb (bool_decide (get_db s d = ∅)) || negb (bool_decide (get_vol s d = [])))
                     (remove_dups (map fst (map_to_list (st_dbs s)) ++ map fst (map_to_list (st_vol s)))%list)).
Definition show_state (s : state) : string :=
  join " " (("mem=" +:+ show_Z (st_mem s)) :: map (show_db s) (live_dbs s)).
