(** C12 — the wire protocol.

    * RESP values as [tidwall/resp v0.1.1] holds them ([Value]: typ, integer, str, array, null), [encode]
      ([Value.MarshalRESP]) and a total [decode] mirroring [Reader.ReadValue] (resp.go:242-452): markers
      [+ - : $ *], arbitrarily nested arrays, null bulk / null array for negative lengths, the limits
      512 MiB / 2^20, lines ended by the first LF that is preceded by CR, and the inline ("telnet") fallback
      when the first byte of a top-level value is not a marker — including the library's treatment of quotes.
      The result is three-way: [DIncomplete] (the reader would block / report an unexpected EOF: more bytes
      may still complete the value), [DMalformed] (protocol error), [DOk v rest].
    * [cmd_of]: [internal.Decode] (utils.go:76) — the elements of an array through [Value.String()], any
      other value is the empty command.
    * [serve]: the connection loop [handleConnection] (sugardb/sugardb.go) *as fixed* (fixes/01..05): one
      reader per connection which keeps the bytes that follow a complete value; one reply per decoded value,
      written in pieces of 1024 bytes; a malformed frame is answered with an error and closes the connection;
      QUIT is acknowledged and closes the connection; a handler panic is an error reply.
      [serve_old] is the loop as it was (one read = one message = one command, NUL-trimmed).
    * [parse_*]: the [Parse*Response] functions of internal/utils.go used by the embedded API.

    Not modelled (stated in MANIFEST/INTEGRATION): the int64 range check of [strconv.ParseInt] on [:n] values and
    lengths (lengths are classified by the explicit limits, as in the reader), error message texts (a class), the
    text of floats (a number), TLS, timeouts, short writes. *)
From stdpp Require Import gmap strings.
From RecordUpdate Require Import RecordSet.
Import RecordSetNotations.
From EV Require Import Base.Str Model.Value Model.Keyspace Model.Reply Model.Prog Model.Dispatch.
Local Open Scope Z_scope.

Definition CR : ascii := "013"%char.
Definition LF : ascii := "010"%char.
Definition CRLF : string := String CR (String LF EmptyString).

(** * Values *)
Inductive rv :=
| WSimple (s : string)        (* typ '+' *)
| WError (s : string)         (* typ '-' *)
| WInt (z : Z)                (* typ ':' *)
| WBulk (s : string)          (* typ '$' *)
| WNullBulk                   (* typ '$', null *)
| WArr (l : list rv)          (* typ '*' *)
| WNullArr                    (* typ '*', null *)
| WNone.                      (* typ 0, null: what readArrayValue returns for a length above 2^20 *)

(** [Value.MarshalRESP]. *)
Fixpoint encode (v : rv) : string :=
  match v with
  | WSimple s => String "+" (s +:+ CRLF)
  | WError s => String "-" (s +:+ CRLF)
  | WInt z => String ":" (show_Z z +:+ CRLF)
  | WBulk s => String "$" (show_Z (slen s) +:+ CRLF +:+ s +:+ CRLF)
  | WNullBulk => String "$" ("-1" +:+ CRLF)
  | WArr l => String "*" (show_Z (zlen l) +:+ CRLF +:+ fold_right (fun x acc => encode x +:+ acc) "" l)
  | WNullArr => String "*" ("-1" +:+ CRLF)
  | WNone => String "$" ("-1" +:+ CRLF)
  end.
Definition encode_all (l : list rv) : string := fold_right (fun x acc => encode x +:+ acc) "" l.

(** A client command: an array of bulk strings. *)
Definition encode_cmd (argv : list string) : string := encode (WArr (map WBulk argv)).

(** * The reader *)
Inductive dres :=
| DIncomplete
| DMalformed
| DOk (v : rv) (rest : string).

Inductive lres :=
| LIncomplete
| LMalformed
| LOk (l : list rv) (rest : string).

(** [readLine]: up to the first LF preceded by CR; the line is returned without the CR LF. *)
Fixpoint read_line (s : string) : option (string * string) :=
  match s with
  | EmptyString => None
  | String c s' =>
      if Ascii.eqb c CR then
        match s' with
        | String c' s'' =>
            if Ascii.eqb c' LF then Some (EmptyString, s'')
            else match read_line s' with Some (l, r) => Some (String c l, r) | None => None end
        | EmptyString => None
        end
      else match read_line s' with Some (l, r) => Some (String c l, r) | None => None end
  end.

(** [strconv.ParseInt(line, 10, 64)] without the range check (see the header). *)
Definition parse_dec (s : string) : option Z :=
  match s with
  | String "-"%char t => match parse_nat t with Some n => Some (- n) | None => None end
  | String "+"%char t => parse_nat t
  | _ => parse_nat s
  end.

(** The first [n] bytes and what follows them; [None] when fewer are there. *)
Fixpoint split_at (n : nat) (s : string) : option (string * string) :=
  match n with
  | O => Some (EmptyString, s)
  | S n' => match s with
            | EmptyString => None
            | String c s' => match split_at n' s' with Some (a, b) => Some (String c a, b) | None => None end
            end
  end.

Definition max_bulk : Z := 512 * 1024 * 1024.
Definition max_array : Z := 1024 * 1024.

(** [readBulkValue] after the marker. *)
Definition read_bulk (lim : bool) (t : string) : dres :=
  match read_line t with
  | None => DIncomplete
  | Some (ln, r) =>
      match parse_dec ln with
      | None => DMalformed
      | Some n =>
          if n <? 0 then DOk WNullBulk r
          else if lim && (max_bulk <? n) then DMalformed
          else match split_at (Z.to_nat n) r with
               | None => DIncomplete
               | Some (body, r') =>
                   match r' with
                   | String a (String b r'') =>
                       if Ascii.eqb a CR && Ascii.eqb b LF then DOk (WBulk body) r'' else DMalformed
                   | _ => DIncomplete
                   end
               end
      end
  end.

(** [readTelnetMultiBulk]: tokens separated by single spaces up to LF.  [vals] and [bline] are kept
    reversed.  As in the library, [quote] is never reset by the closing quote, so every line with a
    quote ends in "unbalanced quotes" unless ... it never does: mirrored as it is. *)
Definition rev_string (l : list ascii) : string := string_of_list_ascii (rev l).
Fixpoint telnet (vals : list string) (bline : list ascii) (quote mustspace : bool) (s : string) : dres :=
  match s with
  | EmptyString => DIncomplete
  | String c t =>
      if Ascii.eqb c LF then
        let bline' := match bline with x :: r => if Ascii.eqb x CR then r else bline | [] => bline end in
        if quote then DMalformed
        else
          let vals' := match bline' with [] => vals | _ => rev_string bline' :: vals end in
          DOk (WArr (map WBulk (rev vals'))) t
      else if mustspace && negb (Ascii.eqb c " ") then DMalformed
      else if Ascii.eqb c " " then
        if quote then telnet vals (c :: bline) quote mustspace t
        else telnet (rev_string bline :: vals) [] quote mustspace t
      else if Ascii.eqb c """" then
        if quote then telnet vals bline quote true t
        else match bline with
             | [] => telnet vals bline true mustspace t
             | _ => DMalformed
             end
      else telnet vals (c :: bline) quote mustspace t
  end.

Fixpoint decode_n (dec : string -> dres) (k : nat) (s : string) : lres :=
  match k with
  | O => LOk [] s
  | S k' =>
      match dec s with
      | DIncomplete => LIncomplete
      | DMalformed => LMalformed
      | DOk v r =>
          match decode_n dec k' r with
          | LOk l r' => LOk (v :: l) r'
          | e => e
          end
      end
  end.

(** [readValue(false, child)].  The fuel bounds the nesting depth; [S (length s)] always suffices
    ([decode_total] in Proofs/RespWireProofs.v). *)
Fixpoint decode_f (lim : bool) (fuel : nat) (child : bool) (s : string) : dres :=
  match fuel with
  | O => DIncomplete
  | S f =>
      match s with
      | EmptyString => DIncomplete
      | String c t =>
          if Ascii.eqb c "*" then
            match read_line t with
            | None => DIncomplete
            | Some (ln, r) =>
                match parse_dec ln with
                | None => DMalformed
                | Some n =>
                    if lim && (max_array <? n) then DOk WNone r       (* sic: no error, a null value *)
                    else if n <? 0 then DOk WNullArr r
                    else match decode_n (decode_f lim f true) (Z.to_nat n) r with
                         | LIncomplete => DIncomplete
                         | LMalformed => DMalformed
                         | LOk l r' => DOk (WArr l) r'
                         end
                end
            end
          else if Ascii.eqb c "+" then
            match read_line t with Some (ln, r) => DOk (WSimple ln) r | None => DIncomplete end
          else if Ascii.eqb c "-" then
            match read_line t with Some (ln, r) => DOk (WError ln) r | None => DIncomplete end
          else if Ascii.eqb c ":" then
            match read_line t with
            | None => DIncomplete
            | Some (ln, r) => match parse_dec ln with Some z => DOk (WInt z) r | None => DMalformed end
            end
          else if Ascii.eqb c "$" then read_bulk lim t
          else if child then DMalformed                        (* "unknown first byte" *)
          else telnet [] [] false false s
      end
  end.

(** [lim = true]: the reader with its limits (512 MiB per bulk string, 2^20 elements per array) — what the
    server applies to requests and the embedded API to replies.  [lim = false]: the RESP grammar itself,
    a strict client's view of a reply of any size. *)
Definition decode_g (lim : bool) (s : string) : dres := decode_f lim (S (String.length s)) false s.
Definition decode (s : string) : dres := decode_g true s.
Definition decode_strict (s : string) : dres := decode_g false s.

(** * [internal.Decode]: a value as a command *)
Fixpoint to_str (v : rv) : string :=
  match v with
  | WSimple s | WError s | WBulk s => s
  | WInt z => show_Z z
  | WNullBulk | WNone => ""
  | WArr l => "[" +:+ join " " (map to_str l) +:+ "]"     (* fmt.Sprintf("%v", []Value) *)
  | WNullArr => "[]"
  end.
Definition cmd_of (v : rv) : list string :=
  match v with WArr l => map to_str l | _ => [] end.

(** * Replies as bytes *)
(** An error is compared as a class: the representative text stands for whatever single line the
    server prints ([errorReply] replaces CR and LF in the message).  A float is rendered as a bulk
    string of its canonical text (Go: [strconv.FormatFloat], an alphabet without CR/LF, as a simple or
    a bulk string). *)
Definition err_line : string := "Error".
Fixpoint reply_value (r : reply) : rv :=
  match r with
  | RSimple s => WSimple s
  | RErr => WError err_line
  | RInt z => WInt z
  | RBulk s => WBulk s
  | RNil => WNullBulk
  | RNilArr => WNullArr
  | RArr l => WArr (map reply_value l)
  | RFloat f => WBulk (show_fl f)
  | RRaw s => WSimple s          (* never produced by a modelled handler ([handlers_reply_ok]) *)
  | REmpty => WSimple ""         (* idem *)
  | RPanic => WError err_line    (* handleCommandRecover: a panic is answered with an error *)
  end.
Definition reply_bytes (r : reply) : string := encode (reply_value r).

(** What makes a [reply] exactly one frame: no raw bytes, and simple strings without CR / LF. *)
Fixpoint no_crlf (s : string) : bool :=
  match s with
  | EmptyString => true
  | String c t => negb (Ascii.eqb c CR) && negb (Ascii.eqb c LF) && no_crlf t
  end.
Fixpoint reply_ok (r : reply) : bool :=
  match r with
  | RSimple s => no_crlf s
  | RArr l => forallb reply_ok l
  | RRaw _ | REmpty => false
  | _ => true
  end.

(** * handleCommand for a TCP connection: the connection module in front of the data handlers *)
Inductive outcome :=
| OReply (r : reply)          (* one reply, the connection stays open *)
| OQuit.                      (* QUIT: +OK, then the connection is closed *)

Definition wire_exec (w : world) (c : Z) (argv : list string) : world * outcome :=
  match argv with
  | [] => (w, OReply RErr)                                   (* "empty command" *)
  | cmd :: _ =>
      let name := lower cmd in
      if String.eqb name "quit" then (w, OQuit)
      else if String.eqb name "ping" then
        match argv with
        | [_] => (w, OReply (RSimple "PONG"))
        | [_; m] => (w, OReply (RBulk m))
        | _ => (w, OReply RErr)
        end
      else if String.eqb name "echo" then
        match argv with
        | [_; m] => (w, OReply (RBulk m))
        | _ => (w, OReply RErr)
        end
      else if String.eqb name "select" then
        match argv with
        | [_; d] => match parse_int d with
                    | Some n => if n <? 0 then (w, OReply RErr)
                                else (w <| w_conns := <[c := n]> (w_conns w) |>, OReply ROk)
                    | None => (w, OReply RErr)
                    end
        | _ => (w, OReply RErr)
        end
      else let '(w', r) := exec_cmd w c argv in (w', OReply r)
  end.

(** * The connection loop *)
(** Replies above 1024 bytes are written in pieces (sugardb.go: [chunkSize]; the loop condition
    [len(res)-1-startIndex < chunkSize] makes the last piece up to 1024 bytes long). *)
Definition chunk_size : nat := 1024.
Fixpoint chunks_f (fuel : nat) (s : string) : list string :=
  match fuel with
  | O => [s]
  | S f =>
      if (String.length s - 1 <? chunk_size)%nat then [s]
      else match split_at chunk_size s with
           | Some (a, b) => a :: chunks_f f b
           | None => [s]
           end
  end.
Definition writes_of (res : string) : list string :=
  if String.eqb res "" then []
  else if (String.length res <=? chunk_size)%nat then [res]
  else chunks_f (String.length res) res.

Record conn := Conn {
  c_buf : string;       (* bytes read and not yet consumed by a complete value *)
  c_closed : bool;
}.
Definition conn0 : conn := {| c_buf := ""; c_closed := false |}.

(** Decode and handle every complete value at the front of [buf]. *)
Fixpoint drain (fuel : nat) (w : world) (c : Z) (buf : string) : world * list string * conn :=
  match fuel with
  | O => (w, [], {| c_buf := buf; c_closed := false |})
  | S f =>
      match decode buf with
      | DIncomplete => (w, [], {| c_buf := buf; c_closed := false |})
      | DMalformed => (w, [reply_bytes RErr], {| c_buf := ""; c_closed := true |})
      | DOk v rest =>
          match wire_exec w c (cmd_of v) with
          | (w', OQuit) => (w', [reply_bytes ROk], {| c_buf := ""; c_closed := true |})
          | (w', OReply r) =>
              let '(w'', out, cn) := drain f w' c rest in
              (w'', writes_of (reply_bytes r) ++ out, cn)
          end
      end
  end.

(** One read() returning [chunk]. *)
Definition on_read (w : world) (c : Z) (cn : conn) (chunk : string) : world * list string * conn :=
  if c_closed cn then (w, [], cn)
  else let buf := c_buf cn +:+ chunk in drain (S (String.length buf)) w c buf.

(** The connection as a function from the list of reads to the list of writes. *)
Fixpoint serve_from (w : world) (c : Z) (cn : conn) (reads : list string) : world * list string * conn :=
  match reads with
  | [] => (w, [], cn)
  | ch :: rest =>
      let '(w1, o1, cn1) := on_read w c cn ch in
      let '(w2, o2, cn2) := serve_from w1 c cn1 rest in
      (w2, o1 ++ o2, cn2)
  end.
Definition serve (w : world) (c : Z) (reads : list string) : list string :=
  snd (fst (serve_from w c conn0 reads)).

(** Concatenation of byte strings: a TCP stream is the concatenation of its segments. *)
Definition scat (l : list string) : string := fold_right String.append "" l.
Definition encode_cmds (cmds : list (list string)) : string := scat (map encode_cmd cmds).
(** A command the reader accepts: at most 2^20 arguments of at most 512 MiB each. *)
Definition cmd_ok (argv : list string) : bool :=
  (zlen argv <=? max_array) && forallb (fun a => slen a <=? max_bulk) argv.

(** The reference: one reply per command, in order, up to and including the first QUIT. *)
Fixpoint replies_of (w : world) (c : Z) (cmds : list (list string)) : list string :=
  match cmds with
  | [] => []
  | argv :: rest =>
      match wire_exec w c argv with
      | (_, OQuit) => [reply_bytes ROk]
      | (w', OReply r) => reply_bytes r :: replies_of w' c rest
      end
  end.

(** * The loop as it was before fixes/01: one read = one message = one command *)
Fixpoint trim_nul_front (s : string) : string :=
  match s with
  | String c t => if Ascii.eqb c "000" then trim_nul_front t else s
  | EmptyString => s
  end.
Definition trim_nul (s : string) : string :=
  string_rev (trim_nul_front (string_rev (trim_nul_front s))).

(** [ReadMessage] + [Decode] + handler of one read; the rest of the message is dropped; a decode
    error other than EOF is answered "-Error ..."; [DIncomplete] on a non-empty message is
    "unexpected EOF" (an error reply), on an empty one EOF (the connection is closed). *)
Definition on_read_old (w : world) (c : Z) (chunk : string) : world * list string * bool :=
  let msg := trim_nul chunk in
  match decode msg with
  | DIncomplete => if String.eqb msg "" then (w, [], true) else (w, [reply_bytes RErr], false)
  | DMalformed => (w, [reply_bytes RErr], false)
  | DOk v _ =>
      match wire_exec w c (cmd_of v) with
      | (w', OQuit) => (w', [], true)
      | (w', OReply r) => (w', writes_of (reply_bytes r), false)
      end
  end.
Fixpoint serve_old (w : world) (c : Z) (reads : list string) : list string :=
  match reads with
  | [] => []
  | ch :: rest =>
      let '(w', out, closed) := on_read_old w c ch in
      if closed then out else out ++ serve_old w' c rest
  end.

(** * The embedded API's view of a reply: [Parse*Response] (internal/utils.go) *)
Inductive api_result (A : Type) := ApiErr | ApiOk (a : A).
Arguments ApiErr {A}. Arguments ApiOk {A}.

Definition first_value (b : string) : option rv :=
  match decode b with DOk v _ => Some v | _ => None end.

(** [Value.Integer()]: the integer of [:n], otherwise ParseInt of the string form (0 when it fails). *)
Definition to_int (v : rv) : Z :=
  match v with
  | WInt z => z
  | _ => match parse_int (to_str v) with Some z => z | None => 0 end
  end.

Definition parse_string_response (b : string) : api_result string :=
  match first_value b with Some v => ApiOk (to_str v) | None => ApiErr end.
Definition parse_integer_response (b : string) : api_result Z :=
  match first_value b with Some v => ApiOk (to_int v) | None => ApiErr end.
Definition is_null (v : rv) : bool :=
  match v with WNullBulk | WNullArr | WNone => true | _ => false end.
Definition elem_str (v : rv) : string := if is_null v then "" else to_str v.
Definition parse_string_array_response (b : string) : api_result (list string) :=
  match first_value b with
  | Some v => ApiOk (if is_null v then []
                     else match v with
                          | WBulk s => [s]
                          | WArr l => map elem_str l
                          | _ => []
                          end)
  | None => ApiErr
  end.
Definition parse_integer_array_response (b : string) : api_result (list Z) :=
  match first_value b with
  | Some v => ApiOk (match v with WArr l => map (fun e => if is_null e then 0 else to_int e) l | _ => [] end)
  | None => ApiErr
  end.
Definition parse_boolean_response (b : string) : api_result bool :=
  match first_value b with Some v => ApiOk (negb (to_int v =? 0)) | None => ApiErr end.

(** What the same reply means to a wire client that decodes it. *)
Definition wire_string (r : reply) : string := to_str (reply_value r).
Definition wire_int (r : reply) : Z := to_int (reply_value r).
Definition wire_strings (r : reply) : list string :=
  match reply_value r with WArr l => map elem_str l | WBulk s => [s] | _ => [] end.
Definition wire_ints (r : reply) : list Z :=
  match reply_value r with WArr l => map (fun e => if is_null e then 0 else to_int e) l | _ => [] end.
