(** The [SortedSet] type of [internal/modules/sorted_set/sorted_set.go] as a finite map from member to
    score, its methods ([AddOrUpdate], [Pop], [Remove], sorting with [CompareMembers]) and the argument
    grammar of the sorted-set handlers ([commands.go], [utils.go]).

    Everything here is a pure function of the command's argument vector and of the sorted set stored at
    ONE key.  A single-key command is decoded into a [zdecoded] record: the key it reads, the key it
    writes, and what it does when the key is absent / holds a sorted set.  The handlers in
    [Model/CmdZSet.v] run these actions through the keyspace primitives; the reference in
    [Spec/SpecZSet.v] applies them to a [gmap] view.  The flag [strict] selects, in the two places where
    the suite pins a behaviour that the documentation contradicts (see the known findings), the
    documented behaviour ([true]) or the pinned one ([false], what the Go code does). *)
From stdpp Require Import gmap strings.
From Coq Require Import QArith.
From EV Require Import Base.Str Model.Value Model.Reply.
Local Open Scope Z_scope.

Notation zmap := (gmap string fl).
Definition zitem := (string * fl)%type.

Definition arg (argv : list string) (i : nat) : string := nth i argv "".

(** * Scores as text *)

Fixpoint all_digits (s : string) : bool :=
  match s with EmptyString => true | String c r => is_digit c && all_digits r end.

(** [-+]?digits[.digits]: the decimal tokens the generators emit.  ([big.ParseFloat] / [strconv.ParseFloat]
    accept more: exponents, a missing integer or fraction part, hex floats; those tokens are excluded
    from generation, see [simple_score_token].) *)
Definition parse_decimal (s : string) : option Q :=
  let '(neg, body) := match s with
                      | String "-"%char r => (true, r)
                      | String "+"%char r => (false, r)
                      | _ => (false, s)
                      end in
  let mk (num : Z) (k : Z) := Some (Qred (Qmake (if neg then - num else num) (Z.to_pos (10 ^ k)))) in
  match split_on "."%char "" body with
  | [ip] => match parse_nat ip with Some i => mk i 0 | None => None end
  | [ip; fp] =>
      match parse_nat ip, parse_nat fp with
      | Some i, Some f => let k := Z.of_nat (String.length fp) in mk (i * 10 ^ k + f) k
      | _, _ => None
      end
  | _ => None
  end.

Definition str_in_list (s : string) (l : list string) : bool := existsb (String.eqb s) l.

(** [internal.AdaptType(s)] yields a number ([int] or [float64]); also [strconv.ParseFloat(s, 64)] on the
    generated tokens. *)
Definition adapt_score (s : string) : option fl :=
  if str_in_list s ["inf"; "Inf"; "+inf"; "+Inf"] then Some FPInf
  else if str_in_list s ["-inf"; "-Inf"] then Some FNInf
  else FFin <$> parse_decimal s.

(** [strconv.ParseFloat(s, 64)] on the generated tokens (it reads "inf" / "infinity" in any case; "nan",
    exponents, hex floats are excluded from generation). *)
Definition float64_score (s : string) : option fl :=
  if str_in_list (lower s) ["inf"; "+inf"; "infinity"; "+infinity"] then Some FPInf
  else if str_in_list (lower s) ["-inf"; "-infinity"] then Some FNInf
  else FFin <$> parse_decimal s.

(** A score in ZADD / an increment in ZINCRBY: a number, or a string that is "-inf"/"+inf" in any case. *)
Definition zadd_score (s : string) : option fl :=
  match adapt_score s with
  | Some f => Some f
  | None => if String.eqb (lower s) "-inf" then Some FNInf
            else if String.eqb (lower s) "+inf" then Some FPInf else None
  end.
(** ZCOUNT's bounds: a number; a non-numeric string is accepted only as "+inf" for min, "-inf" for max. *)
Definition zcount_min (s : string) : option fl :=
  match adapt_score s with
  | Some f => Some f
  | None => if String.eqb (lower s) "+inf" then Some FPInf else None
  end.
Definition zcount_max (s : string) : option fl :=
  match adapt_score s with
  | Some f => Some f
  | None => if String.eqb (lower s) "-inf" then Some FNInf else None
  end.

(** Tokens on which [adapt_score] is by construction what Go computes. *)
Definition simple_score_token (s : string) : bool :=
  match adapt_score s with
  | Some _ => true
  | None => negb (existsb (fun c => is_digit c) (list_ascii_of_string s))
            && negb (str_in_list (lower s) ["inf"; "+inf"; "-inf"; "infinity"; "+infinity"; "-infinity"; "nan"])
  end.

Definition is_inf (f : fl) : bool := match f with FFin _ => false | _ => true end.

(** * Order: by score, then by the bytes of the member ([CompareMembers]) *)
Definition zle (a b : zitem) : bool :=
  fl_ltb (snd a) (snd b) || (fl_eqb (snd a) (snd b) && str_leb (fst a) (fst b)).
Definition zlt (a b : zitem) : bool :=
  fl_ltb (snd a) (snd b) || (fl_eqb (snd a) (snd b) && str_ltb (fst a) (fst b)).

(** [GetAll] followed by [slices.SortFunc(members, CompareMembers)]. *)
Definition zsorted (z : zmap) : list zitem := sort_by zle (map_to_list z).
(** Sorting with the comparator's arguments swapped: the order is total and members are distinct, so the
    result is the ascending sequence reversed. *)
Definition zsorted_dir (reverse : bool) (z : zmap) : list zitem :=
  if reverse then rev (zsorted z) else zsorted z.

Definition zcard (z : zmap) : Z := zlen (map_to_list z).
Definition zremove_all (l : list string) (z : zmap) : zmap := fold_right (fun m acc => delete m acc) z l.

(** * Replies *)
Definition item_reply (withscores : bool) (p : zitem) : reply :=
  if withscores then RArr [RBulk (fst p); RFloat (snd p)] else RArr [RBulk (fst p)].
Definition items_reply (withscores : bool) (l : list zitem) : reply := RArr (map (item_reply withscores) l).

(** What a sorted-set command sees at a key: a sorted set, or something else. *)
Inductive zval := ZSet (z : zmap) | ZOther.

(** * What a decoded command does to the sorted set at its key *)
Inductive zact :=
| ZRet (r : reply)                   (* reply, change nothing *)
| ZPut (z : zmap) (r : reply).       (* the write key now holds [z]; reply *)

Record zdecoded := ZDecoded {
  zd_rkey : string;                              (* key whose presence / type is tested and read *)
  zd_wkey : string;                              (* key written (the same, except ZRANGESTORE) *)
  zd_body : option (zact * (zmap -> zact));      (* None: an argument is refused; else (key absent, key holds z) *)
}.

(** * ZADD *)
Inductive zpolicy := PNone | PNX | PXX.
Inductive zcompar := CNone | CGT | CLT.
Record zopts := ZOpts { o_pol : zpolicy; o_cmp : zcompar; o_ch : bool; o_incr : bool }.
Definition no_opts := ZOpts PNone CNone false false.

Definition is_pnx (p : zpolicy) : bool := match p with PNX => true | _ => false end.
Definition is_pxx (p : zpolicy) : bool := match p with PXX => true | _ => false end.
Definition is_pnone (p : zpolicy) : bool := match p with PNone => true | _ => false end.
Definition is_cnone (c : zcompar) : bool := match c with CNone => true | _ => false end.

(** The option loop of [handleZADD]: a later NX/XX (GT/LT) replaces an earlier one. *)
Fixpoint parse_zadd_opts (npairs : nat) (o : zopts) (l : list string) : option zopts :=
  match l with
  | [] => Some o
  | x :: r =>
      let t := lower x in
      if String.eqb t "nx" then
        if negb (is_cnone (o_cmp o)) then None else parse_zadd_opts npairs (ZOpts PNX (o_cmp o) (o_ch o) (o_incr o)) r
      else if String.eqb t "xx" then parse_zadd_opts npairs (ZOpts PXX (o_cmp o) (o_ch o) (o_incr o)) r
      else if String.eqb t "gt" then
        if is_pnx (o_pol o) then None else parse_zadd_opts npairs (ZOpts (o_pol o) CGT (o_ch o) (o_incr o)) r
      else if String.eqb t "lt" then
        if is_pnx (o_pol o) then None else parse_zadd_opts npairs (ZOpts (o_pol o) CLT (o_ch o) (o_incr o)) r
      else if String.eqb t "ch" then parse_zadd_opts npairs (ZOpts (o_pol o) (o_cmp o) true (o_incr o)) r
      else if String.eqb t "incr" then
        if (1 <? npairs)%nat then None else parse_zadd_opts npairs (ZOpts (o_pol o) (o_cmp o) (o_ch o) true) r
      else None
  end.

(** score member score member ... *)
Fixpoint parse_pairs (l : list string) : option (list zitem) :=
  match l with
  | [] => Some []
  | sc :: m :: r =>
      match zadd_score sc, parse_pairs r with
      | Some f, Some ps => Some ((m, f) :: ps)
      | _, _ => None
      end
  | _ => None
  end.

(** Index of the first token that is a score. *)
Fixpoint find_score (l : list string) (i : nat) : option nat :=
  match l with
  | [] => None
  | x :: r => match zadd_score x with Some _ => Some i | None => find_score r (S i) end
  end.

Definition parse_zadd (argv : list string) : option (zopts * list zitem) :=
  match find_score (skipn 1 argv) 1 with
  | None => None
  | Some idx =>
      if (idx <? 2)%nat then None else
      match parse_pairs (skipn idx argv) with
      | None => None
      | Some pairs =>
          match parse_zadd_opts (length pairs) no_opts (firstn (idx - 2) (skipn 2 argv)) with
          | Some o => Some (o, pairs)
          | None => None
          end
      end
  end.

(** One member of [AddOrUpdate]; [None] = the error "cannot increment -inf or +inf". *)
Definition zadd1 (o : zopts) (acc : zmap * Z * Z) (p : zitem) : option (zmap * Z * Z) :=
  let '(z, added, updated) := acc in
  let '(m, sc) := p in
  match z !! m with
  | None => if is_pxx (o_pol o) then Some acc else Some (<[m := sc]> z, added + 1, updated)
  | Some old =>
      if is_pnx (o_pol o) then Some acc else
      if o_incr o && is_inf old then None else
      let score := if o_incr o then fl_add old sc else sc in
      match o_cmp o with
      | CGT => if negb (fl_ltb old score) then Some acc
               else Some (<[m := score]> z, added, if fl_eqb score old then updated else updated + 1)
      | CLT => if negb (fl_ltb score old) then Some acc
               else Some (<[m := score]> z, added, if fl_eqb score old then updated else updated + 1)
      | CNone => Some (<[m := score]> z, added, if fl_eqb score old then updated else updated + 1)
      end
  end.

Fixpoint zadd_all (o : zopts) (acc : zmap * Z * Z) (ps : list zitem) : option (zmap * Z * Z) :=
  match ps with
  | [] => Some acc
  | p :: r => match zadd1 o acc p with Some acc' => zadd_all o acc' r | None => None end
  end.

(** The number ZADD replies.  Documentation: new members, plus changed ones with CH.  The code (pinned by
    the suite's presets, which re-ZADD an existing key and expect its cardinality): without NX/XX the
    changed ones are counted even without CH. *)
Definition zadd_count (strict : bool) (o : zopts) (added updated : Z) : Z :=
  if o_ch o || (negb strict && is_pnone (o_pol o)) then added + updated else added.

Definition zadd_act (strict : bool) (o : zopts) (pairs : list zitem) (existed : bool) (z : zmap) : zact :=
  match zadd_all o (z, 0, 0) pairs with
  | None => ZRet RErr
  | Some (z', added, updated) =>
      let r := if o_incr o
               then match z' !! fst (hd (""%string, FNInf) pairs) with Some f => RFloat f | None => RNil end
               else RInt (zadd_count strict o added updated) in
      if existed || (0 <? zcard z') then ZPut z' r else ZRet r
  end.

Definition decode_zadd (strict : bool) (argv : list string) : option zdecoded :=
  if (length argv <? 4)%nat then None else
  let key := arg argv 1 in
  Some (ZDecoded key key
    match parse_zadd argv with
    | None => None
    | Some (o, pairs) => Some (zadd_act strict o pairs false ∅, zadd_act strict o pairs true)
    end).

(** * ZCARD, ZSCORE, ZMSCORE, ZREM, ZINCRBY, ZCOUNT *)
Definition decode_zcard (argv : list string) : option zdecoded :=
  if negb (length argv =? 2)%nat then None else
  let key := arg argv 1 in
  Some (ZDecoded key key (Some (ZRet (RInt 0), fun z => ZRet (RInt (zcard z))))).

Definition decode_zscore (argv : list string) : option zdecoded :=
  if negb (length argv =? 3)%nat then None else
  let key := arg argv 1 in
  Some (ZDecoded key key (Some (ZRet RNil,
    fun z => ZRet (match z !! arg argv 2 with Some f => RFloat f | None => RNil end)))).

Definition decode_zmscore (argv : list string) : option zdecoded :=
  if (length argv <? 3)%nat then None else
  let key := arg argv 1 in
  Some (ZDecoded key key (Some (ZRet (RArr []),
    fun z => ZRet (RArr (map (fun m => match z !! m with Some f => RFloat f | None => RNil end) (skipn 2 argv)))))).

(** Members are removed one after the other; a repeated member counts once. *)
Fixpoint zrem_all (l : list string) (z : zmap) (n : Z) : zmap * Z :=
  match l with
  | [] => (z, n)
  | m :: r => match z !! m with
              | Some _ => zrem_all r (delete m z) (n + 1)
              | None => zrem_all r z n
              end
  end.
Definition decode_zrem (argv : list string) : option zdecoded :=
  if (length argv <? 3)%nat then None else
  let key := arg argv 1 in
  Some (ZDecoded key key (Some (ZRet (RInt 0),
    fun z => let '(z', n) := zrem_all (skipn 2 argv) z 0 in ZPut z' (RInt n)))).

Definition decode_zincrby (argv : list string) : option zdecoded :=
  if negb (length argv =? 4)%nat then None else
  let key := arg argv 1 in
  let member := arg argv 3 in
  Some (ZDecoded key key
    match zadd_score (arg argv 2) with
    | None => None
    | Some inc =>
        Some (ZPut {[ member := inc ]} (RFloat inc),
              fun z => match zadd_all (ZOpts PNone CNone false true) (z, 0, 0) [(member, inc)] with
                       | None => ZRet RErr
                       | Some (z', _, _) =>
                           ZPut z' (match z' !! member with Some f => RFloat f | None => RNil end)
                       end)
    end).

Definition in_score_range (lo hi : fl) (p : zitem) : bool := fl_leb lo (snd p) && fl_leb (snd p) hi.
Definition in_lex_range (lo hi : string) (p : zitem) : bool := str_leb lo (fst p) && str_leb (fst p) hi.

Definition decode_zcount (argv : list string) : option zdecoded :=
  if negb (length argv =? 4)%nat then None else
  let key := arg argv 1 in
  Some (ZDecoded key key
    match zcount_min (arg argv 2), zcount_max (arg argv 3) with
    | Some lo, Some hi =>
        Some (ZRet (RInt 0), fun z => ZRet (RInt (zlen (filter (in_score_range lo hi) (map_to_list z)))))
    | _, _ => None
    end).

(** * ZRANK / ZREVRANK *)
Fixpoint find_member (l : list zitem) (m : string) (i : Z) : option (Z * fl) :=
  match l with
  | [] => None
  | p :: r => if String.eqb (fst p) m then Some (i, snd p) else find_member r m (i + 1)
  end.

Definition decode_zrank (argv : list string) : option zdecoded :=
  if (length argv <? 3)%nat || (4 <? length argv)%nat then None else
  let key := arg argv 1 in
  let member := arg argv 2 in
  let withscores := (length argv =? 4)%nat && eq_fold (arg argv 3) "withscores" in
  let reverse := eq_fold (arg argv 0) "zrevrank" in
  Some (ZDecoded key key (Some (ZRet RNil,
    fun z => ZRet (match find_member (zsorted_dir reverse z) member 0 with
                   | Some (i, f) => if withscores then RArr [RInt i; RFloat f] else RArr [RInt i]
                   | None => RNil
                   end)))).

(** * ZPOPMIN / ZPOPMAX *)
Definition zpop (maxp : bool) (count : Z) (z : zmap) : list zitem * zmap :=
  let popped := zfirstn count (zsorted_dir maxp z) in
  (popped, zremove_all (map fst popped) z).

Definition decode_zpop (argv : list string) : option zdecoded :=
  if (length argv <? 2)%nat || (3 <? length argv)%nat then None else
  let key := arg argv 1 in
  let maxp := eq_fold (arg argv 0) "zpopmax" in
  let count := if (length argv =? 3)%nat
               then match parse_int (arg argv 2) with
                    | Some c => Some (if 0 <? c then c else 1)
                    | None => None
                    end
               else Some 1 in
  Some (ZDecoded key key
    match count with
    | None => None
    | Some n => Some (ZRet (RArr []),
                      fun z => let '(popped, z') := zpop maxp n z in ZPut z' (items_reply true popped))
    end).

(** * ZRANGE / ZRANGESTORE *)
Definition has_opt (name : string) (opts : list string) : bool := existsb (fun s => eq_fold s name) opts.
Fixpoint index_opt (name : string) (opts : list string) (i : nat) : option nat :=
  match opts with
  | [] => None
  | x :: r => if eq_fold x name then Some i else index_opt name r (S i)
  end.

Record zrange_args := ZRangeArgs {
  ra_bylex : bool; ra_rev : bool; ra_withscores : bool;
  ra_lo : fl; ra_hi : fl;                 (* score bounds (BYSCORE, the default) *)
  ra_limit : option (Z * Z);              (* LIMIT offset count *)
}.

(** [start] [stop] and the option words that follow them.  Unknown words are ignored by the code. *)
Definition parse_zrange (start stop : string) (opts : list string) : option zrange_args :=
  let bylex := has_opt "bylex" opts in
  let bounds := if bylex then Some (FNInf, FPInf)
                else match float64_score start, float64_score stop with
                     | Some lo, Some hi => Some (lo, hi)
                     | _, _ => None
                     end in
  match bounds with
  | None => None
  | Some (lo, hi) =>
      let mk lim := Some (ZRangeArgs bylex (has_opt "rev" opts) (has_opt "withscores" opts) lo hi lim) in
      match index_opt "limit" opts 0 with
      | None => mk None
      | Some i =>
          if (length opts <? i + 3)%nat then None else
          match parse_int (nth (i + 1) opts ""), parse_int (nth (i + 2) opts "") with
          | Some off, Some cnt => if off <? 0 then None else mk (Some (off, cnt))
          | _, _ => None
          end
      end
  end.

Fixpoint all_same_score (l : list zitem) : bool :=
  match l with
  | p :: ((q :: _) as r) => fl_eqb (snd p) (snd q) && all_same_score r
  | _ => true
  end.

(** Documented LIMIT: the members inside the bounds, in order, then [count] of them from [offset]
    (a negative count: all the rest). *)
Definition window (lim : option (Z * Z)) (l : list zitem) : list zitem :=
  match lim with
  | None => l
  | Some (off, cnt) => if cnt <? 0 then zskipn off l else zfirstn cnt (zskipn off l)
  end.

(** The selection loop of [handleZRANGE]: [for i := offset; i <= count; i++] over ALL the members in order,
    keeping those inside the bounds — offset and count index the whole set and [count] is an inclusive end
    index (pinned by the suite: "Offset and limit are in where we start and stop counting in the original
    sorted set (NOT THE RESULT)").  [None]: the early exit [offset > cardinality]. *)
Definition go_select (lim : option (Z * Z)) (inr : zitem -> bool) (l : list zitem) : option (list zitem) :=
  let card := zlen l in
  let '(off, cnt0) := match lim with Some (o, c) => (o, c) | None => (0, -1) end in
  if card <? off then None else
  let cnt := if cnt0 <? 0 then card - off else cnt0 in
  Some (filter inr (slice l off (cnt + 1))).

(** The members ZRANGE selects; [None] = an early exit (ZRANGE replies an empty array; ZRANGESTORE replies
    0 and stores nothing): BYLEX on a set whose scores are not all equal, or, in the code, an offset
    beyond the cardinality. *)
Definition zrange_select (strict : bool) (a : zrange_args) (lexlo lexhi : string) (z : zmap) : option (list zitem) :=
  let l := zsorted_dir (ra_rev a) z in
  let inr := if ra_bylex a then in_lex_range lexlo lexhi else in_score_range (ra_lo a) (ra_hi a) in
  if ra_bylex a && negb (all_same_score (zsorted z)) then None
  else if strict then Some (window (ra_limit a) (filter inr l))
  else go_select (ra_limit a) inr l.

Definition decode_zrange (strict : bool) (argv : list string) : option zdecoded :=
  if (length argv <? 4)%nat || (10 <? length argv)%nat then None else
  let key := arg argv 1 in
  Some (ZDecoded key key
    match parse_zrange (arg argv 2) (arg argv 3) (skipn 4 argv) with
    | None => None
    | Some a =>
        Some (ZRet (RArr []),
              fun z => ZRet (match zrange_select strict a (arg argv 2) (arg argv 3) z with
                             | Some l => items_reply (ra_withscores a) l
                             | None => RArr []
                             end))
    end).

Definition decode_zrangestore (strict : bool) (argv : list string) : option zdecoded :=
  if (length argv <? 5)%nat || (11 <? length argv)%nat then None else
  let dst := arg argv 1 in
  let src := arg argv 2 in
  Some (ZDecoded src dst
    match parse_zrange (arg argv 3) (arg argv 4) (skipn 5 argv) with
    | None => None
    | Some a =>
        Some (ZRet (RArr []),
              fun z => match zrange_select strict a (arg argv 3) (arg argv 4) z with
                       | Some l => let z' : zmap := list_to_map l in ZPut z' (RInt (zcard z'))
                       | None => ZRet (RInt 0)
                       end)
    end).

(** * ZLEXCOUNT, ZREMRANGEBYSCORE / BYRANK / BYLEX *)
Definition decode_zlexcount (argv : list string) : option zdecoded :=
  if negb (length argv =? 4)%nat then None else
  let key := arg argv 1 in
  Some (ZDecoded key key (Some (ZRet (RInt 0),
    fun z => if negb (all_same_score (zsorted z)) then ZRet (RInt 0)
             else ZRet (RInt (zlen (filter (in_lex_range (arg argv 2) (arg argv 3)) (map_to_list z))))))).

Definition remove_selected (sel : list zitem) (z : zmap) : zact :=
  ZPut (zremove_all (map fst sel) z) (RInt (zlen sel)).

Definition decode_zremrangebyscore (argv : list string) : option zdecoded :=
  if negb (length argv =? 4)%nat then None else
  let key := arg argv 1 in
  Some (ZDecoded key key
    match float64_score (arg argv 2), float64_score (arg argv 3) with
    | Some lo, Some hi =>
        Some (ZRet (RInt 0), fun z => remove_selected (filter (in_score_range lo hi) (zsorted z)) z)
    | _, _ => None
    end).

Definition decode_zremrangebylex (argv : list string) : option zdecoded :=
  if negb (length argv =? 4)%nat then None else
  let key := arg argv 1 in
  Some (ZDecoded key key (Some (ZRet (RInt 0),
    fun z => if negb (all_same_score (zsorted z)) then ZRet (RInt 0)
             else remove_selected (filter (in_lex_range (arg argv 2) (arg argv 3)) (zsorted z)) z))).

(** Negative ranks count from the end; a rank outside the set is an error; the two ranks may come in
    either order. *)
Definition decode_zremrangebyrank (argv : list string) : option zdecoded :=
  if negb (length argv =? 4)%nat then None else
  let key := arg argv 1 in
  Some (ZDecoded key key
    match parse_int (arg argv 2), parse_int (arg argv 3) with
    | Some start0, Some stop0 =>
        Some (ZRet (RInt 0),
              fun z => let card := zcard z in
                       let start := if start0 <? 0 then start0 + card else start0 in
                       let stop := if stop0 <? 0 then stop0 + card else stop0 in
                       if (start <? 0) || (card - 1 <? start) || (stop <? 0) || (card - 1 <? stop) then ZRet RErr
                       else let lo := Z.min start stop in let hi := Z.max start stop in
                            remove_selected (slice (zsorted z) lo (hi + 1)) z)
    | _, _ => None
    end).

