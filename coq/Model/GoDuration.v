(** Go's arithmetic behind a relative expiry, written out with its wrap-around.

    [handleExpire], [getSetCommandOptions] and [handleGetex] compute the deadline of a relative time [n] as
    [clock.Now().Add(time.Duration(n) * unit)] with [unit] = [time.Second] (10^9) or [time.Millisecond] (10^6):
    - [time.Duration] is an [int64] count of nanoseconds and the product is an [int64] multiplication, which
      wraps around modulo 2^64 ([wrap64]);
    - [Time.Add] adds that many nanoseconds to the instant (exact: a [Time] keeps seconds and nanoseconds apart);
    - the keyspace, the digests and TTL / PTTL / EXPIRETIME read the deadline in whole milliseconds
      ([UnixMilli]: floor of the nanosecond count by 10^6).

    The handler models ([Model/CmdGeneric.v]) compute [now + n * 1000] and [now + n] in unbounded integers.
    [Proofs/GoDurationProofs.v] proves that the two agree for every [n] inside the stated range and for every
    clock, exhibits the first [n] outside the range where they do not (finding KF-C04-duration-overflow), and
    [checks/gen_c04.py boundary_histories] runs the code at the limits of the range. *)
From Coq Require Import ZArith.
Local Open Scope Z_scope.

Definition two63 : Z := 9223372036854775808.
Definition two64 : Z := 18446744073709551616.

(** the [int64] a mathematical integer is truncated to *)
Definition wrap64 (z : Z) : Z := (z + two63) mod two64 - two63.

Definition ns_per_s : Z := 1000000000.
Definition ns_per_ms : Z := 1000000.

(** [time.Duration(n) * unit] *)
Definition go_duration (unit_ns n : Z) : Z := wrap64 (n * unit_ns).

(** [UnixMilli (t.Add d)] for the instant [now_ns] nanoseconds after the epoch *)
Definition go_deadline_ms (now_ns d : Z) : Z := (now_ns + d) / ns_per_ms.

(** the clock in the unit of the model: [UnixMilli now] *)
Definition ms_of_ns (now_ns : Z) : Z := now_ns / ns_per_ms.

(** what the handler models compute *)
Definition model_deadline_s (now_ms n : Z) : Z := now_ms + n * 1000.
Definition model_deadline_ms (now_ms n : Z) : Z := now_ms + n.

(** the largest relative times carried exactly (also [maxRelativeSeconds], [maxRelativeMilliseconds] of
    internal/absolute_expiry.go) *)
Definition max_rel_s : Z := 9223372036.
Definition max_rel_ms : Z := 9223372036854.
