(** Set handlers: [internal/modules/set/commands.go] and [set.go], one definition per Go handler,
    same order of checks.  [argv] includes the command word at index 0.

    The Go handlers SADD / SREM / SPOP / SMOVE change an existing set *in place* through the stored
    pointer and never call [SetValues]; a functional model has to write the new set back.  That
    write-back is [WriteBack] below: today it is [SetValues] (so [st_mem] / [st_changes] move in the
    model where they do not in the code — the C16 comparison ignores [mem=]); it is the one place to
    change when the core offers a primitive that replaces a value without touching the counters.

    [Intersection(0, sets...)] (divide and conquer in Go) is modelled by its meaning, a fold of [∩];
    [Set.GetRandom] by an arbitrary selection function [pick] (see [allowed_sel]). *)
From stdpp Require Import gmap strings.
From EV Require Import Base.Str Model.Value Model.Adapt Model.Keyspace Model.Reply Model.Prog Model.CmdList.
Local Open Scope Z_scope.

Definition as_set (o : option value) : option (gset string) :=
  match o with Some (VSet m) => Some m | _ => None end.

Definition zsize (s : gset string) : Z := Z.of_nat (size s).
Definition members_reply (s : gset string) : reply := bulks (sorted_elems s).
Definition mem_set (x : string) (s : gset string) : bool := bool_decide (x ∈ s).

Definition WriteBack {R} (kvs : list (string * value)) (k : prog R) : prog R :=
  SetValues kvs (fun _ => k).

(** [Intersection(0, sets...)] for at least one set. *)
Definition inter_all (l : list (gset string)) : gset string :=
  match l with [] => ∅ | s :: r => fold_left (fun a b => a ∩ b) r s end.

(** * Random selection ([Set.GetRandom]) *)
Definition picker := gset string -> Z -> list string.

(** The outcomes [GetRandom s count] can have: nothing for 0; for a positive count,
    [min count |s|] distinct members; for a negative count, [|count|] members (repeats allowed)
    unless the set is empty. *)
Fixpoint nodupb (l : list string) : bool :=
  match l with [] => true | x :: r => negb (str_in x r) && nodupb r end.

Definition allowed_sel (s : gset string) (c : Z) (l : list string) : bool :=
  forallb (fun x => mem_set x s) l &&
  (if c =? 0 then bool_decide (l = [])
   else if 0 <? c then nodupb l && (zlen l =? Z.min c (zsize s))
   else if bool_decide (s = ∅) then bool_decide (l = []) else zlen l =? - c).

(** The selection the executable model makes: the smallest members. *)
Definition default_pick : picker := fun s c =>
  let l := sorted_elems s in
  if 0 <=? c then zfirstn c l
  else match l with [] => [] | x :: _ => repeat x (Z.to_nat (- c)) end.

(** * Handlers *)

Definition handle_sadd (argv : list string) : prog reply :=
  if (length argv <? 3)%nat then Ret RErr else
  let key := arg argv 1 in
  let new := list_to_set (skipn 2 argv) : gset string in
  KeysExist [key] (fun ex =>
  if negb (ex key) then
    SetValues [(key, VSet new)] (fun ok => if ok then Ret (RInt (zsize new)) else Ret RErr)
  else
    GetValues [key] (fun vals =>
    match as_set (vals key) with
    | None => Ret RErr
    | Some s => WriteBack [(key, VSet (s ∪ new))] (Ret (RInt (zsize (new ∖ s))))
    end)).

Definition handle_scard (argv : list string) : prog reply :=
  if negb (length argv =? 2)%nat then Ret RErr else
  let key := arg argv 1 in
  KeysExist [key] (fun ex =>
  if negb (ex key) then Ret (RInt 0) else
  GetValues [key] (fun vals =>
  match as_set (vals key) with
  | None => Ret RErr
  | Some s => Ret (RInt (zsize s))
  end)).

(** The loop of SDIFF / SDIFFSTORE over the keys after the base: one [GetValues] per key; whatever is
    not a set (absent, other type) is skipped. *)
Fixpoint read_sets_skip {R} (ks : list string) (k : list (gset string) -> prog R) : prog R :=
  match ks with
  | [] => k []
  | key :: r =>
      GetValues [key] (fun vals =>
      match as_set (vals key) with
      | Some s => read_sets_skip r (fun l => k (s :: l))
      | None => read_sets_skip r k
      end)
  end.

Definition handle_sdiff (argv : list string) : prog reply :=
  if (length argv <? 2)%nat then Ret RErr else
  let base := arg argv 1 in
  KeysExist (skipn 1 argv) (fun ex =>
  if negb (ex base) then Ret RErr else
  GetValues [base] (fun vals =>
  match as_set (vals base) with
  | None => Ret RErr
  | Some b => read_sets_skip (skipn 2 argv) (fun others => Ret (members_reply (b ∖ ⋃ others)))
  end)).

Definition handle_sdiffstore (argv : list string) : prog reply :=
  if (length argv <? 3)%nat then Ret RErr else
  let destination := arg argv 1 in
  let base := arg argv 2 in
  KeysExist (skipn 1 argv) (fun ex =>
  if negb (ex base) then Ret RErr else
  GetValues [base] (fun vals =>
  match as_set (vals base) with
  | None => Ret RErr
  | Some b =>
      read_sets_skip (skipn 3 argv) (fun others =>
      let diff := b ∖ ⋃ others in
      SetValues [(destination, VSet diff)] (fun ok => if ok then Ret (RInt (zsize diff)) else Ret RErr))
  end)).

(** [existingSets]: the keys in argument order; an absent key is noted, a key that holds something
    else ends the loop with an error. *)
Definition scan_result := option (list (gset string) * bool).
Fixpoint existing_sets {R} (ex : string -> bool) (ks : list string) (k : scan_result -> prog R) : prog R :=
  match ks with
  | [] => k (Some ([], false))
  | key :: r =>
      if negb (ex key) then
        existing_sets ex r (fun res => k (match res with Some (l, _) => Some (l, true) | None => None end))
      else
        GetValues [key] (fun vals =>
        match as_set (vals key) with
        | None => k None
        | Some s => existing_sets ex r (fun res => k (match res with Some (l, mi) => Some (s :: l, mi) | None => None end))
        end)
  end.

Definition handle_sinter (argv : list string) : prog reply :=
  if (length argv <? 2)%nat then Ret RErr else
  let keys := skipn 1 argv in
  KeysExist keys (fun ex =>
  existing_sets ex keys (fun res =>
  match res with
  | None => Ret RErr
  | Some (sets, missing) => if missing then Ret (RArr []) else Ret (members_reply (inter_all sets))
  end)).

(** Position of the first argument (after the command word) that reads [limit], any case. *)
Fixpoint index_fold (w : string) (l : list string) : option nat :=
  match l with
  | [] => None
  | x :: r => if eq_fold x w then Some O else S <$> index_fold w r
  end.

(** Keys and limit of SINTERCARD ([sintercardKeyFunc] + the option parsing of the handler): the keys
    are the arguments before the first [limit]; there must be one; the limit is the integer that
    follows the keyword (anything after it is ignored); no keyword means no limit (0). *)
Definition sintercard_args (args : list string) : option (list string * Z) :=
  match index_fold "limit" args with
  | None => Some (args, 0)
  | Some O => None
  | Some i =>
      if (length args <=? i + 1)%nat then None
      else match adapt_int (nth (i + 1) args "") with
           | None => None
           | Some l => Some (firstn i args, l)
           end
  end.

Definition handle_sintercard (argv : list string) : prog reply :=
  if (length argv <? 2)%nat then Ret RErr else
  match sintercard_args (skipn 1 argv) with
  | None => Ret RErr
  | Some (keys, limit) =>
      KeysExist keys (fun ex =>
      existing_sets ex keys (fun res =>
      match res with
      | None => Ret RErr
      | Some (sets, missing) =>
          if missing then Ret (RInt 0) else
          let card := zsize (inter_all sets) in
          Ret (RInt (if (0 <? limit) && (limit <? card) then limit else card))
      end))
  end.

Definition handle_sinterstore (argv : list string) : prog reply :=
  if (length argv <? 3)%nat then Ret RErr else
  let destination := arg argv 1 in
  let keys := skipn 2 argv in
  KeysExist keys (fun ex =>
  existing_sets ex keys (fun res =>
  match res with
  | None => Ret RErr
  | Some (sets, missing) =>
      let inter := if missing then ∅ else inter_all sets in
      SetValues [(destination, VSet inter)] (fun ok => if ok then Ret (RInt (zsize inter)) else Ret RErr)
  end)).

Definition handle_sismember (argv : list string) : prog reply :=
  if negb (length argv =? 3)%nat then Ret RErr else
  let key := arg argv 1 in
  KeysExist (skipn 1 argv) (fun ex =>
  if negb (ex key) then Ret (RInt 0) else
  GetValues [key] (fun vals =>
  match as_set (vals key) with
  | None => Ret RErr
  | Some s => Ret (RInt (if mem_set (arg argv 2) s then 1 else 0))
  end)).

Definition handle_smembers (argv : list string) : prog reply :=
  if negb (length argv =? 2)%nat then Ret RErr else
  let key := arg argv 1 in
  KeysExist [key] (fun ex =>
  if negb (ex key) then Ret (RArr []) else
  GetValues [key] (fun vals =>
  match as_set (vals key) with
  | None => Ret RErr
  | Some s => Ret (members_reply s)
  end)).

Definition handle_smismember (argv : list string) : prog reply :=
  if (length argv <? 3)%nat then Ret RErr else
  let key := arg argv 1 in
  let members := skipn 2 argv in
  KeysExist [key] (fun ex =>
  if negb (ex key) then Ret (RArr (map (fun _ => RInt 0) members)) else
  GetValues [key] (fun vals =>
  match as_set (vals key) with
  | None => Ret RErr
  | Some s => Ret (RArr (map (fun x => RInt (if mem_set x s then 1 else 0)) members))
  end)).

Definition handle_smove (argv : list string) : prog reply :=
  if negb (length argv =? 4)%nat then Ret RErr else
  let source := arg argv 1 in
  let destination := arg argv 2 in
  let member := arg argv 3 in
  KeysExist [source; destination] (fun ex =>
  if negb (ex source) then Ret (RInt 0) else
  GetValues [source; destination] (fun vals =>
  match as_set (vals source) with
  | None => Ret RErr
  | Some ss =>
      let move (ds : gset string) :=
        if negb (mem_set member ss) then Ret (RInt 0)
        else WriteBack [(source, VSet (ss ∖ {[member]})); (destination, VSet (ds ∪ {[member]}))]
                       (Ret (RInt 1)) in
      match as_set (vals destination) with
      | Some ds => move ds
      | None =>
          if ex destination then Ret RErr
          else if negb (mem_set member ss) then Ret (RInt 0)
          else SetValues [(destination, VSet ∅)] (fun ok => if ok then move ∅ else Ret RErr)
      end
  end)).

(** SPOP / SRANDMEMBER: the count is parsed before the key is looked at. *)
Definition rand_count (argv : list string) : option Z :=
  if (length argv =? 3)%nat then adapt_int (arg argv 2) else Some 1.

Definition handle_spop (pick : picker) (argv : list string) : prog reply :=
  if (length argv <? 2)%nat || (3 <? length argv)%nat then Ret RErr else
  let key := arg argv 1 in
  KeysExist [key] (fun ex =>
  match rand_count argv with
  | None => Ret RErr
  | Some count =>
      if negb (ex key) then Ret RNilArr else
      GetValues [key] (fun vals =>
      match as_set (vals key) with
      | None => Ret RErr
      | Some s =>
          let members := pick s count in
          WriteBack [(key, VSet (s ∖ list_to_set members))] (Ret (bulks members))
      end)
  end).

Definition handle_srandmember (pick : picker) (argv : list string) : prog reply :=
  if (length argv <? 2)%nat || (3 <? length argv)%nat then Ret RErr else
  let key := arg argv 1 in
  KeysExist [key] (fun ex =>
  match rand_count argv with
  | None => Ret RErr
  | Some count =>
      if negb (ex key) then Ret RNilArr else
      GetValues [key] (fun vals =>
      match as_set (vals key) with
      | None => Ret RErr
      | Some s => Ret (bulks (pick s count))
      end)
  end).

Definition handle_srem (argv : list string) : prog reply :=
  if (length argv <? 3)%nat then Ret RErr else
  let key := arg argv 1 in
  let gone := list_to_set (skipn 2 argv) : gset string in
  KeysExist [key] (fun ex =>
  if negb (ex key) then Ret (RInt 0) else
  GetValues [key] (fun vals =>
  match as_set (vals key) with
  | None => Ret RErr
  | Some s => WriteBack [(key, VSet (s ∖ gone))] (Ret (RInt (zsize (s ∩ gone))))
  end)).

(** The loop of SUNION / SUNIONSTORE over the values read in one [GetValues]: absent keys are
    skipped, anything that is not a set is an error. *)
Fixpoint union_collect (ex : string -> bool) (vals : string -> option value) (ks : list string)
  : option (list (gset string)) :=
  match ks with
  | [] => Some []
  | key :: r =>
      if negb (ex key) then union_collect ex vals r
      else match as_set (vals key) with
           | None => None
           | Some s => cons s <$> union_collect ex vals r
           end
  end.

Definition handle_sunion (argv : list string) : prog reply :=
  if (length argv <? 2)%nat then Ret RErr else
  let keys := skipn 1 argv in
  KeysExist keys (fun ex =>
  GetValues keys (fun vals =>
  match union_collect ex vals keys with
  | None => Ret RErr
  | Some sets => Ret (members_reply (⋃ sets))
  end)).

Definition handle_sunionstore (argv : list string) : prog reply :=
  if (length argv <? 3)%nat then Ret RErr else
  let destination := arg argv 1 in
  let keys := skipn 2 argv in
  KeysExist keys (fun ex =>
  GetValues keys (fun vals =>
  match union_collect ex vals keys with
  | None => Ret RErr
  | Some sets =>
      let union := ⋃ sets in
      SetValues [(destination, VSet union)] (fun ok => if ok then Ret (RInt (zsize union)) else Ret RErr)
  end)).

Definition set_handler (pick : picker) (name : string) : option (list string -> prog reply) :=
  if String.eqb name "sadd" then Some handle_sadd
  else if String.eqb name "scard" then Some handle_scard
  else if String.eqb name "sdiff" then Some handle_sdiff
  else if String.eqb name "sdiffstore" then Some handle_sdiffstore
  else if String.eqb name "sinter" then Some handle_sinter
  else if String.eqb name "sintercard" then Some handle_sintercard
  else if String.eqb name "sinterstore" then Some handle_sinterstore
  else if String.eqb name "sismember" then Some handle_sismember
  else if String.eqb name "smembers" then Some handle_smembers
  else if String.eqb name "smismember" then Some handle_smismember
  else if String.eqb name "smove" then Some handle_smove
  else if String.eqb name "spop" then Some (handle_spop pick)
  else if String.eqb name "srandmember" then Some (handle_srandmember pick)
  else if String.eqb name "srem" then Some handle_srem
  else if String.eqb name "sunion" then Some handle_sunion
  else if String.eqb name "sunionstore" then Some handle_sunionstore
  else None.
