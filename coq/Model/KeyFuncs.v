(** The [KeyExtractionFunc] of every registered command and sub-command
    ([internal/modules/*/key_funcs.go] and the inline functions of the acl / admin / connection /
    pubsub tables), as one total Gallina function.  Most functions are "arity check, then slices of
    the argument vector"; the few that look for an option word are written out.  The obligation
    [key_extract_agrees] ([Proofs/TableObligations.v]) evaluates this function on every row of the
    regenerated [Gen/KeyExtract.v]. *)
From Coq Require Import String List Bool Arith.
From EV Require Import Base.Str Model.TableTypes.
Import ListNotations.
Local Open Scope string_scope.
Local Open Scope nat_scope.

(** [cmd[a:b]] of Go for [a <= b <= len]; [SFrom a] is [cmd[a:]]. *)
Inductive kslice := SNo | SRange (a b : nat) | SFrom (a : nat).

Definition take_slice (s : kslice) (cmd : list string) : list string :=
  match s with
  | SNo => []
  | SRange a b => firstn (b - a) (skipn a cmd)
  | SFrom a => skipn a cmd
  end.

(** [lo <= len(cmd)] and ([hi = 0] or [len(cmd) <= hi]); then channels / read keys / write keys. *)
Record kshape := Ks { ks_lo : nat; ks_hi : nat; ks_ch : kslice; ks_rd : kslice; ks_wr : kslice }.

Definition apply_shape (k : kshape) (cmd : list string) : kx_res :=
  let n := length cmd in
  if (ks_lo k <=? n) && ((ks_hi k =? 0) || (n <=? ks_hi k)) then
    KxOk (take_slice (ks_ch k) cmd) (take_slice (ks_rd k) cmd) (take_slice (ks_wr k) cmd)
  else KxErr.

Definition nokeys := Ks 0 0 SNo SNo SNo.
Definition rd1 lo hi := Ks lo hi SNo (SRange 1 2) SNo.      (* ReadKeys: cmd[1:2] *)
Definition wr1 lo hi := Ks lo hi SNo SNo (SRange 1 2).      (* WriteKeys: cmd[1:2] *)
Definition rdall lo := Ks lo 0 SNo (SFrom 1) SNo.           (* ReadKeys: cmd[1:] *)
Definition store lo := Ks lo 0 SNo (SFrom 2) (SRange 1 2).  (* destination, then sources *)

(** index of the first element satisfying [p] ([slices.IndexFunc]) *)
Fixpoint index_of (p : string -> bool) (l : list string) : option nat :=
  match l with
  | [] => None
  | x :: r => if p x then Some 0 else option_map S (index_of p r)
  end.

Definition is_word (ws : list string) (s : string) : bool := existsb (eq_fold s) ws.
Definition zopt := is_word ["weights"; "aggregate"; "withscores"].

(** [msetKeyFunc]: the arguments come in pairs; the keys are the even ones. *)
Fixpoint evens (l : list string) : list string :=
  match l with
  | x :: _ :: r => x :: evens r
  | [x] => [x]
  | [] => []
  end.

Definition kx_mset (cmd : list string) : kx_res :=
  if Nat.even (length (tl cmd)) then KxOk [] [] (evens (tl cmd)) else KxErr.

(** [sintercardKeyFunc] / [zdiffKeyFunc]: keys up to the first LIMIT / WITHSCORES (searched in the
    whole vector, command word included). *)
Definition kx_upto (w : string) (cmd : list string) : kx_res :=
  if length cmd <? 2 then KxErr else
  match index_of (eq_fold w) cmd with
  | None => KxOk [] (skipn 1 cmd) []
  | Some i => KxOk [] (firstn (i - 1) (skipn 1 cmd)) []
  end.

(** [zinterKeyFunc] / [zunionKeyFunc]: the keys are the arguments before the first option word
    (the index is taken in [cmd[1:]]). *)
Definition kx_zinter (cmd : list string) : kx_res :=
  if length cmd <? 2 then KxErr else
  match index_of zopt (tl cmd) with
  | None => KxOk [] (skipn 1 cmd) []
  | Some e => if 1 <=? e then KxOk [] (firstn e (skipn 1 cmd)) [] else KxErr
  end.

(** [zinterstoreKeyFunc] / [zunionstoreKeyFunc] *)
Definition kx_zstore (cmd : list string) : kx_res :=
  if length cmd <? 3 then KxErr else
  match index_of zopt (tl cmd) with
  | None => KxOk [] (skipn 2 cmd) (firstn 1 (skipn 1 cmd))
  | Some e => if 2 <=? e then KxOk [] (firstn (e + 1 - 2) (skipn 2 cmd)) (firstn 1 (skipn 1 cmd)) else KxErr
  end.

(** [zmpopKeyFunc] *)
Definition kx_zmpop (cmd : list string) : kx_res :=
  if length cmd <? 2 then KxErr else
  match index_of (fun s => existsb (String.eqb (upper s)) ["MIN"; "MAX"; "COUNT"]) cmd with
  | None => KxOk [] [] (skipn 1 cmd)
  | Some e => if 2 <=? e then KxOk [] [] (firstn (e - 1) (skipn 1 cmd)) else KxErr
  end.

Definition in_words (l : list string) (s : string) : bool := existsb (String.eqb s) l.

(** Top-level commands. *)
Definition key_extract_cmd (name : string) (cmd : list string) : kx_res :=
  if in_words ["acl"; "commands"; "command"; "save"; "lastsave"; "rewriteaof"; "module"; "auth"; "ping";
               "echo"; "hello"; "select"; "swapdb"; "flushall"; "flushdb"; "pubsub"] name
  then apply_shape nokeys cmd
  else if in_words ["get"; "expiretime"; "pexpiretime"; "ttl"; "pttl"; "type"; "objectfreq"; "objectidletime";
                    "hvals"; "hlen"; "hkeys"; "hgetall"; "llen"; "scard"; "smembers"; "zcard"; "strlen"] name
  then apply_shape (rd1 2 2) cmd
  else if in_words ["mget"; "touch"; "sdiff"; "sinter"; "sunion"] name then apply_shape (rdall 2) cmd
  else if in_words ["persist"; "incr"; "decr"] name then apply_shape (wr1 2 2) cmd
  else if in_words ["expire"; "pexpire"; "expireat"; "pexpireat"] name then apply_shape (wr1 3 4) cmd
  else if in_words ["incrby"; "incrbyfloat"; "decrby"; "append"] name then apply_shape (wr1 3 3) cmd
  else if in_words ["hset"; "hsetnx"; "zadd"] name then apply_shape (wr1 4 0) cmd
  else if in_words ["hget"; "hmget"; "hstrlen"; "smismember"; "zmscore"; "zrevrank"] name then apply_shape (rd1 3 0) cmd
  else if in_words ["hrandfield"; "zrandmember"] name then apply_shape (rd1 2 4) cmd
  else if in_words ["hincrbyfloat"; "hincrby"; "lset"; "ltrim"; "lrem"; "zincrby"; "zremrangebylex";
                    "zremrangebyrank"; "zremrangebyscore"; "setrange"] name then apply_shape (wr1 4 4) cmd
  else if in_words ["hexists"; "lindex"; "zscore"] name then apply_shape (rd1 3 3) cmd
  else if in_words ["hdel"; "lpush"; "lpushx"; "rpush"; "rpushx"; "sadd"; "srem"; "zrem"] name then apply_shape (wr1 3 0) cmd
  else if in_words ["lrange"; "zcount"; "zlexcount"; "substr"; "getrange"] name then apply_shape (rd1 4 4) cmd
  else if in_words ["sdiffstore"; "sinterstore"; "sunionstore"; "zdiffstore"] name then apply_shape (store 3) cmd
  else if in_words ["spop"; "zpopmax"; "zpopmin"] name then apply_shape (wr1 2 3) cmd
  else if in_words ["subscribe"; "psubscribe"] name then apply_shape (Ks 2 0 (SFrom 1) SNo SNo) cmd
  else if in_words ["unsubscribe"; "punsubscribe"] name then apply_shape (Ks 0 0 (SFrom 1) SNo SNo) cmd
  else if in_words ["zinterstore"; "zunionstore"] name then kx_zstore cmd
  else match name with
  | "set" => apply_shape (wr1 3 7) cmd
  | "mset" => kx_mset cmd
  | "del" => apply_shape (Ks 2 0 SNo SNo (SFrom 1)) cmd
  | "rename" => apply_shape (Ks 3 3 SNo SNo (SRange 1 3)) cmd
  | "randomkey" => apply_shape (Ks 1 1 SNo SNo SNo) cmd
  | "getdel" => apply_shape (Ks 2 2 SNo (SFrom 1) (SFrom 1)) cmd
  | "getex" => apply_shape (Ks 2 4 SNo (SRange 1 2) (SRange 1 2)) cmd
  | "lpop" | "rpop" => apply_shape (Ks 2 3 SNo SNo (SFrom 1)) cmd     (* the count is reported as a key *)
  | "lmove" => apply_shape (Ks 5 5 SNo SNo (SRange 1 3)) cmd
  | "publish" => apply_shape (Ks 3 3 (SRange 1 2) SNo SNo) cmd
  | "sismember" => apply_shape (Ks 3 3 SNo (SFrom 1) SNo) cmd        (* the member is reported as a key *)
  | "smove" => apply_shape (Ks 4 4 SNo SNo (SRange 1 3)) cmd
  | "srandmember" => apply_shape (rd1 2 3) cmd
  | "zrank" => apply_shape (rd1 3 4) cmd
  | "zrange" => apply_shape (rd1 4 10) cmd
  | "zrangestore" => apply_shape (Ks 5 11 SNo (SRange 2 3) (SRange 1 2)) cmd
  | "sintercard" => kx_upto "limit" cmd
  | "zdiff" => kx_upto "withscores" cmd
  | "zinter" => kx_zinter cmd
  | "zunion" => kx_zinter cmd
  | "zmpop" => kx_zmpop cmd
  | _ => KxNone
  end.

(** Sub-commands: none extracts a key; PUBSUB NUMSUB names channels. *)
Definition key_extract_sub (name sub : string) (cmd : list string) : kx_res :=
  match name, sub with
  | "pubsub", "numsub" => apply_shape (Ks 0 0 (SFrom 2) SNo SNo) cmd
  | "pubsub", "channels" | "pubsub", "numpat" => apply_shape nokeys cmd
  | "acl", _ => if in_words ["cat"; "users"; "setuser"; "getuser"; "deluser"; "whoami"; "list"; "load"; "save"] sub
                then apply_shape nokeys cmd else KxNone
  | "command", _ => if in_words ["docs"; "count"; "list"] sub then apply_shape nokeys cmd else KxNone
  | "module", _ => if in_words ["load"; "unload"; "list"] sub then apply_shape nokeys cmd else KxNone
  | _, _ => KxNone
  end.

Definition key_extract (name sub : string) (cmd : list string) : kx_res :=
  if String.eqb sub "" then key_extract_cmd name cmd else key_extract_sub name sub cmd.
