(** C08: the max-memory machinery of [sugardb/keyspace.go] and [internal/eviction/{lru,lfu}.go].

    The two caches are kept as the code keeps them: a slice of entries plus the [keys] map that
    [Push] fills and [Pop] empties.  [container/heap] is modelled as "[Pop] removes an entry that is
    minimal for [Less]"; where several entries are minimal (equal stamps) a hint decides.  The slice
    order of the heap is not modelled: it is observable only through [slices.IndexFunc] (first entry
    with a key), i.e. only when a key has two entries, which [cache_wf] (proved an invariant in
    [Proofs/EvictProofs.v]) excludes.

    Stamps ([time.Now().UnixMilli()] in the Go code, not the injectable clock) are supplied from
    outside: every [updateKeysInCache] call receives its stamp as an argument.

    The state of [Model/Keyspace.v] is extended through the wrapper record [estate]. *)
From stdpp Require Import gmap strings.
From RecordUpdate Require Import RecordSet.
Import RecordSetNotations.
From EV Require Import Base.Str Model.Value Model.Keyspace Model.Reply Model.Prog.
Local Open Scope Z_scope.

Inductive policy :=
| NoEviction | AllKeysLFU | AllKeysLRU | AllKeysRandom | VolatileLFU | VolatileLRU | VolatileRandom.
Global Instance policy_eq_dec : EqDecision policy.
Proof. solve_decision. Defined.

(** [constants/const.go]; an unknown name behaves like none of the seven ([default: return nil]). *)
Definition policy_of_string (s : string) : option policy :=
  if String.eqb s "noeviction" then Some NoEviction
  else if String.eqb s "allkeys-lfu" then Some AllKeysLFU
  else if String.eqb s "allkeys-lru" then Some AllKeysLRU
  else if String.eqb s "allkeys-random" then Some AllKeysRandom
  else if String.eqb s "volatile-lfu" then Some VolatileLFU
  else if String.eqb s "volatile-lru" then Some VolatileLRU
  else if String.eqb s "volatile-random" then Some VolatileRandom
  else None.

Definition is_lfu (p : policy) : bool := match p with AllKeysLFU | VolatileLFU => true | _ => false end.
Definition is_lru (p : policy) : bool := match p with AllKeysLRU | VolatileLRU => true | _ => false end.
Definition is_volatile (p : policy) : bool :=
  match p with VolatileLFU | VolatileLRU | VolatileRandom => true | _ => false end.

(** * The heap-based caches, generically in the entry type *)
Section Cache.
  Context {E : Type} `{EqDecision E} (ekey : E -> string) (less : E -> E -> bool).

  Record cache := Cache { c_keys : gset string; c_ents : list E }.
  Definition c_empty : cache := Cache ∅ [].

  Definition has_key (k : string) (e : E) : bool := String.eqb (ekey e) k.
  (** [slices.IndexFunc(cache.entries, key == k)] *)
  Definition c_find (k : string) (l : list E) : option E := find (has_key k) l.

  Fixpoint remove_first_key (k : string) (l : list E) : list E :=
    match l with
    | [] => []
    | e :: r => if has_key k e then r else e :: remove_first_key k r
    end.
  Fixpoint update_first_key (k : string) (f : E -> E) (l : list E) : list E :=
    match l with
    | [] => []
    | e :: r => if has_key k e then f e :: r else e :: update_first_key k f r
    end.
  Fixpoint remove_first_ent (x : E) (l : list E) : list E :=
    match l with
    | [] => []
    | e :: r => if bool_decide (e = x) then r else e :: remove_first_ent x r
    end.

  (** [heap.Push]: appends; [record] says whether [Push] writes [cache.keys[key] = true]. *)
  Definition c_push (record : bool) (e : E) (c : cache) : cache :=
    Cache (if record then {[ekey e]} ∪ c_keys c else c_keys c) (c_ents c ++ [e]).

  (** [Delete]: [heap.Remove] of the first entry with the key, which ends in [Pop]'s
      [delete(cache.keys, key)]; nothing when there is no such entry. *)
  Definition c_delete (k : string) (c : cache) : cache :=
    match c_find k (c_ents c) with
    | Some _ => Cache (c_keys c ∖ {[k]}) (remove_first_key k (c_ents c))
    | None => c
    end.

  (** An entry is minimal when no entry is [Less] than it. *)
  Definition is_min (l : list E) (e : E) : bool := forallb (fun e' => negb (less e' e)) l.
  Fixpoint argmin (best : E) (l : list E) : E :=
    match l with
    | [] => best
    | e :: r => argmin (if less e best then e else best) r
    end.

  (** [heap.Pop]: an entry minimal for [Less] leaves the heap and [keys]; among several minimal ones
      the first whose key is in [prefer] is taken, else the one [argmin] finds. *)
  Definition c_pop (prefer : list string) (c : cache) : option (E * cache) :=
    match c_ents c with
    | [] => None
    | e0 :: r =>
        let v := match find (fun e => is_min (c_ents c) e && bool_decide (ekey e ∈ prefer)) (c_ents c) with
                 | Some e => e
                 | None => argmin e0 r
                 end in
        Some (v, Cache (c_keys c ∖ {[ekey v]}) (remove_first_ent v (c_ents c)))
    end.
End Cache.
Arguments cache : clear implicits.
Arguments Cache {E}. Arguments c_keys {E}. Arguments c_ents {E}. Arguments c_empty {E}.

(** [lru.go] *)
Record lru_ent := LruEnt { lru_key : string; lru_time : Z }.
Global Instance lru_ent_eq_dec : EqDecision lru_ent.
Proof. solve_decision. Defined.
(** [Less(i, j) = entries[i].unixTime > entries[j].unixTime]: the heap's minimum is the entry with
    the LARGEST stamp.  [newest_first = false] is the order the property and docs/eviction.md ask for
    (smallest stamp first); the code has [true]. *)
Definition lru_less (newest_first : bool) (a b : lru_ent) : bool :=
  if newest_first then lru_time b <? lru_time a else lru_time a <? lru_time b.

(** [lfu.go] *)
Record lfu_ent := LfuEnt { lfu_key : string; lfu_count : Z; lfu_added : Z }.
Global Instance lfu_ent_eq_dec : EqDecision lfu_ent.
Proof. solve_decision. Defined.
Definition lfu_less (a b : lfu_ent) : bool :=
  if lfu_count a =? lfu_count b then lfu_added b <? lfu_added a else lfu_count a <? lfu_count b.

(** [CacheLRU.Update]: push when [keys] does not have the key, then stamp the first entry with it. *)
Definition lru_update (now : Z) (k : string) (c : cache lru_ent) : cache lru_ent :=
  let c1 := if bool_decide (k ∈ c_keys c) then c else c_push lru_key true (LruEnt k now) c in
  Cache (c_keys c1) (update_first_key lru_key k (fun e => LruEnt (lru_key e) now) (c_ents c1)).

(** [CacheLFU.Update]: push with count 1 and return, else count + 1 on the first entry with the key. *)
Definition lfu_update (now : Z) (k : string) (c : cache lfu_ent) : cache lfu_ent :=
  if bool_decide (k ∈ c_keys c) then
    Cache (c_keys c) (update_first_key lfu_key k (fun e => LfuEnt (lfu_key e) (lfu_count e + 1) (lfu_added e)) (c_ents c))
  else c_push lfu_key true (LfuEnt k 1 now) c.

(** * The extended state *)
Record estate := EState {
  es_st : state;
  es_lru : gmap Z (cache lru_ent);     (* server.lruCache.cache *)
  es_lfu : gmap Z (cache lfu_ent);     (* server.lfuCache.cache *)
  es_policy : policy;                  (* config.EvictionPolicy *)
  es_newest_first : bool;              (* the direction of CacheLRU.Less: [true] in the code *)
}.
Global Instance eta_estate : Settable _ :=
  settable! EState <es_st; es_lru; es_lfu; es_policy; es_newest_first>.

Definition get_lru (es : estate) (d : Z) : cache lru_ent := default c_empty (es_lru es !! d).
Definition get_lfu (es : estate) (d : Z) : cache lfu_ent := default c_empty (es_lfu es !! d).
Definition set_lru (es : estate) (d : Z) (c : cache lru_ent) : estate := es <| es_lru := <[d := c]> (es_lru es) |>.
Definition set_lfu (es : estate) (d : Z) (c : cache lfu_ent) : estate := es <| es_lfu := <[d := c]> (es_lfu es) |>.

Definition init_estate (now : Z) (p : policy) (maxmem : Z) (newest_first : bool) : estate :=
  {| es_st := (init_state now) <| st_maxmem := maxmem |> <| st_noevict := bool_decide (p = NoEviction) |>;
     es_lru := ∅; es_lfu := ∅; es_policy := p; es_newest_first := newest_first |}.

(** The last part of [deleteKey] (reached only when the key is in the store): the cache of the
    configured policy forgets the key. *)
Definition cache_forget (es : estate) (d : Z) (k : string) : estate :=
  if is_lfu (es_policy es) then set_lfu es d (c_delete lfu_key k (get_lfu es d))
  else if is_lru (es_policy es) then set_lru es d (c_delete lru_key k (get_lru es d))
  else es.

Definition in_store (s : state) (d : Z) (k : string) : bool := bool_decide (is_Some (get_db s d !! k)).
Definition expired_in (s : state) (d : Z) (k : string) : bool :=
  match get_db s d !! k with Some e => expired (st_now s) e | None => false end.

(** [deleteKey] *)
Definition e_delete_key (es : estate) (d : Z) (k : string) : estate :=
  if in_store (es_st es) d k
  then cache_forget (es <| es_st := delete_key (es_st es) d k |>) d k
  else es.

(** [getValues]: the expired keys it meets go through [deleteKey]. *)
Definition e_get_values (es : estate) (d : Z) (ks : list string) : estate * (string -> option value) :=
  let '(s', f) := get_values (es_st es) d ks in
  (fold_left (fun es k => cache_forget es d k) (filter (expired_in (es_st es) d) ks) (es <| es_st := s' |>), f).

(** [setValues]: an expired entry that is overwritten goes through [deleteKey] first. *)
Definition e_set_values (es : estate) (d : Z) (kvs : list (string * value)) : estate * bool :=
  let '(s', ok) := set_values (es_st es) d kvs in
  if ok then
    (fold_left (fun es k => cache_forget es d k)
               (filter (expired_in (es_st es) d) (map fst (dedupe_last kvs))) (es <| es_st := s' |>), true)
  else (es, false).

(** [setExpiry]: a key whose deadline is removed also leaves the cache of a volatile policy. *)
Definition e_set_expiry (es : estate) (d : Z) (k : string) (t : option Z) : estate :=
  let es' := es <| es_st := set_expiry (es_st es) d k t |> in
  if in_store (es_st es) d k && negb (expired_in (es_st es) d k) && bool_decide (t = None) then
    match es_policy es with
    | VolatileLFU => set_lfu es' d (c_delete lfu_key k (get_lfu es' d))
    | VolatileLRU => set_lru es' d (c_delete lru_key k (get_lru es' d))
    | _ => es'
    end
  else es'.

(** [Flush]: both caches of every flushed database are emptied, whatever the policy. *)
Definition e_flush_db (es : estate) (d : Z) : estate :=
  match st_dbs (es_st es) !! d with
  | None => es
  | Some _ => set_lfu (set_lru (es <| es_st := flush_db (es_st es) d |>) d c_empty) d c_empty
  end.
Definition e_flush (es : estate) (d : Z) : estate :=
  if d =? -1 then fold_left e_flush_db (map fst (map_to_list (st_dbs (es_st es)))) es else e_flush_db es d.

(** * [adjustMemoryUsage] *)
Definition under_limit (es : estate) : bool := st_mem (es_st es) <? st_maxmem (es_st es).

(** One eviction: which key left which database, and the state just before. *)
Record evstep := EvStep { ev_db : Z; ev_key : string; ev_pre : estate; ev_post : estate }.

(** Hints resolve what the model cannot know: ties between minimal entries, the draw of the random
    policies, the order in which Go ranges over the databases. *)
Definition hints := list (Z * string).
Definition hint_keys (h : hints) (d : Z) : list string := map snd (filter (fun x => fst x =? d) h).

(** The four loops have one shape: stop with an error when there is nothing to choose from (heap /
    database / volatile index empty); choose a key (LFU, LRU: [heap.Pop], which takes the entry out of
    the heap; random: a draw); [deleteKey]; stop when the usage is under the limit.  One iteration per
    unit of fuel (the callers give the number of entries / keys, which each iteration decreases). *)
Fixpoint evict_loop (choose : estate -> option (string * estate)) (fuel : nat) (d : Z) (es : estate)
  : estate * bool * list evstep :=
  match choose es with
  | None => (es, false, [])
  | Some (k, es0) =>
      let es1 := e_delete_key es0 d k in
      let st := EvStep d k es es1 in
      if under_limit es1 then (es1, true, [st])
      else match fuel with
           | O => (es1, false, [st])
           | S n => let '(es2, ok, tr) := evict_loop choose n d es1 in (es2, ok, st :: tr)
           end
  end.

Definition choose_lfu (h : hints) (d : Z) (es : estate) : option (string * estate) :=
  match c_pop lfu_key lfu_less (hint_keys h d) (get_lfu es d) with
  | None => None
  | Some (v, c') => Some (lfu_key v, set_lfu es d c')
  end.
Definition choose_lru (h : hints) (d : Z) (es : estate) : option (string * estate) :=
  match c_pop lru_key (lru_less (es_newest_first es)) (hint_keys h d) (get_lru es d) with
  | None => None
  | Some (v, c') => Some (lru_key v, set_lru es d c')
  end.

(** The random policies: the candidates are the keys of the database / its volatile index; the draw
    is the first hinted key that is a candidate, else the first candidate. *)
Definition pick (prefer cands : list string) : option string :=
  match filter (fun k => bool_decide (k ∈ cands)) prefer with
  | k :: _ => Some k
  | [] => head cands
  end.
Definition random_cands (vol : bool) (d : Z) (es : estate) : list string :=
  if vol then get_vol (es_st es) d else sorted_keys (get_db (es_st es) d).
Definition choose_random (vol : bool) (h : hints) (d : Z) (es : estate) : option (string * estate) :=
  match pick (hint_keys h d) (random_cands vol d es) with
  | None => None
  | Some k => Some (k, es)
  end.

Definition adjust_memory_usage (h : hints) (d : Z) (es : estate) : estate * bool * list evstep :=
  if st_maxmem (es_st es) =? 0 then (es, true, [])
  else if under_limit es then (es, true, [])
  else match es_policy es with
       | AllKeysLFU | VolatileLFU => evict_loop (choose_lfu h d) (length (c_ents (get_lfu es d))) d es
       | AllKeysLRU | VolatileLRU => evict_loop (choose_lru h d) (length (c_ents (get_lru es d))) d es
       | AllKeysRandom => evict_loop (choose_random false h d) (size (get_db (es_st es) d)) d es
       | VolatileRandom => evict_loop (choose_random true h d) (length (get_vol (es_st es) d)) d es
       | NoEviction => (es, true, [])
       end.

(** * [updateKeysInCache] *)
Definition has_deadline (s : state) (d : Z) (k : string) : bool :=
  match get_db s d !! k with Some e => bool_decide (is_Some (e_dl e)) | None => false end.

Definition touch1 (now : Z) (d : Z) (es : estate) (k : string) : estate :=
  match es_policy es with
  | AllKeysLFU => set_lfu es d (lfu_update now k (get_lfu es d))
  | AllKeysLRU => set_lru es d (lru_update now k (get_lru es d))
  | VolatileLFU => if has_deadline (es_st es) d k then set_lfu es d (lfu_update now k (get_lfu es d)) else es
  | VolatileLRU => if has_deadline (es_st es) d k then set_lru es d (lru_update now k (get_lru es d)) else es
  | _ => es
  end.

(** Go ranges over [server.store]: the hinted databases first (in hint order), then the others. *)
Definition db_order (h : hints) (s : state) : list Z :=
  let dbs := Z_leb_sort (map fst (map_to_list (st_dbs s))) in
  let hd := remove_dups (filter (fun d => bool_decide (d ∈ dbs)) (map fst h)) in
  hd ++ filter (fun d => negb (bool_decide (d ∈ hd))) dbs.

Definition adjust_all (h : hints) (es : estate) : estate * bool * list evstep :=
  fold_left (fun '(es, ok, tr) d => let '(es', ok', tr') := adjust_memory_usage h d es in
                                    (es', ok && ok', tr ++ tr'))
            (db_order h (es_st es)) (es, true, []).

(** Result: the state, the touch counter, whether an eviction pass reported an error, the evictions. *)
Definition update_keys_in_cache (now : Z) (h : hints) (d : Z) (ks : list string) (es : estate)
  : estate * Z * bool * list evstep :=
  if st_maxmem (es_st es) =? 0 then (es, 0, true, [])
  else
    let present := filter (in_store (es_st es) d) ks in
    let es1 := fold_left (touch1 now d) present es in
    let '(es2, ok, tr) := adjust_all h es1 in
    (es2, Z.of_nat (length present), ok, tr).

(** * Programs over the extended state: as [run_seq], and the cache updates each primitive starts
    ([go updateKeysInCache]) are collected in the order they are started. *)
(** One goroutine: its database and the key lists of its [updateKeysInCache] calls, in order. *)
Definition spawn := (Z * list (list string))%type.

Fixpoint e_run {R} (d : Z) (p : prog R) (es : estate) (sp : list spawn) : estate * R * list spawn :=
  match p with
  | Ret r => (es, r, sp)
  | KeysExist ks k => e_run d (k (keys_exist (es_st es) d ks)) es sp
  | GetExpiry key k => e_run d (k (get_expiry (es_st es) d key)) es sp
  | GetValues ks k => let '(es', f) := e_get_values es d ks in e_run d (k f) es' (sp ++ [(d, [ks])])
  | SetValues kvs k =>
      let '(es', ok) := e_set_values es d kvs in
      e_run d (k ok) es' (if ok then sp ++ [(d, map (fun kv => [fst kv]) (dedupe_last kvs))] else sp)
  | SetExpiry key t touch k =>
      let live := in_store (es_st es) d key && negb (expired_in (es_st es) d key) in
      e_run d k (e_set_expiry es d key t) (if touch && live then sp ++ [(d, [[key]])] else sp)
  | DeleteKey key k => e_run d k (e_delete_key es d key) sp
  | Now k => e_run d (k (st_now (es_st es))) es sp
  | FlushDb k => e_run d k (e_flush es d) sp
  | FlushAll k => e_run d k (e_flush es (-1)) sp
  | GetDb k => e_run d (k d) es sp
  end.
