(** Pub/Sub: model of /repo/internal/modules/pubsub/{pubsub,channel,outbox,commands}.go (after the
    C18 fixes), one definition per Go function, same order of tests.

    The Go state:
    - [PubSub.channels]: a slice of channel objects in creation order, never shrinking.  An object is
      found by *name and kind* (plain channel / pattern); it carries the set of subscribed connections
      (a Go map: its iteration order is never observable here, see [publish_pushes]).
    - [PubSub.outboxes]: one ordered, unbounded queue per connection that ever subscribed; a single
      goroutine per queue writes its frames, one at a time, to the connection ([EWrite]).
    What the runtime decides (when a writer goroutine runs) is the scheduler's choice of [EWrite]
    events in a history; everything else is a function.

    Glob matching (github.com/gobwas/glob) is a parameter of the model: [glob_ok p] says that the
    pattern compiles, [glob_match p s] that it matches.  [Glob.v]-style executable instance for the
    fragment literal / [*] / [?] at the end of this file. *)
From Coq Require Import String List Bool Arith ZArith.
From EV Require Import Base.Str Model.Reply.
Import ListNotations.
Local Open Scope string_scope.
Local Open Scope list_scope.

Definition conn := nat.

(** What the module writes to a connection on its own. *)
Inductive frame :=
| FConfirm (action name : string) (count : nat)     (* [action, name, count] *)
| FMsg (name payload : string).                      (* ["message", name, payload] *)

Record chan := MkChan { ch_name : string; ch_pat : bool; ch_subs : list conn }.

Record ps := MkPS {
  table : list chan;
  outbox : conn -> list frame;      (* queued, not yet written; head = next to be written *)
  received : conn -> list frame;    (* written to the connection, oldest first *)
}.

Definition ps_init : ps := MkPS [] (fun _ => []) (fun _ => []).

Inductive event :=
| ESub (pat : bool) (c : conn) (names : list string)      (* SUBSCRIBE / PSUBSCRIBE *)
| EUnsub (pat : bool) (c : conn) (names : list string)    (* UNSUBSCRIBE / PUNSUBSCRIBE *)
| EPublish (c : conn) (chn msg : string)                  (* PUBLISH by connection c *)
| EChannels (arg : option string)                         (* PUBSUB CHANNELS [pattern] *)
| ENumPat
| ENumSub (names : list string)
| EWrite (c : conn)                                       (* c's writer goroutine writes one frame *)
| EClose (c : conn).                                      (* the client of connection c goes away *)

Definition mem (c : conn) (l : list conn) : bool := existsb (Nat.eqb c) l.
Definition smem (s : string) (l : list string) : bool := existsb (String.eqb s) l.
Definition is_nil {A} (l : list A) : bool := match l with [] => true | _ => false end.

Definition fupd {A} (f : conn -> A) (c : conn) (v : A) : conn -> A :=
  fun c' => if Nat.eqb c' c then v else f c'.

Section WithGlob.
Variable glob_ok : string -> bool.
Variable glob_match : string -> string -> bool.   (* pattern, text *)

(** [slices.IndexFunc(ps.channels, name == n && (pattern != nil) == withPattern)] *)
Definition same_obj (name : string) (pat : bool) (ch : chan) : bool :=
  String.eqb (ch_name ch) name && Bool.eqb (ch_pat ch) pat.

(** [Channel.Subscribe]: the subscriber map gains the connection unless it is there. *)
Definition add_sub (c : conn) (ch : chan) : chan :=
  if mem c (ch_subs ch) then ch else MkChan (ch_name ch) (ch_pat ch) (ch_subs ch ++ [c]).

(** One iteration of the loop in [PubSub.Subscribe]: find the object or append a new one, subscribe. *)
Fixpoint sub_in (name : string) (pat : bool) (c : conn) (t : list chan) : list chan :=
  match t with
  | [] => [MkChan name pat [c]]
  | ch :: t' => if same_obj name pat ch then add_sub c ch :: t' else ch :: sub_in name pat c t'
  end.

(** [PubSub.subscriptionCount] *)
Definition sub_count (c : conn) (t : list chan) : nat :=
  length (filter (fun ch => mem c (ch_subs ch)) t).

Definition sub_action (pat : bool) : string := if pat then "psubscribe" else "subscribe".
Definition unsub_action (pat : bool) : string := if pat then "punsubscribe" else "unsubscribe".

(** The loop: table after, confirmations queued (in argument order). *)
Fixpoint subscribe_loop (pat : bool) (c : conn) (names : list string) (t : list chan)
  : list chan * list frame :=
  match names with
  | [] => (t, [])
  | n :: rest =>
      let t1 := sub_in n pat c t in
      let f := FConfirm (sub_action pat) n (sub_count c t1) in
      let '(t2, fs) := subscribe_loop pat c rest t1 in
      (t2, f :: fs)
  end.

(** [PubSub.Unsubscribe]: objects of the right kind, named (or all when no name is given), that
    have the connection; table order. *)
Definition unsub_pick (pat : bool) (c : conn) (names : list string) (ch : chan) : bool :=
  Bool.eqb (ch_pat ch) pat && (is_nil names || smem (ch_name ch) names) && mem c (ch_subs ch).

Definition remove_sub (c : conn) (ch : chan) : chan :=
  MkChan (ch_name ch) (ch_pat ch) (filter (fun x => negb (Nat.eqb c x)) (ch_subs ch)).

Definition unsub_table (pat : bool) (c : conn) (names : list string) (t : list chan) : list chan :=
  map (fun ch => if unsub_pick pat c names ch then remove_sub c ch else ch) t.

Definition unsub_dropped (pat : bool) (c : conn) (names : list string) (t : list chan) : list string :=
  map ch_name (filter (unsub_pick pat c names) t).

Fixpoint number_from (i : nat) (action : string) (l : list string) : list reply :=
  match l with
  | [] => []
  | n :: l' => RArr [RSimple action; RBulk n; RInt (Z.of_nat i)] :: number_from (S i) action l'
  end.

Definition unsub_reply (pat : bool) (dropped : list string) : reply :=
  RArr (number_from 1 (unsub_action pat) dropped).

(** [PubSub.Publish]: first the plain channel with that name, then the patterns that match, both in
    table order; every connection is queued the message once, under the name of the first object
    through which it is reached.  The order in which the subscribers of one object are visited (a Go
    map) only permutes pushes to *different* queues. *)
Definition pub_matches (chn : string) (ch : chan) : bool :=
  if ch_pat ch then glob_match (ch_name ch) chn else String.eqb (ch_name ch) chn.

Definition pub_objs (chn : string) (t : list chan) : list chan :=
  filter (fun ch => negb (ch_pat ch) && pub_matches chn ch) t ++
  filter (fun ch => ch_pat ch && pub_matches chn ch) t.

Fixpoint pushes_of (name msg : string) (subs : list conn) (seen : list conn)
  : list (conn * frame) * list conn :=
  match subs with
  | [] => ([], seen)
  | c :: rest =>
      if mem c seen then pushes_of name msg rest seen
      else let '(ps, seen') := pushes_of name msg rest (c :: seen) in ((c, FMsg name msg) :: ps, seen')
  end.

Fixpoint publish_walk (msg : string) (objs : list chan) (seen : list conn) : list (conn * frame) :=
  match objs with
  | [] => []
  | ch :: rest =>
      let '(ps, seen') := pushes_of (ch_name ch) msg (ch_subs ch) seen in
      ps ++ publish_walk msg rest seen'
  end.

Definition publish_pushes (chn msg : string) (t : list chan) : list (conn * frame) :=
  publish_walk msg (pub_objs chn t) [].

(** [outbox.push] *)
Definition push (ob : conn -> list frame) (c : conn) (f : frame) : conn -> list frame :=
  fupd ob c (ob c ++ [f]).
Definition push_all (ob : conn -> list frame) (l : list (conn * frame)) : conn -> list frame :=
  fold_left (fun ob cf => push ob (fst cf) (snd cf)) l ob.
Definition push_frames (ob : conn -> list frame) (c : conn) (fs : list frame) : conn -> list frame :=
  fupd ob c (ob c ++ fs).

(** Introspection. *)
Definition active (ch : chan) : bool := negb (is_nil (ch_subs ch)).

Definition m_channels (arg : option string) (t : list chan) : reply :=
  let all := RArr (map (fun ch => RBulk (ch_name ch)) (filter active t)) in
  match arg with
  | None => all
  | Some "" => all
  | Some p =>
      if glob_ok p then
        RArr (map (fun ch => RBulk (ch_name ch))
                (filter (fun ch => ((ch_pat ch && String.eqb (ch_name ch) p) || glob_match p (ch_name ch))
                                   && active ch) t))
      else RErr
  end.

Definition m_numpat (t : list chan) : reply :=
  RInt (Z.of_nat (length (filter (fun ch => ch_pat ch && active ch) t))).

Definition numsub_of (n : string) (t : list chan) : nat :=
  fold_right (fun ch acc => if String.eqb (ch_name ch) n then length (ch_subs ch) + acc else acc) 0 t.

Definition m_numsub (names : list string) (t : list chan) : reply :=
  RArr (map (fun n => RArr [RBulk n; RInt (Z.of_nat (numsub_of n t))]) names).

(** One event.  The reply is what the handler returns ([REmpty]: nothing, the confirmations travel
    through the connection's queue). *)
Definition m_step (s : ps) (e : event) : ps * reply :=
  match e with
  | ESub pat c names =>
      if is_nil names then (s, RErr)
      else if pat && negb (forallb glob_ok names) then (s, RErr)
      else
        let '(t', fs) := subscribe_loop pat c names (table s) in
        (MkPS t' (push_frames (outbox s) c fs) (received s), REmpty)
  | EUnsub pat c names =>
      (MkPS (unsub_table pat c names (table s)) (outbox s) (received s),
       unsub_reply pat (unsub_dropped pat c names (table s)))
  | EPublish _ chn msg =>
      (MkPS (table s) (push_all (outbox s) (publish_pushes chn msg (table s))) (received s), ROk)
  | EChannels arg => (s, m_channels arg (table s))
  | ENumPat => (s, m_numpat (table s))
  | ENumSub names => (s, m_numsub names (table s))
  | EWrite c =>
      match outbox s c with
      | [] => (s, REmpty)
      | f :: q => (MkPS (table s) (fupd (outbox s) c q) (fupd (received s) c (received s c ++ [f])), REmpty)
      end
  | EClose _ => (s, REmpty)     (* handleConnection closes the socket and leaves the table alone *)
  end.

Fixpoint m_run (s : ps) (evs : list event) : ps * list reply :=
  match evs with
  | [] => (s, [])
  | e :: rest =>
      let '(s1, r) := m_step s e in
      let '(s2, rs) := m_run s1 rest in
      (s2, r :: rs)
  end.

End WithGlob.

(** * The executable glob fragment: literal characters, [?] (one character), [*] (any sequence), and brace
    alternatives [{a,b}] (below).  A pattern outside the fragment: [glob_ok_frag] says no, and the generators only
    emit such a pattern when gobwas/glob refuses it too ("[", "a[", "{"). *)
Fixpoint glob_chars (fuel : nat) (p t : list Ascii.ascii) : bool :=
  match fuel with
  | O => false
  | S fuel' =>
      match p with
      | [] => is_nil t
      | "*"%char :: p' =>
          glob_chars fuel' p' t ||
          match t with [] => false | _ :: t' => glob_chars fuel' p t' end
      | "?"%char :: p' => match t with [] => false | _ :: t' => glob_chars fuel' p' t' end
      | a :: p' => match t with [] => false | b :: t' => Ascii.eqb a b && glob_chars fuel' p' t' end
      end
  end.

(** Brace alternatives [{a,b,…}] (gobwas/glob "pattern lists"; not nested here): the pattern is expanded into the list of
    its alternatives before matching.  [None]: outside the fragment (a brace that is not closed, a nested brace, a comma
    or a closing brace outside a group, or one of [ ] \ !). *)
Fixpoint brace_alts (cs cur : list Ascii.ascii) (acc : list (list Ascii.ascii))
  : option (list (list Ascii.ascii) * list Ascii.ascii) :=
  match cs with
  | [] => None
  | "}"%char :: r => Some (rev (rev cur :: acc), r)
  | ","%char :: r => brace_alts r [] (rev cur :: acc)
  | "{"%char :: _ => None
  | c :: r => brace_alts r (c :: cur) acc
  end.

Definition other_special (a : Ascii.ascii) : bool :=
  existsb (Ascii.eqb a) ["["; "]"; "\"; "!"]%char.

Fixpoint expand_braces (fuel : nat) (p : list Ascii.ascii) : option (list (list Ascii.ascii)) :=
  match fuel with
  | O => None
  | S f =>
      match p with
      | [] => Some [[]]
      | "{"%char :: r =>
          match brace_alts r [] [] with
          | Some (alts, rest) =>
              match expand_braces f rest with
              | Some tails => Some (flat_map (fun a => map (app a) tails) alts)
              | None => None
              end
          | None => None
          end
      | "}"%char :: _ | ","%char :: _ => None
      | c :: r => if other_special c then None
                  else match expand_braces f r with Some l => Some (map (cons c) l) | None => None end
      end
  end.

Definition expand_pattern (p : string) : option (list (list Ascii.ascii)) :=
  expand_braces (S (length (chars p))) (chars p).

Definition glob_match_frag (p t : string) : bool :=
  let tc := chars t in
  match expand_pattern p with
  | Some alts => existsb (fun pc => glob_chars (S (length pc + length tc)) pc tc) alts
  | None => false
  end.

Definition special_char (a : Ascii.ascii) : bool :=
  existsb (Ascii.eqb a) ["["; "]"; "{"; "}"; "\"; "!"; ","]%char.

Definition glob_ok_frag (p : string) : bool :=
  match expand_pattern p with Some _ => true | None => false end.
