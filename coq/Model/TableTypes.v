(** Row types of the tables regenerated from the repository ([coq/Gen/*.v], written by
    [harness/tabledump]) and the result type of key extraction. *)
From Coq Require Import String List Bool.
Import ListNotations.
Local Open Scope string_scope.

(** One registered command ([cr_sub = ""]) or sub-command. *)
Record cmd_row := CmdRow {
  cr_name : string;          (* Command.Command *)
  cr_sub : string;           (* SubCommand.Command, "" for a top-level command *)
  cr_module : string;
  cr_cats : list string;
  cr_sync : bool;
  cr_has_sub : bool;         (* len(SubCommands) > 0 *)
  cr_has_handler : bool;     (* HandlerFunc != nil *)
}.

(** Result of a [KeyExtractionFunc]: channels, read keys, write keys; an error; a panic; or no such
    function. *)
Inductive kx_res :=
| KxOk (channels reads writes : list string)
| KxErr
| KxPanic
| KxNone.

Record kx_row := KxRow { kr_name : string; kr_sub : string; kr_argv : list string; kr_res : kx_res }.

Definition list_string_eqb (a b : list string) : bool :=
  if list_eq_dec string_dec a b then true else false.

Lemma list_string_eqb_eq a b : list_string_eqb a b = true <-> a = b.
Proof. unfold list_string_eqb. destruct (list_eq_dec string_dec a b); split; congruence. Qed.

Definition kx_res_eqb (a b : kx_res) : bool :=
  match a, b with
  | KxOk c r w, KxOk c' r' w' => list_string_eqb c c' && list_string_eqb r r' && list_string_eqb w w'
  | KxErr, KxErr | KxPanic, KxPanic | KxNone, KxNone => true
  | _, _ => false
  end.

Lemma kx_res_eqb_eq a b : kx_res_eqb a b = true <-> a = b.
Proof.
  destruct a, b; simpl; try (split; congruence).
  rewrite !andb_true_iff, !list_string_eqb_eq. split; [intros [[-> ->] ->]; reflexivity | intros [= -> -> ->]; auto].
Qed.

Definition has_cat (c : string) (r : cmd_row) : bool := existsb (String.eqb c) (cr_cats r).
Definition is_write_row := has_cat "write".
Definition is_read_row := has_cat "read".

(** The name AuthorizeConnection compares with the command rules: "cmd" or "cmd|sub". *)
Definition comm_of (r : cmd_row) : string :=
  if String.eqb (cr_sub r) "" then cr_name r else cr_name r ++ "|" ++ cr_sub r.
