(** The append-only log of a standalone server: what a logged write does to the file
    ([internal/aof/log/store.go] Write), what start-up reads back ([Engine.Restore]: preamble, then
    the log through the replay closure of [sugardb.NewSugarDB]), and the rewrite
    ([Engine.RewriteLog] = [CreatePreamble] then [Truncate]) as its sequence of file steps.
    The model follows the code *with* the fixes proposed in fixes/ (SELECT marker length, database of
    logged and replayed commands, torn tail dropped at restore, no SELECT -1 header). *)
From stdpp Require Import gmap strings.
From RecordUpdate Require Import RecordSet.
Import RecordSetNotations.
From EV Require Import Base.Str Model.Value Model.Keyspace Model.Reply Model.Prog Model.Dispatch.
From EV Require Import Model.Resp Model.Disk.
From EV Require Import Model.TableTypes Gen.CmdTable Model.SnapCodec.
Local Open Scope Z_scope.

Inductive policy := Always | EverySec | NoSync.

(** The commands whose table entry carries the write category ([internal.IsWriteCommand]): read off the
    command table regenerated from the code on every run ([Gen/CmdTable.v]). *)
Definition write_words : list string :=
  map cr_name (filter (fun r => is_write_row r && String.eqb (cr_sub r) "") cmd_table).
Definition is_write (argv : list string) : bool :=
  match argv with
  | [] => false
  | c :: _ => bool_decide (lower c ∈ write_words)
  end.

(** A command run in database [d] (the caller's selected database; at replay, the database of the
    preceding SELECT marker). *)
Definition exec_db (s : state) (d : Z) (argv : list string) : state * reply :=
  let '(w, r) := exec_cmd {| w_st := s; w_conns := {[0 := d]} |} 0 argv in (w_st w, r).

(** [handleCommand]: logged iff write category and the handler did not fail. *)
Definition logged (argv : list string) (r : reply) : bool := is_write argv && negb (is_err r).

(** * Writing *)
Definition db_text (d : Z) : string := of_chars (show_len (Z.to_nat d)).
(** [selectMarker]: "*2\r\n$6\r\nSELECT\r\n$<len>\r\n<index>\r\n". *)
Definition select_cmd (d : Z) : list string := ["SELECT"; db_text d].
Definition select_marker (d : Z) : bytes := encode_cmd (select_cmd d).

(** The file operations of [Store.Write database command] when [cur] is the store's
    [currentDatabase]. *)
Definition write_ops (pol : policy) (cur d : Z) (argv : list string) : list fop :=
  (if d =? cur then [] else [OpWrite (select_marker d)]) ++ [OpWrite (encode_cmd argv)] ++
  match pol with Always => [OpSync] | _ => [] end.

Record aof := Aof { a_log : file; a_cur : Z }.
Definition aof_fresh : aof := Aof empty_file (-1).
Definition aof_write (pol : policy) (a : aof) (d : Z) (argv : list string) : aof :=
  Aof (apply_ops (a_log a) (write_ops pol (a_cur a) d argv)) d.

(** * Reading back *)
(** The preamble file: absent/empty, a complete image of the keyspace, or a strict non-empty prefix
    of one (which [json.Unmarshal] rejects: assumption, checked by the harness at sampled offsets). *)
Inductive pre_file := PreEmpty | PreTorn | PreFull (snap : gmap Z dbmap).

(** [preamble.Store.Restore]: every entry that has not expired is stored with [setValues] and then
    [setExpiry] (a zero time removes the deadline). *)
Definition load_entry (d : Z) (s : state) (ke : string * entry) : state :=
  let '(k, e) := ke in
  if expired (st_now s) e then s
  else set_expiry (fst (set_values s d [(k, e_val e)])) d k (e_dl e).
Definition load_db (s : state) (ddb : Z * dbmap) : state :=
  fold_left (load_entry (fst ddb)) (map_to_list (snd ddb)) s.
Definition load_snapshot (s : state) (snap : gmap Z dbmap) : state :=
  fold_left load_db (map_to_list snap) s.

(** The loop of [log.Store.Restore] over the decoded values: an empty command is skipped, SELECT sets
    the database (a bad index ends the restore), anything else goes to [handleCommand] in replay mode,
    whose error is only logged. *)
Fixpoint replay_values (s : state) (db : Z) (vs : list rv) : state :=
  match vs with
  | [] => s
  | v :: r =>
      match cmd_of_value v with
      | [] => replay_values s db r
      | c0 :: args =>
          if eq_fold c0 "select" then
            match args with
            | [] => s
            | a :: _ => match parse_int a with Some d => replay_values s d r | None => s end
            end
          else replay_values (fst (exec_db s db (c0 :: args))) db r
      end
  end.
Definition replay_log (s : state) (log : bytes) : state := replay_values s 0 (fst (decode_all log)).

(** [Engine.Restore] in a fresh process whose clock shows [now]: a preamble that does not parse ends
    the restore before the log is looked at. *)
Definition restore (now : Z) (pre : pre_file) (log : bytes) : state :=
  match pre with
  | PreTorn => init_state now
  | PreEmpty => replay_log (init_state now) log
  | PreFull snap => replay_log (load_snapshot (init_state now) snap) log
  end.

(** Whether the loop ends early on a SELECT it cannot use (it then never reaches the end of the file). *)
Fixpoint replay_stops (vs : list rv) : bool :=
  match vs with
  | [] => false
  | v :: r =>
      match cmd_of_value v with
      | [] => replay_stops r
      | c0 :: args =>
          if eq_fold c0 "select" then
            match args with
            | [] => true
            | a :: _ => match parse_int a with Some _ => replay_stops r | None => true end
            end
          else replay_stops r
      end
  end.

(** The log file after the restore: a last record that was cut short is dropped. *)
Definition recovered_log (log : bytes) : bytes :=
  let '(vs, t) := decode_all log in
  if replay_stops vs then log
  else match t with
       | TTorn rest => firstn (length log - length rest) log
       | _ => log
       end.
Definition recovered (pre : pre_file) (log : bytes) : bytes :=
  match pre with PreTorn => log | _ => recovered_log log end.

(** * Rewrite *)
(** [getState] + [FilterExpiredKeys]. *)
Definition snapshot_of (s : state) : gmap Z dbmap :=
  (fun db : dbmap =>
     (list_to_map (List.filter (fun ke : string * entry => negb (expired (st_now s) (snd ke))) (map_to_list db)) : dbmap))
  <$> st_dbs s.

(** The disk (preamble, log) after each file step of [RewriteLog] on a quiescent server, in order:
    state copied; preamble truncated; preamble written (torn images: [PreTorn]); preamble synced;
    log truncated; header written; log synced. *)
Definition trunc_header (cur : Z) : bytes := if cur <? 0 then [] else select_marker cur.
Definition rewrite_steps (s : state) (pre : pre_file) (a : aof) : list (string * pre_file * file) :=
  let snap := snapshot_of s in
  let hdr := trunc_header (a_cur a) in
  [("pre.create.after_state", pre, a_log a);
   ("pre.create.after_truncate", PreEmpty, a_log a);
   ("pre.create.torn_write", PreTorn, a_log a);
   ("pre.create.after_write", PreFull snap, a_log a);
   ("pre.create.after_sync", PreFull snap, a_log a);
   ("log.trunc.after_truncate", PreFull snap, empty_file);
   ("log.trunc.after_header", PreFull snap, f_write empty_file hdr);
   ("log.trunc.after_sync", PreFull snap, f_sync (f_write empty_file hdr))].
Definition rewrite_final (s : state) (a : aof) : pre_file * aof :=
  (PreFull (snapshot_of s), Aof (f_sync (f_write empty_file (trunc_header (a_cur a)))) (a_cur a)).

(** * The rewrite as repaired (fixes/fix-c09-atomic-rewrite.diff)
    Rewrites are numbered.  The new preamble carries the number of its rewrite and is written to
    [preamble.bin.tmp], synced, closed and renamed over [preamble.bin] (then the directory is synced);
    the log is truncated afterwards and gets a first record [GENERATION <n>] with the same number, before
    the SELECT header.  [Engine.Restore] reads the preamble, then compares: a log whose number is smaller
    than the preamble's is the log of the previous generation, left by a crash between the rename and
    the truncation; the preamble covers all of it, so it is not replayed and the interrupted truncation
    is completed.  Files written before the repair carry no number (generation 0) and restore as before.

    Nothing above this line was changed; [replay_values] hands a GENERATION record to [exec_db], which
    knows no such command and leaves the state as it is (the Go loop skips the record: same effect;
    lemma [replay_generation] in Proofs/AofRewriteProofs.v). *)
Definition gen_text (g : Z) : string := of_chars (show_len (Z.to_nat g)).
Definition gen_cmd (g : Z) : list string := ["GENERATION"; gen_text g].
Definition gen_marker (g : Z) : bytes := encode_cmd (gen_cmd g).

(** [generationOf]: the number in a generation marker, 0 for any other value. *)
Definition gen_of_value (v : rv) : Z :=
  match cmd_of_value v with
  | [w; n] => if eq_fold w "generation"
              then match parse_int n with Some z => Z.max 0 z | None => 0 end else 0
  | _ => 0
  end.
(** The number of a log: that of its first value (none, torn or malformed: 0). *)
Definition log_gen (log : bytes) : Z :=
  match read_top log with Ok v _ => gen_of_value v | _ => 0 end.
Definition stale (g : Z) (log : bytes) : bool := log_gen log <? g.

(** [Engine.Restore] when the preamble read back as [pre] with number [g]. *)
Definition restore_pg (now : Z) (pre : pre_file) (g : Z) (log : bytes) : state :=
  restore now pre (if stale g log then [] else log).
(** The log file after that restore: a stale log has been truncated and numbered (no database is
    current in a process that has just started), otherwise a torn last record has been dropped. *)
Definition recovered_pg (pre : pre_file) (g : Z) (log : bytes) : file :=
  match pre with
  | PreTorn => f_of_bytes log
  | _ => if stale g log then f_sync (f_write empty_file (gen_marker g)) else f_of_bytes (recovered_log log)
  end.

(** [Store.truncate] after [Truncate(0)]: number, SELECT header, sync. *)
Definition hdr_ops (g cur : Z) : list fop :=
  (if 0 <? g then [OpWrite (gen_marker g)] else []) ++
  (if cur <? 0 then [] else [OpWrite (select_marker cur)]) ++ [OpSync].

(** preamble.bin as [json.Unmarshal] sees it: nothing, a strict prefix of a document (rejected), or a
    document with its number (0: the bare map of a file written before the repair). *)
Inductive pfile := PfEmpty | PfTorn | PfDoc (gen : Z) (j : jstate).
(** preamble.bin.tmp: absent, being written, complete.  Restore never looks at it. *)
Inductive tfile := TNone | TPart | TFull.
Record adir := ADir { d_pre : pfile; d_tmp : tfile; d_log : file }.

Section repaired.
Variable c : codec.

(** [preamble.Store.Restore]: the decoded dataset and the number. *)
Definition pf_read (p : pfile) : pre_file * Z :=
  match p with
  | PfEmpty => (PreEmpty, 0)
  | PfTorn => (PreTorn, 0)
  | PfDoc g j => match dec_state c j with Some snap => (PreFull snap, g) | None => (PreTorn, 0) end
  end.
Definition restore_g (now : Z) (p : pfile) (log : bytes) : state :=
  restore_pg now (pf_read p).1 (pf_read p).2 log.
Definition recovered_g (p : pfile) (log : bytes) : file :=
  recovered_pg (pf_read p).1 (pf_read p).2 log.

(** What [CreatePreamble] writes: [json.Marshal(file{Generation, State})] of the filtered state copy. *)
Definition preamble_of (s : state) : jstate := enc_state c (snapshot_of s).

(** Every state of the directory that exists at some instant of [RewriteLog] (the server holds the
    command lock: no write runs meanwhile), in order.  [g] is the number the preamble store holds,
    [t0] whatever an earlier crash left of the temporary file:
    state copied | temporary file created / truncated, being written | written, synced, closed |
    renamed over preamble.bin, directory synced, file reopened, number handed to the log store |
    log truncated, then every instant of the header writes (each cut at every byte) and the sync. *)
Definition rewrite_instants (s : state) (g : Z) (t0 : tfile) (p : pfile) (a : aof) : list adir :=
  let doc := PfDoc (g + 1) (preamble_of s) in
  [ADir p t0 (a_log a); ADir p TPart (a_log a); ADir p TFull (a_log a); ADir doc TNone (a_log a)] ++
  map (ADir doc TNone) (op_instants empty_file (hdr_ops (g + 1) (a_cur a))).
Definition rewrite_done (s : state) (g : Z) (a : aof) : adir * aof * Z :=
  let f := apply_ops empty_file (hdr_ops (g + 1) (a_cur a)) in
  (ADir (PfDoc (g + 1) (preamble_of s)) TNone f, Aof f (a_cur a), g + 1).

(** What a crash leaves of a directory: the preamble file as it is (the temporary file was synced
    before the rename and the directory after it: assumption on rename, see Disk.v), the log as
    [death_image] / [power_images] say. *)
Definition dir_death (x : adir) : pfile * bytes := (d_pre x, death_image (d_log x)).
Definition dir_power (x : adir) : list (pfile * bytes) := map (fun b => (d_pre x, b)) (power_images (d_log x)).

(** ** The server over a history of acknowledged writes, completed rewrites and restarts *)
Inductive ev :=
| EvWrite (d : Z) (argv : list string)   (* an acknowledged (hence logged) write by a caller on database [d] *)
| EvRewrite                              (* a completed REWRITEAOF *)
| EvRestart.                             (* the process stops between two commands (shutdown or death) and starts again *)
Record srv := Srv { v_st : state; v_pre : pfile; v_tmp : tfile; v_aof : aof; v_gen : Z }.
Definition srv_init (now : Z) : srv := Srv (init_state now) PfEmpty TNone aof_fresh 0.
(** A process that starts on a directory whose files read [p] and [log]. *)
Definition srv_start (now : Z) (p : pfile) (t : tfile) (log : bytes) : srv :=
  Srv (restore_g now p log) p t (Aof (recovered_g p log) (-1)) (pf_read p).2.
Definition srv_step (pol : policy) (now : Z) (v : srv) (e : ev) : srv :=
  match e with
  | EvWrite d argv =>
      Srv (fst (exec_db (v_st v) d argv)) (v_pre v) (v_tmp v) (aof_write pol (v_aof v) d argv) (v_gen v)
  | EvRewrite =>
      let '(x, a, g) := rewrite_done (v_st v) (v_gen v) (v_aof v) in Srv (v_st v) (d_pre x) (d_tmp x) a g
  | EvRestart => srv_start now (v_pre v) (v_tmp v) (f_all (a_log (v_aof v)))
  end.
Definition srv_run (pol : policy) (now : Z) (v : srv) (es : list ev) : srv := fold_left (srv_step pol now) es v.
(** The dataset the writes of a history build, with no persistence at all. *)
Definition ev_writes (es : list ev) : list (Z * list string) :=
  flat_map (fun e => match e with EvWrite d c => [(d, c)] | _ => [] end) es.
End repaired.
