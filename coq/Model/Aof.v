(** The append-only log of a standalone server: what a logged write does to the file
    ([internal/aof/log/store.go] Write), what start-up reads back ([Engine.Restore]: preamble, then
    the log through the replay closure of [sugardb.NewSugarDB]), and the rewrite
    ([Engine.RewriteLog] = [CreatePreamble] then [Truncate]) as its sequence of file steps.
    The model follows the code *with* the fixes proposed in fixes/ (SELECT marker length, database of
    logged and replayed commands, torn tail dropped at restore, no SELECT -1 header). *)
From stdpp Require Import gmap strings.
From RecordUpdate Require Import RecordSet.
Import RecordSetNotations.
From EV Require Import Base.Str Model.Value Model.Keyspace Model.Reply Model.Prog Model.Dispatch.
From EV Require Import Model.Resp Model.Disk.
From EV Require Import Model.TableTypes Gen.CmdTable.
Local Open Scope Z_scope.

Inductive policy := Always | EverySec | NoSync.

(** The commands whose table entry carries the write category ([internal.IsWriteCommand]): read off the
    command table regenerated from the code on every run ([Gen/CmdTable.v]). *)
Definition write_words : list string :=
  map cr_name (filter (fun r => is_write_row r && String.eqb (cr_sub r) "") cmd_table).
Definition is_write (argv : list string) : bool :=
  match argv with
  | [] => false
  | c :: _ => bool_decide (lower c ∈ write_words)
  end.

(** A command run in database [d] (the caller's selected database; at replay, the database of the
    preceding SELECT marker). *)
Definition exec_db (s : state) (d : Z) (argv : list string) : state * reply :=
  let '(w, r) := exec_cmd {| w_st := s; w_conns := {[0 := d]} |} 0 argv in (w_st w, r).

(** [handleCommand]: logged iff write category and the handler did not fail. *)
Definition logged (argv : list string) (r : reply) : bool := is_write argv && negb (is_err r).

(** * Writing *)
Definition db_text (d : Z) : string := of_chars (show_len (Z.to_nat d)).
(** [selectMarker]: "*2\r\n$6\r\nSELECT\r\n$<len>\r\n<index>\r\n". *)
Definition select_cmd (d : Z) : list string := ["SELECT"; db_text d].
Definition select_marker (d : Z) : bytes := encode_cmd (select_cmd d).

(** The file operations of [Store.Write database command] when [cur] is the store's
    [currentDatabase]. *)
Definition write_ops (pol : policy) (cur d : Z) (argv : list string) : list fop :=
  (if d =? cur then [] else [OpWrite (select_marker d)]) ++ [OpWrite (encode_cmd argv)] ++
  match pol with Always => [OpSync] | _ => [] end.

Record aof := Aof { a_log : file; a_cur : Z }.
Definition aof_fresh : aof := Aof empty_file (-1).
Definition aof_write (pol : policy) (a : aof) (d : Z) (argv : list string) : aof :=
  Aof (apply_ops (a_log a) (write_ops pol (a_cur a) d argv)) d.

(** * Reading back *)
(** The preamble file: absent/empty, a complete image of the keyspace, or a strict non-empty prefix
    of one (which [json.Unmarshal] rejects: assumption, checked by the harness at sampled offsets). *)
Inductive pre_file := PreEmpty | PreTorn | PreFull (snap : gmap Z dbmap).

(** [preamble.Store.Restore]: every entry that has not expired is stored with [setValues] and then
    [setExpiry] (a zero time removes the deadline). *)
Definition load_entry (d : Z) (s : state) (ke : string * entry) : state :=
  let '(k, e) := ke in
  if expired (st_now s) e then s
  else set_expiry (fst (set_values s d [(k, e_val e)])) d k (e_dl e).
Definition load_db (s : state) (ddb : Z * dbmap) : state :=
  fold_left (load_entry (fst ddb)) (map_to_list (snd ddb)) s.
Definition load_snapshot (s : state) (snap : gmap Z dbmap) : state :=
  fold_left load_db (map_to_list snap) s.

(** The loop of [log.Store.Restore] over the decoded values: an empty command is skipped, SELECT sets
    the database (a bad index ends the restore), anything else goes to [handleCommand] in replay mode,
    whose error is only logged. *)
Fixpoint replay_values (s : state) (db : Z) (vs : list rv) : state :=
  match vs with
  | [] => s
  | v :: r =>
      match cmd_of_value v with
      | [] => replay_values s db r
      | c0 :: args =>
          if eq_fold c0 "select" then
            match args with
            | [] => s
            | a :: _ => match parse_int a with Some d => replay_values s d r | None => s end
            end
          else replay_values (fst (exec_db s db (c0 :: args))) db r
      end
  end.
Definition replay_log (s : state) (log : bytes) : state := replay_values s 0 (fst (decode_all log)).

(** [Engine.Restore] in a fresh process whose clock shows [now]: a preamble that does not parse ends
    the restore before the log is looked at. *)
Definition restore (now : Z) (pre : pre_file) (log : bytes) : state :=
  match pre with
  | PreTorn => init_state now
  | PreEmpty => replay_log (init_state now) log
  | PreFull snap => replay_log (load_snapshot (init_state now) snap) log
  end.

(** Whether the loop ends early on a SELECT it cannot use (it then never reaches the end of the file). *)
Fixpoint replay_stops (vs : list rv) : bool :=
  match vs with
  | [] => false
  | v :: r =>
      match cmd_of_value v with
      | [] => replay_stops r
      | c0 :: args =>
          if eq_fold c0 "select" then
            match args with
            | [] => true
            | a :: _ => match parse_int a with Some _ => replay_stops r | None => true end
            end
          else replay_stops r
      end
  end.

(** The log file after the restore: a last record that was cut short is dropped. *)
Definition recovered_log (log : bytes) : bytes :=
  let '(vs, t) := decode_all log in
  if replay_stops vs then log
  else match t with
       | TTorn rest => firstn (length log - length rest) log
       | _ => log
       end.
Definition recovered (pre : pre_file) (log : bytes) : bytes :=
  match pre with PreTorn => log | _ => recovered_log log end.

(** * Rewrite *)
(** [getState] + [FilterExpiredKeys]. *)
Definition snapshot_of (s : state) : gmap Z dbmap :=
  (fun db : dbmap =>
     (list_to_map (List.filter (fun ke : string * entry => negb (expired (st_now s) (snd ke))) (map_to_list db)) : dbmap))
  <$> st_dbs s.

(** The disk (preamble, log) after each file step of [RewriteLog] on a quiescent server, in order:
    state copied; preamble truncated; preamble written (torn images: [PreTorn]); preamble synced;
    log truncated; header written; log synced. *)
Definition trunc_header (cur : Z) : bytes := if cur <? 0 then [] else select_marker cur.
Definition rewrite_steps (s : state) (pre : pre_file) (a : aof) : list (string * pre_file * file) :=
  let snap := snapshot_of s in
  let hdr := trunc_header (a_cur a) in
  [("pre.create.after_state", pre, a_log a);
   ("pre.create.after_truncate", PreEmpty, a_log a);
   ("pre.create.torn_write", PreTorn, a_log a);
   ("pre.create.after_write", PreFull snap, a_log a);
   ("pre.create.after_sync", PreFull snap, a_log a);
   ("log.trunc.after_truncate", PreFull snap, empty_file);
   ("log.trunc.after_header", PreFull snap, f_write empty_file hdr);
   ("log.trunc.after_sync", PreFull snap, f_sync (f_write empty_file hdr))].
Definition rewrite_final (s : state) (a : aof) : pre_file * aof :=
  (PreFull (snapshot_of s), Aof (f_sync (f_write empty_file (trunc_header (a_cur a)))) (a_cur a)).
