(** Runner for the schedule controller's jobs (mode [conc] of the extracted program): the same line
    protocol as [harness/sched/main.go]; every schedule observed on the implementation ("Q tids") is
    replayed on [run_conc_strict], every serial order ("O tids") on [run_serial]. *)
From stdpp Require Import gmap strings.
From RecordUpdate Require Import RecordSet.
Import RecordSetNotations.
From EV Require Import Base.Str Model.Value Model.Keyspace Model.Reply Model.Prog Model.Dispatch Model.Script Model.Conc.
Local Open Scope Z_scope.

Definition show_nat (n : nat) : string := show_Z (Z.of_nat n).

Fixpoint unspace (s : string) : string :=
  match s with
  | EmptyString => EmptyString
  | String c r => String (if Ascii.eqb c " "%char then "_"%char else c) (unspace r)
  end.

(** The text of [VerifStateCopy]: databases that hold keys, no volatile index, no memory figure. *)
Definition show_db_copy (s : state) (d : Z) : string :=
  let db := get_db s d in
  "db" +:+ show_Z d +:+ "{" +:+
  join " " (map (fun k => match db !! k with
                          | Some e => hexs k +:+ "=" +:+ show_value (e_val e) +:+ "@" +:+ show_dl (e_dl e)
                          | None => "" end) (sorted_keys db)) +:+ "}".
Definition show_copy (s : state) : string :=
  join " " (map (show_db_copy s)
    (Z_leb_sort (List.filter (fun d => negb (bool_decide (get_db s d = ∅))) (map fst (map_to_list (st_dbs s)))))).

Definition show_outcome (o : outcome) : string :=
  match o with
  | OReply r => unspace (show_reply r)
  | OSnap s => "snap:" +:+ unspace (show_copy s)
  | OSwept => "swept"
  end.

Record cjob := CJob {
  cj_world : world;
  cj_lock : bool;                      (* mode=lock: commands and copies take the command lock *)
  cj_threads : list (nat * (Z + Z) * option (list string));
      (* tid, (inl conn: command | inr db: sweep (db >= 0) or copy (db = -1)), argv *)
}.
Global Instance eta_cjob : Settable _ := settable! CJob <cj_world; cj_lock; cj_threads>.

Definition parse_tids (s : string) : list nat :=
  if String.eqb s "-" then [] else
  omap (fun x => Z.to_nat <$> parse_nat x) (split_on ","%char "" s).

Definition thread_act (w : world) (x : (Z + Z) * option (list string)) : act :=
  match x with
  | (inl c, Some argv) => cmd_act (conn_db (register_conn w c) c) argv
  | (inr d, _) => if d <? 0 then ACopy else ASweep d (fun l => l)
  | (inl _, None) => ACmd 0 (Ret RErr)
  end.

Definition job_acts (j : cjob) : gmap nat act :=
  list_to_map (map (fun '(t, k, a) => (t, thread_act (cj_world j) (k, a))) (cj_threads j)).

Definition job_pool (j : cjob) : pool :=
  let acts := job_acts j in
  if cj_lock j then fixed_pool acts (w_st (cj_world j)) else free_pool acts (w_st (cj_world j)).

Definition tids_of (j : cjob) : list nat := map (fun '(t, _, _) => t) (cj_threads j).

Definition show_result (j : cjob) (outs : nat -> option outcome) (s : state) : string :=
  join " " (map (fun t => show_nat t +:+ ":" +:+
                  match outs t with Some o => show_outcome o | None => "?" end) (tids_of j))
  +:+ " | " +:+ show_state s.

(** Replay with the command lock.  SADD / SREM / SMOVE / ZADD ... change a stored set in place in the Go code,
    between two primitives and inside the critical section; the model writes the new value back with one more
    primitive ([CmdSet.WriteBack]).  That step has no yield point of its own in the implementation, so when the
    schedule asks for a thread that waits for the lock (or ends) while the holder still has steps left, the holder
    is first run to the end of its critical section. *)
Fixpoint finish_holder (fuel : nat) (P : pool) : pool :=
  match fuel, p_lock P with
  | S f, Some h => match step_conc P h with Some P' => finish_holder f P' | None => P end
  | _, _ => P
  end.
Fixpoint run_conc_tolerant (P : pool) (sched : list nat) (i : nat) : pool + nat :=
  match sched with
  | [] => inl (finish_holder 64 P)
  | t :: r => match step_conc P t with
              | Some P' => run_conc_tolerant P' r (S i)
              | None => match step_conc (finish_holder 64 P) t with
                        | Some P' => run_conc_tolerant P' r (S i)
                        | None => inr i
                        end
              end
  end.

Definition run_q (j : cjob) (txt : string) : string :=
  let sched := parse_tids txt in
  match (if cj_lock j then run_conc_tolerant else run_conc_strict) (job_pool j) sched 0%nat with
  | inr i => "H " +:+ txt +:+ " NOTENABLED pos " +:+ show_nat i
  | inl P =>
      if all_doneb P then "Q " +:+ txt +:+ " | " +:+ show_result j (outcome_of P) (p_store P)
      else "H " +:+ txt +:+ " INCOMPLETE"
  end.

Definition run_o (j : cjob) (txt : string) : string :=
  let perm := parse_tids txt in
  let '(s, outs) := run_serial (job_acts j) perm (w_st (cj_world j)) in
  "O " +:+ txt +:+ " | " +:+ show_result j (fun t => outs !! t) s.

Definition conc_line (j : cjob) (line : string) : cjob * list string :=
  match split_words line with
  | "T" :: t :: c :: args =>
      match parse_nat t, parse_int c, unhex_all args with
      | Some t', Some c', Some argv =>
          (j <| cj_threads := cj_threads j ++ [(Z.to_nat t', inl c', Some argv)] |>, [])
      | _, _, _ => (j, ["BAD " +:+ line])
      end
  | ["TC"; t] =>
      match parse_nat t with
      | Some t' => (j <| cj_threads := cj_threads j ++ [(Z.to_nat t', inr (-1), None)] |>, [])
      | None => (j, ["BAD " +:+ line])
      end
  | ["TCL"; t] =>   (* the same copy, rendered by the harness when the run is over *)
      match parse_nat t with
      | Some t' => (j <| cj_threads := cj_threads j ++ [(Z.to_nat t', inr (-1), None)] |>, [])
      | None => (j, ["BAD " +:+ line])
      end
  | ["TW"; t; d] =>
      match parse_nat t, parse_int d with
      | Some t', Some d' => (j <| cj_threads := cj_threads j ++ [(Z.to_nat t', inr d', None)] |>, [])
      | _, _ => (j, ["BAD " +:+ line])
      end
  | ["Q"; s] => (j, [run_q j s])
  | ["O"; s] => (j, [run_o j s])
  | "B" :: c :: args =>
      match parse_int c, unhex_all args with
      | Some c', Some argv =>
          (j <| cj_world := fst (step_event (cj_world j) (ECmd c' argv)) |>, [])
      | _, _ => (j, ["BAD " +:+ line])
      end
  | _ =>
      match parse_event line with
      | Some (EBad l) => (j, ["BAD " +:+ l])
      | Some e => (j <| cj_world := fst (step_event (cj_world j) e) |>, [])
      | None => (j, [])
      end
  end.

Fixpoint conc_lines (j : cjob) (lines : list string) : list string :=
  match lines with
  | [] => []
  | l :: r => let '(j', out) := conc_line j l in out ++ conc_lines j' r
  end.

Definition cfg_lock (cfg : list string) : bool :=
  negb (bool_decide ("mode=nolock" ∈ cfg)).

Definition run_conc_script (lines : list string) : list string :=
  match lines with
  | [] => []
  | hdr :: body =>
      match split_words hdr with
      | "S" :: id :: cfg =>
          let w := fold_left apply_cfg cfg (init_world default_now) in
          ("S " +:+ id) ::
          conc_lines {| cj_world := w; cj_lock := cfg_lock cfg; cj_threads := [] |}
                     (List.filter (fun l => negb (String.eqb l "E")) body) ++ ["E"]
      | _ => ["BAD " +:+ hdr]
      end
  end.
