(** ZRANDMEMBER ([internal/modules/sorted_set/commands.go handleZRANDMEMBER], [sorted_set.go GetRandom]).

    The handler has the skeleton of every single-key sorted-set handler ([Model/CmdZSet.v run_single]):
    arity test of [zrandmemberKeyFunc] (2..4 words); [KeysExist] on the key; the count ([strconv.Atoi],
    "count must be an integer"; a count of 0 reads as 1) and the last word (WITHSCORES in any case, else
    "last option must be WITHSCORES") are parsed before the key is looked at, so a bad argument wins over
    a missing key; a missing key replies nil; [GetValues] and the type assertion; then [GetRandom count]:

    - [|count| >= len(members)]: the whole set (whatever the sign of the count; Go ranges over a map, the
      model lists it in the sorted order and the comparison treats the reply as unordered);
    - [count < 0]: [|count|] draws with repetition;
    - [count > 0]: [count] distinct members.

    The draw is the parameter [pick] (any function, as [CmdSet.picker] for SPOP / SRANDMEMBER); which
    selections [GetRandom] can make is [Spec/SpecZRand.v zrand_ok].  [handler_of] uses [default_zpick]. *)
From stdpp Require Import gmap strings.
From EV Require Import Base.Str Model.Value Model.Keyspace Model.Reply Model.Prog Model.ZSetOps Model.ZSetMulti Model.CmdZSet.
Local Open Scope Z_scope.

Definition zpicker := zmap -> Z -> list zitem.

(** What [GetRandom] returns: everything, or a selection. *)
Definition zrand_select (pick : zpicker) (z : zmap) (c : Z) : list zitem :=
  if zcard z <=? Z.abs c then zsorted z else pick z c.

(** The selection the executable model makes: the first members in the sorted order; with repetition,
    the first member again and again. *)
Definition default_zpick : zpicker := fun z c =>
  let l := zsorted z in
  if 0 <? c then zfirstn c l
  else match l with [] => [] | x :: _ => repeat x (Z.to_nat (- c)) end.

(** [count := 1; if len(cmd) >= 3 { c := Atoi(cmd[2]); if c != 0 { count = c } }] *)
Definition zrand_count (argv : list string) : option Z :=
  if (3 <=? length argv)%nat
  then match parse_int (arg argv 2) with Some c => Some (if c =? 0 then 1 else c) | None => None end
  else Some 1.

Definition decode_zrandmember (pick : zpicker) (argv : list string) : option zdecoded :=
  if (length argv <? 2)%nat || (4 <? length argv)%nat then None else
  let key := arg argv 1 in
  Some (ZDecoded key key
    match zrand_count argv with
    | None => None
    | Some c =>
        if (length argv =? 4)%nat && negb (eq_fold (arg argv 3) "withscores") then None else
        let withscores := (length argv =? 4)%nat in
        Some (ZRet RNil, fun z => ZRet (items_reply withscores (zrand_select pick z c)))
    end).

Definition handle_zrandmember (pick : zpicker) : list string -> prog reply :=
  run_zset (single (decode_zrandmember pick)).

Definition zrand_handler (pick : zpicker) (name : string) : option (list string -> prog reply) :=
  if String.eqb name "zrandmember" then Some (handle_zrandmember pick) else None.
