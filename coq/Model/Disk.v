(** Files as the operating system keeps them, reduced to what the log protocol relies on
    (DESIGN §7, stated assumptions, not verified):
    - a completed [write] is visible after the process dies, but only bytes covered by a completed
      [Sync] are guaranteed after a power loss;
    - a [write] may be cut at any byte;
    - [Truncate], [Sync] are atomic. *)
From Coq Require Import String Ascii List ZArith Lia Bool.
From EV Require Import Base.Str Model.Resp.
Import ListNotations.

Record file := File { f_synced : bytes; f_pending : bytes }.
Definition empty_file : file := File [] [].
Definition f_all (f : file) : bytes := f_synced f ++ f_pending f.
Definition f_write (f : file) (b : bytes) : file := File (f_synced f) (f_pending f ++ b).
Definition f_sync (f : file) : file := File (f_all f) [].
(** What a process that starts after the crash / shutdown finds (then everything it finds is on disk
    as far as this model is concerned). *)
Definition f_of_bytes (b : bytes) : file := File b [].

(** File operations of one logged write. *)
Inductive fop := OpWrite (b : bytes) | OpSync.
Definition apply_op (f : file) (o : fop) : file :=
  match o with OpWrite b => f_write f b | OpSync => f_sync f end.
Definition apply_ops (f : file) (ops : list fop) : file := fold_left apply_op ops f.

Definition prefixes_lt (b : bytes) : list bytes := map (fun n => firstn n b) (seq 0 (length b)).
Definition prefixes_le (b : bytes) : list bytes := map (fun n => firstn n b) (seq 0 (S (length b))).

(** Every file state that exists at some instant while [ops] run: between operations, and inside a
    write after any number of its bytes. *)
Fixpoint op_instants (f : file) (ops : list fop) : list file :=
  match ops with
  | [] => [f]
  | OpSync :: r => f :: op_instants (f_sync f) r
  | OpWrite b :: r => map (f_write f) (prefixes_lt b) ++ op_instants (f_write f b) r
  end.

(** What can be found afterwards when the machine stops at a moment the file is in state [f]:
    - the process dies: everything written ([death_image]);
    - power is lost: the synced part and any prefix of the rest ([power_images], which include the
      death image). *)
Definition death_image (f : file) : bytes := f_all f.
Definition power_images (f : file) : list bytes := map (fun p => f_synced f ++ p) (prefixes_le (f_pending f)).
