(** Values stored in the keyspace: the seven dynamic Go types of [internal.KeyData.Value]
    (string, int, float64, []string, map[string]interface{}, *set.Set, *sorted_set.SortedSet),
    plus [VNil] for the untyped nil that [setExpiry] on a missing key leaves behind. *)
From stdpp Require Import gmap strings.
From Coq Require Import QArith.
From EV Require Import Base.Str.
Local Open Scope Z_scope.

(** Extended rationals: float64 restricted to the values the generators produce (exact dyadic
    rationals and the two infinities).  Finite values are always kept reduced ([Qred]). *)
Inductive fl := FNInf | FFin (q : Q) | FPInf.

Definition fl_of_Z (z : Z) : fl := FFin (inject_Z z).
Definition qnorm (q : Q) : Q := Qred q.
Definition fl_add (a b : fl) : fl :=
  match a, b with
  | FFin x, FFin y => FFin (qnorm (x + y))
  | FNInf, FPInf | FPInf, FNInf => FNInf (* NaN in binary64: excluded from generation *)
  | FNInf, _ | _, FNInf => FNInf
  | FPInf, _ | _, FPInf => FPInf
  end.
Definition fl_ltb (a b : fl) : bool :=
  match a, b with
  | FNInf, FNInf => false
  | FNInf, _ => true
  | _, FNInf => false
  | FPInf, _ => false
  | _, FPInf => true
  | FFin x, FFin y => match Qcompare x y with Lt => true | _ => false end
  end.
Definition fl_eqb (a b : fl) : bool := negb (fl_ltb a b) && negb (fl_ltb b a).
Definition fl_leb (a b : fl) : bool := negb (fl_ltb b a).

Inductive scalar := SStr (s : string) | SInt (z : Z) | SFloat (f : fl).

Inductive value :=
| VNil
| VScal (x : scalar)
| VList (l : list string)
| VHash (h : gmap string scalar)
| VSet (m : gset string)
| VZSet (z : gmap string fl).

Definition VStr (s : string) := VScal (SStr s).
Definition VInt (z : Z) := VScal (SInt z).

(** * Canonical rendering (shared with the Go harness' digest) *)
Definition show_Q (q : Q) : string :=
  let q' := Qred q in show_Z (Qnum q') +:+ "/" +:+ show_Z (Zpos (Qden q')).
Definition show_fl (f : fl) : string :=
  match f with FNInf => "-inf" | FPInf => "inf" | FFin q => show_Q q end.
(** Hex of a key / element / member; the empty string is "-" so that it stays visible in lists. *)
Definition hexs (s : string) : string := if String.eqb s "" then "-" else hex_of_string s.
Definition show_scalar (x : scalar) : string :=
  match x with
  | SStr s => "s" +:+ hexs s
  | SInt z => "i" +:+ show_Z z
  | SFloat f => "f" +:+ show_fl f
  end.

Definition sorted_keys {A} (m : gmap string A) : list string := sort_strings (map fst (map_to_list m)).
Definition sorted_elems (m : gset string) : list string := sort_strings (elements m).

Definition show_value (v : value) : string :=
  match v with
  | VNil => "N"
  | VScal x => show_scalar x
  | VList l => "l[" +:+ join "," (map hexs l) +:+ "]"
  | VHash h =>
      "h{" +:+ join "," (map (fun f => hexs f +:+ ":" +:+
                              match h !! f with Some x => show_scalar x | None => "N" end)
                            (sorted_keys h)) +:+ "}"
  | VSet m => "S{" +:+ join "," (map hexs (sorted_elems m)) +:+ "}"
  | VZSet z =>
      "z{" +:+ join "," (map (fun f => hexs f +:+ ":" +:+
                              match z !! f with Some x => show_fl x | None => "N" end)
                            (sorted_keys z)) +:+ "}"
  end.

(** * Accounted sizes: [KeyData.GetMem], [Set.GetMem], [SortedSet.GetMem].
    The constants are [unsafe.Sizeof] figures of the platform; [Gen/Defaults.v] re-derives them
    from the code on every run and a table obligation checks they agree. *)
Definition sz_time : Z := 24.
Definition sz_string : Z := 16.
Definition sz_int : Z := 8.
Definition sz_float : Z := 8.
Definition sz_map : Z := 8.
Definition sz_iface : Z := 16.
Definition sz_ptr : Z := 8.
Definition sz_member : Z := 32.

Definition mem_scalar (x : scalar) : Z :=
  match x with
  | SStr s => sz_string + slen s
  | SInt _ => sz_int
  | SFloat _ => sz_float
  end.

Definition sum_Z (l : list Z) : Z := fold_right Z.add 0 l.

Definition mem_value (v : value) : Z :=
  sz_time +
  match v with
  | VNil => 0
  | VScal x => mem_scalar x
  | VList l => sum_Z (map (fun s => sz_string + slen s) l)
  | VHash h => sz_map + sum_Z (map (fun '(f, x) => sz_string + slen f + mem_scalar x) (map_to_list h))
  | VSet m => sz_ptr + sz_map + sum_Z (map (fun s => sz_string + slen s + sz_iface) (elements m))
  | VZSet z => sz_ptr + sum_Z (map (fun '(s, _) => sz_string + slen s + sz_member + sz_string + slen s) (map_to_list z))
  end.
