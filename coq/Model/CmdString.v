(** String handlers: [internal/modules/string/commands.go]. *)
From stdpp Require Import gmap strings.
From EV Require Import Base.Str Model.Value Model.Adapt Model.Keyspace Model.Reply Model.Prog.
Local Open Scope Z_scope.


Definition as_str (o : option value) : option string :=
  match o with Some (VScal (SStr s)) => Some s | _ => None end.

Definition sub_bytes (s : string) (lo hi : Z) : string := of_chars (slice (chars s) lo hi).
Definition rev_str (s : string) : string := of_chars (rev (chars s)).

(** The overwrite loop of SETRANGE for 0 <= offset < len str. *)
Definition overwrite (str new : string) (offset : Z) : string :=
  let s := chars str in let n := chars new in
  let room := zlen s - offset in
  of_chars (zfirstn offset s ++ n ++ zskipn (offset + zlen n) s).

Definition handle_setrange (argv : list string) : prog reply :=
  if negb (length argv =? 4)%nat then Ret RErr else
  let key := arg argv 1 in
  KeysExist [key] (fun ex =>
  match adapt_int (arg argv 2) with
  | None => Ret RErr
  | Some offset =>
      let newStr := arg argv 3 in
      if negb (ex key) then
        SetValues [(key, VScal (adapt_value newStr))] (fun ok => if ok then Ret (RInt (slen newStr)) else Ret RErr)
      else GetValues [key] (fun vals =>
      match as_str (vals key) with
      | None => Ret RErr
      | Some str =>
          let put (r : string) := SetValues [(key, VScal (adapt_value r))] (fun ok => if ok then Ret (RInt (slen r)) else Ret RErr) in
          if slen str <=? offset then put (str +:+ newStr)
          else if offset <? 0 then put (newStr +:+ str)
          else put (overwrite str newStr offset)
      end)
  end).

Definition handle_strlen (argv : list string) : prog reply :=
  if negb (length argv =? 2)%nat then Ret RErr else
  let key := arg argv 1 in
  KeysExist [key] (fun ex =>
  if negb (ex key) then Ret (RInt 0) else
  GetValues [key] (fun vals =>
  match as_str (vals key) with Some s => Ret (RInt (slen s)) | None => Ret RErr end)).

Definition handle_substr (argv : list string) : prog reply :=
  if negb (length argv =? 4)%nat then Ret RErr else
  let key := arg argv 1 in
  KeysExist [key] (fun ex =>
  match adapt_int (arg argv 2), adapt_int (arg argv 3) with
  | Some start0, Some end0 =>
      if negb (ex key) then Ret RErr else
      GetValues [key] (fun vals =>
      match as_str (vals key) with
      | None => Ret RErr
      | Some value =>
          let len := slen value in
          let s1 := if start0 <? 0 then len - Z.abs start0 else start0 in
          let e1 := if end0 <? 0 then len - Z.abs end0 else end0 in
          let e2 := if (0 <=? e1) && (s1 <=? e1) then e1 + 1 else e1 in
          let e3 := if len <? e2 then len else e2 in
          let s2 := if s1 <? 0 then 0 else s1 in
          let s3 := if len <? s2 then len else s2 in
          let e4 := if e3 <? 0 then 0 else e3 in
          if e4 <? s3 then Ret (RBulk (rev_str (sub_bytes value e4 s3)))
          else Ret (RBulk (sub_bytes value s3 e4))
      end)
  | _, _ => Ret RErr
  end).

Definition handle_append (argv : list string) : prog reply :=
  if negb (length argv =? 3)%nat then Ret RErr else
  let key := arg argv 1 in
  KeysExist [key] (fun ex =>
  let value := arg argv 2 in
  if negb (ex key) then
    SetValues [(key, VScal (adapt_value value))] (fun ok => if ok then Ret (RInt (slen value)) else Ret RErr)
  else GetValues [key] (fun vals =>
  match as_str (vals key) with
  | None => Ret RErr
  | Some cur =>
      let new := cur +:+ value in
      SetValues [(key, VScal (adapt_value new))] (fun ok => if ok then Ret (RInt (slen new)) else Ret RErr)
  end)).

Definition string_handler (name : string) : option (list string -> prog reply) :=
  if String.eqb name "setrange" then Some handle_setrange
  else if String.eqb name "strlen" then Some handle_strlen
  else if String.eqb name "substr" || String.eqb name "getrange" then Some handle_substr
  else if String.eqb name "append" then Some handle_append
  else None.
