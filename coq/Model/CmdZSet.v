(** Sorted-set handlers: [internal/modules/sorted_set/commands.go].

    Every single-key handler there has the same skeleton, in this order: the arity test of its
    [...KeyFunc]; [KeysExist] on its key; the parsing of its arguments (an error here wins over a missing
    key and over a wrong type); the reply for a missing key; [GetValues] and the type assertion to a
    SortedSet pointer; the operation on the set.  [run_single] is that skeleton.  The handlers that read
    several keys (ZINTER/ZUNION/ZDIFF and their STORE forms, ZMPOP) test arity, call [KeysExist] on all
    their keys, parse, then read either all the keys in one [GetValues] (ZINTER, ZUNION: expired keys are
    lazily deleted) or only the keys that exist (ZDIFF, ZMPOP: one [GetValues] per existing key, which
    changes nothing), then compute: [run_multi].  What each command parses and computes is its
    [decode_...] function in [Model/ZSetOps.v] / [Model/ZSetMulti.v], instantiated with [strict := false]:
    the behaviour of the code.

    The Go handlers mutate the stored SortedSet in place (ZADD on an existing key, ZINCRBY, ZREM,
    ZPOPMIN/MAX, ZMPOP, ZREMRANGEBY...) without calling [SetValues]; in this functional model the new
    value is written back with [SetValues], so the memory figure of the model is not the code's after
    such a command (the C17 comparison ignores [mem=]; accounting is C19's subject). *)
From stdpp Require Import gmap strings.
From EV Require Import Base.Str Model.Value Model.Keyspace Model.Reply Model.Prog Model.ZSetOps Model.ZSetMulti.
Local Open Scope Z_scope.

Definition classify (v : value) : zval := match v with VZSet z => ZSet z | _ => ZOther end.
Definition as_zset (o : option value) : option zmap :=
  match o with Some (VZSet z) => Some z | _ => None end.

(** Reply, or store the new set at [wkey] and reply. *)
Definition run_act (wkey : string) (a : zact) : prog reply :=
  match a with
  | ZRet r => Ret r
  | ZPut z r => if is_err r then Ret RErr else
                SetValues [(wkey, VZSet z)] (fun ok => if ok then Ret r else Ret RErr)
  end.

Definition run_single (d : zdecoded) : prog reply :=
  KeysExist [zd_rkey d] (fun ex =>
  match zd_body d with
  | None => Ret RErr
  | Some (absent, present) =>
      if negb (ex (zd_rkey d)) then run_act (zd_wkey d) absent else
      GetValues [zd_rkey d] (fun vals =>
      match as_zset (vals (zd_rkey d)) with
      | Some z => run_act (zd_wkey d) (present z)
      | None => Ret RErr
      end)
  end).

Definition run_multi (d : zmdecoded) : prog reply :=
  KeysExist (zm_keys d) (fun ex =>
  match zm_body d with
  | None => Ret RErr
  | Some f =>
      GetValues (if zm_eager d then zm_keys d else filter ex (zm_keys d)) (fun vals =>
      let seen := map (fun k => if ex k then classify <$> vals k else None) (zm_keys d) in
      run_act (fst (act_of (f seen))) (snd (act_of (f seen))))
  end).

Definition run_zset (dec : list string -> option zdec) (argv : list string) : prog reply :=
  match dec argv with
  | None => Ret RErr
  | Some (DSingle d) => run_single d
  | Some (DMulti d) => run_multi d
  end.

Definition single (dec : list string -> option zdecoded) (argv : list string) : option zdec := DSingle <$> dec argv.
Definition multi (dec : list string -> option zmdecoded) (argv : list string) : option zdec := DMulti <$> dec argv.

Definition handle_zadd := run_zset (single (decode_zadd false)).
Definition handle_zcard := run_zset (single decode_zcard).
Definition handle_zscore := run_zset (single decode_zscore).
Definition handle_zmscore := run_zset (single decode_zmscore).
Definition handle_zrem := run_zset (single decode_zrem).
Definition handle_zincrby := run_zset (single decode_zincrby).
Definition handle_zcount := run_zset (single decode_zcount).
Definition handle_zrank := run_zset (single decode_zrank).            (* ZRANK and ZREVRANK *)
Definition handle_zpop := run_zset (single decode_zpop).              (* ZPOPMIN and ZPOPMAX *)
Definition handle_zrange := run_zset (single (decode_zrange false)).
Definition handle_zrangestore := run_zset (single (decode_zrangestore false)).
Definition handle_zlexcount := run_zset (single decode_zlexcount).
Definition handle_zremrangebyscore := run_zset (single decode_zremrangebyscore).
Definition handle_zremrangebylex := run_zset (single decode_zremrangebylex).
Definition handle_zremrangebyrank := run_zset (single decode_zremrangebyrank).
Definition handle_zinter := run_zset (multi (decode_zinter false)).
Definition handle_zinterstore := run_zset (multi (decode_zinter true)).
Definition handle_zunion := run_zset (multi (decode_zunion false false)).
Definition handle_zunionstore := run_zset (multi (decode_zunion false true)).
Definition handle_zdiff := run_zset (multi (decode_zdiff false)).
Definition handle_zdiffstore := run_zset (multi (decode_zdiff true)).
Definition handle_zmpop := run_zset (multi (decode_zmpop false)).

Definition zset_handler (name : string) : option (list string -> prog reply) :=
  if String.eqb name "zadd" then Some handle_zadd
  else if String.eqb name "zcard" then Some handle_zcard
  else if String.eqb name "zscore" then Some handle_zscore
  else if String.eqb name "zmscore" then Some handle_zmscore
  else if String.eqb name "zrem" then Some handle_zrem
  else if String.eqb name "zincrby" then Some handle_zincrby
  else if String.eqb name "zcount" then Some handle_zcount
  else if String.eqb name "zrank" || String.eqb name "zrevrank" then Some handle_zrank
  else if String.eqb name "zpopmin" || String.eqb name "zpopmax" then Some handle_zpop
  else if String.eqb name "zrange" then Some handle_zrange
  else if String.eqb name "zrangestore" then Some handle_zrangestore
  else if String.eqb name "zlexcount" then Some handle_zlexcount
  else if String.eqb name "zremrangebyscore" then Some handle_zremrangebyscore
  else if String.eqb name "zremrangebylex" then Some handle_zremrangebylex
  else if String.eqb name "zremrangebyrank" then Some handle_zremrangebyrank
  else if String.eqb name "zinter" then Some handle_zinter
  else if String.eqb name "zinterstore" then Some handle_zinterstore
  else if String.eqb name "zunion" then Some handle_zunion
  else if String.eqb name "zunionstore" then Some handle_zunionstore
  else if String.eqb name "zdiff" then Some handle_zdiff
  else if String.eqb name "zdiffstore" then Some handle_zdiffstore
  else if String.eqb name "zmpop" then Some handle_zmpop
  else None.
