(** Pure functions on hash field values, shared by the hash handlers ([Model/CmdHash.v]) and the
    hash reference ([Spec/SpecHash.v]): how argument tokens become field/value entries, how a stored
    field value is replied, its string length, numeric increments, and the canonical selection that
    stands for HRANDFIELD's random choice. *)
From stdpp Require Import gmap strings.
From Coq Require Import QArith.
From EV Require Import Base.Str Model.Value Model.Adapt Model.Reply.
Local Open Scope Z_scope.

Notation hmap := (gmap string scalar).

(** * Entries of HSET / HSETNX: [field value field value ...], stored through [AdaptValue];
    a field given twice keeps its last value (the Go code fills a map in argument order). *)
Fixpoint pairs_of (l : list string) : list (string * string) :=
  match l with
  | f :: v :: r => (f, v) :: pairs_of r
  | _ => []
  end.
Definition entries_of (l : list string) : hmap :=
  fold_left (fun m '(f, v) => <[f := adapt_value v]> m) (pairs_of l) ∅.

Definition hsize (h : hmap) : Z := Z.of_nat (size h).

(** * Replies for one stored value: strings as bulk strings, integers as RESP integers, floats as
    their decimal text (compared as numbers by the harness). *)
Definition val_reply (x : scalar) : reply :=
  match x with
  | SStr s => RBulk s
  | SInt z => RInt z
  | SFloat f => RFloat f
  end.
Definition field_reply (o : option scalar) : reply :=
  match o with Some x => val_reply x | None => RNil end.

(** * [strconv.FormatFloat(f, 'f', -1, 64)] for the floats the generators produce: a finite value
    whose reduced denominator divides a power of ten is printed exactly (sign, integer part, and
    the fractional digits without trailing zeros); infinities are "+Inf" / "-Inf". *)
Fixpoint find_scale (fuel k : nat) (d : Z) : option nat :=
  match fuel with
  | O => None
  | S fuel' => if (10 ^ Z.of_nat k) mod d =? 0 then Some k else find_scale fuel' (S k) d
  end.
Fixpoint zeros (n : nat) : string :=
  match n with O => "" | S n' => String "0"%char (zeros n') end.
Definition pad_left (w : nat) (s : string) : string := zeros (w - String.length s) +:+ s.

Definition Q_text (q : Q) : string :=
  let q' := Qred q in
  let n := Qnum q' in
  let d := Zpos (Qden q') in
  match find_scale 400 0 d with
  | None => ""
  | Some k =>
      let digs := pad_left (S k) (show_Z (Z.abs n * 10 ^ Z.of_nat k / d)) in
      let ip := String.substring 0 (String.length digs - k) digs in
      let fp := String.substring (String.length digs - k) k digs in
      (if n <? 0 then "-" else "") +:+ ip +:+ (match k with O => "" | _ => "." +:+ fp end)
  end.
Definition float_text (f : fl) : string :=
  match f with FPInf => "+Inf" | FNInf => "-Inf" | FFin q => Q_text q end.

(** HSTRLEN: the length of the value as a string. *)
Definition scalar_strlen (x : scalar) : Z :=
  match x with
  | SStr s => slen s
  | SInt z => slen (show_Z z)
  | SFloat f => slen (float_text f)
  end.
Definition strlen_reply (o : option scalar) : reply :=
  match o with Some x => RInt (scalar_strlen x) | None => RInt 0 end.

(** * [strconv.ParseFloat(s, 64)] on the tokens the generators produce: optional sign, then
    "inf" / "infinity" in any case, or decimal digits with an optional point ("2", "1.5", ".5", "5.").
    Exponents, hexadecimal floats, underscores and "nan" are excluded from generation. *)
Definition parse_dec_body (s : string) : option Q :=
  match split_on "."%char "" s with
  | [ip] => match parse_nat ip with Some i => Some (inject_Z i) | None => None end
  | [ip; fp] =>
      if String.eqb ip "" && String.eqb fp "" then None
      else match digits_val 0 ip, digits_val 0 fp with
           | Some i, Some f =>
               let k := Z.of_nat (String.length fp) in
               Some (Qred (Qmake (i * 10 ^ k + f) (Z.to_pos (10 ^ k))))
           | _, _ => None
           end
  | _ => None
  end.
Definition parse_float_arg (s : string) : option fl :=
  let '(neg, body) := match s with
                      | String "-"%char r => (true, r)
                      | String "+"%char r => (false, r)
                      | _ => (false, s)
                      end in
  let lb := lower body in
  if String.eqb lb "inf" || String.eqb lb "infinity" then Some (if neg then FNInf else FPInf)
  else match parse_dec_body body with
       | Some q => Some (FFin (if neg then Qred (- q) else Qred q))
       | None => None
       end.

(** * HINCRBY / HINCRBYFLOAT *)
Inductive incr := IncInt (n : Z) | IncFloat (f : fl).
Definition parse_incr (is_float : bool) (s : string) : option incr :=
  if is_float then IncFloat <$> parse_float_arg s else IncInt <$> parse_int s.
Definition incr_scalar (i : incr) : scalar :=
  match i with IncInt n => SInt n | IncFloat f => SFloat f end.
(** Adding to a field: a string is not a number; an integer plus an integer stays an integer as
    long as it fits int64 (otherwise the command is refused); anything involving a float is a float. *)
Definition hincr (cur : scalar) (i : incr) : option scalar :=
  match cur, i with
  | SStr _, _ => None
  | SInt a, IncInt n => if in_int64 (a + n) then Some (SInt (a + n)) else None
  | SInt a, IncFloat f => Some (SFloat (fl_add (fl_of_Z a) f))
  | SFloat g, IncInt n => Some (SFloat (fl_add g (fl_of_Z n)))
  | SFloat g, IncFloat f => Some (SFloat (fl_add g f))
  end.

(** * HDEL: the fields are visited in argument order; one that is present is removed and counted. *)
Fixpoint hdel_loop (fields : list string) (h : hmap) (count : Z) : hmap * Z :=
  match fields with
  | [] => (h, count)
  | f :: r => match h !! f with
              | Some _ => hdel_loop r (delete f h) (count + 1)
              | None => hdel_loop r h count
              end
  end.

(** * Whole-hash replies, in sorted field order (Go ranges over the map: any order) *)
Definition hkeys_reply (h : hmap) : reply := bulks (sorted_keys h).
Definition hvals_reply (h : hmap) : reply := RArr (map (fun f => field_reply (h !! f)) (sorted_keys h)).
Definition with_vals (h : hmap) (wv : bool) (fs : list string) : list reply :=
  flat_map (fun f => RBulk f :: (if wv then [field_reply (h !! f)] else [])) fs.
Definition hgetall_reply (h : hmap) : reply := RArr (with_vals h true (sorted_keys h)).

(** * HRANDFIELD: the canonical selection standing for the random one — the first [count] fields
    in sorted order for [count >= 0] (all of them when [count] is at least the size), the first
    field repeated [|count|] times for [count < 0] (nothing when the hash is empty). *)
Definition hrand_pick (h : hmap) (count : Z) : list string :=
  let fs := sorted_keys h in
  if 0 <=? count then firstn (Z.to_nat (Z.min count (zlen fs))) fs
  else match fs with
       | [] => []
       | f :: _ => repeat f (Z.to_nat (- count))
       end.
