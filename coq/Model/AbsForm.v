(** [internal.AbsoluteExpiryForm] ([internal/absolute_expiry.go], fixes/fix-absolute-expiry.diff): the
    command that is written to the append-only log and put into the raft log in place of a command with a
    relative expiry.  Same order of checks as the Go function; times are unix milliseconds.

      SET key value [NX|XX] [GET] EX s | PX ms   ->  SET key value [NX|XX] [GET] PXAT (now + ..)
      EXPIRE key s [NX|XX|GT|LT]                 ->  PEXPIREAT key (now + s * 1000) [..]
      PEXPIRE key ms [NX|XX|GT|LT]               ->  PEXPIREAT key (now + ms) [..]
      GETEX key EX s | PX ms                     ->  GETEX key PXAT (now + ..)

    Everything else — other commands, argument vectors the handler refuses, times whose conversion to
    [time.Duration] overflows in the handler (finding KF-C04-duration-overflow) — is returned as it is. *)
From stdpp Require Import gmap strings.
From EV Require Import Base.Str Model.Prog.
Local Open Scope Z_scope.

(** [math.MaxInt64 / int64(time.Second)], [math.MaxInt64 / int64(time.Millisecond)]. *)
Definition max_rel_s : Z := 9223372036.
Definition max_rel_ms : Z := 9223372036854.

(** [absoluteMilliseconds] *)
Definition abs_ms (s : string) (milli : bool) (now : Z) : option Z :=
  match parse_int s with
  | None => None
  | Some n =>
      let lim := if milli then max_rel_ms else max_rel_s in
      if (lim <? n) || (n <? - lim) then None else
      let t := now + (if milli then n else n * 1000) in
      if in_int64 t then Some t else None
  end.

(** [absoluteSetOptions]: the rewritten option list and whether anything was rewritten; [None] for a
    list [getSetCommandOptions] refuses.  [ex]: NX or XX seen; [dl]: an expiry option seen. *)
Fixpoint abs_set_opts (now : Z) (opts : list string) (ex dl : bool) : option (list string * bool) :=
  match opts with
  | [] => Some ([], false)
  | w :: rest =>
      let lw := lower w in
      if String.eqb lw "get" then
        match abs_set_opts now rest ex dl with Some (r, c) => Some (w :: r, c) | None => None end
      else if String.eqb lw "nx" || String.eqb lw "xx" then
        if ex then None else
        match abs_set_opts now rest true dl with Some (r, c) => Some (w :: r, c) | None => None end
      else if String.eqb lw "ex" || String.eqb lw "px" then
        match rest with
        | [] => None
        | v :: rest' =>
            if dl then None else
            match abs_ms v (String.eqb lw "px") now with
            | None => None
            | Some t =>
                match abs_set_opts now rest' ex true with
                | Some (r, _) => Some ("PXAT" :: show_Z t :: r, true)
                | None => None
                end
            end
        end
      else if String.eqb lw "exat" || String.eqb lw "pxat" then
        match rest with
        | [] => None
        | v :: rest' =>
            if dl then None else
            match parse_int v with
            | None => None
            | Some _ =>
                match abs_set_opts now rest' ex true with
                | Some (r, c) => Some (w :: v :: r, c)
                | None => None
                end
            end
        end
      else None
  end.

Definition expire_opt_known (o : string) : bool :=
  let lo := lower o in
  String.eqb lo "nx" || String.eqb lo "xx" || String.eqb lo "gt" || String.eqb lo "lt".

(** [AbsoluteExpiryForm cmd now]. *)
Definition absolute_form (now : Z) (argv : list string) : list string :=
  match argv with
  | c :: k :: v :: rest =>
      let name := lower c in
      if String.eqb name "expire" || String.eqb name "pexpire" then
        if match rest with [] => true | [o] => expire_opt_known o | _ => false end then
          match abs_ms v (String.eqb name "pexpire") now with
          | Some t => "PEXPIREAT" :: k :: show_Z t :: rest
          | None => argv
          end
        else argv
      else if String.eqb name "getex" then
        match rest with
        | [n] =>
            let unit := upper v in
            if String.eqb unit "EX" || String.eqb unit "PX" then
              match abs_ms n (String.eqb unit "PX") now with
              | Some t => [c; k; "PXAT"; show_Z t]
              | None => argv
              end
            else argv
        | _ => argv
        end
      else if String.eqb name "set" then
        if (4 <? length rest)%nat then argv else
        match abs_set_opts now rest false false with
        | Some (opts, true) => c :: k :: v :: opts
        | _ => argv
        end
      else argv
  | _ => argv
  end.
