(** Byte strings, decimal and hex codecs, small list utilities.
    Strings are Coq [string]s (lists of 8-bit [ascii]); every byte value is representable. *)
From Coq Require Export String Ascii List ZArith Lia Bool.
From Coq Require Import DecimalString DecimalZ.
Export ListNotations.
Local Open Scope string_scope.
Local Open Scope Z_scope.

(** * Conversions string <-> list ascii *)
Definition chars := list_ascii_of_string.
Definition of_chars := string_of_list_ascii.

Lemma of_chars_chars s : of_chars (chars s) = s.
Proof. apply string_of_list_ascii_of_string. Qed.
Lemma chars_of_chars l : chars (of_chars l) = l.
Proof. apply list_ascii_of_string_of_list_ascii. Qed.

Definition slen (s : string) : Z := Z.of_nat (String.length s).

(** * Byte-wise order (Go's string comparison) *)
Fixpoint str_ltb (a b : string) : bool :=
  match a, b with
  | EmptyString, EmptyString => false
  | EmptyString, String _ _ => true
  | String _ _, EmptyString => false
  | String x a', String y b' =>
      let nx := nat_of_ascii x in let ny := nat_of_ascii y in
      if Nat.ltb nx ny then true else if Nat.ltb ny nx then false else str_ltb a' b'
  end.
Definition str_leb (a b : string) : bool := negb (str_ltb b a).

Fixpoint insert_sorted {A} (leb : A -> A -> bool) (x : A) (l : list A) : list A :=
  match l with
  | [] => [x]
  | y :: l' => if leb x y then x :: l else y :: insert_sorted leb x l'
  end.
Definition sort_by {A} (leb : A -> A -> bool) (l : list A) : list A :=
  fold_right (insert_sorted leb) [] l.
Definition sort_strings := sort_by str_leb.

(** * Hex *)
Definition hex_digit (n : nat) : ascii :=
  match n with
  | 0 => "0" | 1 => "1" | 2 => "2" | 3 => "3" | 4 => "4" | 5 => "5" | 6 => "6" | 7 => "7"
  | 8 => "8" | 9 => "9" | 10 => "a" | 11 => "b" | 12 => "c" | 13 => "d" | 14 => "e" | _ => "f"
  end%char%nat.

Definition hex_val (c : ascii) : option nat :=
  let n := nat_of_ascii c in
  if andb (Nat.leb 48 n) (Nat.leb n 57) then Some (n - 48)%nat
  else if andb (Nat.leb 97 n) (Nat.leb n 102) then Some (n - 87)%nat
  else if andb (Nat.leb 65 n) (Nat.leb n 70) then Some (n - 55)%nat
  else None.

Fixpoint hex_of_string (s : string) : string :=
  match s with
  | EmptyString => EmptyString
  | String c s' =>
      let n := nat_of_ascii c in
      String (hex_digit (n / 16)) (String (hex_digit (n mod 16)) (hex_of_string s'))
  end.

Fixpoint string_of_hex (s : string) : option string :=
  match s with
  | EmptyString => Some EmptyString
  | String a (String b s') =>
      match hex_val a, hex_val b, string_of_hex s' with
      | Some x, Some y, Some r => Some (String (ascii_of_nat (16 * x + y)) r)
      | _, _, _ => None
      end
  | _ => None
  end.

(** * Decimal *)
Definition show_Z (z : Z) : string := NilZero.string_of_int (Z.to_int z).

Definition is_digit (c : ascii) : bool :=
  let n := nat_of_ascii c in andb (Nat.leb 48 n) (Nat.leb n 57).

Fixpoint digits_val (acc : Z) (s : string) : option Z :=
  match s with
  | EmptyString => Some acc
  | String c s' => if is_digit c then digits_val (10 * acc + Z.of_nat (nat_of_ascii c - 48)) s' else None
  end.

(** Unsigned decimal: at least one digit, only digits. *)
Definition parse_nat (s : string) : option Z :=
  match s with
  | EmptyString => None
  | _ => digits_val 0 s
  end.

Definition int64_min : Z := - 2 ^ 63.
Definition int64_max : Z := 2 ^ 63 - 1.
Definition in_int64 (z : Z) : bool := andb (int64_min <=? z) (z <=? int64_max).

(** [strconv.Atoi] / [strconv.ParseInt(s, 10, 64)]: optional sign, at least one digit,
    digits only (no underscores in base 10), value within int64. *)
Definition parse_int (s : string) : option Z :=
  let body (neg : bool) (t : string) :=
    match parse_nat t with
    | Some n => let v := if neg then - n else n in if in_int64 v then Some v else None
    | None => None
    end in
  match s with
  | String "-"%char t => body true t
  | String "+"%char t => body false t
  | _ => body false s
  end.

(** * ASCII case *)
Definition lower_ascii (c : ascii) : ascii :=
  let n := nat_of_ascii c in
  if andb (Nat.leb 65 n) (Nat.leb n 90) then ascii_of_nat (n + 32) else c.
Definition upper_ascii (c : ascii) : ascii :=
  let n := nat_of_ascii c in
  if andb (Nat.leb 97 n) (Nat.leb n 122) then ascii_of_nat (n - 32) else c.
Fixpoint lower (s : string) : string :=
  match s with EmptyString => EmptyString | String c s' => String (lower_ascii c) (lower s') end.
Fixpoint upper (s : string) : string :=
  match s with EmptyString => EmptyString | String c s' => String (upper_ascii c) (upper s') end.
Definition eq_fold (a b : string) : bool := String.eqb (lower a) (lower b).

(** * Splitting a line on single spaces *)
Fixpoint split_on (sep : ascii) (cur : string) (s : string) : list string :=
  match s with
  | EmptyString => [cur]
  | String c s' =>
      if Ascii.eqb c sep then cur :: split_on sep EmptyString s'
      else split_on sep (cur ++ String c EmptyString) s'
  end.
Definition split_words (s : string) : list string :=
  filter (fun w => negb (String.eqb w "")) (split_on " "%char "" s).

Fixpoint join (sep : string) (l : list string) : string :=
  match l with
  | [] => ""
  | [x] => x
  | x :: l' => x ++ sep ++ join sep l'
  end.

(** * List helpers with Z indices (Go slices) *)
Definition zlen {A} (l : list A) : Z := Z.of_nat (length l).
Definition znth {A} (l : list A) (i : Z) : option A :=
  if i <? 0 then None else nth_error l (Z.to_nat i).
Definition zfirstn {A} (n : Z) (l : list A) : list A := firstn (Z.to_nat n) l.
Definition zskipn {A} (n : Z) (l : list A) : list A := skipn (Z.to_nat n) l.
(** [slice l lo hi] = Go's [l[lo:hi]] for 0 <= lo <= hi <= len. *)
Definition slice {A} (l : list A) (lo hi : Z) : list A := zfirstn (hi - lo) (zskipn lo l).

Lemma zlen_nonneg {A} (l : list A) : 0 <= zlen l.
Proof. unfold zlen; lia. Qed.
Lemma zlen_app {A} (a b : list A) : zlen (a ++ b) = zlen a + zlen b.
Proof. unfold zlen; rewrite app_length; lia. Qed.
