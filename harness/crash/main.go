package main

// Crash / restart / rewrite harness for C02 and C09.
//
// One process runs scripts one after the other (stdin -> stdout).  A script owns a scratch directory
// <root>; the live instance keeps its files in <root>/live; every image is restored in a fresh
// instance on a copy <root>/img.  Lines:
//
//   S <id> root=<dir> aofsync=<always|everysec|no> now=<ms> [images=0]
//   O                    open (start / restart) the live instance with AOF restore   -> "O ok|!|-"
//   D <conn> <db>        select a database: conn 0 is the embedded caller (SelectDB), others are
//                        socket-free TCP-style connections (SELECT through the connection)
//   C <conn> <hex>...    command -> "R <reply>", then one "I <point> <digest>" per failpoint reached
//                        inside the command (the image of the data directory at that point, restored
//                        in a fresh instance), then "L <hex of log.aof>" and "Y <synced size>"
//   TORN                 every byte offset of the bytes the last command appended to the log:
//                        "T <offset> <digest restored from the directory with the log cut there>"
//   RW <conn>            REWRITEAOF the same way (R, I..., L, Y); the images of the torn preamble write
//                        are "IP <offset> <digest>" (every offset when the preamble is short, else 16)
//                        since the repair of the rewrite: "IP 0" is a half-written preamble.bin.tmp next to the
//                        old files, "IP <offset>" the new preamble with the log's new header cut at that byte
//   RWK <conn> <point>   REWRITEAOF that dies at the failpoint (the point function panics there; no file
//                        operation follows): -> "R !"; the script goes on with K and O on what is left
//   RWC <conn> <first:W|R> <pw> <pr> <hex>...   a write command and a REWRITEAOF on two goroutines; the
//                        first one runs until its point and is parked there, then the second runs until
//                        its point (or blocks, or finishes); the mid image is restored; then the first
//                        and the second are released.  -> "SCHED ...", "I mid <digest>", "R <writer
//                        reply>", "RR <rewrite reply>"
//   G                    digest of the live instance
//   A <ms>               advance the virtual clock (also used by the restoring instances)
//   K                    kill: the live instance is abandoned without ShutDown
//   Q                    clean ShutDown
//   CUT <n>              (instance down) cut n bytes off the end of log.aof
//   X <hex>              (instance down) append raw bytes to log.aof
//   DEC                  (instance down) restore a copy and print the commands the log restore
//                        dispatches: "D <db> <hex command>"..., then "DE ok|!|-"
//   IMG                  image of the directory as it is now -> "I now <digest>"
//   E                    end of script (scratch directory removed)

import (
	"bytes"
	"bufio"
	"encoding/hex"
	"fmt"
	"io"
	"log"
	"net"
	"os"
	"path/filepath"
	"strconv"
	"strings"
	"sync"
	"time"

	"github.com/echovault/sugardb/sugardb"
)

type inst struct {
	db    *sugardb.SugarDB
	conns map[int]*net.Conn
}

type script struct {
	root    string
	sync    string
	clk     *sugardb.VerifClock
	live    *inst
	images  bool
	lastSz0 int64 // log size before the last command
	lastSz1 int64
	lastPre []byte // log bytes before the last command (for TORN)
	synced  int64
}

var out *bufio.Writer

func unhex(s string) string {
	if s == "-" {
		return ""
	}
	b, err := hex.DecodeString(s)
	if err != nil {
		panic("bad hex " + s)
	}
	return string(b)
}

func encode(argv []string) []byte {
	var sb strings.Builder
	fmt.Fprintf(&sb, "*%d\r\n", len(argv))
	for _, a := range argv {
		fmt.Fprintf(&sb, "$%d\r\n%s\r\n", len(a), a)
	}
	return []byte(sb.String())
}

func (sc *script) logPath() string { return filepath.Join(sc.root, "live", "aof", "log.aof") }
func (sc *script) prePath() string { return filepath.Join(sc.root, "live", "aof", "preamble.bin") }
func (sc *script) tmpPath() string { return sc.prePath() + ".tmp" }

func readFile(p string) []byte {
	b, err := os.ReadFile(p)
	if err != nil {
		return nil
	}
	return b
}

func fileSize(p string) int64 {
	st, err := os.Stat(p)
	if err != nil {
		return 0
	}
	return st.Size()
}

// open starts an instance on dir; a panic or an error is reported, never propagated.
func (sc *script) open(dir string) (in *inst, status string) {
	defer func() {
		if r := recover(); r != nil {
			in, status = nil, "!"
		}
	}()
	conf := sugardb.DefaultConfig()
	conf.DataDir = dir
	conf.EvictionInterval = 1000 * time.Hour
	conf.SnapshotInterval = 1000 * time.Hour
	conf.AOFSyncStrategy = sc.sync
	conf.RestoreAOF = true
	conf.RestoreSnapshot = false
	db, err := sugardb.NewSugarDB(sugardb.WithConfig(conf), sugardb.WithVerifClock(sc.clk))
	if err != nil {
		return nil, "-"
	}
	return &inst{db: db, conns: map[int]*net.Conn{}}, "ok"
}

func (in *inst) conn(id int) *net.Conn {
	if id == 0 {
		return nil
	}
	c, ok := in.conns[id]
	if !ok {
		c = in.db.VerifNewConn()
		in.conns[id] = c
	}
	return c
}

type image struct {
	label string
	logb  []byte
	preb  []byte
	tmpb  []byte // preamble.bin.tmp (never read by a restore)
}

func (sc *script) snap(label string) image {
	return image{label: label, logb: readFile(sc.logPath()), preb: readFile(sc.prePath()), tmpb: readFile(sc.tmpPath())}
}

var imgMu sync.Mutex

// restoreImage writes the two files into a scratch directory, starts a fresh instance on it with AOF
// restore and returns its digest ("!" when start-up panicked, "-" when it failed).
func (sc *script) restoreImage(im image) string {
	imgMu.Lock()
	defer imgMu.Unlock()
	dir := filepath.Join(sc.root, "img")
	os.RemoveAll(dir)
	if err := os.MkdirAll(filepath.Join(dir, "aof"), 0o755); err != nil {
		return "?mkdir"
	}
	defer os.RemoveAll(dir)
	if im.logb != nil {
		os.WriteFile(filepath.Join(dir, "aof", "log.aof"), im.logb, 0o644)
	}
	if im.preb != nil {
		os.WriteFile(filepath.Join(dir, "aof", "preamble.bin"), im.preb, 0o644)
	}
	if im.tmpb != nil {
		os.WriteFile(filepath.Join(dir, "aof", "preamble.bin.tmp"), im.tmpb, 0o644)
	}
	hookOff(true)
	defer hookOff(false)
	in, st := sc.open(dir)
	if in == nil {
		return st
	}
	d := in.db.VerifDigest()
	in.db.ShutDown()
	return d
}

// ---- point function --------------------------------------------------------------------------

type pointCtl struct {
	mu       sync.Mutex
	off      bool
	record   func(name string, db int, data []byte) // called for every point (not parked)
	parkW    string                                 // point at which the writer parks
	parkR    string                                 // point at which the rewrite parks
	parkedW  chan struct{}                          // closed when parked
	parkedR  chan struct{}
	releaseW chan struct{}
	releaseR chan struct{}
}

var ctl pointCtl

func hookOff(b bool) {
	ctl.mu.Lock()
	ctl.off = b
	ctl.mu.Unlock()
}

func isRewritePoint(name string, data []byte) bool {
	return strings.HasPrefix(name, "rewrite.") || strings.HasPrefix(name, "pre.create.") ||
		strings.HasPrefix(name, "log.trunc.") || name == "getstate.copy"
}

func pointFunc(name string, db int, data []byte) {
	ctl.mu.Lock()
	if ctl.off {
		ctl.mu.Unlock()
		return
	}
	rec := ctl.record
	var parked, release chan struct{}
	if strings.HasPrefix(name, "cmd.") && strings.Contains(strings.ToUpper(string(data)), "REWRITEAOF") {
		// the REWRITEAOF command's own passage through handleCommand is not a yield point
	} else if isRewritePoint(name, data) {
		if ctl.parkR != "" && ctl.parkR == name {
			parked, release = ctl.parkedR, ctl.releaseR
			ctl.parkR = ""
		}
	} else if ctl.parkW != "" && ctl.parkW == name {
		parked, release = ctl.parkedW, ctl.releaseW
		ctl.parkW = ""
	}
	ctl.mu.Unlock()
	if rec != nil {
		rec(name, db, data)
	}
	if parked != nil {
		close(parked)
		<-release
	}
}

// ---- commands --------------------------------------------------------------------------------

func replyText(res []byte, herr error, pan string) string {
	switch {
	case pan != "":
		return "!"
	case herr != nil:
		if herr == io.EOF {
			return "EOF"
		}
		return "-"
	}
	return canon(res)
}

var imagePoints = map[string]bool{
	"cmd.after_handler": true, "log.write.after_select": true, "log.write.after_cmd": true,
	"log.write.after_sync": true, "cmd.after_log": true,
	"rewrite.begin": true, "pre.create.after_state": true, "pre.create.after_truncate": true,
	"pre.create.after_write": true, "pre.create.after_sync": true, "rewrite.after_preamble": true,
	"log.trunc.after_truncate": true, "log.trunc.after_header": true, "log.trunc.after_sync": true,
	"rewrite.after_truncate": true,
	"pre.create.after_create": true, "pre.create.after_rename": true, "log.trunc.after_generation": true,
}

// runWithImages runs one raw command on the live instance, taking an image at every failpoint.
func (sc *script) runWithImages(conn int, raw []byte) (string, []image) {
	var images []image
	sc.lastSz0 = fileSize(sc.logPath())
	sc.lastPre = readFile(sc.logPath())
	ctl.mu.Lock()
	ctl.record = func(name string, db int, data []byte) {
		if name == "log.write.after_sync" || name == "log.trunc.after_sync" {
			sc.synced = fileSize(sc.logPath())
		}
		if sc.images && imagePoints[name] {
			images = append(images, sc.snap(name))
		}
	}
	ctl.mu.Unlock()
	res, herr, pan := sc.live.db.VerifHandle(sc.live.conn(conn), raw)
	ctl.mu.Lock()
	ctl.record = nil
	ctl.mu.Unlock()
	sc.lastSz1 = fileSize(sc.logPath())
	return replyText(res, herr, pan), images
}

func (sc *script) emitFiles() {
	fmt.Fprintf(out, "L %s\n", hexOrDash(readFile(sc.logPath())))
	if sc.sync == "everysec" {
		fmt.Fprintf(out, "Y *\n")
	} else {
		fmt.Fprintf(out, "Y %d\n", sc.synced)
	}
}

func hexOrDash(b []byte) string {
	if len(b) == 0 {
		return "-"
	}
	return hex.EncodeToString(b)
}

func (sc *script) selectDB(conn, db int) string {
	if conn == 0 {
		if err := sc.live.db.SelectDB(db); err != nil {
			return "-"
		}
		return "ok"
	}
	res, herr, pan := sc.live.db.VerifHandle(sc.live.conn(conn), encode([]string{"SELECT", strconv.Itoa(db)}))
	r := replyText(res, herr, pan)
	if strings.HasPrefix(r, "+") {
		return "ok"
	}
	return r
}

// waitChan waits for c to be closed, at most d.
func waitChan(c chan struct{}, d time.Duration) bool {
	select {
	case <-c:
		return true
	case <-time.After(ts(d)):
		return false
	}
}

func (sc *script) concurrent(conn int, first, pw, pr string, raw []byte) {
	ctl.mu.Lock()
	ctl.parkW, ctl.parkR = pw, pr
	ctl.parkedW, ctl.parkedR = make(chan struct{}), make(chan struct{})
	ctl.releaseW, ctl.releaseR = make(chan struct{}), make(chan struct{})
	parkedW, parkedR, releaseW, releaseR := ctl.parkedW, ctl.parkedR, ctl.releaseW, ctl.releaseR
	ctl.mu.Unlock()
	doneW, doneR := make(chan struct{}), make(chan struct{})
	var replyW, replyR string
	startW := func() {
		go func() {
			res, herr, pan := sc.live.db.VerifHandle(sc.live.conn(conn), raw)
			replyW = replyText(res, herr, pan)
			close(doneW)
		}()
	}
	startR := func() {
		go func() {
			res, herr, pan := sc.live.db.VerifHandle(sc.live.conn(conn+100), encode([]string{"REWRITEAOF"}))
			replyR = replyText(res, herr, pan)
			close(doneR)
		}()
	}
	status := func(parked, done chan struct{}, d time.Duration) string {
		select {
		case <-parked:
			return "parked"
		case <-done:
			return "done"
		case <-time.After(ts(d)):
			return "blocked"
		}
	}
	var st1, st2 string
	if first == "W" {
		startW()
		st1 = status(parkedW, doneW, 2*time.Second)
		startR()
		st2 = status(parkedR, doneR, 150*time.Millisecond)
	} else {
		startR()
		st1 = status(parkedR, doneR, 2*time.Second)
		startW()
		st2 = status(parkedW, doneW, 150*time.Millisecond)
	}
	fmt.Fprintf(out, "SCHED first=%s %s second=%s\n", first, st1, st2)
	mid := sc.snap("mid")
	// release the first, wait for it, then the second
	hung := false
	if first == "W" {
		close(releaseW)
		if !waitChan(doneW, 3*time.Second) {
			hung = true
		}
		close(releaseR)
		if !waitChan(doneR, 3*time.Second) {
			hung = true
		}
	} else {
		close(releaseR)
		if !waitChan(doneR, 3*time.Second) {
			hung = true
		}
		close(releaseW)
		if !waitChan(doneW, 3*time.Second) {
			hung = true
		}
	}
	ctl.mu.Lock()
	ctl.parkW, ctl.parkR = "", ""
	ctl.mu.Unlock()
	fmt.Fprintf(out, "I mid %s\n", sc.restoreImage(mid))
	if hung {
		fmt.Fprintf(out, "HUNG\n")
		out.Flush()
		os.Exit(3)
	}
	fmt.Fprintf(out, "R %s\n", replyW)
	fmt.Fprintf(out, "RR %s\n", replyR)
}

// twoWriters: the first write command is parked at a point between its handler and its log record; a second write command
// is started on another connection. A command is atomic with its log record, so the second must wait ("blocked") until the
// first is released; if it runs to completion first ("done"), the log order differs from the order of execution.
func (sc *script) twoWriters(point string, c1 int, raw1 []byte, c2 int, raw2 []byte) {
	ctl.mu.Lock()
	ctl.parkW, ctl.parkR = point, ""
	ctl.parkedW, ctl.releaseW = make(chan struct{}), make(chan struct{})
	parkedW, releaseW := ctl.parkedW, ctl.releaseW
	ctl.record = func(name string, db int, data []byte) {
		if name == "log.write.after_sync" {
			sc.synced = fileSize(sc.logPath())
		}
	}
	ctl.mu.Unlock()
	defer func() {
		ctl.mu.Lock()
		ctl.record = nil
		ctl.mu.Unlock()
	}()
	done1, done2 := make(chan struct{}), make(chan struct{})
	var reply1, reply2 string
	go func() {
		res, herr, pan := sc.live.db.VerifHandle(sc.live.conn(c1), raw1)
		reply1 = replyText(res, herr, pan)
		close(done1)
	}()
	st1 := "blocked"
	select {
	case <-parkedW:
		st1 = "parked"
	case <-done1:
		st1 = "done"
	case <-time.After(ts(2 * time.Second)):
	}
	ctl.mu.Lock()
	ctl.parkW = ""
	ctl.mu.Unlock()
	go func() {
		res, herr, pan := sc.live.db.VerifHandle(sc.live.conn(c2), raw2)
		reply2 = replyText(res, herr, pan)
		close(done2)
	}()
	st2 := "blocked"
	select {
	case <-done2:
		st2 = "done"
	case <-time.After(ts(150 * time.Millisecond)):
	}
	fmt.Fprintf(out, "SCHED ww %s %s\n", st1, st2)
	close(releaseW)
	hung := !waitChan(done1, 3*time.Second)
	if !waitChan(done2, 3*time.Second) {
		hung = true
	}
	if hung {
		fmt.Fprintf(out, "HUNG\n")
		out.Flush()
		os.Exit(3)
	}
	fmt.Fprintf(out, "R %s\n", reply1)
	fmt.Fprintf(out, "R %s\n", reply2)
}

func main() {
	log.SetOutput(io.Discard)
	rd := bufio.NewReaderSize(os.Stdin, 1<<20)
	realOut := os.Stdout
	if devnull, derr := os.OpenFile(os.DevNull, os.O_WRONLY, 0); derr == nil {
		os.Stdout = devnull
	}
	out = bufio.NewWriterSize(realOut, 1<<20)
	defer out.Flush()
	sugardb.VerifSetPointFunc(pointFunc)
	var sc *script
	for {
		line, err := rd.ReadString('\n')
		line = strings.TrimRight(line, "\n")
		if line != "" {
			f := strings.Fields(line)
			if sc != nil && sc.live == nil {
				switch f[0] {
				case "C", "RW", "RWC", "RWK", "WW", "D":
					if f[0] != "D" {
						fmt.Fprintf(out, "BAD %s\n", line)
					}
					out.Flush()
					continue
				case "G":
					fmt.Fprintf(out, "G down\n")
					out.Flush()
					continue
				}
			}
			switch f[0] {
			case "S":
				sc = &script{sync: "always", images: true}
				now := int64(1700000000000)
				for _, kv := range f[2:] {
					p := strings.SplitN(kv, "=", 2)
					if len(p) != 2 {
						continue
					}
					switch p[0] {
					case "root":
						sc.root = p[1]
					case "aofsync":
						sc.sync = p[1]
					case "now":
						now, _ = strconv.ParseInt(p[1], 10, 64)
					case "images":
						sc.images = p[1] != "0"
					}
				}
				if sc.root == "" {
					panic("no root")
				}
				os.RemoveAll(sc.root)
				os.MkdirAll(filepath.Join(sc.root, "live"), 0o755)
				sc.clk = sugardb.NewVerifClock(now)
				fmt.Fprintf(out, "S %s\n", f[1])
			case "O":
				hookOff(true)
				in, st := sc.open(filepath.Join(sc.root, "live"))
				hookOff(false)
				sc.live = in
				sc.synced = fileSize(sc.logPath())
				fmt.Fprintf(out, "O %s\n", st)
			case "D":
				c, _ := strconv.Atoi(f[1])
				d, _ := strconv.Atoi(f[2])
				if r := sc.selectDB(c, d); r != "ok" {
					fmt.Fprintf(out, "D %s\n", r)
				}
			case "C":
				id, _ := strconv.Atoi(f[1])
				argv := make([]string, len(f)-2)
				for i, h := range f[2:] {
					argv[i] = unhex(h)
				}
				r, images := sc.runWithImages(id, encode(argv))
				fmt.Fprintf(out, "R %s\n", r)
				for _, im := range images {
					fmt.Fprintf(out, "I %s %s\n", im.label, sc.restoreImage(im))
				}
				sc.emitFiles()
			case "TORN":
				cur := readFile(sc.logPath())
				pre := readFile(sc.prePath())
				for off := sc.lastSz0 + 1; off < sc.lastSz1 && off <= int64(len(cur)); off++ {
					fmt.Fprintf(out, "T %d %s\n", off-sc.lastSz0, sc.restoreImage(image{logb: cur[:off], preb: pre}))
				}
			case "RW":
				id, _ := strconv.Atoi(f[1])
				preBefore := readFile(sc.prePath())
				logBefore := readFile(sc.logPath())
				r, images := sc.runWithImages(id+100, encode([]string{"REWRITEAOF"}))
				fmt.Fprintf(out, "R %s\n", r)
				for _, im := range images {
					fmt.Fprintf(out, "I %s %s\n", im.label, sc.restoreImage(im))
				}
				newPre := readFile(sc.prePath())
				newLog := readFile(sc.logPath())
				if strings.HasPrefix(r, "+") && sc.images {
					// a half-written temporary file next to the old preamble and the old log
					fmt.Fprintf(out, "IP 0 %s\n", sc.restoreImage(image{logb: logBefore, preb: preBefore, tmpb: newPre[:len(newPre)/2]}))
					// the new preamble with the log's new header cut at every byte
					for off := 1; off < len(newLog); off++ {
						fmt.Fprintf(out, "IP %d %s\n", off, sc.restoreImage(image{logb: newLog[:off], preb: newPre}))
					}
				}
				sc.emitFiles()
			case "RWK":
				id, _ := strconv.Atoi(f[1])
				ctl.mu.Lock()
				ctl.record = func(name string, db int, data []byte) {
					if name == f[2] {
						panic("verif: process dies at " + name)
					}
				}
				ctl.mu.Unlock()
				res, herr, pan := sc.live.db.VerifHandle(sc.live.conn(id+100), encode([]string{"REWRITEAOF"}))
				ctl.mu.Lock()
				ctl.record = nil
				ctl.mu.Unlock()
				fmt.Fprintf(out, "R %s\n", replyText(res, herr, pan))
			case "LT":
				// leftover of an earlier crashed rewrite: a temporary preamble file longer than anything the next rewrite writes
				n, _ := strconv.Atoi(f[1])
				os.MkdirAll(filepath.Dir(sc.prePath()), 0o755)
				os.WriteFile(sc.prePath()+".tmp", bytes.Repeat([]byte("x"), n), 0o644)
			case "WW":
				c1, _ := strconv.Atoi(f[2])
				n1, _ := strconv.Atoi(f[3])
				argv1 := make([]string, n1)
				for i, h := range f[4 : 4+n1] {
					argv1[i] = unhex(h)
				}
				c2, _ := strconv.Atoi(f[4+n1])
				argv2 := make([]string, len(f)-5-n1)
				for i, h := range f[5+n1:] {
					argv2[i] = unhex(h)
				}
				sc.twoWriters(f[1], c1, encode(argv1), c2, encode(argv2))
				sc.emitFiles()
			case "RWC":
				id, _ := strconv.Atoi(f[1])
				argv := make([]string, len(f)-5)
				for i, h := range f[5:] {
					argv[i] = unhex(h)
				}
				sc.concurrent(id, f[2], f[3], f[4], encode(argv))
			case "G":
				fmt.Fprintf(out, "G %s\n", sc.live.db.VerifDigest())
			case "A":
				ms, _ := strconv.ParseInt(f[1], 10, 64)
				sc.clk.Advance(time.Duration(ms) * time.Millisecond)
			case "K":
				sc.live = nil
			case "Q":
				if sc.live != nil {
					sc.live.db.ShutDown()
					sc.live = nil
				}
			case "CUT":
				n, _ := strconv.ParseInt(f[1], 10, 64)
				sz := fileSize(sc.logPath())
				if n > sz {
					n = sz
				}
				os.Truncate(sc.logPath(), sz-n)
			case "X":
				os.MkdirAll(filepath.Join(sc.root, "live", "aof"), 0o755)
				fh, ferr := os.OpenFile(sc.logPath(), os.O_WRONLY|os.O_CREATE|os.O_APPEND, 0o644)
				if ferr == nil {
					fh.Write([]byte(unhex(f[1])))
					fh.Close()
				}
			case "DEC":
				ctl.mu.Lock()
				ctl.record = func(name string, db int, data []byte) {
					if name == "log.restore.cmd" {
						fmt.Fprintf(out, "D %d %s\n", db, hexOrDash(data))
					}
					if name == "log.restore.truncated" {
						fmt.Fprintf(out, "DT %d\n", db)
					}
				}
				ctl.mu.Unlock()
				dir := filepath.Join(sc.root, "dec")
				os.RemoveAll(dir)
				os.MkdirAll(filepath.Join(dir, "aof"), 0o755)
				os.WriteFile(filepath.Join(dir, "aof", "log.aof"), readFile(sc.logPath()), 0o644)
				in, st := sc.open(dir)
				ctl.mu.Lock()
				ctl.record = nil
				ctl.mu.Unlock()
				if in != nil {
					in.db.ShutDown()
				}
				fmt.Fprintf(out, "DE %s\n", st)
				os.RemoveAll(dir)
			case "IMG":
				fmt.Fprintf(out, "I now %s\n", sc.restoreImage(sc.snap("now")))
			case "E":
				if sc != nil {
					if sc.live != nil {
						sc.live.db.ShutDown()
					}
					os.RemoveAll(sc.root)
				}
				fmt.Fprintf(out, "E\n")
				sc = nil
			}
			out.Flush()
		}
		if err != nil {
			break
		}
	}
}
