package main

// Embedded API path (line kind "M"): the exported Go functions of sugardb/api_generic.go and
// sugardb/api_string.go for the commands of the C01 alphabet. The result is rendered in the canonical
// reply notation: error "-", string "$hex", integer ":n", bool ":1"/":0", list "[$.. $..]".

import (
	"encoding/hex"
	"fmt"
	"strconv"
	"strings"

	"github.com/echovault/sugardb/sugardb"
)

func hexs(s string) string {
	return "$" + hex.EncodeToString([]byte(s))
}

func apiCall(db *sugardb.SugarDB, op string, a []string) (res string) {
	defer func() {
		if r := recover(); r != nil {
			res = "!"
		}
	}()
	str := func(s string, err error) string {
		if err != nil {
			return "-"
		}
		return hexs(s)
	}
	num := func(n int, err error) string {
		if err != nil {
			return "-"
		}
		return fmt.Sprintf(":%d", n)
	}
	atoi := func(s string) int { n, _ := strconv.Atoi(s); return n }
	switch op {
	case "SET": // key value writeopt(-|NX|XX) exopt(-|EX|PX|EXAT|PXAT) extime get(0|1)
		o := sugardb.SETOptions{}
		if a[2] == "NX" {
			o.WriteOpt = sugardb.SETNX
		} else if a[2] == "XX" {
			o.WriteOpt = sugardb.SETXX
		}
		switch a[3] {
		case "EX":
			o.ExpireOpt = sugardb.SETEX
		case "PX":
			o.ExpireOpt = sugardb.SETPX
		case "EXAT":
			o.ExpireOpt = sugardb.SETEXAT
		case "PXAT":
			o.ExpireOpt = sugardb.SETPXAT
		}
		o.ExpireTime = atoi(a[4])
		o.Get = a[5] == "1"
		prev, ok, err := db.Set(a[0], a[1], o)
		if err != nil {
			return "-"
		}
		return fmt.Sprintf("[%s :%d]", hexs(prev), map[bool]int{true: 1, false: 0}[ok])
	case "MSET":
		m := map[string]string{}
		for i := 0; i+1 < len(a); i += 2 {
			m[a[i]] = a[i+1]
		}
		ok, err := db.MSet(m)
		if err != nil {
			return "-"
		}
		return fmt.Sprintf(":%d", map[bool]int{true: 1, false: 0}[ok])
	case "GET":
		return str(db.Get(a[0]))
	case "MGET":
		l, err := db.MGet(a...)
		if err != nil {
			return "-"
		}
		parts := make([]string, len(l))
		for i, s := range l {
			parts[i] = hexs(s)
		}
		return "[" + strings.Join(parts, " ") + "]"
	case "DEL":
		return num(db.Del(a...))
	case "INCR":
		return num(db.Incr(a[0]))
	case "DECR":
		return num(db.Decr(a[0]))
	case "INCRBY":
		return num(db.IncrBy(a[0], a[1]))
	case "DECRBY":
		return num(db.DecrBy(a[0], a[1]))
	case "INCRBYFLOAT":
		f, err := db.IncrByFloat(a[0], a[1])
		if err != nil {
			return "-"
		}
		return hexs(strconv.FormatFloat(f, 'g', -1, 64))
	case "RENAME":
		return str(db.Rename(a[0], a[1]))
	case "GETDEL":
		return str(db.GetDel(a[0]))
	case "GETEX": // key opt(-|EX|PX|EXAT|PXAT|PERSIST) time
		var o sugardb.GetExOption
		switch a[1] {
		case "EX":
			o = sugardb.EX
		case "PX":
			o = sugardb.PX
		case "EXAT":
			o = sugardb.EXAT
		case "PXAT":
			o = sugardb.PXAT
		case "PERSIST":
			o = sugardb.PERSIST
		}
		return str(db.GetEx(a[0], o, atoi(a[2])))
	case "TYPE":
		return str(db.Type(a[0]))
	case "SETRANGE":
		return num(db.SetRange(a[0], atoi(a[1]), a[2]))
	case "STRLEN":
		return num(db.StrLen(a[0]))
	case "SUBSTR":
		return str(db.SubStr(a[0], atoi(a[1]), atoi(a[2])))
	case "GETRANGE":
		return str(db.GetRange(a[0], atoi(a[1]), atoi(a[2])))
	case "APPEND":
		return num(db.Append(a[0], a[1]))
	}
	return "?"
}
