package main

import (
	"bufio"
	"encoding/hex"
	"fmt"
	"io"
	"log"
	"net"
	"os"
	"sort"
	"strconv"
	"strings"
	"time"

	"github.com/echovault/sugardb/sugardb"
)

// Line protocol (stdin -> stdout), one script at a time:
//   S <id> k=v ...        fresh instance
//   N <conn>              register connection <conn> (>=1); conn 0 is the embedded caller
//   C <conn> <hex> ...    command (argv hex-encoded; "-" is the empty string)
//   X <conn> <hexraw>     raw message bytes
//   P <db> <hexkey> <value> <deadline-ms>   store a value directly (canonical value text)
//   D <db>                the embedded caller selects a database (API call SelectDB)
//   AQ <conn> <hex> ...   decision of the authorization gate only ("Z allow|deny|nocmd|panic")
//   AD <conn> <hex> ...   decision, and when it is "deny" the command is run as well ("Z ...", "R ...")
//   AU                    digest of the ACL and of the registered connections
//   AB                    digest of the pub/sub state
//   Q                     release the parked cache-update goroutines in order, wait for them (config park=1 gap=<ms>)
//   K                     dump of the eviction caches
//   A <ms>                advance the virtual clock
//   W <db>                one synchronous round of the expiry sampler
//   G                     digest
//   M <OP> <hex> ...      embedded API call (sugardb.Set/Get/...; see api.go); answered "R <canonical result>"
//   E                     end of script
// Output mirrors it: "S id", "R <reply>", "W ...", "G <digest>", "E".

type inst struct {
	db    *sugardb.SugarDB
	clk   *sugardb.VerifClock
	conns map[int]*net.Conn
	gap   time.Duration
}

func unhex(s string) string {
	if s == "-" {
		return ""
	}
	b, err := hex.DecodeString(s)
	if err != nil {
		panic("bad hex " + s)
	}
	return string(b)
}

func encode(argv []string) []byte {
	var sb strings.Builder
	fmt.Fprintf(&sb, "*%d\r\n", len(argv))
	for _, a := range argv {
		fmt.Fprintf(&sb, "$%d\r\n%s\r\n", len(a), a)
	}
	return []byte(sb.String())
}

func newInst(args []string) *inst {
	conf := sugardb.DefaultConfig()
	conf.DataDir = ""
	conf.EvictionInterval = 1000 * time.Hour
	conf.SnapshotInterval = 1000 * time.Hour
	now := int64(1700000000000)
	park, gap := false, time.Duration(0)
	for _, kv := range args {
		p := strings.SplitN(kv, "=", 2)
		if len(p) != 2 {
			continue
		}
		switch p[0] {
		case "now":
			now, _ = strconv.ParseInt(p[1], 10, 64)
		case "park":
			park = p[1] == "1"
		case "gap":
			m, _ := strconv.ParseInt(p[1], 10, 64)
			gap = time.Duration(m) * time.Millisecond
		case "policy":
			conf.EvictionPolicy = p[1]
		case "maxmem":
			m, _ := strconv.ParseUint(p[1], 10, 64)
			conf.MaxMemory = m
		case "sample":
			m, _ := strconv.ParseUint(p[1], 10, 64)
			conf.EvictionSample = uint(m)
		case "datadir":
			conf.DataDir = p[1]
		case "aofsync":
			conf.AOFSyncStrategy = p[1]
		case "restoreaof":
			conf.RestoreAOF = p[1] == "1"
		case "restoresnap":
			conf.RestoreSnapshot = p[1] == "1"
		case "snapthreshold":
			m, _ := strconv.ParseUint(p[1], 10, 64)
			conf.SnapShotThreshold = m
		case "requirepass":
			conf.RequirePass = p[1] == "1"
		case "password":
			conf.Password = unhex(p[1])
		case "aclconfig":
			conf.AclConfig = p[1]
		}
	}
	clk := sugardb.NewVerifClock(now)
	db, err := sugardb.NewSugarDB(sugardb.WithConfig(conf), sugardb.WithVerifClock(clk))
	if err != nil {
		panic(err)
	}
	if park {
		db.VerifCachePark(true, gap)
	}
	return &inst{db: db, clk: clk, conns: map[int]*net.Conn{}, gap: gap}
}

func (in *inst) conn(id int) *net.Conn {
	if id == 0 {
		return nil
	}
	c, ok := in.conns[id]
	if !ok {
		c = in.db.VerifNewConn()
		in.conns[id] = c
	}
	return c
}

func main() {
	log.SetOutput(io.Discard)
	rd := bufio.NewReaderSize(os.Stdin, 1<<20)
	// The server code prints to os.Stdout in places: keep the protocol on the real stdout and
	// point os.Stdout elsewhere.
	realOut := os.Stdout
	if devnull, derr := os.OpenFile(os.DevNull, os.O_WRONLY, 0); derr == nil {
		os.Stdout = devnull
	}
	out := bufio.NewWriterSize(realOut, 1<<20)
	defer out.Flush()
	var in *inst
	for {
		line, err := rd.ReadString('\n')
		line = strings.TrimRight(line, "\n")
		if line != "" {
			f := strings.Fields(line)
			switch f[0] {
			case "S":
				in = newInst(f[2:])
				fmt.Fprintf(out, "S %s\n", f[1])
				out.Flush()
			case "N":
				id, _ := strconv.Atoi(f[1])
				in.conn(id)
			case "C", "X":
				id, _ := strconv.Atoi(f[1])
				var raw []byte
				if f[0] == "C" {
					argv := make([]string, len(f)-2)
					for i, h := range f[2:] {
						argv[i] = unhex(h)
					}
					raw = encode(argv)
				} else {
					raw = []byte(unhex(f[2]))
				}
				res, herr, pan := in.db.VerifHandle(in.conn(id), raw)
				switch {
				case pan != "":
					fmt.Fprintf(out, "R !\n")
				case herr != nil:
					if herr == io.EOF {
						fmt.Fprintf(out, "R EOF\n")
					} else {
						fmt.Fprintf(out, "R -\n")
					}
				default:
					fmt.Fprintf(out, "R %s\n", canon(res))
				}
				out.Flush()
			case "P":
				dbi, _ := strconv.Atoi(f[1])
				dl, _ := strconv.ParseInt(f[4], 10, 64)
				v, perr := sugardb.VerifParseValue(f[3])
				if perr != nil {
					panic(perr)
				}
				if perr = in.db.VerifPreset(dbi, unhex(f[2]), v, dl); perr != nil {
					fmt.Fprintf(out, "P -\n")
					out.Flush()
				}
			case "D":
				dbi, _ := strconv.Atoi(f[1])
				_ = in.db.SelectDB(dbi)
			case "A":
				ms, _ := strconv.ParseInt(f[1], 10, 64)
				in.clk.Advance(time.Duration(ms) * time.Millisecond)
			case "W":
				dbi, _ := strconv.Atoi(f[1])
				werr, pan := in.db.VerifSweep(dbi)
				switch {
				case pan != "":
					fmt.Fprintf(out, "W !\n")
				case werr != nil:
					fmt.Fprintf(out, "W -\n")
				default:
					fmt.Fprintf(out, "W ok\n")
				}
				out.Flush()
			case "G":
				fmt.Fprintf(out, "G %s\n", in.db.VerifDigest())
				out.Flush()
			case "AQ", "AD":
				id, _ := strconv.Atoi(f[1])
				argv := make([]string, len(f)-2)
				for i, h := range f[2:] {
					argv[i] = unhex(h)
				}
				before := append([]string(nil), argv...)
				dec := in.db.VerifAuthorize(in.conn(id), argv)
				for i := range before {
					if argv[i] != before[i] {
						// the gate judges a command, it must not rewrite it (the handler runs on the same slice)
						dec += fmt.Sprintf(" argv-rewritten[%d]", i)
						break
					}
				}
				fmt.Fprintf(out, "Z %s\n", dec)
				if f[0] == "AD" && dec == "deny" {
					res, herr, pan := in.db.VerifHandle(in.conn(id), encode(argv))
					switch {
					case pan != "":
						fmt.Fprintf(out, "R !\n")
					case herr != nil:
						fmt.Fprintf(out, "R -\n")
					default:
						fmt.Fprintf(out, "R %s\n", canon(res))
					}
				}
				out.Flush()
			case "AU":
				ids := make([]int, 0, len(in.conns))
				for id := range in.conns {
					ids = append(ids, id)
				}
				sort.Ints(ids)
				cs := make([]*net.Conn, len(ids))
				for i, id := range ids {
					cs[i] = in.conns[id]
				}
				fmt.Fprintf(out, "U %s\n", in.db.VerifAclDigest(cs))
				out.Flush()
			case "AB":
				var parts []string
				for _, q := range [][]string{{"PUBSUB", "CHANNELS"}, {"PUBSUB", "NUMPAT"}} {
					res, herr, pan := in.db.VerifHandle(nil, encode(q))
					if pan != "" || herr != nil {
						parts = append(parts, "!")
						continue
					}
					toks := strings.Fields(canon(res))
					sort.Strings(toks)
					parts = append(parts, strings.Join(toks, ","))
				}
				fmt.Fprintf(out, "B %s\n", strings.Join(parts, "|"))
				out.Flush()
			case "Q":
				if in.db.VerifCacheQuiesce(ts(5 * time.Second)) {
					fmt.Fprintf(out, "Q ok\n")
				} else {
					fmt.Fprintf(out, "Q HUNG\n")
				}
				out.Flush()
				time.Sleep(in.gap)
			case "K":
				fmt.Fprintf(out, "K %s\n", in.db.VerifCacheDump())
				out.Flush()
			case "M":
				args := make([]string, len(f)-2)
				for i, h := range f[2:] {
					args[i] = unhex(h)
				}
				fmt.Fprintf(out, "R %s\n", apiCall(in.db, f[1], args))
				out.Flush()
			case "E":
				fmt.Fprintf(out, "E\n")
				out.Flush()
				in = nil
			}
		}
		if err != nil {
			break
		}
	}
}
