package main

// Real 3-node raft cluster on loopback inside one process (hashicorp/raft + memberlist + TCP client ports),
// real clock.  One scenario per process run:
//
//	cluster -scenario <name> [-forward=true|false] [-seed N] [-max seconds]
//
// Output: one JSON object per line on the real stdout.  The servers print to os.Stdout, which is redirected
// to /dev/null.  If a background goroutine of the server panics the process dies: the caller sees an
// {"obs":"about_to",...} line without the {"obs":"result",...} line that should follow it.

import (
	"bufio"
	"bytes"
	"encoding/json"
	"errors"
	"flag"
	"fmt"
	"io"
	"log"
	"math/rand"
	"net"
	"os"
	"regexp"
	"strconv"
	"strings"
	"time"

	"github.com/echovault/sugardb/sugardb"
)

const nNodes = 3

var (
	realOut *os.File
	nodes   [nNodes]*sugardb.SugarDB
	ports   [nNodes]int
	leader  = -1
	t0      = time.Now()
)

type M map[string]interface{}

func emit(m M) {
	var buf bytes.Buffer
	enc := json.NewEncoder(&buf)
	enc.SetEscapeHTML(false)
	enc.Encode(m)              // ends with a newline
	realOut.Write(buf.Bytes()) // unbuffered *os.File: one write, nothing to flush
}

func freePort() int {
	l, err := net.Listen("tcp", "127.0.0.1:0")
	if err != nil {
		panic(err)
	}
	defer l.Close()
	return l.Addr().(*net.TCPAddr).Port
}

// ---------------------------------------------------------------- RESP client

type client struct {
	c net.Conn
	r *bufio.Reader
}

func dial(node int) *client {
	for i := 0; i < 100; i++ {
		c, err := net.DialTimeout("tcp", fmt.Sprintf("127.0.0.1:%d", ports[node]), time.Second)
		if err == nil {
			if tc, ok := c.(*net.TCPConn); ok {
				tc.SetNoDelay(true)
			}
			return &client{c: c, r: bufio.NewReader(c)}
		}
		time.Sleep(50 * time.Millisecond)
	}
	return nil
}

func (cl *client) readValue() (string, error) {
	line, err := cl.r.ReadString('\n')
	if err != nil {
		return "", err
	}
	line = strings.TrimRight(line, "\r\n")
	if line == "" {
		return "", errors.New("empty line")
	}
	switch line[0] {
	case '+', '-', ':', ',', '#', '(':
		return line, nil
	case '_':
		return "nil", nil
	case '$':
		n, err := strconv.Atoi(line[1:])
		if err != nil {
			return "", err
		}
		if n < 0 {
			return "nil", nil
		}
		buf := make([]byte, n+2)
		if _, err := io.ReadFull(cl.r, buf); err != nil {
			return "", err
		}
		return strconv.Quote(string(buf[:n])), nil
	case '*', '~', '%', '>':
		n, err := strconv.Atoi(line[1:])
		if err != nil {
			return "", err
		}
		if n < 0 {
			return "nil", nil
		}
		if line[0] == '%' {
			n *= 2
		}
		parts := make([]string, n)
		for i := range parts {
			if parts[i], err = cl.readValue(); err != nil {
				return "", err
			}
		}
		return "[" + strings.Join(parts, " ") + "]", nil
	}
	return "", fmt.Errorf("bad reply line %q", line)
}

// do sends one command and reads one reply: the rendered reply, "HUNG" (nothing within 3 s), "EOF"
// (connection closed by the server) or "ERR:<io error>".
func (cl *client) do(args ...string) string {
	if cl == nil {
		return "DIALFAIL"
	}
	var sb strings.Builder
	fmt.Fprintf(&sb, "*%d\r\n", len(args))
	for _, a := range args {
		fmt.Fprintf(&sb, "$%d\r\n%s\r\n", len(a), a)
	}
	cl.c.SetWriteDeadline(time.Now().Add(ts(3 * time.Second)))
	if _, err := cl.c.Write([]byte(sb.String())); err != nil {
		return "EOF"
	}
	cl.c.SetReadDeadline(time.Now().Add(ts(3 * time.Second)))
	v, err := cl.readValue()
	if err != nil {
		var ne net.Error
		if errors.As(err, &ne) && ne.Timeout() {
			return "HUNG"
		}
		if err == io.EOF || errors.Is(err, io.ErrUnexpectedEOF) || strings.Contains(err.Error(), "reset") {
			return "EOF"
		}
		return "ERR:" + err.Error()
	}
	return v
}

// ---------------------------------------------------------------- digests

var (
	reDeadline = regexp.MustCompile(`@[1-9][0-9]*`)
	reVolatile = regexp.MustCompile(`v\[[^\]]*\]`)
	reMem      = regexp.MustCompile(`^mem=-?[0-9]+ ?`)
	reEmptyDb  = regexp.MustCompile(` ?db[0-9]+\{\}`)
)

func digest(i int) string {
	ch := make(chan string, 1)
	go func() { ch <- nodes[i].VerifDigest() }()
	select {
	case d := <-ch:
		return d
	case <-time.After(ts(3 * time.Second)):
		return "digest_hung"
	}
}

func digests() []string {
	ch := make([]chan string, nNodes)
	for i := range ch {
		ch[i] = make(chan string, 1)
		go func(i int) { ch[i] <- digest(i) }(i)
	}
	out := make([]string, nNodes)
	for i := range ch {
		out[i] = <-ch[i]
	}
	return out
}

func modDeadlines(d string) string {
	return reVolatile.ReplaceAllString(reDeadline.ReplaceAllString(d, "@T"), "")
}

func allEq(d []string, f func(string) string) bool {
	for _, x := range d {
		if x == "digest_hung" || f(x) != f(d[0]) {
			return false
		}
	}
	return true
}

func ident(s string) string { return s }

// quiesce polls the three digests every 100 ms until they are equal or 5 s passed.
func quiesce() []string {
	deadline := time.Now().Add(ts(5 * time.Second))
	for {
		d := digests()
		if allEq(d, ident) || time.Now().After(deadline) {
			return d
		}
		time.Sleep(100 * time.Millisecond)
	}
}

func result(scenario string, d []string, replies interface{}, notes interface{}) {
	emit(M{"obs": "result", "scenario": scenario, "forward": *forward, "leader": leader,
		"equal_exact":            allEq(d, ident),
		"equal_modulo_deadlines": allEq(d, modDeadlines),
		"equal_data":             allEq(d, func(s string) string { return reMem.ReplaceAllString(modDeadlines(s), "") }),
		// a SELECT creates the (empty) database on the node that served it only
		"equal_ignoring_empty_dbs": allEq(d, func(s string) string {
			return reEmptyDb.ReplaceAllString(reMem.ReplaceAllString(modDeadlines(s), ""), "")
		}),
		"digests": d, "replies": replies, "notes": notes})
}

// ---------------------------------------------------------------- cluster

func startCluster(fwd bool) {
	var disc [nNodes]int
	for i := 0; i < nNodes; i++ {
		ports[i], disc[i] = freePort(), freePort()
		conf := sugardb.DefaultConfig()
		conf.DataDir = ""
		conf.BindAddr = "127.0.0.1"
		conf.RaftBindAddr = "127.0.0.1"
		conf.RaftBindPort = uint16(freePort())
		conf.Port = uint16(ports[i])
		conf.DiscoveryPort = uint16(disc[i])
		conf.ServerID = fmt.Sprintf("SERVER-%d", i)
		conf.BootstrapCluster = i == 0
		conf.ForwardCommand = fwd
		if i > 0 {
			conf.JoinAddr = fmt.Sprintf("SERVER-0/127.0.0.1:%d", disc[0])
		}
		// NewSugarDB runs RaftInit and MemberListInit (which joins node 0 and log.Fatal()s when it cannot).
		db, err := sugardb.NewSugarDB(sugardb.WithConfig(conf))
		if err != nil {
			emit(M{"obs": "cluster_failed", "why": fmt.Sprintf("node %d: %v", i, err)})
			os.Exit(2)
		}
		nodes[i] = db
		go db.Start()
	}
}

func roles() []string {
	r := make([]string, nNodes)
	for i, n := range nodes {
		r[i] = n.GetServerInfo().Role
	}
	return r
}

// waitCluster: exactly one node reports role "master" (raft leader), a write to it answers +OK, and the write
// shows up in all three datasets (so both followers have been added as voters and are replicating).
func waitCluster() bool {
	deadline := time.Now().Add(ts(20 * time.Second))
	probeHex := fmt.Sprintf("%x=", "probe")
	why := ""
	for time.Now().Before(deadline) {
		time.Sleep(100 * time.Millisecond)
		r := roles()
		l, n := -1, 0
		for i, x := range r {
			if x == "master" {
				l, n = i, n+1
			}
		}
		if n != 1 {
			why = "roles " + strings.Join(r, ",")
			continue
		}
		cl := dial(l)
		rep := cl.do("SET", "probe", "1")
		if cl != nil {
			cl.c.Close()
		}
		if rep != "+OK" {
			why = "SET probe on node " + strconv.Itoa(l) + ": " + rep
			continue
		}
		for time.Now().Before(deadline) {
			ok := true
			for _, d := range digests() {
				ok = ok && strings.Contains(d, probeHex)
			}
			if ok {
				leader = l
				emit(M{"obs": "cluster_up", "leader": l, "roles": roles(), "secs": time.Since(t0).Seconds()})
				return true
			}
			why = "probe key not on all nodes"
			time.Sleep(100 * time.Millisecond)
		}
	}
	emit(M{"obs": "cluster_failed", "why": why, "roles": roles(), "digests": digests(), "secs": time.Since(t0).Seconds()})
	return false
}

// ---------------------------------------------------------------- scenarios

// step: a write, the read that checks it, and what the read must answer ("=R": the write's own reply).
type step struct {
	cmd, chk []string
	want     string
}

func S(cmd string, chk string, want string) step {
	return step{strings.Fields(cmd), strings.Fields(chk), want}
}

func q(s string) string { return strconv.Quote(s) }

func workload(db int, rng *rand.Rand) []step {
	p := fmt.Sprintf("d%d_%d_", db, rng.Intn(1000)) // key prefix
	v := func() string { return fmt.Sprintf("v%d", rng.Intn(100000)) }
	v1, v2, v3, v4 := v(), v(), v(), v()
	n1 := rng.Intn(50) + 2
	far := strconv.FormatInt(time.Now().Unix()+1000000, 10)
	st := []step{
		S("SET "+p+"s1 "+v1, "GET "+p+"s1", q(v1)),
		S("MSET "+p+"s2 "+v2+" "+p+"s3 "+v3, "MGET "+p+"s2 "+p+"s3", "["+q(v2)+" "+q(v3)+"]"),
		S("SET "+p+"n 10", "GET "+p+"n", q("10")),
		S("INCR "+p+"n", "GET "+p+"n", q("11")),
		S(fmt.Sprintf("INCRBY %sn %d", p, n1), "GET "+p+"n", q(strconv.Itoa(11+n1))),
		S("DECR "+p+"n", "GET "+p+"n", q(strconv.Itoa(10+n1))),
		S("APPEND "+p+"s1 "+v4, "GET "+p+"s1", q(v1+v4)),
		S("SETRANGE "+p+"s2 1 XY", "GET "+p+"s2", q(v2[:1]+"XY"+v2[min(3, len(v2)):])),
		S("DEL "+p+"s3", "GET "+p+"s3", "nil"),
		S("RENAME "+p+"s2 "+p+"s4", "MGET "+p+"s2 "+p+"s4", "[nil "+q(v2[:1]+"XY"+v2[min(3, len(v2)):])+"]"),
		S("SET "+p+"gd "+v3, "GET "+p+"gd", q(v3)),
		S("GETDEL "+p+"gd", "GET "+p+"gd", "nil"),
		// lists
		S("RPUSH "+p+"l a b c d e f", "LRANGE "+p+"l 0 -1", `["a" "b" "c" "d" "e" "f"]`),
		S("LPUSH "+p+"l z "+v1, "LRANGE "+p+"l 0 1", `["z" `+q(v1)+"]"), // this server prepends the block in argument order
		S("LPOP "+p+"l", "LLEN "+p+"l", ":7"),
		S("RPOP "+p+"l", "LRANGE "+p+"l 0 -1", "["+q(v1)+` "a" "b" "c" "d" "e"]`),
		S("LSET "+p+"l 1 "+v2, "LINDEX "+p+"l 1", q(v2)),
		S("RPUSH "+p+"l b b", "LLEN "+p+"l", ":8"),
		S("LREM "+p+"l 2 b", "LRANGE "+p+"l 0 -1", "["+q(v1)+" "+q(v2)+` "c" "d" "e" "b"]`),
		S("LTRIM "+p+"l 1 4", "LRANGE "+p+"l 0 -1", "["+q(v2)+` "c" "d" "e"]`),
		S("RPUSH "+p+"l2 x", "LLEN "+p+"l2", ":1"),
		S("LMOVE "+p+"l "+p+"l2 LEFT RIGHT", "LRANGE "+p+"l2 0 -1", `["x" `+q(v2)+"]"),
		// hashes
		S("HSET "+p+"h f1 "+v1+" f2 5", "HGET "+p+"h f1", "["+q(v1)+"]"), // HGET answers an array in this server
		S("HSETNX "+p+"h f1 other", "HGET "+p+"h f1", "["+q(v1)+"]"),
		S("HSETNX "+p+"h f3 "+v3, "HGET "+p+"h f3", "["+q(v3)+"]"),
		S(fmt.Sprintf("HINCRBY %sh f2 %d", p, n1), "HGET "+p+"h f2", "[:"+strconv.Itoa(5+n1)+"]"),
		S("HDEL "+p+"h f1", "HEXISTS "+p+"h f1", ":0"),
		// sets
		S("SADD "+p+"sa a b c d "+v1, "SCARD "+p+"sa", ":5"),
		S("SADD "+p+"sb c d e f", "SCARD "+p+"sb", ":4"),
		S("SREM "+p+"sa "+v1, "SISMEMBER "+p+"sa "+v1, ":0"),
		S("SMOVE "+p+"sa "+p+"sb a", "SMISMEMBER "+p+"sb a c", "[:1 :1]"),
		S("SUNIONSTORE "+p+"su "+p+"sa "+p+"sb", "SCARD "+p+"su", "=R"),
		S("SINTERSTORE "+p+"si "+p+"sa "+p+"sb", "SCARD "+p+"si", "=R"),
		S("SDIFFSTORE "+p+"sd "+p+"sa "+p+"sb", "SCARD "+p+"sd", "=R"),
		// sorted sets
		S("ZADD "+p+"za 1 a 2 b 3 c 4 d 5 e 6 f", "ZCARD "+p+"za", ":6"),
		S("ZADD "+p+"zb 10 c 20 d 30 g", "ZCARD "+p+"zb", ":3"),
		S(fmt.Sprintf("ZINCRBY %sza %d a", p, n1), "ZSCORE "+p+"za a", q(strconv.Itoa(1+n1))),
		S("ZREM "+p+"za b", "ZSCORE "+p+"za b", "nil"),
		S("ZPOPMIN "+p+"za", "ZCARD "+p+"za", ":4"),
		S("ZPOPMAX "+p+"za", "ZCARD "+p+"za", ":3"),
		S("ZUNIONSTORE "+p+"zu 2 "+p+"za "+p+"zb", "ZCARD "+p+"zu", "=R"),
		S("ZINTERSTORE "+p+"zi 2 "+p+"za "+p+"zb", "ZCARD "+p+"zi", "=R"),
		S("ZREMRANGEBYRANK "+p+"zu 0 0", "ZCARD "+p+"zu", ""),
		// expiry (absolute, far future) and PERSIST
		S("EXPIREAT "+p+"s1 "+far, "EXPIRETIME "+p+"s1", ":"+far),
		S("EXPIREAT "+p+"h "+far, "EXPIRETIME "+p+"h", ":"+far),
		S("PERSIST "+p+"h", "TTL "+p+"h", ":-1"),
	}
	if db == 2 {
		st = append(st,
			S("FLUSHDB", "MGET "+p+"s1 "+p+"n", "[nil nil]"),
			S("SET "+p+"after "+v1, "GET "+p+"after", q(v1)),
			S("RPUSH "+p+"l a b", "LRANGE "+p+"l 0 -1", `["a" "b"]`),
			S("SADD "+p+"sa x", "SCARD "+p+"sa", ":1"),
			S("ZADD "+p+"za 1 x", "ZCARD "+p+"za", ":1"),
			S("HSET "+p+"h f v", "HGET "+p+"h f", "["+q("v")+"]"))
	}
	return st
}

func scBasic() {
	rng := rand.New(rand.NewSource(*seed))
	var replies []string
	mismatches, count := 0, 0
	for _, db := range []int{0, 1, 2, 10} {
		cl := dial(leader)
		replies = append(replies, fmt.Sprintf("db%d SELECT -> %s", db, cl.do("SELECT", strconv.Itoa(db))))
		for _, s := range workload(db, rng) {
			r := cl.do(s.cmd...)
			c := cl.do(s.chk...)
			count++
			replies = append(replies, fmt.Sprintf("db%d %s -> %s | %s -> %s", db, strings.Join(s.cmd, " "), r, strings.Join(s.chk, " "), c))
			want := s.want
			if want == "=R" {
				want = r
			}
			bad := strings.HasPrefix(r, "-") || r == "HUNG" || r == "EOF" || strings.HasPrefix(r, "ERR:")
			if bad || (want != "" && c != want) {
				mismatches++
				emit(M{"obs": "read_after_ack_mismatch", "db": db, "cmd": strings.Join(s.cmd, " "), "reply": r,
					"check": strings.Join(s.chk, " "), "got": c, "want": want})
			}
			if r == "HUNG" || r == "EOF" { // the connection is no longer in step
				cl.c.Close()
				cl = dial(leader)
				cl.do("SELECT", strconv.Itoa(db))
			}
		}
		cl.c.Close()
	}
	result("basic", quiesce(), replies, M{"commands": count, "read_after_ack_mismatches": mismatches, "seed": *seed})
}

func scSpop() {
	cl := dial(leader)
	args := []string{"SADD", "s"}
	for i := 0; i < 20; i++ {
		args = append(args, fmt.Sprintf("m%02d", i))
	}
	r1 := cl.do(args...)
	r2 := cl.do("SPOP", "s", "10")
	r3 := cl.do("SCARD", "s")
	result("spop", quiesce(), []string{"SADD s m00..m19 -> " + r1, "SPOP s 10 -> " + r2, "SCARD s (leader) -> " + r3}, nil)
}

func scRelExpire() {
	cl := dial(leader)
	rep := []string{
		"SET k v EX 100 -> " + cl.do("SET", "k", "v", "EX", "100"),
		"SET k2 v -> " + cl.do("SET", "k2", "v"),
		"EXPIRE k2 100 -> " + cl.do("EXPIRE", "k2", "100"),
	}
	result("relexpire", quiesce(), rep, nil)
}

func scFollowerWrite() {
	f := (leader + 1) % nNodes
	before := digests()
	cl := dial(f)
	rep := []string{
		"SET fw 1 -> " + cl.do("SET", "fw", "1"),
		"SELECT 3 -> " + cl.do("SELECT", "3"),
		"SET fw3 1 -> " + cl.do("SET", "fw3", "1"),
	}
	time.Sleep(2 * time.Second) // a forwarded write travels by gossip
	d := quiesce()
	notes := M{"follower": f, "digests_before": before, "changed": !allEq(append(append([]string{}, before...), d...), ident),
		"fw_hex": fmt.Sprintf("%x", "fw"), "fw3_hex": fmt.Sprintf("%x", "fw3")}
	if *forward {
		cl2 := dial(f) // database 0 on the follower
		rep = append(rep, "INCR cnt (once, follower) -> "+cl2.do("INCR", "cnt"))
		lc := dial(leader)
		var vals []string
		for i := 0; i < 5; i++ {
			time.Sleep(time.Second)
			vals = append(vals, lc.do("GET", "cnt"))
		}
		notes["cnt_on_leader_each_second"] = vals
		notes["cnt_on_follower"] = cl2.do("GET", "cnt")
		d = quiesce()
	}
	result("follower_write", d, rep, notes)
}

func scLazy(name string, set []string, meet []string) {
	cl := dial(leader)
	rep := []string{strings.Join(set, " ") + " -> " + cl.do(set...)}
	time.Sleep(300 * time.Millisecond)
	emit(M{"obs": "about_to", "cmd": strings.Join(meet, " ")})
	r := cl.do(meet...)
	rep = append(rep, strings.Join(meet, " ")+" (after 300 ms) -> "+r)
	if r == "HUNG" || r == "EOF" {
		cl = dial(leader)
	}
	rep = append(rep, "SET other 1 -> "+cl.do("SET", "other", "1"))
	fresh := dial(leader)
	rep = append(rep, "PING (fresh connection) -> "+fresh.do("PING"))
	rep = append(rep, "SET other2 1 (fresh connection) -> "+fresh.do("SET", "other2", "1"))
	result(name, quiesce(), rep, M{"roles": roles()})
}

func scWhoami() {
	cl := dial(leader)
	emit(M{"obs": "about_to", "cmd": "ACL WHOAMI"})
	r := cl.do("ACL", "WHOAMI")
	rep := []string{"ACL WHOAMI -> " + r}
	fresh := dial(leader)
	rep = append(rep, "SET other 1 (fresh connection) -> "+fresh.do("SET", "other", "1"))
	result("whoami", quiesce(), rep, M{"roles": roles()})
}

func scSnapshot() {
	cl := dial(leader)
	var rep []string
	for i := 0; i < 5; i++ {
		rep = append(rep, fmt.Sprintf("SET snap%d %d -> %s", i, i, cl.do("SET", fmt.Sprintf("snap%d", i), strconv.Itoa(i))))
	}
	emit(M{"obs": "about_to", "cmd": "SAVE"})
	r := cl.do("SAVE")
	rep = append(rep, "SAVE -> "+r)
	if r == "HUNG" || r == "EOF" {
		cl = dial(leader)
	}
	time.Sleep(500 * time.Millisecond) // the snapshot runs in a goroutine
	emit(M{"obs": "about_to", "cmd": "SET after 1"})
	rep = append(rep, "SET after 1 -> "+cl.do("SET", "after", "1"))
	rep = append(rep, "LASTSAVE -> "+cl.do("LASTSAVE"))
	fresh := dial(leader)
	rep = append(rep, "SET after2 1 (fresh connection) -> "+fresh.do("SET", "after2", "1"))
	result("snapshot", quiesce(), rep, M{"roles": roles()})
}

var (
	scenario = flag.String("scenario", "", "basic|spop|relexpire|follower_write|lazy_expiry|lazy_expiry_write|whoami|snapshot")
	forward  = flag.Bool("forward", false, "conf.ForwardCommand on all nodes")
	seed     = flag.Int64("seed", 1, "workload seed")
	maxSecs  = flag.Int("max", 90, "watchdog seconds")
)

func main() {
	flag.Parse()
	log.SetOutput(io.Discard)
	realOut = os.Stdout
	if devnull, err := os.OpenFile(os.DevNull, os.O_WRONLY, 0); err == nil {
		os.Stdout = devnull
	}
	time.AfterFunc(time.Duration(*maxSecs)*time.Second, func() {
		emit(M{"obs": "WATCHDOG", "scenario": *scenario})
		os.Exit(3)
	})
	emit(M{"obs": "starting", "scenario": *scenario, "forward": *forward, "seed": *seed})
	startCluster(*forward)
	if !waitCluster() {
		os.Exit(2)
	}
	switch *scenario {
	case "basic":
		scBasic()
	case "spop":
		scSpop()
	case "relexpire":
		scRelExpire()
	case "follower_write":
		scFollowerWrite()
	case "lazy_expiry":
		scLazy("lazy_expiry", []string{"SET", "e", "v", "PX", "100"}, []string{"GET", "e"})
	case "lazy_expiry_write":
		scLazy("lazy_expiry_write", []string{"SET", "e", "5", "PX", "100"}, []string{"INCR", "e"})
	case "whoami":
		scWhoami()
	case "snapshot":
		scSnapshot()
	case "none":
		result("none", quiesce(), nil, nil)
	default:
		emit(M{"obs": "unknown_scenario", "scenario": *scenario})
		os.Exit(1)
	}
	os.Exit(0)
}
