package main

// TCP harness for C12.  Starts one real server on a loopback port (sugardb.NewSugarDB + Start) and drives it
// through real sockets with the segmentation the case prescribes.
//
// Line protocol (stdin -> stdout), one case at a time:
//   W <id> [par] [noreset]   begin a case ("par": the events of each connection run in their own goroutine;
//                            by default the dataset is emptied first with FLUSHALL on a control connection)
//   T <conn> <hex>           one write() of these bytes on connection <conn> (opened on first use, TCP_NODELAY)
//   P <microseconds>         pause (lets the server's read return before the next write arrives)
//   F <conn>                 fence: send a sentinel PING <nonce> and read until its reply arrives; prints what
//                            the connection received before it
//   D <conn> <ms>            drain: read for <ms> milliseconds or until the server closes; prints what arrived
//   C <conn>                 close the connection
//   L                        liveness probe: PING on a fresh connection must answer +PONG
//   E                        end of case (closes every connection)
// Output: "W id", "R <conn> <ok|open|closed|timeout> <hex|-> <TAB-separated canonical replies> [TAB ?<hex rest>]",
//         "L ok|fail", "E".  If the server process dies the harness dies with it: the supervisor sees the case
//         without its "E".

import (
	"bufio"
	"bytes"
	"crypto/rand"
	"encoding/hex"
	"fmt"
	"io"
	"log"
	"net"
	"os"
	"strconv"
	"strings"
	"sync"
	"time"

	"github.com/echovault/sugardb/sugardb"
)

var addr string

func startServer() {
	l, err := net.Listen("tcp", "127.0.0.1:0")
	if err != nil {
		panic(err)
	}
	port := l.Addr().(*net.TCPAddr).Port
	l.Close()
	conf := sugardb.DefaultConfig()
	conf.DataDir = ""
	conf.BindAddr = "127.0.0.1"
	conf.Port = uint16(port)
	conf.EvictionInterval = 1000 * time.Hour
	conf.SnapshotInterval = 1000 * time.Hour
	db, err := sugardb.NewSugarDB(sugardb.WithConfig(conf))
	if err != nil {
		panic(err)
	}
	// a command registered through the public extension API whose key function is less careful than its handler: a bare
	// VERIFLEN makes it index past the end of the command.  Whatever a registered command does, the connection gets one
	// reply (an error) and the process stays up.
	if err := db.AddCommand(sugardb.CommandOptions{
		Command:     "VERIFLEN",
		Module:      "verif",
		Categories:  []string{"read", "fast"},
		Description: "(VERIFLEN key) length of the string stored at key",
		Sync:        false,
		KeyExtractionFunc: func(cmd []string) (sugardb.CommandKeyExtractionFuncResult, error) {
			return sugardb.CommandKeyExtractionFuncResult{ReadKeys: []string{cmd[1]}}, nil
		},
		HandlerFunc: func(params sugardb.CommandHandlerFuncParams) ([]byte, error) {
			if len(params.Command) != 2 {
				return nil, fmt.Errorf("wrong number of arguments")
			}
			v, _ := params.GetValues(params.Context, []string{params.Command[1]})[params.Command[1]].(string)
			return []byte(fmt.Sprintf(":%d\r\n", len(v))), nil
		},
	}); err != nil {
		panic(err)
	}
	go db.Start()
	addr = fmt.Sprintf("127.0.0.1:%d", port)
	for i := 0; i < 200; i++ {
		c, err := net.DialTimeout("tcp", addr, ts(100*time.Millisecond))
		if err == nil {
			c.Close()
			return
		}
		time.Sleep(10 * time.Millisecond)
	}
	panic("server did not start")
}

func dial() (net.Conn, error) {
	c, err := net.DialTimeout("tcp", addr, 2*time.Second)
	if err != nil {
		return nil, err
	}
	if tc, ok := c.(*net.TCPConn); ok {
		tc.SetNoDelay(true)
	}
	return c, nil
}

func render(b []byte) string {
	h := "-"
	if len(b) > 0 {
		h = hex.EncodeToString(b)
	}
	vals, ok := canonMany(b)
	s := h + "\t" + strings.Join(vals, "\t")
	if !ok {
		// find where the strict parser stopped
		p := &rparser{b: b}
		last := 0
		for p.i < len(p.b) {
			var sb strings.Builder
			if !p.value(&sb) {
				break
			}
			last = p.i
		}
		s += "\t?" + hex.EncodeToString(b[last:])
	}
	return s
}

type event struct {
	kind string
	conn int
	data []byte
	n    int
}

type runner struct {
	mu    sync.Mutex
	conns map[int]net.Conn
	out   map[int][]string // per-connection output lines (par mode)
}

func (r *runner) get(id int) (net.Conn, error) {
	r.mu.Lock()
	defer r.mu.Unlock()
	if c, ok := r.conns[id]; ok {
		return c, nil
	}
	c, err := dial()
	if err != nil {
		return nil, err
	}
	r.conns[id] = c
	return c, nil
}

// readUntil reads until the received bytes end with tail (when tail != nil), EOF, or the deadline.
func readUntil(c net.Conn, tail []byte, d time.Duration) ([]byte, string) {
	var got []byte
	buf := make([]byte, 65536)
	deadline := time.Now().Add(ts(d))
	for {
		c.SetReadDeadline(deadline)
		n, err := c.Read(buf)
		got = append(got, buf[:n]...)
		if tail != nil && bytes.HasSuffix(got, tail) {
			return got[:len(got)-len(tail)], "ok"
		}
		if err != nil {
			if err == io.EOF {
				return got, "closed"
			}
			if ne, ok := err.(net.Error); ok && ne.Timeout() {
				if tail == nil {
					return got, "open"
				}
				return got, "timeout"
			}
			return got, "closed"
		}
	}
}

func (r *runner) exec(e event) string {
	switch e.kind {
	case "T":
		c, err := r.get(e.conn)
		if err != nil {
			return fmt.Sprintf("R %d dialfail -\t", e.conn)
		}
		c.SetWriteDeadline(time.Now().Add(5 * time.Second))
		c.Write(e.data) // a write error (peer closed) shows up at the next read
		return ""
	case "P":
		time.Sleep(time.Duration(e.n) * time.Microsecond)
		return ""
	case "F":
		c, err := r.get(e.conn)
		if err != nil {
			return fmt.Sprintf("R %d dialfail -\t", e.conn)
		}
		nb := make([]byte, 8)
		rand.Read(nb)
		nonce := hex.EncodeToString(nb)
		c.SetWriteDeadline(time.Now().Add(5 * time.Second))
		c.Write([]byte(fmt.Sprintf("*2\r\n$4\r\nPING\r\n$16\r\n%s\r\n", nonce)))
		got, st := readUntil(c, []byte(fmt.Sprintf("$16\r\n%s\r\n", nonce)), time.Duration(e.n)*time.Millisecond)
		return fmt.Sprintf("R %d %s %s", e.conn, st, render(got))
	case "D":
		c, err := r.get(e.conn)
		if err != nil {
			return fmt.Sprintf("R %d dialfail -\t", e.conn)
		}
		got, st := readUntil(c, nil, time.Duration(e.n)*time.Millisecond)
		return fmt.Sprintf("R %d %s %s", e.conn, st, render(got))
	case "C":
		r.mu.Lock()
		if c, ok := r.conns[e.conn]; ok {
			c.Close()
			delete(r.conns, e.conn)
		}
		r.mu.Unlock()
		return ""
	case "L":
		c, err := dial()
		if err != nil {
			return "L fail"
		}
		defer c.Close()
		return "L " + livenessStatus(c)
	}
	return ""
}

// livenessStatus sends a second PING and wants exactly +PONG back.
func livenessStatus(c net.Conn) string {
	c.Write([]byte("*1\r\n$4\r\nPING\r\n"))
	got, st := readUntil(c, []byte("+PONG\r\n"), 3*time.Second)
	if st == "ok" && len(got) == 0 {
		return "ok"
	}
	return "fail"
}

func reset() bool {
	c, err := dial()
	if err != nil {
		return false
	}
	defer c.Close()
	c.Write([]byte("*1\r\n$8\r\nFLUSHALL\r\n"))
	got, st := readUntil(c, []byte("+OK\r\n"), 3*time.Second)
	return st == "ok" && len(got) == 0
}

func runCase(hdr []string, evs []event, out *bufio.Writer) {
	par, doReset := false, true
	for _, f := range hdr[2:] {
		if f == "par" {
			par = true
		}
		if f == "noreset" {
			doReset = false
		}
	}
	fmt.Fprintf(out, "W %s\n", hdr[1])
	out.Flush()
	if doReset && !reset() {
		fmt.Fprintf(out, "RESETFAIL\n")
	}
	r := &runner{conns: map[int]net.Conn{}}
	if !par {
		for _, e := range evs {
			if s := r.exec(e); s != "" {
				fmt.Fprintln(out, s)
				out.Flush()
			}
		}
	} else {
		per := map[int][]event{}
		var order []int
		var tail []event
		for _, e := range evs {
			if e.kind == "L" {
				tail = append(tail, e)
				continue
			}
			if e.kind == "P" {
				// a pause applies to the connection of the preceding event
				if len(order) > 0 {
					last := order[len(order)-1]
					per[last] = append(per[last], e)
				}
				continue
			}
			if _, ok := per[e.conn]; !ok {
				order = append(order, e.conn)
			} else {
				// keep "last used" at the end of order for pause attribution
				for i, c := range order {
					if c == e.conn {
						order = append(append(order[:i:i], order[i+1:]...), c)
						break
					}
				}
			}
			per[e.conn] = append(per[e.conn], e)
		}
		res := map[int][]string{}
		var wg sync.WaitGroup
		var mu sync.Mutex
		for id, l := range per {
			wg.Add(1)
			go func(id int, l []event) {
				defer wg.Done()
				for _, e := range l {
					if s := r.exec(e); s != "" {
						mu.Lock()
						res[id] = append(res[id], s)
						mu.Unlock()
					}
				}
			}(id, l)
		}
		wg.Wait()
		ids := make([]int, 0, len(res))
		for id := range res {
			ids = append(ids, id)
		}
		for i := 0; i < len(ids); i++ {
			for j := i + 1; j < len(ids); j++ {
				if ids[j] < ids[i] {
					ids[i], ids[j] = ids[j], ids[i]
				}
			}
		}
		for _, id := range ids {
			for _, s := range res[id] {
				fmt.Fprintln(out, s)
			}
		}
		for _, e := range tail {
			fmt.Fprintln(out, r.exec(e))
		}
	}
	for _, c := range r.conns {
		c.Close()
	}
	fmt.Fprintf(out, "E\n")
	out.Flush()
}

func main() {
	log.SetOutput(io.Discard)
	realOut := os.Stdout
	if devnull, derr := os.OpenFile(os.DevNull, os.O_WRONLY, 0); derr == nil {
		os.Stdout = devnull
	}
	out := bufio.NewWriterSize(realOut, 1<<20)
	defer out.Flush()
	startServer()
	rd := bufio.NewReaderSize(os.Stdin, 1<<22)
	var hdr []string
	var evs []event
	for {
		line, err := rd.ReadString('\n')
		line = strings.TrimRight(line, "\n")
		if line != "" {
			f := strings.Fields(line)
			switch f[0] {
			case "W":
				hdr, evs = f, nil
			case "T":
				id, _ := strconv.Atoi(f[1])
				var b []byte
				if len(f) > 2 && f[2] != "-" {
					b, _ = hex.DecodeString(f[2])
				}
				evs = append(evs, event{kind: "T", conn: id, data: b})
			case "P":
				n, _ := strconv.Atoi(f[1])
				evs = append(evs, event{kind: "P", n: n})
			case "F", "D":
				id, _ := strconv.Atoi(f[1])
				n := 3000
				if len(f) > 2 {
					n, _ = strconv.Atoi(f[2])
				}
				evs = append(evs, event{kind: f[0], conn: id, n: n})
			case "C":
				id, _ := strconv.Atoi(f[1])
				evs = append(evs, event{kind: "C", conn: id})
			case "L":
				evs = append(evs, event{kind: "L"})
			case "E":
				if hdr != nil {
					runCase(hdr, evs, out)
				}
				hdr, evs = nil, nil
			}
		}
		if err != nil {
			break
		}
	}
}
