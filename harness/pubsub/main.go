package main

import (
	"bufio"
	"encoding/hex"
	"fmt"
	"io"
	"log"
	"net"
	"os"
	"strconv"
	"strings"
	"sync"
	"time"

	"github.com/echovault/sugardb/sugardb"
)

// Pub/Sub harness (C18). Line protocol (stdin -> stdout), one script at a time:
//   S <id> k=v ...        fresh instance
//   N <conn> <kind>       register connection <conn> (>=1); kind v: socket-free connection (verif hook),
//                         t: loopback TCP client, e: embedded subscriber (sugardb.Subscribe API, tag = script id + conn).
//                         conn 0 is the embedded caller (ExecuteCommand path, no connection).
//   C <conn> <hex> ...    command (argv hex-encoded; "-" is the empty string)
//   K <conn>              the client closes its connection (kind t: the socket is closed and the server is given
//                         a moment to notice; other kinds: nothing to close)
//   T                     wait until the delivery goroutines are idle (verif hook, bounded), then one line per
//                         registered connection: "T <conn> <frame> ..." = what it received since the last T
//   E                     end of script
// Output: "S id", "R <reply>" per C ("R ~": the embedded API does not return it), T lines, "E".
// A delivery that does not come to rest within the bound is reported as "T! pending=<n>".

const quiesceBound = 3 * time.Second

type client struct {
	kind string
	vc   *net.Conn // kind v
	// kind t
	tc   net.Conn
	vals chan string // canonical values read from the socket ("EOF" at the end)
	// kind e
	tag    string
	mu     sync.Mutex
	frames []string // kind e and t: frames collected
	reader bool
}

type inst struct {
	id     string
	db     *sugardb.SugarDB
	conns  map[int]*client
	order  []int
	port   int
	listen bool
}

func unhex(s string) string {
	if s == "-" {
		return ""
	}
	b, err := hex.DecodeString(s)
	if err != nil {
		panic("bad hex " + s)
	}
	return string(b)
}

func encode(argv []string) []byte {
	var sb strings.Builder
	fmt.Fprintf(&sb, "*%d\r\n", len(argv))
	for _, a := range argv {
		fmt.Fprintf(&sb, "$%d\r\n%s\r\n", len(a), a)
	}
	return []byte(sb.String())
}

func freePort() int {
	l, err := net.Listen("tcp", "127.0.0.1:0")
	if err != nil {
		panic(err)
	}
	defer l.Close()
	return l.Addr().(*net.TCPAddr).Port
}

func newInst(id string) *inst {
	conf := sugardb.DefaultConfig()
	conf.DataDir = ""
	conf.EvictionInterval = 1000 * time.Hour
	conf.SnapshotInterval = 1000 * time.Hour
	conf.BindAddr = "127.0.0.1"
	port := freePort()
	conf.Port = uint16(port)
	clk := sugardb.NewVerifClock(1700000000000)
	db, err := sugardb.NewSugarDB(sugardb.WithConfig(conf), sugardb.WithVerifClock(clk))
	if err != nil {
		panic(err)
	}
	return &inst{id: id, db: db, conns: map[int]*client{}, port: port}
}

// readValue reads the bytes of one RESP value.
func readValue(br *bufio.Reader) ([]byte, error) {
	line, err := br.ReadBytes('\n')
	if err != nil {
		return nil, err
	}
	if len(line) < 3 {
		return line, nil
	}
	out := append([]byte{}, line...)
	n, _ := strconv.Atoi(strings.TrimSpace(string(line[1:])))
	switch line[0] {
	case '$':
		if n >= 0 {
			body := make([]byte, n+2)
			if _, err = io.ReadFull(br, body); err != nil {
				return nil, err
			}
			out = append(out, body...)
		}
	case '*':
		for i := 0; i < n; i++ {
			v, err := readValue(br)
			if err != nil {
				return nil, err
			}
			out = append(out, v...)
		}
	}
	return out, nil
}

func isFrame(c string) bool {
	for _, k := range []string{"message", "subscribe", "psubscribe"} {
		if strings.HasPrefix(c, "[$"+hex.EncodeToString([]byte(k))+" ") && strings.Count(c, " ") == 2 && !strings.Contains(c[1:], "[") {
			return true
		}
	}
	return false
}

func (in *inst) register(id int, kind string) {
	if _, ok := in.conns[id]; ok {
		return
	}
	c := &client{kind: kind}
	switch kind {
	case "t":
		if !in.listen {
			in.listen = true
			go in.db.Start()
		}
		var tc net.Conn
		var err error
		for i := 0; i < 400; i++ {
			tc, err = net.Dial("tcp", fmt.Sprintf("127.0.0.1:%d", in.port))
			if err == nil {
				break
			}
			time.Sleep(5 * time.Millisecond)
		}
		if err != nil {
			panic(err)
		}
		c.tc = tc
		c.vals = make(chan string, 1<<16)
		go func() {
			br := bufio.NewReader(tc)
			for {
				v, err := readValue(br)
				if err != nil {
					c.vals <- "EOF"
					return
				}
				c.vals <- canon(v)
			}
		}()
	case "e":
		c.tag = fmt.Sprintf("%s-%d", in.id, id)
	default:
		c.kind = "v"
		c.vc = in.db.VerifNewConn()
	}
	in.conns[id] = c
	in.order = append(in.order, id)
}

// roundTrip sends one command on a TCP client and waits for its answer. The server takes whatever one read
// returns as one message, so nothing may be sent before the answer is there: a (P)SUBSCRIBE is answered by
// one confirmation frame per argument (or one error), anything else by one reply. With raw == nil a PING is
// sent and everything up to PONG is collected. Pushed frames met on the way are collected.
func (c *client) roundTrip(raw []byte, wantFrames int) string {
	pong := "+" + hex.EncodeToString([]byte("PONG"))
	if raw != nil {
		c.tc.Write(raw)
	} else {
		c.tc.Write(encode([]string{"PING"}))
	}
	deadline := time.After(ts(quiesceBound))
	got := 0
	for {
		select {
		case v := <-c.vals:
			switch {
			case v == "EOF":
				return "EOF"
			case isFrame(v):
				c.frames = append(c.frames, v)
				if raw != nil && wantFrames > 0 && !strings.HasPrefix(v, "[$"+hex.EncodeToString([]byte("message"))) {
					got++
					if got == wantFrames {
						return "0"
					}
				}
			case raw == nil && v == pong:
				return "0"
			default:
				return v
			}
		case <-deadline:
			return "HUNG"
		}
	}
}

func (in *inst) embeddedCmd(c *client, argv []string) string {
	if len(argv) == 0 {
		return "-"
	}
	args := argv[1:]
	switch strings.ToLower(argv[0]) {
	case "subscribe", "psubscribe":
		var rd sugardb.ReadPubSubMessage
		var err error
		// Frames queued by earlier publishes may still be on their way to the reader goroutine: let them
		// arrive first, so that they are not mistaken for this command's confirmations.
		sugardb.VerifPubSubQuiesce(quiesceBound)
		stable, last := 0, -1
		for i := 0; i < 200 && stable < 3; i++ {
			c.mu.Lock()
			n := len(c.frames)
			c.mu.Unlock()
			if n == last {
				stable++
			} else {
				stable, last = 0, n
			}
			time.Sleep(time.Millisecond)
		}
		c.mu.Lock()
		before := len(c.frames)
		c.mu.Unlock()
		if strings.ToLower(argv[0]) == "subscribe" {
			rd, err = in.db.Subscribe(c.tag, args...)
		} else {
			rd, err = in.db.PSubscribe(c.tag, args...)
		}
		if err != nil {
			return "-"
		}
		if !c.reader {
			c.reader = true
			go func() {
				for {
					m := rd()
					if len(m) != 3 {
						return
					}
					var f string
					if m[0] == "message" {
						f = fmt.Sprintf("[$%s $%s $%s]", hexs(m[0]), hexs(m[1]), hexs(m[2]))
					} else {
						f = fmt.Sprintf("[$%s $%s :%s]", hexs(m[0]), hexs(m[1]), m[2])
					}
					c.mu.Lock()
					c.frames = append(c.frames, f)
					c.mu.Unlock()
				}
			}()
		}
		// The API subscribes in a goroutine of its own: wait for the confirmations.
		deadline := time.Now().Add(quiesceBound)
		for time.Now().Before(deadline) {
			c.mu.Lock()
			n := len(c.frames)
			c.mu.Unlock()
			if n >= before+len(args) {
				break
			}
			time.Sleep(50 * time.Microsecond)
		}
		return "0"
	case "unsubscribe":
		in.db.Unsubscribe(c.tag, args...)
		return "~"
	case "punsubscribe":
		in.db.PUnsubscribe(c.tag, args...)
		return "~"
	}
	return "-"
}

func hexs(s string) string {
	if s == "" {
		return ""
	}
	return hex.EncodeToString([]byte(s))
}

func (in *inst) command(id int, argv []string) string {
	raw := encode(argv)
	if id == 0 {
		res, herr, pan := in.db.VerifHandle(nil, raw)
		return render(res, herr, pan)
	}
	c, ok := in.conns[id]
	if !ok {
		in.register(id, "v")
		c = in.conns[id]
	}
	switch c.kind {
	case "closed":
		return "EOF"
	case "t":
		want := 0
		if k := strings.ToLower(argv[0]); (k == "subscribe" || k == "psubscribe") && len(argv) > 1 {
			want = len(argv) - 1
		}
		return c.roundTrip(raw, want)
	case "e":
		return in.embeddedCmd(c, argv)
	}
	res, herr, pan := in.db.VerifHandle(c.vc, raw)
	return render(res, herr, pan)
}

func render(res []byte, herr error, pan string) string {
	switch {
	case pan != "":
		return "!"
	case herr != nil:
		if herr == io.EOF {
			return "EOF"
		}
		return "-"
	}
	return canon(res)
}

func (in *inst) take(out *bufio.Writer) {
	if !sugardb.VerifPubSubQuiesce(quiesceBound) {
		fmt.Fprintf(out, "T! pending=%d\n", sugardb.VerifPubSubPending())
	}
	for _, id := range in.order {
		c := in.conns[id]
		var frames []string
		switch c.kind {
		case "v":
			b := sugardb.VerifTake(c.vc)
			fs, ok := canonMany(b)
			frames = fs
			if !ok {
				frames = append(frames, "?"+hex.EncodeToString(b))
			}
		case "t":
			if r := c.roundTrip(nil, 0); r != "0" {
				c.frames = append(c.frames, "?"+r)
			}
			frames, c.frames = c.frames, nil
		case "closed":
			frames, c.frames = c.frames, nil
		case "e":
			// the pipe is synchronous: a frame counted as written has been read by the reader goroutine,
			// which appends it right after: wait until the count stands still
			stable, last := 0, -1
			for i := 0; i < 4000 && stable < 40; i++ {
				time.Sleep(ts(500 * time.Microsecond))
				c.mu.Lock()
				n := len(c.frames)
				c.mu.Unlock()
				if n == last {
					stable++
				} else {
					stable, last = 0, n
				}
			}
			c.mu.Lock()
			frames, c.frames = c.frames, nil
			c.mu.Unlock()
		}
		fmt.Fprintf(out, "%s\n", strings.Join(append([]string{fmt.Sprintf("T %d", id)}, frames...), " "))
	}
}

func (in *inst) shutdown() {
	for _, c := range in.conns {
		if c.kind == "t" || c.kind == "closed" {
			c.tc.Close()
		}
	}
	if in.listen {
		in.db.ShutDown()
	}
}

func main() {
	log.SetOutput(io.Discard)
	rd := bufio.NewReaderSize(os.Stdin, 1<<20)
	realOut := os.Stdout
	if devnull, derr := os.OpenFile(os.DevNull, os.O_WRONLY, 0); derr == nil {
		os.Stdout = devnull
	}
	out := bufio.NewWriterSize(realOut, 1<<20)
	defer out.Flush()
	var in *inst
	for {
		line, err := rd.ReadString('\n')
		line = strings.TrimRight(line, "\n")
		if line != "" {
			f := strings.Fields(line)
			switch f[0] {
			case "S":
				in = newInst(f[1])
				fmt.Fprintf(out, "S %s\n", f[1])
				out.Flush()
			case "N":
				id, _ := strconv.Atoi(f[1])
				kind := "v"
				if len(f) > 2 {
					kind = f[2]
				}
				in.register(id, kind)
			case "C":
				id, _ := strconv.Atoi(f[1])
				argv := make([]string, len(f)-2)
				for i, h := range f[2:] {
					argv[i] = unhex(h)
				}
				fmt.Fprintf(out, "R %s\n", in.command(id, argv))
				out.Flush()
			case "K":
				id, _ := strconv.Atoi(f[1])
				if c, ok := in.conns[id]; ok && c.kind == "t" {
					c.tc.Close()
					time.Sleep(ts(60 * time.Millisecond))
					c.kind = "closed"
				}
			case "T":
				in.take(out)
				out.Flush()
			case "E":
				in.shutdown()
				fmt.Fprintf(out, "E\n")
				out.Flush()
				in = nil
			}
		}
		if err != nil {
			break
		}
	}
}
