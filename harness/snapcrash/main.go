package main

// snapcrash: drives one in-process SugarDB instance with a data directory through histories of writes, snapshots,
// clock advances and restarts, and produces crash images of the data directory at every failpoint of TakeSnapshot
// (and at every torn offset of each write), each of which is restored by a fresh instance.
//
// Line protocol (stdin -> stdout): the worker's lines (S N C X P A W G E) plus
//   V            SAVE through the command path, then wait until the snapshot goroutine has finished
//   K            take a snapshot synchronously with an image of the data directory at every failpoint; restore every image
//   F <what>     snapshot attempt made to fail: what = mkdir | state | manifest (the operation that is refused)
//   KW <conn> <hex argv..>   snapshot with that command served between the state copy and the encoding -> "V ..", "R .."
//   L <manifest|state> <n>   leftover of an earlier crash: an n-byte temporary file where the next snapshot creates its own
//   T            restart: a fresh instance on the same data directory with snapshot restore on
//   Z <ms>       let real time pass (the snapshot ticker runs only during Z)
// Output: "R ..", "G ..", "V <ok|skip|fail> ls=<lastsave> was=<lastsave before>", "K <point> err=<0|1> ls=<n> <digest>",
//   "T err=<0|1> ls=<n>", "Z taken=<0|1> ls=<n>".

import (
	"bufio"
	"bytes"
	"crypto/sha256"
	"encoding/hex"
	"fmt"
	"io"
	"log"
	"net"
	"os"
	"path/filepath"
	"regexp"
	"runtime"
	"sort"
	"strconv"
	"strings"
	"sync"
	"sync/atomic"
	"time"

	"github.com/echovault/sugardb/sugardb"
)

type inst struct {
	db    *sugardb.SugarDB
	clk   *sugardb.VerifClock
	conns map[int]*net.Conn
	dir   string
}

var (
	baseDir   = "/var/tmp/ag-snap"
	dirSeq    int
	logBuf    bytes.Buffer
	logMu     sync.Mutex
	mu        sync.Mutex // held by the command loop except while a Z line sleeps
	expect    atomic.Int32
	capture   atomic.Bool
	doneCh    = make(chan struct{}, 16)
	deadMu    sync.Mutex
	dead      = map[string]bool{}
	cur       *inst
	trace     []string // points passed by the expected snapshot
	images    []image  // images captured by K
	tickTaken atomic.Int32
	tickRuns  atomic.Int32
	tornAll   = true
)

type image struct {
	point string
	dir   string
	file  string // for write points: path of the written file inside the image
}

type lockedWriter struct{}

func (lockedWriter) Write(p []byte) (int, error) {
	logMu.Lock()
	defer logMu.Unlock()
	if logBuf.Len() < 1<<20 {
		logBuf.Write(p)
	}
	return len(p), nil
}

func takeLog() string {
	logMu.Lock()
	defer logMu.Unlock()
	s := logBuf.String()
	logBuf.Reset()
	return s
}

func unhex(s string) string {
	if s == "-" {
		return ""
	}
	b, err := hex.DecodeString(s)
	if err != nil {
		panic("bad hex " + s)
	}
	return string(b)
}

func encode(argv []string) []byte {
	var sb strings.Builder
	fmt.Fprintf(&sb, "*%d\r\n", len(argv))
	for _, a := range argv {
		fmt.Fprintf(&sb, "$%d\r\n%s\r\n", len(a), a)
	}
	return []byte(sb.String())
}

func newDir() string {
	dirSeq++
	d := filepath.Join(baseDir, fmt.Sprintf("data-%d-%d", os.Getpid(), dirSeq))
	os.RemoveAll(d)
	if err := os.MkdirAll(d, 0o755); err != nil {
		panic(err)
	}
	return d
}

type cfg struct {
	now       int64
	threshold uint64
	interval  time.Duration
}

func open(dir string, c cfg, clk *sugardb.VerifClock) (in *inst, died string) {
	defer func() {
		if r := recover(); r != nil {
			in, died = nil, fmt.Sprintf("%v", r)
		}
	}()
	conf := sugardb.DefaultConfig()
	conf.DataDir = dir
	conf.EvictionInterval = 1000 * time.Hour
	conf.SnapshotInterval = c.interval
	conf.SnapShotThreshold = c.threshold
	conf.RestoreSnapshot = true
	conf.RestoreAOF = false
	conf.AOFSyncStrategy = "no"
	db, err := sugardb.NewSugarDB(sugardb.WithConfig(conf), sugardb.WithVerifClock(clk))
	if err != nil {
		return nil, err.Error()
	}
	return &inst{db: db, clk: clk, conns: map[int]*net.Conn{}, dir: dir}, ""
}

func (in *inst) conn(id int) *net.Conn {
	if id == 0 {
		return nil
	}
	c, ok := in.conns[id]
	if !ok {
		c = in.db.VerifNewConn()
		in.conns[id] = c
	}
	return c
}

func dirOf(file string) string {
	// the data directory a failpoint refers to: the file itself, or the part before /snapshots/
	if i := strings.Index(file, string(filepath.Separator)+"snapshots"+string(filepath.Separator)); i >= 0 {
		return file[:i]
	}
	return file
}

func kindOf(point, file string) string {
	b := filepath.Base(file)
	switch {
	case strings.HasPrefix(b, "state.bin"):
		return point + ":state"
	case strings.HasPrefix(b, "manifest.bin"):
		return point + ":manifest"
	}
	return point
}

func copyTree(src, dst string) {
	filepath.Walk(src, func(p string, info os.FileInfo, err error) error {
		if err != nil {
			return nil
		}
		rel, _ := filepath.Rel(src, p)
		if info.IsDir() {
			os.MkdirAll(filepath.Join(dst, rel), 0o755)
			return nil
		}
		b, rerr := os.ReadFile(p)
		if rerr == nil {
			os.WriteFile(filepath.Join(dst, rel), b, 0o644)
		}
		return nil
	})
}

func snapImage(dir string) string {
	img := newDir()
	copyTree(filepath.Join(dir, "snapshots"), filepath.Join(img, "snapshots"))
	return img
}

func treeHash(dir string) string {
	h := sha256.New()
	var names []string
	filepath.Walk(dir, func(p string, info os.FileInfo, err error) error {
		if err == nil {
			names = append(names, p)
		}
		return nil
	})
	sort.Strings(names)
	for _, p := range names {
		rel, _ := filepath.Rel(dir, p)
		st, err := os.Stat(p)
		if err != nil {
			continue
		}
		if st.IsDir() {
			fmt.Fprintf(h, "D %s\n", rel)
		} else {
			b, _ := os.ReadFile(p)
			fmt.Fprintf(h, "F %s %d\n", rel, len(b))
			h.Write(b)
		}
	}
	return hex.EncodeToString(h.Sum(nil))
}

// midSnapshot, when set, runs once on the snapshot goroutine right after the state has been copied and before it is
// encoded and written: a client whose command is served in that window.
var midSnapshot func()

// fromTicker: the calling goroutine is the snapshot engine's ticker (the closure started by NewSnapshotEngine).
func fromTicker() bool {
	pcs := make([]uintptr, 32)
	n := runtime.Callers(2, pcs)
	frames := runtime.CallersFrames(pcs[:n])
	for {
		fr, more := frames.Next()
		if strings.Contains(fr.Function, "snapshot.NewSnapshotEngine.func") {
			return true
		}
		if !more {
			return false
		}
	}
}

// hook is called on the goroutine that takes the snapshot.
func hook(point, file string) {
	dir := dirOf(file)
	deadMu.Lock()
	isDead := dead[dir]
	deadMu.Unlock()
	if isDead {
		select {} // an instance that has been "stopped" never touches its directory again
	}
	if strings.HasPrefix(point, "restore-") {
		return
	}
	if fromTicker() {
		// a snapshot started by the ticker: it runs only while the command loop sleeps in Z (told apart from a SAVE /
		// VerifTakeSnapshot the script asked for by its call stack, not by what the command loop is doing: a tick may
		// fall into an explicit snapshot)
		switch point {
		case "enter":
			mu.Lock()
			deadMu.Lock()
			isDead = dead[dir]
			deadMu.Unlock()
			if isDead {
				mu.Unlock()
				select {}
			}
			tickRuns.Add(1)
		case "published":
			tickTaken.Store(1)
		case "exit":
			mu.Unlock()
		}
		return
	}
	name := kindOf(point, file)
	if point == "state-copied" && midSnapshot != nil {
		f := midSnapshot
		midSnapshot = nil
		f()
	}
	trace = append(trace, name)
	if capture.Load() {
		im := image{point: name, dir: snapImage(dir)}
		if point == "write" {
			rel, _ := filepath.Rel(dir, file)
			im.file = filepath.Join(im.dir, rel)
		}
		images = append(images, im)
	}
	if point == "exit" {
		doneCh <- struct{}{}
	}
}

func outcome() string {
	has := func(p string) bool {
		for _, t := range trace {
			if t == p {
				return true
			}
		}
		return false
	}
	switch {
	case has("published"):
		return "ok"
	case has("nothing-new"):
		return "skip"
	}
	return "fail"
}

type restored struct {
	died   string
	err    int
	ls     int64
	digest string
	mod    bool
}

var restoreCache = map[string]restored{}

func restoreImage(img string, c cfg, now int64) restored {
	key := fmt.Sprintf("%d|", now) + treeHash(filepath.Join(img, "snapshots"))
	if r, ok := restoreCache[key]; ok {
		return r
	}
	before := treeHash(filepath.Join(img, "snapshots"))
	takeLog()
	c.interval = 1000 * time.Hour
	in, died := open(img, c, sugardb.NewVerifClock(now))
	var r restored
	if in == nil {
		r = restored{died: died}
	} else {
		lg := takeLog()
		r = restored{ls: in.db.VerifLatestSnapshot(), digest: in.db.VerifDigest()}
		if !strings.Contains(lg, "successfully restored latest snapshot") {
			r.err = 1
		}
		r.mod = treeHash(filepath.Join(img, "snapshots")) != before
		in.db.ShutDown()
	}
	restoreCache[key] = r
	return r
}

var volRe = regexp.MustCompile(`\}v\[([0-9a-f,\-]*)\]`)

// normVol sorts the volatile-key index of every database: its order after a restore is Go's map order.
func normVol(d string) string {
	return volRe.ReplaceAllStringFunc(d, func(m string) string {
		body := m[3 : len(m)-1]
		if body == "" {
			return m
		}
		parts := strings.Split(body, ",")
		sort.Strings(parts)
		return "}v[" + strings.Join(parts, ",") + "]"
	})
}

func (r restored) String() string {
	if r.died != "" {
		return "DIED"
	}
	s := fmt.Sprintf("err=%d ls=%d %s", r.err, r.ls, normVol(r.digest))
	if r.mod {
		s += " MODIFIED"
	}
	return s
}

func tornOffsets(n int) []int {
	var offs []int
	if tornAll || n <= 64 {
		for i := 1; i < n; i++ {
			offs = append(offs, i)
		}
		return offs
	}
	seen := map[int]bool{}
	add := func(i int) {
		if i >= 1 && i < n && !seen[i] {
			seen[i] = true
			offs = append(offs, i)
		}
	}
	for i := 1; i <= 16; i++ {
		add(i)
		add(n - i)
	}
	for i := 1; i < n; i += 1 + n/48 {
		add(i)
	}
	sort.Ints(offs)
	return offs
}

func main() {
	log.SetOutput(lockedWriter{})
	log.SetFlags(0)
	if os.Getenv("SNAP_TORN") == "sample" {
		tornAll = false
	}
	if d := os.Getenv("SNAP_BASE"); d != "" {
		baseDir = d
	}
	sugardb.VerifSetSnapshotHook(hook)
	rd := bufio.NewReaderSize(os.Stdin, 1<<20)
	realOut := os.Stdout
	if devnull, derr := os.OpenFile(os.DevNull, os.O_WRONLY, 0); derr == nil {
		os.Stdout = devnull
	}
	out := bufio.NewWriterSize(realOut, 1<<20)
	defer out.Flush()
	var in *inst
	var c cfg
	var dirs []string
	mu.Lock()
	cleanup := func() {
		deadMu.Lock()
		for _, d := range dirs {
			dead[d] = true
		}
		deadMu.Unlock()
		for _, d := range dirs {
			os.RemoveAll(d)
		}
		// images and restore directories of this script
		matches, _ := filepath.Glob(filepath.Join(baseDir, fmt.Sprintf("data-%d-*", os.Getpid())))
		for _, m := range matches {
			os.RemoveAll(m)
		}
		dirs = nil
		restoreCache = map[string]restored{}
	}
	defer cleanup()
	runSnapshot := func(sync bool) (hung bool) {
		// one expected snapshot on the current instance
		trace = nil
		images = nil
		for len(doneCh) > 0 {
			<-doneCh
		}
		expect.Store(1)
		defer expect.Store(0)
		if sync {
			_ = in.db.VerifTakeSnapshot()
			<-doneCh
			return false
		}
		res, herr, pan := in.db.VerifHandle(nil, encode([]string{"SAVE"}))
		switch {
		case pan != "":
			fmt.Fprintf(out, "R !\n")
			return false
		case herr != nil:
			fmt.Fprintf(out, "R -\n")
			return false
		default:
			fmt.Fprintf(out, "R %s\n", canon(res))
		}
		select {
		case <-doneCh:
		case <-time.After(ts(10 * time.Second)):
			return true
		}
		// finishSnapshotFunc runs before the exit point, so the flag is down by now
		return false
	}
	for {
		line, err := rd.ReadString('\n')
		line = strings.TrimRight(line, "\n")
		if line != "" {
			f := strings.Fields(line)
			switch f[0] {
			case "S":
				cleanup()
				c = cfg{now: 1700000000000, threshold: 1000000, interval: 1000 * time.Hour}
				for _, kv := range f[2:] {
					p := strings.SplitN(kv, "=", 2)
					if len(p) != 2 {
						continue
					}
					switch p[0] {
					case "now":
						c.now, _ = strconv.ParseInt(p[1], 10, 64)
					case "snapthreshold":
						c.threshold, _ = strconv.ParseUint(p[1], 10, 64)
					case "snapinterval":
						ms, _ := strconv.ParseInt(p[1], 10, 64)
						c.interval = time.Duration(ms) * time.Millisecond
					}
				}
				d := newDir()
				dirs = append(dirs, d)
				var died string
				in, died = open(d, c, sugardb.NewVerifClock(c.now))
				if in == nil {
					panic(died)
				}
				cur = in
				takeLog()
				fmt.Fprintf(out, "S %s\n", f[1])
				out.Flush()
			case "N":
				id, _ := strconv.Atoi(f[1])
				in.conn(id)
			case "C", "X":
				id, _ := strconv.Atoi(f[1])
				var raw []byte
				if f[0] == "C" {
					argv := make([]string, len(f)-2)
					for i, h := range f[2:] {
						argv[i] = unhex(h)
					}
					raw = encode(argv)
				} else {
					raw = []byte(unhex(f[2]))
				}
				res, herr, pan := in.db.VerifHandle(in.conn(id), raw)
				switch {
				case pan != "":
					fmt.Fprintf(out, "R !\n")
				case herr != nil:
					if herr == io.EOF {
						fmt.Fprintf(out, "R EOF\n")
					} else {
						fmt.Fprintf(out, "R -\n")
					}
				default:
					fmt.Fprintf(out, "R %s\n", canon(res))
				}
				out.Flush()
			case "P":
				dbi, _ := strconv.Atoi(f[1])
				dl, _ := strconv.ParseInt(f[4], 10, 64)
				v, perr := sugardb.VerifParseValue(f[3])
				if perr != nil {
					panic(perr)
				}
				if perr = in.db.VerifPreset(dbi, unhex(f[2]), v, dl); perr != nil {
					fmt.Fprintf(out, "P -\n")
					out.Flush()
				}
			case "A":
				ms, _ := strconv.ParseInt(f[1], 10, 64)
				in.clk.Advance(time.Duration(ms) * time.Millisecond)
			case "G":
				fmt.Fprintf(out, "G %s\n", in.db.VerifDigest())
				out.Flush()
			case "V":
				was := in.db.VerifLatestSnapshot()
				if runSnapshot(false) {
					fmt.Fprintf(out, "HUNG\n")
					out.Flush()
					os.Exit(3)
				}
				if len(trace) > 0 {
					fmt.Fprintf(out, "V %s ls=%d was=%d\n", outcome(), in.db.VerifLatestSnapshot(), was)
				}
				out.Flush()
			case "K":
				was := in.db.VerifLatestSnapshot()
				capture.Store(true)
				runSnapshot(true)
				capture.Store(false)
				now := in.clk.Now().UnixMilli()
				for _, im := range images {
					if im.file != "" {
						// torn writes: the file cut at every offset strictly inside the written content
						full, _ := os.ReadFile(im.file)
						results := map[string]int{}
						for _, n := range tornOffsets(len(full)) {
							os.WriteFile(im.file, full[:n], 0o644)
							results[restoreImage(im.dir, c, now).String()]++
						}
						os.WriteFile(im.file, full, 0o644)
						keys := make([]string, 0, len(results))
						for k := range results {
							keys = append(keys, k)
						}
						sort.Strings(keys)
						for _, k := range keys {
							fmt.Fprintf(out, "K %s~torn n=%d %s\n", im.point, results[k], k)
						}
					}
					fmt.Fprintf(out, "K %s %s\n", im.point, restoreImage(im.dir, c, now))
				}
				for _, im := range images {
					os.RemoveAll(im.dir)
				}
				fmt.Fprintf(out, "V %s ls=%d was=%d\n", outcome(), in.db.VerifLatestSnapshot(), was)
				out.Flush()
			case "F":
				was := in.db.VerifLatestSnapshot()
				msec := in.clk.Now().UnixMilli()
				var obstacle string
				switch f[1] {
				case "mkdir":
					// a regular file where the snapshot directory should go
					obstacle = filepath.Join(in.dir, "snapshots", fmt.Sprintf("%d", msec))
					os.MkdirAll(filepath.Dir(obstacle), 0o755)
					if _, serr := os.Stat(obstacle); serr == nil {
						obstacle = ""
					} else {
						os.WriteFile(obstacle, []byte("x"), 0o644)
					}
				case "state":
					obstacle = filepath.Join(in.dir, "snapshots", fmt.Sprintf("%d", msec), "state.bin.tmp")
					os.MkdirAll(filepath.Join(obstacle, "x"), 0o755)
				case "manifest":
					obstacle = filepath.Join(in.dir, "snapshots", "manifest.bin.tmp")
					os.MkdirAll(filepath.Join(obstacle, "x"), 0o755)
				}
				runSnapshot(true)
				if obstacle != "" {
					os.RemoveAll(obstacle)
					if f[1] == "state" {
						// the directory made for the obstacle goes too when it holds nothing else
						os.Remove(filepath.Dir(obstacle))
					}
				}
				fmt.Fprintf(out, "V %s ls=%d was=%d\n", outcome(), in.db.VerifLatestSnapshot(), was)
				out.Flush()
			case "KW":
				// a snapshot during which a command is served between the state copy and the encoding: the snapshot
				// must hold the dataset of the instant of the copy
				id, _ := strconv.Atoi(f[1])
				argv := make([]string, len(f)-2)
				for i, h := range f[2:] {
					argv[i] = unhex(h)
				}
				was := in.db.VerifLatestSnapshot()
				var reply string
				cur := in
				midSnapshot = func() {
					res, herr, pan := cur.db.VerifHandle(cur.conn(id), encode(argv))
					switch {
					case pan != "":
						reply = "!"
					case herr != nil:
						reply = "-"
					default:
						reply = canon(res)
					}
				}
				runSnapshot(true)
				midSnapshot = nil
				fmt.Fprintf(out, "V %s ls=%d was=%d\n", outcome(), in.db.VerifLatestSnapshot(), was)
				fmt.Fprintf(out, "R %s\n", reply)
				out.Flush()
			case "L":
				// leftover of an earlier crash: a temporary file (longer than anything a snapshot writes) where the next
				// snapshot will create its own; it must be overwritten from the start, not reused
				n, _ := strconv.Atoi(f[2])
				junk := bytes.Repeat([]byte("x"), n)
				var p string
				if f[1] == "manifest" {
					p = filepath.Join(in.dir, "snapshots", "manifest.bin.tmp")
				} else {
					p = filepath.Join(in.dir, "snapshots", fmt.Sprintf("%d", in.clk.Now().UnixMilli()), "state.bin.tmp")
				}
				os.MkdirAll(filepath.Dir(p), 0o755)
				os.WriteFile(p, junk, 0o644)
			case "T":
				now := in.clk.Now().UnixMilli()
				old := in
				deadMu.Lock()
				dead[old.dir] = true
				deadMu.Unlock()
				old.db.ShutDown()
				d := newDir()
				dirs = append(dirs, d)
				copyTree(filepath.Join(old.dir, "snapshots"), filepath.Join(d, "snapshots"))
				takeLog()
				var died string
				in, died = open(d, c, sugardb.NewVerifClock(now))
				if in == nil {
					fmt.Fprintf(out, "T DIED %s\n", hex.EncodeToString([]byte(died)))
					out.Flush()
					os.Exit(4)
				}
				cur = in
				e := 1
				if strings.Contains(takeLog(), "successfully restored latest snapshot") {
					e = 0
				}
				fmt.Fprintf(out, "T err=%d ls=%d\n", e, in.db.VerifLatestSnapshot())
				out.Flush()
			case "Z":
				ms, _ := strconv.ParseInt(f[1], 10, 64)
				tickTaken.Store(0)
				tickRuns.Store(0)
				mu.Unlock()
				time.Sleep(ts(time.Duration(ms) * time.Millisecond))
				// a box busier than when the time scale was measured may not have run the ticker goroutine yet: when no
				// tick has started an attempt, wait up to three more windows (a tick never starts one below the
				// threshold, so waiting longer cannot turn "none due" into "taken")
				for extra := 0; extra < 3 && tickRuns.Load() == 0; extra++ {
					time.Sleep(ts(time.Duration(ms) * time.Millisecond))
				}
				mu.Lock()
				fmt.Fprintf(out, "Z taken=%d ls=%d\n", tickTaken.Load(), in.db.VerifLatestSnapshot())
				out.Flush()
			case "E":
				fmt.Fprintf(out, "E\n")
				out.Flush()
				cleanup()
				in = nil
			}
		}
		if err != nil {
			break
		}
	}
}
