package main

// Twin-FSM harness for C07: several fresh cluster-mode instances without sockets, each with its own
// virtual clock; one generated raft log is fed to every node's state machine.
//
// Line protocol (stdin -> stdout), one script at a time:
//   S <id> nodes=<n> now=<ms0>,<ms1>,... leader=<i> forward=0|1
//   L <db> <hex> ...        committed entry "command" fed to the FSM of every node   -> "R<i> <reply>" per node
//   K <db> <hexkey>         committed entry "delete-key"                            -> "R<i> <reply>" per node
//   Y <hextype>             committed entry with another Type                       -> "R<i> <reply>" per node
//   A <node> <ms>           advance that node's clock
//   Z <node> <msec>         raft snapshot of that node (FSM.Snapshot + Persist), kept in a register -> "Z <result>"
//   ZB <node> / ZP <msec>   the same in raft's two steps: FSM.Snapshot() now, Persist later (entries applied in between
//                           must not be in the snapshot)                           -> "Z <result>" at ZP
//   LO <node> <db> <hex>... a committed entry replayed on that node only (the suffix after a snapshot install) -> "R<node> <reply>"
//   BL <k>                  the next k entry lines are one raft batch: node 0 applies them one by one, the others through
//                           ApplyBatch when the state machine implements raft.BatchingFSM (as hashicorp/raft's runFSM does)
//   V <node>                FSM.Restore of the register into that node             -> "V <result>"
//   F <node>                replace that node by a fresh instance (same clock)
//   H <node> <db> <hex> ... client command through handleCommand on that node (cluster branch) -> "H <reply>"
//                           a raft.Apply on the leader appends to the log: the entry is fed to every node
//   M                       one gossip round: every queued forward message is delivered to every other node -> "M <n>"
//   G                       "G<i> <digest>" per node
//   E
// Replies: canonical reply text, "-" for an error, "!" for a panic, "nil" for an ignored entry.
// "X<i> reentered" / "X<i> lockheld": raft.Apply was called from inside FSM.Apply / with the store lock held.

import (
	"bufio"
	"encoding/hex"
	"encoding/json"
	"fmt"
	"io"
	"log"
	"os"
	"strconv"
	"strings"
	"time"

	"github.com/echovault/sugardb/sugardb"
)

type node struct {
	db        *sugardb.SugarDB
	rn        *sugardb.VerifRaftNode
	clk       *sugardb.VerifClock
	reentered int
	lockheld  int
}

type cluster struct {
	nodes   []*node
	forward bool
	maxmem  uint64 // config.MaxMemory of every node (policy noeviction); 0: no limit
	leader  int
	snap    []byte
	out     *bufio.Writer
}

func unhex(s string) string {
	if s == "-" {
		return ""
	}
	b, err := hex.DecodeString(s)
	if err != nil {
		panic("bad hex " + s)
	}
	return string(b)
}

func encode(argv []string) []byte {
	var sb strings.Builder
	fmt.Fprintf(&sb, "*%d\r\n", len(argv))
	for _, a := range argv {
		fmt.Fprintf(&sb, "$%d\r\n%s\r\n", len(a), a)
	}
	return []byte(sb.String())
}

func (c *cluster) newServer(i int, clk *sugardb.VerifClock) *node {
	conf := sugardb.DefaultConfig()
	conf.DataDir = ""
	conf.EvictionInterval = 1000 * time.Hour
	conf.SnapshotInterval = 1000 * time.Hour
	conf.BootstrapCluster = i == 0
	if i != 0 {
		conf.JoinAddr = "127.0.0.1:1"
	}
	conf.ServerID = fmt.Sprintf("node-%d", i)
	conf.ForwardCommand = c.forward
	if c.maxmem != 0 {
		conf.MaxMemory = c.maxmem
		conf.EvictionPolicy = "noeviction"
	}
	db, err := sugardb.NewSugarDB(sugardb.WithConfig(conf), sugardb.WithVerifClock(clk))
	if err != nil {
		panic(err)
	}
	rn, err := db.VerifRaftNode(i == c.leader, len(c.nodes))
	if err != nil {
		panic(err)
	}
	n := &node{db: db, rn: rn, clk: clk}
	rn.OnApply = func(data []byte) (interface{}, error) {
		// the leader's raft.Apply: the entry is committed and every node's FSM applies it
		var leaderRaw interface{}
		for j, m := range c.nodes {
			raw, _, _, pan := m.rn.FSMApply(data)
			if pan != "" {
				fmt.Fprintf(c.out, "P%d %s\n", j, hex.EncodeToString([]byte(pan)))
			}
			if m == n {
				leaderRaw = raw
			}
		}
		return leaderRaw, nil
	}
	return n
}

func newCluster(args []string, out *bufio.Writer) *cluster {
	c := &cluster{out: out}
	n := 3
	nows := []int64{}
	for _, kv := range args {
		p := strings.SplitN(kv, "=", 2)
		if len(p) != 2 {
			continue
		}
		switch p[0] {
		case "nodes":
			n, _ = strconv.Atoi(p[1])
		case "now":
			for _, s := range strings.Split(p[1], ",") {
				v, _ := strconv.ParseInt(s, 10, 64)
				nows = append(nows, v)
			}
		case "leader":
			c.leader, _ = strconv.Atoi(p[1])
		case "forward":
			c.forward = p[1] == "1"
		case "maxmem":
			c.maxmem, _ = strconv.ParseUint(p[1], 10, 64)
		}
	}
	c.nodes = make([]*node, n)
	for i := 0; i < n; i++ {
		now := int64(1700000000000)
		if i < len(nows) {
			now = nows[i]
		}
		c.nodes[i] = c.newServer(i, sugardb.NewVerifClock(now))
	}
	return c
}

func show(resp []byte, errText, pan string, raw interface{}) string {
	switch {
	case pan != "":
		return "!"
	case errText != "":
		return "-"
	case raw == nil:
		return "nil"
	default:
		return canon(resp)
	}
}

func (c *cluster) marks() {
	for i, n := range c.nodes {
		if n.rn.Reentered > n.reentered {
			n.reentered = n.rn.Reentered
			fmt.Fprintf(c.out, "X%d reentered\n", i)
		}
		if n.rn.LockHeld > n.lockheld {
			n.lockheld = n.rn.LockHeld
			fmt.Fprintf(c.out, "X%d lockheld\n", i)
		}
	}
}

func entryOf(f []string) []byte {
	req := applyRequest{ServerID: "node-0", ConnectionID: "1", Protocol: 2}
	switch f[0] {
	case "L":
		req.Type = "command"
		req.Database, _ = strconv.Atoi(f[1])
		for _, h := range f[2:] {
			req.CMD = append(req.CMD, unhex(h))
		}
	case "K":
		req.Type = "delete-key"
		req.Database, _ = strconv.Atoi(f[1])
		req.Key = unhex(f[2])
	case "Y":
		req.Type = unhex(f[1])
	}
	data, _ := json.Marshal(req)
	return data
}

// feedBatch: the replies are printed entry by entry, node by node, exactly as for single entries.
func (c *cluster) feedBatch(datas [][]byte) {
	res := make([][]sugardb.VerifApplied, len(c.nodes))
	for i, n := range c.nodes {
		if i == 0 {
			res[i] = make([]sugardb.VerifApplied, len(datas))
			for k, d := range datas {
				raw, resp, errText, pan := n.rn.FSMApply(d)
				res[i][k] = sugardb.VerifApplied{Raw: raw, Resp: resp, ErrText: errText, Panicked: pan}
			}
		} else {
			res[i] = n.rn.FSMApplyBatch(datas)
		}
	}
	for k := range datas {
		for i := range c.nodes {
			r := res[i][k]
			fmt.Fprintf(c.out, "R%d %s\n", i, show(r.Resp, r.ErrText, r.Panicked, r.Raw))
		}
		c.marks()
	}
}

func (c *cluster) feed(data []byte) {
	for i, n := range c.nodes {
		raw, resp, errText, pan := n.rn.FSMApply(data)
		fmt.Fprintf(c.out, "R%d %s\n", i, show(resp, errText, pan, raw))
	}
	c.marks()
}

type applyRequest struct {
	Type         string   `json:"Type"`
	ServerID     string   `json:"ServerID"`
	ConnectionID string   `json:"ConnectionID"`
	Protocol     int      `json:"Protocol"`
	Database     int      `json:"Database"`
	CMD          []string `json:"CMD"`
	Key          string   `json:"Key"`
}

// guarded runs f; when it does not return within the limit the script is over: "HUNG" and exit.
func guarded(out *bufio.Writer, what string, f func()) {
	done := make(chan struct{})
	go func() { defer close(done); f() }()
	select {
	case <-done:
	case <-time.After(ts(4 * time.Second)):
		fmt.Fprintf(out, "HUNG %s\n", what)
		out.Flush()
		os.Exit(0)
	}
}

func main() {
	log.SetOutput(io.Discard)
	rd := bufio.NewReaderSize(os.Stdin, 1<<20)
	realOut := os.Stdout
	if devnull, derr := os.OpenFile(os.DevNull, os.O_WRONLY, 0); derr == nil {
		os.Stdout = devnull
	}
	out := bufio.NewWriterSize(realOut, 1<<20)
	defer out.Flush()
	sugardb.VerifClusterNoSockets(true)
	var c *cluster
	var batch [][]byte
	batchLeft, begun := 0, 0
	for {
		line, err := rd.ReadString('\n')
		line = strings.TrimRight(line, "\n")
		if line != "" {
			f := strings.Fields(line)
			switch f[0] {
			case "S":
				c = newCluster(f[2:], out)
				fmt.Fprintf(out, "S %s\n", f[1])
			case "BL":
				// the next <k> entry lines are one raft batch: node 0 applies them one by one, the other nodes
				// get them the way hashicorp/raft's runFSM delivers a batch (ApplyBatch when implemented)
				batchLeft, _ = strconv.Atoi(f[1])
				batch = nil
			case "L", "K", "Y":
				data := entryOf(f)
				if batchLeft > 0 {
					batch = append(batch, data)
					batchLeft--
					if batchLeft == 0 {
						b := batch
						batch = nil
						guarded(out, "BL", func() { c.feedBatch(b) })
					}
				} else {
					guarded(out, f[0], func() { c.feed(data) })
				}
			case "LO":
				i, _ := strconv.Atoi(f[1])
				data := entryOf(append([]string{"L"}, f[2:]...))
				guarded(out, "LO", func() {
					raw, resp, errText, pan := c.nodes[i].rn.FSMApply(data)
					fmt.Fprintf(out, "R%d %s\n", i, show(resp, errText, pan, raw))
					c.marks()
				})
			case "ZB":
				i, _ := strconv.Atoi(f[1])
				guarded(out, "ZB", func() {
					errText, pan := c.nodes[i].rn.FSMSnapshotBegin()
					if pan != "" || errText != "" {
						fmt.Fprintf(out, "ZB %s%s\n", errText, pan)
					}
					begun = i
				})
			case "ZP":
				msec, _ := strconv.ParseInt(f[1], 10, 64)
				guarded(out, "ZP", func() {
					data, errText, pan := c.nodes[begun].rn.FSMSnapshotPersist(msec)
					switch {
					case pan != "":
						fmt.Fprintf(out, "Z !\n")
					case errText != "":
						fmt.Fprintf(out, "Z -\n")
					default:
						c.snap = data
						fmt.Fprintf(out, "Z ok\n")
					}
				})
			case "A":
				i, _ := strconv.Atoi(f[1])
				ms, _ := strconv.ParseInt(f[2], 10, 64)
				c.nodes[i].clk.Advance(time.Duration(ms) * time.Millisecond)
			case "Z":
				i, _ := strconv.Atoi(f[1])
				msec, _ := strconv.ParseInt(f[2], 10, 64)
				guarded(out, "Z", func() {
					data, errText, pan := c.nodes[i].rn.FSMSnapshot(msec)
					switch {
					case pan != "":
						fmt.Fprintf(out, "Z !\n")
					case errText != "":
						fmt.Fprintf(out, "Z -\n")
					default:
						c.snap = data
						fmt.Fprintf(out, "Z ok\n")
					}
				})
			case "V":
				i, _ := strconv.Atoi(f[1])
				guarded(out, "V", func() {
					errText, pan := c.nodes[i].rn.FSMRestore(c.snap)
					switch {
					case pan != "":
						fmt.Fprintf(out, "V !\n")
					case errText != "":
						fmt.Fprintf(out, "V -\n")
					default:
						fmt.Fprintf(out, "V ok\n")
					}
				})
			case "F":
				i, _ := strconv.Atoi(f[1])
				c.nodes[i] = c.newServer(i, c.nodes[i].clk)
			case "H":
				i, _ := strconv.Atoi(f[1])
				dbi, _ := strconv.Atoi(f[2])
				argv := make([]string, len(f)-3)
				for j, h := range f[3:] {
					argv[j] = unhex(h)
				}
				guarded(out, "H", func() {
					_ = c.nodes[i].db.SelectDB(dbi)
					res, herr, pan := c.nodes[i].db.VerifHandle(nil, encode(argv))
					switch {
					case pan != "":
						fmt.Fprintf(out, "H !\n")
					case herr != nil:
						fmt.Fprintf(out, "H -\n")
					default:
						fmt.Fprintf(out, "H %s\n", canon(res))
					}
					c.marks()
				})
			case "M":
				guarded(out, "M", func() {
					total := 0
					msgs := make([][][]byte, len(c.nodes))
					for i, n := range c.nodes {
						msgs[i] = n.db.VerifMemberDrain()
					}
					for i := range c.nodes {
						for _, m := range msgs[i] {
							total++
							for j, n := range c.nodes {
								if j != i {
									n.db.VerifMemberNotify(m)
								}
							}
						}
					}
					fmt.Fprintf(out, "M %d\n", total)
					c.marks()
				})
			case "G":
				guarded(out, "G", func() {
					for i, n := range c.nodes {
						fmt.Fprintf(out, "G%d %s\n", i, n.db.VerifDigest())
					}
				})
			case "E":
				fmt.Fprintf(out, "E\n")
				c = nil
			}
			out.Flush()
		}
		if err != nil {
			break
		}
	}
}
