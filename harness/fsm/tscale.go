package main

import (
	"os"
	"strconv"
	"time"
)

// Real-time waiting bounds are multiplied by VERIF_TIME_SCALE (>= 1), which the Python driver derives from
// the machine's load: a bound that is generous on an idle box must not turn into a false HUNG on a busy one.
var tscaleF = func() float64 {
	v, err := strconv.ParseFloat(os.Getenv("VERIF_TIME_SCALE"), 64)
	if err != nil || v < 1 {
		return 1
	}
	return v
}()

func ts(d time.Duration) time.Duration { return time.Duration(float64(d) * tscaleF) }
