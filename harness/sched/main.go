package main

// Schedule controller for C05 (commands are atomic).
//
// Every concurrent activity of a job (a command sent on a connection, a copy of the state for a
// snapshot, a pass of the expiry sampler) runs on a goroutine of its own and is parked at the yield
// points of the server (build tag verif): "cmd.enter" at the top of handleCommand, "ks.*" at the
// entry of every keyspace primitive.  The controller releases one parked goroutine at a time and
// waits until it parks again or finishes, so a list of thread ids *is* the interleaving.  All
// maximal schedules of a job are enumerated depth first (each one is replayed on a fresh
// instance); the same schedules are replayed on the Coq model's run_conc by the check.
//
// Line protocol (stdin -> stdout), one job at a time:
//   S <id> k=v ...              fresh job; keys: now, mode=auto|lock|nolock, max=<schedules>, probe=0|1,
//                               policy, sample, datadir
//   P <db> <hexkey> <value> <deadline-ms>    preset     (as the worker)
//   N <conn>                    register a connection
//   D <db>                      database of the embedded caller
//   B <conn> <hex> ...          a command run before the concurrent part (SELECT ...), no output
//   A <ms>                      advance the virtual clock (before the concurrent part)
//   T <tid> <conn> <hex> ...    thread: one command
//   TC <tid>                    thread: copy of the state for a snapshot (the snapshot engine's getState function)
//   TCL <tid>                   thread: the same copy, rendered only when the run is over (a snapshot is encoded after the copy)
//   TW <tid> <db>               thread: one pass of the expiry sampler on a database
//   R <tid,tid,...>             replay exactly this schedule (no enumeration)
//   E                           run
// Output:
//   S <id>
//   M lock|nolock               whether a second command can get past cmd.enter while a first one is parked in a primitive
//   X held|broken|skip [...]    the same question asked of this job's first two commands
//   Q <sched> | <tid>:<outcome> ... | <digest>     one line per schedule
//   O <perm> | <tid>:<outcome> ... | <digest>      the serial orders, run on the same build
//   H <sched> <what>            a run that hung or died (observation)
//   E

import (
	"bufio"
	"bytes"
	"encoding/hex"
	"fmt"
	"io"
	"log"
	"net"
	"os"
	"runtime"
	"sort"
	"strconv"
	"strings"
	"sync"
	"sync/atomic"
	"time"

	"github.com/echovault/sugardb/sugardb"
)

func unhex(s string) string {
	if s == "-" {
		return ""
	}
	b, err := hex.DecodeString(s)
	if err != nil {
		panic("bad hex " + s)
	}
	return string(b)
}

func encode(argv []string) []byte {
	var sb strings.Builder
	fmt.Fprintf(&sb, "*%d\r\n", len(argv))
	for _, a := range argv {
		fmt.Fprintf(&sb, "$%d\r\n%s\r\n", len(a), a)
	}
	return []byte(sb.String())
}

func goid() int64 {
	var buf [64]byte
	n := runtime.Stack(buf[:], false)
	// "goroutine 123 [running]:..."
	f := bytes.Fields(buf[:n])
	id, _ := strconv.ParseInt(string(f[1]), 10, 64)
	return id
}

type thread struct {
	id   int
	kind string // cmd, copy, sweep
	conn int
	argv []string
	db   int
}

type setup struct {
	kind string // P N D B A
	f    []string
}

type inst struct {
	db       *sugardb.SugarDB
	clk      *sugardb.VerifClock
	advanced time.Duration
	dirty    bool
}

type job struct {
	cache   *inst
	id      string
	cfg     map[string]string
	setups  []setup
	threads []thread
	replays [][]int
}

// ---------------------------------------------------------------------------------------------
// One run of one schedule on a fresh instance.

type event struct {
	tid   int
	done  bool
	point string
}

type run struct {
	j       *job
	in      *inst
	db      *sugardb.SugarDB
	conns   map[int]*net.Conn
	mu      sync.Mutex
	gids    map[int64]int // goroutine id -> thread index
	resume  []chan struct{}
	events  chan event
	outcome []string
	swept   []bool // sweep thread has parked at ks.sweep once
	late    []func() string // copylate threads: renders the copy when the run is over
	passed  []atomic.Bool // the thread has reached cmd.before_handler (it is past the command lock)
	free    atomic.Bool // controller off: every point passes
}

func isChoice(name string) bool {
	return name == "cmd.enter" || name == "actor.enter" || strings.HasPrefix(name, "ks.")
}

func (r *run) hook(name string, database int, data []byte) {
	if r.free.Load() || (!isChoice(name) && name != "cmd.before_handler") {
		return
	}
	g := goid()
	r.mu.Lock()
	ti, ok := r.gids[g]
	r.mu.Unlock()
	if !ok {
		return
	}
	if name == "cmd.before_handler" {
		r.passed[ti].Store(true)
		return
	}
	if name == "ks.sweep" {
		// The sampler samples again after a pass that deleted many keys: the further passes belong to
		// the same step.
		if r.swept[ti] {
			return
		}
		r.swept[ti] = true
	}
	r.events <- event{tid: ti, point: name}
	<-r.resume[ti]
}

func newInstance(j *job) (*sugardb.SugarDB, *sugardb.VerifClock) {
	conf := sugardb.DefaultConfig()
	conf.DataDir = ""
	conf.EvictionInterval = 1000 * time.Hour
	conf.SnapshotInterval = 1000 * time.Hour
	now := int64(1700000000000)
	for k, v := range j.cfg {
		switch k {
		case "now":
			now, _ = strconv.ParseInt(v, 10, 64)
		case "policy":
			conf.EvictionPolicy = v
		case "sample":
			m, _ := strconv.ParseUint(v, 10, 64)
			conf.EvictionSample = uint(m)
		case "datadir":
			conf.DataDir = v
		}
	}
	clk := sugardb.NewVerifClock(now)
	db, err := sugardb.NewSugarDB(sugardb.WithConfig(conf), sugardb.WithVerifClock(clk))
	if err != nil {
		panic(err)
	}
	return db, clk
}

// An instance is used for all runs of a job as long as nothing went wrong on it (no panic, no hang) and the
// job has no data directory: between two runs it is flushed, the embedded caller goes back to database 0 and the
// clock is set back; connections are new ones.
func getInstance(j *job) *inst {
	if in := j.cache; in != nil && !in.dirty && j.cfg["datadir"] == "" {
		in.db.Flush(-1)
		_ = in.db.SelectDB(0)
		in.clk.Advance(-in.advanced)
		in.advanced = 0
		return in
	}
	db, clk := newInstance(j)
	j.cache = &inst{db: db, clk: clk}
	return j.cache
}

func newRun(j *job) *run {
	in := getInstance(j)
	db, clk := in.db, in.clk
	r := &run{j: j, in: in, db: db, conns: map[int]*net.Conn{}, gids: map[int64]int{},
		events: make(chan event, 64)}
	r.free.Store(true)
	// the asynchronous goroutines the keyspace calls start (cache update, and whatever else a change makes them do) are held
	// back until the commands are over: their effect must not depend on when they run
	db.VerifCachePark(true, 0)
	for _, s := range j.setups {
		switch s.kind {
		case "N":
			id, _ := strconv.Atoi(s.f[0])
			r.conn(id)
		case "P":
			dbi, _ := strconv.Atoi(s.f[0])
			dl, _ := strconv.ParseInt(s.f[3], 10, 64)
			v, perr := sugardb.VerifParseValue(s.f[2])
			if perr != nil {
				panic(perr)
			}
			_ = db.VerifPreset(dbi, unhex(s.f[1]), v, dl)
		case "D":
			dbi, _ := strconv.Atoi(s.f[0])
			_ = db.SelectDB(dbi)
		case "A":
			ms, _ := strconv.ParseInt(s.f[0], 10, 64)
			clk.Advance(time.Duration(ms) * time.Millisecond)
			in.advanced += time.Duration(ms) * time.Millisecond
		case "B":
			id, _ := strconv.Atoi(s.f[0])
			argv := make([]string, len(s.f)-1)
			for i, h := range s.f[1:] {
				argv[i] = unhex(h)
			}
			db.VerifHandle(r.conn(id), encode(argv))
		}
	}
	n := len(j.threads)
	r.resume = make([]chan struct{}, n)
	r.outcome = make([]string, n)
	r.swept = make([]bool, n)
	r.passed = make([]atomic.Bool, n)
	r.late = make([]func() string, n)
	for i := range r.resume {
		r.resume[i] = make(chan struct{}, 1)
	}
	for _, t := range j.threads {
		if t.kind == "cmd" {
			r.conn(t.conn)
		}
	}
	return r
}

func (r *run) conn(id int) *net.Conn {
	if id == 0 {
		return nil
	}
	c, ok := r.conns[id]
	if !ok {
		c = r.db.VerifNewConn()
		r.conns[id] = c
	}
	return c
}

// body runs one thread to completion on the calling goroutine and returns its outcome.
func (r *run) body(ti int) string {
	t := r.j.threads[ti]
	switch t.kind {
	case "cmd":
		res, herr, pan := r.db.VerifHandle(r.conn(t.conn), encode(t.argv))
		switch {
		case pan != "":
			return "!"
		case herr != nil:
			if herr == io.EOF {
				return "EOF"
			}
			return "-"
		default:
			return strings.ReplaceAll(canon(res), " ", "_")
		}
	case "copy":
		r.hook("actor.enter", 0, nil)
		var out string
		func() {
			defer func() {
				if rec := recover(); rec != nil {
					out = "!"
				}
			}()
			out = "snap:" + strings.ReplaceAll(r.db.VerifStateCopy(), " ", "_")
		}()
		return out
	case "copylate":
		r.hook("actor.enter", 0, nil)
		r.late[ti] = r.db.VerifStateCopyLate()
		return "pending"
	case "api":
		r.hook("actor.enter", 0, nil)
		out := "ok"
		func() {
			defer func() {
				if rec := recover(); rec != nil {
					out = "!"
				}
			}()
			switch t.argv[0] {
			case "swapdbs":
				a, _ := strconv.Atoi(t.argv[1])
				b, _ := strconv.Atoi(t.argv[2])
				r.db.SwapDBs(a, b)
			case "selectdb":
				a, _ := strconv.Atoi(t.argv[1])
				if err := r.db.SelectDB(a); err != nil {
					out = "-"
				}
			case "flush":
				a, _ := strconv.Atoi(t.argv[1])
				r.db.Flush(a)
			default:
				out = "?"
			}
		}()
		return out
	case "sweep":
		r.hook("actor.enter", 0, nil)
		err, pan := r.db.VerifSweep(t.db)
		switch {
		case pan != "":
			return "!"
		case err != nil:
			return "-"
		}
		return "swept"
	}
	return "?"
}

func (r *run) launch(ti int) {
	ready := make(chan struct{})
	go func() {
		g := goid()
		r.mu.Lock()
		r.gids[g] = ti
		r.mu.Unlock()
		close(ready)
		out := r.body(ti)
		r.outcome[ti] = out
		r.events <- event{tid: ti, done: true}
	}()
	<-ready
}

const (
	stNew = iota
	stParked
	stRunning // released, has not parked again
	stDone
)

type trace struct {
	sched   []int
	enabled [][]int // enabled sets at each position
	hung    string
	line    string
}

func (r *run) result() string {
	parts := make([]string, len(r.j.threads))
	for i, t := range r.j.threads {
		if r.outcome[i] == "!" {
			r.in.dirty = true
		}
		if r.late[i] != nil {
			r.outcome[i] = "snap:" + strings.ReplaceAll(r.late[i](), " ", "_")
		}
		parts[i] = fmt.Sprintf("%d:%s", t.id, r.outcome[i])
	}
	r.db.VerifCacheQuiesce(ts(3 * time.Second))
	return strings.Join(parts, " ") + " | " + r.db.VerifDigest()
}

func schedText(j *job, s []int) string {
	p := make([]string, len(s))
	for i, ti := range s {
		p[i] = strconv.Itoa(j.threads[ti].id)
	}
	if len(p) == 0 {
		return "-"
	}
	return strings.Join(p, ",")
}

func locked(t thread) bool { return t.kind != "sweep" }

// execute runs the schedule prefix, then the lowest enabled thread, until every thread is done.
// lockMode: a locked thread parked at its entry is enabled only while no other thread is between its
// acquisition and its end (that is what the command lock of the server is expected to enforce).
func execute(j *job, prefix []int, lockMode bool, strict bool) trace {
	r := newRun(j)
	sugardb.VerifSetPointFunc(r.hook)
	defer sugardb.VerifSetPointFunc(nil)
	r.free.Store(false)
	n := len(j.threads)
	st := make([]int, n)
	atEntry := make([]bool, n)
	tr := trace{}
	wait := func(ti int, d time.Duration) (event, bool) {
		timer := time.NewTimer(d)
		defer timer.Stop()
		for {
			select {
			case e := <-r.events:
				if e.done {
					st[e.tid] = stDone
				} else {
					st[e.tid] = stParked
				}
				if e.tid == ti {
					return e, true
				}
			case <-timer.C:
				return event{}, false
			}
		}
	}
	for ti := 0; ti < n; ti++ {
		r.launch(ti)
		if _, ok := wait(ti, ts(5*time.Second)); !ok {
			tr.hung = fmt.Sprintf("HUNG launch %d", j.threads[ti].id)
			r.free.Store(true)
			return tr
		}
		atEntry[ti] = st[ti] == stParked
	}
	holder := -1
	for {
		var en []int
		for ti := 0; ti < n; ti++ {
			if st[ti] != stParked {
				continue
			}
			if lockMode && atEntry[ti] && locked(j.threads[ti]) && holder >= 0 {
				continue
			}
			en = append(en, ti)
		}
		if len(en) == 0 {
			alldone := true
			for ti := 0; ti < n; ti++ {
				if st[ti] != stDone {
					alldone = false
				}
			}
			if !alldone {
				tr.hung = "DEADLOCK"
			}
			break
		}
		pos := len(tr.sched)
		pick := en[0]
		if pos < len(prefix) {
			pick = prefix[pos]
			found := false
			for _, e := range en {
				if e == pick {
					found = true
				}
			}
			if !found {
				if strict {
					tr.hung = fmt.Sprintf("NOTENABLED pos %d thread %d", pos, j.threads[pick].id)
					break
				}
				pick = en[0]
			}
		}
		tr.sched = append(tr.sched, pick)
		tr.enabled = append(tr.enabled, en)
		wasEntry := atEntry[pick]
		atEntry[pick] = false
		st[pick] = stRunning
		r.resume[pick] <- struct{}{}
		if _, ok := wait(pick, ts(5*time.Second)); !ok {
			tr.hung = fmt.Sprintf("HUNG pos %d thread %d", pos, j.threads[pick].id)
			break
		}
		if lockMode && locked(j.threads[pick]) {
			if st[pick] == stDone {
				if holder == pick || wasEntry {
					holder = -1
				}
			} else if wasEntry {
				holder = pick
			}
		}
	}
	if tr.hung == "" {
		tr.line = r.result()
	} else {
		r.in.dirty = true
	}
	// Let whatever is still parked run off (a hung run leaves goroutines behind; the process is
	// supervised from outside).
	r.free.Store(true)
	for ti := 0; ti < n; ti++ {
		if st[ti] == stParked {
			select {
			case r.resume[ti] <- struct{}{}:
			default:
			}
		}
	}
	return tr
}

// probe: with thread a parked inside its first primitive, can thread b get past its entry?
func probe(j *job, a, b int, d time.Duration) string {
	r := newRun(j)
	sugardb.VerifSetPointFunc(r.hook)
	defer sugardb.VerifSetPointFunc(nil)
	r.free.Store(false)
	n := len(j.threads)
	parked := make([]bool, n)
	done := make([]bool, n)
	waitFor := func(ti int, d time.Duration) (event, bool) {
		timer := time.NewTimer(d)
		defer timer.Stop()
		for {
			select {
			case e := <-r.events:
				parked[e.tid] = !e.done
				done[e.tid] = e.done
				if e.tid == ti {
					return e, true
				}
			case <-timer.C:
				return event{}, false
			}
		}
	}
	finish := func() {
		r.in.dirty = true // simplest: a probe leaves goroutines that may still be running
		r.free.Store(true)
		for ti := 0; ti < n; ti++ {
			select {
			case r.resume[ti] <- struct{}{}:
			default:
			}
		}
		deadline := time.After(ts(3 * time.Second))
		for {
			all := true
			for _, ti := range []int{a, b} {
				if !done[ti] {
					all = false
				}
			}
			if all {
				return
			}
			select {
			case e := <-r.events:
				if e.done {
					done[e.tid] = true
				} else {
					select {
					case r.resume[e.tid] <- struct{}{}:
					default:
					}
				}
			case <-deadline:
				return
			}
		}
	}
	for _, ti := range []int{a, b} {
		r.launch(ti)
		if _, ok := waitFor(ti, ts(5*time.Second)); !ok {
			finish()
			return "skip launch"
		}
	}
	r.resume[a] <- struct{}{}
	e, ok := waitFor(a, ts(5*time.Second))
	if !ok || e.done {
		finish()
		return "skip no-primitive"
	}
	// a is parked at the entry of its first primitive; let b go.
	r.resume[b] <- struct{}{}
	e, ok = waitFor(b, d)
	res := "held"
	if ok {
		if !e.done {
			res = "broken " + e.point
		} else if r.passed[b].Load() {
			res = "broken finished"
		} else {
			// refused before the handler (unknown command, wrong arity at the authorization gate): it never
			// asked for the lock and touched nothing
			res = "held refused-before-handler"
		}
	}
	finish()
	return res
}

func serial(j *job, perm []int) string {
	r := newRun(j)
	r.free.Store(true)
	for _, ti := range perm {
		r.outcome[ti] = r.body(ti)
		// in the serial reference a command is over — with everything it started — before the next one begins
		r.db.VerifCacheQuiesce(ts(3 * time.Second))
	}
	return r.result()
}

func perms(n int) [][]int {
	var out [][]int
	var rec func(cur []int, used []bool)
	rec = func(cur []int, used []bool) {
		if len(cur) == n {
			out = append(out, append([]int{}, cur...))
			return
		}
		for i := 0; i < n; i++ {
			if !used[i] {
				used[i] = true
				rec(append(cur, i), used)
				used[i] = false
			}
		}
	}
	rec(nil, make([]bool, n))
	return out
}

var globalMode = ""

func detectMode() string {
	if globalMode != "" {
		return globalMode
	}
	k := hex.EncodeToString([]byte("k"))
	j := &job{id: "probe", cfg: map[string]string{},
		setups: []setup{{kind: "P", f: []string{"0", k, "i5", "0"}}},
		threads: []thread{{id: 0, kind: "cmd", conn: 1, argv: []string{"INCR", "k"}},
			{id: 1, kind: "cmd", conn: 2, argv: []string{"INCR", "k"}}}}
	res := probe(j, 0, 1, 60*time.Millisecond)
	if strings.HasPrefix(res, "held") {
		globalMode = "lock"
	} else {
		globalMode = "nolock"
	}
	return globalMode
}

func runJob(j *job, out *bufio.Writer) {
	fmt.Fprintf(out, "S %s\n", j.id)
	mode := j.cfg["mode"]
	if mode == "" || mode == "auto" {
		mode = detectMode()
	}
	fmt.Fprintf(out, "M %s\n", mode)
	lockMode := mode == "lock"
	max := 400
	if v, ok := j.cfg["max"]; ok {
		max, _ = strconv.Atoi(v)
	}
	idx := func(tid int) int {
		for i, t := range j.threads {
			if t.id == tid {
				return i
			}
		}
		return -1
	}
	hasCopy := false
	for _, t := range j.threads {
		if t.kind == "copy" {
			hasCopy = true
		}
	}
	if !lockMode && len(j.replays) == 0 {
		// Without the command lock the number of interleavings explodes and the busy-wait flags of getState make
		// a parked writer block a state copy for ever: a bounded enumeration of the command threads is enough to
		// exhibit the violations.
		if max > 60 {
			max = 60
		}
		if hasCopy {
			fmt.Fprintf(out, "U skipped state-copy job without command lock\n")
			max = 0
		}
	}
	if v, ok := j.cfg["free"]; ok {
		// Free-running: all threads at once, no controller (used under the race detector).
		reps, _ := strconv.Atoi(v)
		for i := 0; i < reps; i++ {
			r := newRun(j)
			r.free.Store(true)
			for ti := range j.threads {
				r.launch(ti)
			}
			left := len(j.threads)
			deadline := time.After(ts(10 * time.Second))
			for left > 0 {
				select {
				case e := <-r.events:
					if e.done {
						left--
					}
				case <-deadline:
					left = -1
				}
			}
			if left < 0 {
				fmt.Fprintf(out, "H free HUNG\n")
				r.in.dirty = true
			} else {
				fmt.Fprintf(out, "F %s\n", r.result())
			}
		}
		fmt.Fprintf(out, "E\n")
		out.Flush()
		return
	}
	if len(j.replays) > 0 {
		for _, rp := range j.replays {
			pre := make([]int, len(rp))
			for i, tid := range rp {
				pre[i] = idx(tid)
			}
			tr := execute(j, pre, lockMode, true)
			if tr.hung != "" {
				fmt.Fprintf(out, "H %s %s\n", schedText(j, tr.sched), tr.hung)
			} else {
				fmt.Fprintf(out, "Q %s | %s\n", schedText(j, tr.sched), tr.line)
			}
		}
	} else {
		if j.cfg["probe"] != "0" {
			a, b := -1, -1
			for i, t := range j.threads {
				if t.kind == "cmd" || t.kind == "copy" || t.kind == "copylate" {
					if a < 0 {
						a = i
					} else if b < 0 {
						b = i
					}
				}
			}
			if a >= 0 && b >= 0 {
				fmt.Fprintf(out, "X %s\n", probe(j, a, b, 25*time.Millisecond))
				if j.cfg["probe"] == "2" {
					fmt.Fprintf(out, "X %s\n", probe(j, b, a, 25*time.Millisecond))
				}
			}
		}
		// Depth-first enumeration of all maximal schedules, each replayed from a fresh instance.
		stack := [][]int{{}}
		count := 0
		truncated := false
		for len(stack) > 0 {
			pre := stack[len(stack)-1]
			stack = stack[:len(stack)-1]
			if count >= max {
				truncated = true
				break
			}
			tr := execute(j, pre, lockMode, true)
			count++
			if tr.hung != "" {
				fmt.Fprintf(out, "H %s %s\n", schedText(j, tr.sched), tr.hung)
				out.Flush()
				continue
			}
			fmt.Fprintf(out, "Q %s | %s\n", schedText(j, tr.sched), tr.line)
			for pos := len(tr.sched) - 1; pos >= len(pre); pos-- {
				for _, alt := range tr.enabled[pos] {
					if alt > tr.sched[pos] {
						np := append(append([]int{}, tr.sched[:pos]...), alt)
						stack = append(stack, np)
					}
				}
			}
		}
		if truncated {
			fmt.Fprintf(out, "U truncated %d\n", max)
		}
	}
	for _, p := range perms(len(j.threads)) {
		fmt.Fprintf(out, "O %s | %s\n", schedText(j, p), serial(j, p))
	}
	fmt.Fprintf(out, "E\n")
	out.Flush()
}

func main() {
	log.SetOutput(io.Discard)
	rd := bufio.NewReaderSize(os.Stdin, 1<<20)
	realOut := os.Stdout
	if devnull, derr := os.OpenFile(os.DevNull, os.O_WRONLY, 0); derr == nil {
		os.Stdout = devnull
	}
	out := bufio.NewWriterSize(realOut, 1<<20)
	defer out.Flush()
	var j *job
	for {
		line, err := rd.ReadString('\n')
		line = strings.TrimRight(line, "\n")
		if line != "" {
			f := strings.Fields(line)
			switch f[0] {
			case "S":
				j = &job{id: f[1], cfg: map[string]string{}}
				for _, kv := range f[2:] {
					p := strings.SplitN(kv, "=", 2)
					if len(p) == 2 {
						j.cfg[p[0]] = p[1]
					}
				}
			case "P", "N", "D", "B", "A":
				j.setups = append(j.setups, setup{kind: f[0], f: f[1:]})
			case "T":
				tid, _ := strconv.Atoi(f[1])
				c, _ := strconv.Atoi(f[2])
				argv := make([]string, len(f)-3)
				for i, h := range f[3:] {
					argv[i] = unhex(h)
				}
				j.threads = append(j.threads, thread{id: tid, kind: "cmd", conn: c, argv: argv})
			case "TC":
				tid, _ := strconv.Atoi(f[1])
				j.threads = append(j.threads, thread{id: tid, kind: "copy"})
			case "TCL":
				tid, _ := strconv.Atoi(f[1])
				j.threads = append(j.threads, thread{id: tid, kind: "copylate"})
			case "TA":
				// a call of the embedded API that does not go through handleCommand (and so takes no command lock)
				tid, _ := strconv.Atoi(f[1])
				j.threads = append(j.threads, thread{id: tid, kind: "api", argv: append([]string(nil), f[2:]...)})
			case "TW":
				tid, _ := strconv.Atoi(f[1])
				dbi, _ := strconv.Atoi(f[2])
				j.threads = append(j.threads, thread{id: tid, kind: "sweep", db: dbi})
			case "R":
				var s []int
				if f[1] != "-" {
					for _, x := range strings.Split(f[1], ",") {
						v, _ := strconv.Atoi(x)
						s = append(s, v)
					}
				}
				j.replays = append(j.replays, s)
			case "E":
				sort.SliceStable(j.threads, func(a, b int) bool { return j.threads[a].id < j.threads[b].id })
				runJob(j, out)
				j = nil
			}
		}
		if err != nil {
			break
		}
	}
}
