package main

import (
	"encoding/hex"
	"strconv"
	"strings"
)

// Strict RESP2/RESP3 reply parser, independent of the library the server uses.
// canon renders one reply canonically; anything that is not exactly one well-formed value is "?hex".

type rparser struct {
	b []byte
	i int
}

func (p *rparser) line() (string, bool) {
	for j := p.i; j+1 < len(p.b); j++ {
		if p.b[j] == '\r' && p.b[j+1] == '\n' {
			s := string(p.b[p.i:j])
			p.i = j + 2
			return s, true
		}
		if p.b[j] == '\n' {
			return "", false
		}
	}
	return "", false
}

func (p *rparser) value(sb *strings.Builder) bool {
	if p.i >= len(p.b) {
		return false
	}
	t := p.b[p.i]
	p.i++
	switch t {
	case '+':
		s, ok := p.line()
		if !ok {
			return false
		}
		sb.WriteString("+" + hex.EncodeToString([]byte(s)))
		return true
	case '-':
		_, ok := p.line()
		if !ok {
			return false
		}
		sb.WriteString("-")
		return true
	case ':':
		s, ok := p.line()
		if !ok {
			return false
		}
		n, err := strconv.ParseInt(s, 10, 64)
		if err != nil {
			return false
		}
		sb.WriteString(":" + strconv.FormatInt(n, 10))
		return true
	case ',', '#', '_', '(':
		s, ok := p.line()
		if !ok {
			return false
		}
		sb.WriteString(string(t) + hex.EncodeToString([]byte(s)))
		return true
	case '$':
		s, ok := p.line()
		if !ok {
			return false
		}
		n, err := strconv.Atoi(s)
		if err != nil {
			return false
		}
		if n == -1 {
			sb.WriteString("_")
			return true
		}
		if n < 0 || p.i+n+2 > len(p.b) {
			return false
		}
		body := p.b[p.i : p.i+n]
		if p.b[p.i+n] != '\r' || p.b[p.i+n+1] != '\n' {
			return false
		}
		p.i += n + 2
		sb.WriteString("$" + hex.EncodeToString(body))
		return true
	case '*', '~', '%', '>':
		s, ok := p.line()
		if !ok {
			return false
		}
		n, err := strconv.Atoi(s)
		if err != nil {
			return false
		}
		if n == -1 && t == '*' {
			sb.WriteString("*_")
			return true
		}
		if n < 0 {
			return false
		}
		if t == '%' {
			n *= 2
		}
		if t == '*' {
			sb.WriteString("[")
		} else {
			sb.WriteString(string(t) + "[")
		}
		for k := 0; k < n; k++ {
			if k > 0 {
				sb.WriteString(" ")
			}
			if !p.value(sb) {
				return false
			}
		}
		sb.WriteString("]")
		return true
	}
	return false
}

// canonMany parses a concatenation of well-formed replies.
func canonMany(b []byte) ([]string, bool) {
	p := &rparser{b: b}
	var out []string
	for p.i < len(p.b) {
		var sb strings.Builder
		if !p.value(&sb) {
			return out, false
		}
		out = append(out, sb.String())
	}
	return out, true
}

func canon(b []byte) string {
	if len(b) == 0 {
		return "0"
	}
	p := &rparser{b: b}
	var sb strings.Builder
	if p.value(&sb) && p.i == len(p.b) {
		return sb.String()
	}
	return "?" + hex.EncodeToString(b)
}
