package main

// Prints the registered command table of the code as it is now, as JSON lines:
// {"command":..,"sub":..,"module":..,"categories":[..],"sync":..}

import (
	"encoding/json"
	"fmt"
	"io"
	"log"

	"github.com/echovault/sugardb/sugardb"
)

type row struct {
	Command    string   `json:"command"`
	Sub        string   `json:"sub"`
	Module     string   `json:"module"`
	Categories []string `json:"categories"`
	Sync       bool     `json:"sync"`
}

func main() {
	log.SetOutput(io.Discard)
	conf := sugardb.DefaultConfig()
	conf.DataDir = ""
	db, err := sugardb.NewSugarDB(sugardb.WithConfig(conf))
	if err != nil {
		panic(err)
	}
	for _, c := range db.VerifCommands() {
		b, _ := json.Marshal(row{c.Command, "", c.Module, c.Categories, c.Sync})
		fmt.Println(string(b))
		for _, s := range c.SubCommands {
			b, _ := json.Marshal(row{c.Command, s.Command, s.Module, append(append([]string{}, c.Categories...), s.Categories...), s.Sync})
			fmt.Println(string(b))
		}
	}
}
