(* Driver around the extracted model: reads scripts in the line protocol on stdin, hands the lines
   of each script to Model.run_script (as Coq strings = char lists), prints the lines it returns. *)
let explode (s : string) : char list = List.init (String.length s) (String.get s)
let implode (l : char list) : string =
  let b = Buffer.create 64 in
  List.iter (Buffer.add_char b) l;
  Buffer.contents b

let mode = if Array.length Sys.argv > 1 then Sys.argv.(1) else "model"
let run lines =
  match mode with
  | "model" -> Model.run_script lines
  | "spec15" -> Model.run_spec15 lines
  | "spec14" -> Model.run_spec14 lines
  | "spec16" -> Model.run_spec16 lines
  | "spec17" -> Model.run_spec17 lines
  | "spec17p" -> Model.run_spec17p lines
  | "acl" -> Model.run_acl_script lines
  | "spec06" -> Model.run_spec06 lines
  | "model08" -> Model.run_model08 lines
  | "spec08" -> Model.run_spec08 lines
  | "model18" -> Model.run_model18 lines
  | "spec18" -> Model.run_spec18 lines
  | "aof" -> Model.run_aof lines
  | "spec02" -> Model.run_spec02 lines
  | "snap" -> Model.run_snap lines
  | "spec12" -> Model.run_spec12 lines
  | "model04" -> Model.run_model04 lines
  | "spec04" -> Model.run_spec04 lines
  | "conc" -> Model.run_conc_script lines
  | "raft" -> Model.run_raft lines
  | "spec01" -> Model.run_spec01 lines
  | m -> failwith ("unknown mode " ^ m)

let flush_script acc =
  match acc with
  | [] -> ()
  | _ ->
      let lines = List.rev_map explode acc in
      let out = run lines in
      List.iter (fun l -> print_string (implode l); print_char '\n') out

let () =
  let acc = ref [] in
  (try
     while true do
       let line = input_line stdin in
       if line <> "" then begin
         if String.length line > 1 && line.[0] = 'S' && line.[1] = ' ' then begin
           flush_script !acc;
           acc := []
         end;
         acc := line :: !acc
       end
     done
   with End_of_file -> ());
  flush_script !acc
