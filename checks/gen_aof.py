"""Workloads for C02 / C09: write commands over all value types, databases 0/1/2/10/12, the embedded
caller (connection 0) and TCP-style connections, the three sync policies; crash points; restarts;
rewrites; raw byte streams for the log reader."""
from common import *

DBS = [0, 1, 2, 10, 12]
KEYS = ["a", "b", "c", "k1"]
VALS = ["x", "", "007", "12", "-3", "1.5", "a\r\nb", "\x00\xff", "hello world"]
POLICIES = ["always", "everysec", "no"]
FAR = 4102444800000  # 2100-01-01 in ms: a deadline that never passes during a run

def hexs(argv):
    return " ".join(hx(a) for a in argv)

# Relative expiries (logged in their absolute form since fix-absolute-expiry): periods far longer than all
# the clock advances of one script together, so that no deadline falls due between a write and a restore.
REL_S = ["4000", "86400", "100000", "+7200"]
REL_MS = ["5000000", "86400000", "4000123"]
ADVANCES = [1, 250, 8000, 61000]     # at most ~30 per script: < 2 000 000 ms in all

def rand_rel(rng):
    """one write command with a relative expiry, every spelling the rewrite knows, plus a few it must leave alone"""
    k = rng.choice(KEYS); v = rng.choice(VALS)
    s = rng.choice(REL_S); ms = rng.choice(REL_MS)
    opt = rng.choice(["NX", "XX", "GT", "LT", "nx", "gt"])
    choices = [
        ["SET", k, v, "EX", s], ["SET", k, v, "PX", ms], ["set", k, v, "ex", s], ["SET", k, v, "px", ms, "NX"],
        ["SET", k, v, "XX", "EX", s], ["SET", k, v, "GET", "PX", ms], ["SET", k, v, "NX", "GET", "EX", s],
        ["EXPIRE", k, s], ["EXPIRE", k, s, opt], ["expire", k, s], ["PEXPIRE", k, ms], ["PEXPIRE", k, ms, opt],
        ["GETEX", k, "EX", s], ["GETEX", k, "PX", ms], ["getex", k, "px", ms], ["GETEX", k, "PERSIST"], ["GETEX", k],
        # refused by the handler, or left as they are by the rewrite
        ["SET", k, v, "EX", s, "PX", ms], ["SET", k, v, "EX", "soon"], ["EXPIRE", k, s, "ZZ"], ["EXPIRE", k, "soon"],
        ["GETEX", k, "EX", "soon"], ["SET", k, v, "EX"],
    ]
    return rng.choice(choices)

def advance(s, rng):
    ms = rng.choice(ADVANCES)
    s.raw("A %d" % ms, ["advance", ms])

def rand_write(rng, rel=0.12):
    """one (mostly valid) write command; no randomised command (known finding); with probability rel one
    with a relative expiry"""
    if rel and rng.random() < rel:
        return rand_rel(rng)
    k = rng.choice(KEYS); k2 = rng.choice(KEYS); v = rng.choice(VALS)
    n = str(rng.choice([1, 2, -1, 5, 100]))
    choices = [
        ["SET", k, v], ["SET", k, v], ["SET", k, v, "NX"], ["SET", k, v, "XX"],
        ["SET", k, v, "PXAT", str(FAR + rng.randrange(5))], ["SET", k, v, "EXAT", str(FAR // 1000)],
        ["MSET", k, v, k2, rng.choice(VALS)], ["DEL", k], ["DEL", k, k2], ["APPEND", k, v],
        ["INCR", k], ["DECR", k], ["INCRBY", k, n], ["DECRBY", k, n], ["INCRBYFLOAT", k, rng.choice(["1.5", "-0.25", "2"])],
        ["SETRANGE", k, str(rng.choice([0, 1, 3])), v], ["RENAME", k, k2], ["GETDEL", k],
        ["PEXPIREAT", k, str(FAR + rng.randrange(5))], ["EXPIREAT", k, str(FAR // 1000 + rng.randrange(3))],
        ["PERSIST", k],
        ["LPUSH", k, v, rng.choice(VALS)], ["RPUSH", k, v], ["RPUSH", k, v, rng.choice(VALS), "z"],
        ["LPOP", k], ["RPOP", k], ["LSET", k, "0", v], ["LTRIM", k, "0", "1"], ["LREM", k, "0", v],
        ["LMOVE", k, k2, "LEFT", "RIGHT"], ["LPUSHX", k, v], ["RPUSHX", k, v],
        ["HSET", k, "f", v], ["HSET", k, "f", v, "g", rng.choice(VALS)], ["HSETNX", k, "f", v],
        ["HINCRBY", k, "n", n], ["HINCRBYFLOAT", k, "q", "0.5"], ["HDEL", k, "f"],
        ["SADD", k, v, "m"], ["SADD", k, rng.choice(VALS)], ["SREM", k, v], ["SMOVE", k, k2, "m"],
        ["SUNIONSTORE", k, k2, rng.choice(KEYS)], ["SINTERSTORE", k, k2, rng.choice(KEYS)],
        ["SDIFFSTORE", k, k2, rng.choice(KEYS)],
        ["ZADD", k, rng.choice(["1", "2.5", "-1"]), v], ["ZADD", k, "3", "m", "1", rng.choice(VALS)],
        ["ZINCRBY", k, "1.5", "m"], ["ZREM", k, "m"], ["ZPOPMIN", k], ["ZPOPMAX", k],
        ["ZREMRANGEBYRANK", k, "0", "0"], ["ZUNIONSTORE", k, "2", k2, rng.choice(KEYS)],
        ["FLUSHDB"], ["SCARD", k],
    ]
    return rng.choice(choices)

def rand_other(rng):
    k = rng.choice(KEYS)
    return rng.choice([["GET", k], ["LRANGE", k, "0", "-1"], ["TYPE", k], ["INCR"], ["LSET", k, "9", "x"],
                       ["HGETALL", k], ["SMEMBERS", k], ["NOSUCHCMD", k], ["ZADD", k, "notanumber", "m"]])

def setup_conns(s, rng):
    """embedded caller and two connections, each on some database"""
    conns = [0, 1, 2]
    for c in conns:
        d = rng.choice(DBS)
        if d != 0 or rng.random() < 0.3:
            s.raw("D %d %d" % (c, d), ["select", c, d])
    return conns

def add_cmd(s, conn, argv):
    s.raw("C %d %s" % (conn, hexs(argv)), ["cmd", conn] + list(argv))

def workload(rng, sid, ncmds, policy=None, images=True, torn=2, rewrite=0.0):
    """one life: commands with images at every failpoint, torn offsets for a few of them, clean restart"""
    s = Script(sid, {"aofsync": policy or rng.choice(POLICIES), "images": "1" if images else "0"})
    s.raw("O", ["open"])
    conns = setup_conns(s, rng)
    torn_at = set(rng.sample(range(ncmds), min(torn, ncmds)))
    torn_at.add(ncmds - 1)
    for i in range(ncmds):
        c = rng.choice(conns)
        if rng.random() < 0.08:
            s.raw("D %d %d" % (c, rng.choice(DBS)), ["select", c])
        if rng.random() < 0.15:
            advance(s, rng)
        argv = rand_write(rng) if rng.random() < 0.85 else rand_other(rng)
        add_cmd(s, c, argv)
        if i in torn_at and images:
            s.raw("TORN", ["torn"])
        if rewrite and rng.random() < rewrite:
            s.raw("RW 1", ["rewrite"])
    s.raw("G", ["digest"])
    if rng.random() < 0.7:
        advance(s, rng)
    s.raw("Q", ["shutdown"]); s.raw("O", ["open"]); s.raw("G", ["digest"])
    return s

def chain(rng, sid, lives, ncmds, rewrite=0.0):
    """crash - recover - write - restart chains; a crash may tear the last record"""
    s = Script(sid, {"aofsync": rng.choice(POLICIES), "images": "0"})
    s.raw("O", ["open"])
    for life in range(lives):
        conns = setup_conns(s, rng)
        for i in range(ncmds):
            if rng.random() < 0.15:
                advance(s, rng)
            add_cmd(s, rng.choice(conns), rand_write(rng) if rng.random() < 0.9 else rand_other(rng))
            if rewrite and rng.random() < rewrite:
                s.raw("RW 1", ["rewrite"])
        s.raw("G", ["digest"])
        if rng.random() < 0.6:
            advance(s, rng)
        how = rng.choice(["kill", "kill_cut", "clean"])
        if how == "clean":
            s.raw("Q", ["shutdown"])
        else:
            s.raw("K", ["kill"])
            if how == "kill_cut":
                s.raw("CUT %d" % rng.randrange(1, 11), ["cut"])
        s.raw("O", ["open"]); s.raw("G", ["digest"])
    s.raw("IMG", ["image"])
    return s

EXH = [["SET", "a", "x"], ["APPEND", "a", "y"], ["INCR", "n"], ["RPUSH", "l", "p", "q"], ["LPOP", "l"],
       ["HSET", "h", "f", "1"], ["SADD", "s", "m"], ["ZADD", "z", "1.5", "m"], ["DEL", "a", "l"],
       ["SET", "a", "v", "PXAT", str(FAR)], ["INCR", "l"], ["GET", "a"],
       ["SET", "a", "w", "EX", "5000"], ["EXPIRE", "a", "86400", "NX"], ["GETEX", "a", "PX", "7200000"]]
EXH_PLACES = [(0, 0), (0, 1), (1, 0), (1, 12), (2, 10)]   # (connection, database)

def exhaustive(depth, prefix):
    """every sequence of <= depth commands of EXH, each at every (caller, database) place, with images
    at every failpoint and every torn offset of the last record"""
    out = []
    seqs = [[]]
    for _ in range(depth):
        seqs = [q + [(c, p)] for q in seqs for c in range(len(EXH)) for p in range(len(EXH_PLACES))]
        for q in seqs:
            s = Script("%s%d" % (prefix, len(out)), {"aofsync": POLICIES[len(out) % 3]})
            s.raw("O", ["open"])
            cur = {}
            for ci, pi in q:
                conn, db = EXH_PLACES[pi]
                if cur.get(conn, 0) != db:
                    s.raw("D %d %d" % (conn, db), ["select", conn, db]); cur[conn] = db
                add_cmd(s, conn, EXH[ci])
            s.raw("TORN", ["torn"]); s.raw("G", ["digest"]); s.raw("A 8000", ["advance", 8000])
            s.raw("Q", ["shutdown"]); s.raw("O", ["open"]); s.raw("G", ["digest"])
            out.append(s)
    return out

def enc(argv):
    b = b"*%d\r\n" % len(argv)
    for a in argv:
        ab = a.encode("latin-1")
        b += b"$%d\r\n%s\r\n" % (len(ab), ab)
    return b

def byte_streams(rng, n, prefix):
    """what the log reader makes of arbitrary bytes: records, torn records followed by records,
    mutated bytes, inline text, nested arrays, null values"""
    out = []
    atoms = [b"*0\r\n", b"*-1\r\n", b"$-1\r\n", b"+OK\r\n", b":12\r\n", b"-ERR x\r\n", b"SET a b\r\n", b"PING\n",
             b'SET "a b" c\r\n', b"*1\r\n*2\r\n$1\r\na\r\n:5\r\n", b"*2\r\n$6\r\nSELECT\r\n$1\r\n-1\r\n", b"*1\r\n$6\r\nSELECT\r\n",
             b"*2\r\n$6\r\nselect\r\n$2\r\n12\r\n", b"*2\r\n$6\r\nSELECT\r\n$1\r\nx\r\n", b"$3\r\nabc\r\n", b"*3\r\n$3\r\nSET\r\n+k\r\n:7\r\n",
             b"\r\n", b"*2\r\n$3\r\nGET\r\n$-1\r\n", b"*1048577\r\n", b"$5\r\nab\r\n"]
    for i in range(n):
        parts = []
        for _ in range(rng.randrange(1, 6)):
            r = rng.random()
            if r < 0.5:
                argv = rand_write(rng)
                if rng.random() < 0.3:
                    parts.append(enc(["SELECT", str(rng.choice(DBS))]))
                parts.append(enc(argv))
            elif r < 0.7:
                b = enc(rand_write(rng))
                parts.append(b[:rng.randrange(1, len(b))])          # torn, then whatever follows
            elif r < 0.9:
                parts.append(rng.choice(atoms))
            else:
                b = bytearray(enc(rand_write(rng)))
                j = rng.randrange(len(b)); b[j] = rng.choice(b"*$+-:\r\n 0129aZ\"")
                parts.append(bytes(b))
        data = b"".join(parts)
        if rng.random() < 0.3 and len(data) > 2:
            data = data[:rng.randrange(1, len(data))]
        s = Script("%s%d" % (prefix, i), {"aofsync": "no", "images": "0"})
        s.raw("X %s" % data.hex(), ["bytes", data.decode("latin-1")])
        s.raw("DEC", ["decode"])
        out.append(s)
    return out

W_POINTS = ["cmd.before_handler", "cmd.after_handler", "log.write.begin", "log.write.after_cmd", "cmd.after_log"]
R_POINTS = ["rewrite.begin", "pre.create.begin", "getstate.copy", "pre.create.after_state", "pre.create.after_create",
            "pre.create.after_write", "pre.create.after_sync", "pre.create.after_rename", "rewrite.after_preamble",
            "log.trunc.begin", "log.trunc.after_truncate", "log.trunc.after_generation", "log.trunc.after_header",
            "log.trunc.after_sync", "rewrite.after_truncate"]
# the failpoints at which a REWRITEAOF can be made to die (RWK): every one after the state copy
K_POINTS = R_POINTS[3:]

def concurrent(rng, sid, nbefore, first=None, pw=None, pr=None):
    """a write command and a REWRITEAOF on two goroutines: the first is parked at a point, the second runs
    into the window; then both finish; the final disk and a restart are judged"""
    s = Script(sid, {"aofsync": rng.choice(POLICIES), "images": "0"})
    s.raw("O", ["open"])
    conns = setup_conns(s, rng)
    for _ in range(nbefore):
        add_cmd(s, rng.choice(conns), rand_write(rng))
    argv = rng.choice([["INCR", "n"], ["RPUSH", "l", "x"], ["APPEND", "a", "y"], ["SADD", "s", "m"], ["HSET", "h", "f", "v"]])
    first = first or rng.choice(["W", "R"]); pw = pw or rng.choice(W_POINTS); pr = pr or rng.choice(R_POINTS)
    s.raw("RWC 1 %s %s %s %s" % (first, pw, pr, hexs(argv)), ["cmd", 1] + argv + ["|| REWRITEAOF", first, pw, pr])
    s.raw("G", ["digest"]); s.raw("IMG", ["image"])
    add_cmd(s, 1, ["INCR", "n"])
    s.raw("G", ["digest"]); s.raw("K", ["kill"]); s.raw("O", ["open"]); s.raw("G", ["digest"])
    return s

def all_schedules(prefix):
    import random
    out = []
    for first in ("W", "R"):
        for pw in W_POINTS:
            for pr in R_POINTS:
                out.append(concurrent(random.Random(len(out)), "%s%d" % (prefix, len(out)), 2, first, pw, pr))
    return out


WW_PAIRS = [(["APPEND", "k", "a"], ["APPEND", "k", "b"]), (["RPUSH", "l", "x"], ["RPUSH", "l", "y"]), (["SET", "k", "1"], ["SET", "k", "2"]),
            (["APPEND", "k", "a"], ["SET", "k", "z"]), (["LPUSH", "l", "x"], ["RPOP", "l"]), (["INCR", "n"], ["SET", "n", "10"]),
            (["HSET", "h", "f", "1"], ["DEL", "h"]), (["SADD", "s", "m"], ["SREM", "s", "m"])]
WW_POINTS = ["cmd.after_handler", "aof.log.enter", "log.write.begin", "log.write.after_cmd"]

def two_writers(rng, sid, i):
    """a write command parked between its handler and its log record while a second, non-commuting write to the same key is
    started on another connection; then a restart: the restored dataset must be the one the two writes built, in the order
    they executed"""
    s = Script(sid, {"aofsync": POLICIES[i % 3], "images": "0"})
    s.raw("O", ["open"])
    a, b = WW_PAIRS[i % len(WW_PAIRS)]
    if i % 2:
        add_cmd(s, 1, ["SET", "other", "x"])
    point = WW_POINTS[(i // len(WW_PAIRS)) % len(WW_POINTS)]
    s.raw("WW %s 1 %d %s 2 %s" % (point, len(a), hexs(a), hexs(b)), ["two-writers", point, a, b])
    s.raw("G", ["digest"]); s.raw("K", ["kill"]); s.raw("O", ["open"]); s.raw("G", ["digest"])
    return s
