"""C06 — ACL authorization: no command runs outside the user's rules.
Model of AuthorizeConnection / the dispatcher gate (coq/Model/Acl.v, AclWorld.v) against the real gate
(VerifAuthorize = the lookups of handleCommand + AuthorizeConnection) and, for denied commands, the real
handleCommand with data / ACL / connection / pub-sub digests before and after; the declarative policy
(coq/Spec/SpecAcl.v, runner mode spec06) judges the implementation's own decisions."""
import os, shutil
from common import *
import common, framework
from framework import *
import gen_acl

_run_model = common.run_model
def _acl_run_model(scripts, mode="model"):
    return _run_model(scripts, "acl" if mode == "model" else mode)

LOOSE = ("HELLO",)

def align(script, lines):
    """[(event, [output lines])] following the line protocol"""
    out, i = [], 0
    for ev in script.events:
        k = ev[0]
        if k in ("newconn", "advance"):
            out.append((ev, [])); continue
        if k == "preset":
            if i < len(lines) and lines[i] == "P -":
                out.append((ev, [lines[i]])); i += 1
            else:
                out.append((ev, []))
            continue
        if i >= len(lines):
            out.append((ev, ["<missing>"])); continue
        if k == "denyrun" and lines[i] == "Z deny":
            out.append((ev, lines[i:i + 2])); i += 2
        else:
            out.append((ev, [lines[i]])); i += 1
    if i < len(lines):
        out.append((["extra"], lines[i:]))
    return out

def _norm(script, lines):
    res = []
    for ev, ls in align(script, lines):
        for l in ls:
            if l.startswith("B"):
                l = "B"
            elif ev[0] == "cmd" and str(ev[2]).upper() in LOOSE and l.startswith("R ") and l not in ("R -", "R !"):
                l = "R ok"
            res.append((ev, l))
    return res

_plain_compare = framework.compare_lines
def _compare(script, impl_lines, model_lines, reply_opts=None, digest_opts=None):
    a, b = _norm(script, impl_lines), _norm(script, model_lines)
    for i in range(max(len(a), len(b))):
        ev, x = a[i] if i < len(a) else (None, "<missing>")
        _, y = b[i] if i < len(b) else (None, "<missing>")
        if x != y:
            if x.startswith("G ") and y.startswith("G ") and norm_digest(x, round_floats=True, **(digest_opts or {})) == norm_digest(y, round_floats=True, **(digest_opts or {})):
                continue
            if ev and ev[0] == "cmd" and x.startswith("R ") and y.startswith("R ") and "!" not in (x[2:3], y[2:3]) and "-" not in (x[2:3], y[2:3]):
                # data replies: numbers printed as text vs typed floats, replies built by ranging over a Go map
                opts = reply_opts(ev[2:]) if reply_opts else {}
                try:
                    p, q = norm_tree(parse_reply(x[2:]), parse_reply(y[2:]), **opts)
                    if p == q:
                        continue
                except Exception:
                    pass
            return (i, x, y)
    return None

def oracle(script, impl_lines, spec_lines):
    """the implementation's decisions are the policy's; a denied command replies an error and changes nothing"""
    al, sl = align(script, impl_lines), align(script, spec_lines)
    last = {}
    for idx, (ev, ls) in enumerate(al):
        for l in ls:
            if l in ("R !", "Z panic", "DIED", "HUNG", "<missing>"):
                return {"index": idx, "event": ev, "impl": l, "reference": "no panic, no death"}
        k = ev[0]
        if k in ("gate", "denyrun"):
            ref = sl[idx][1][0] if idx < len(sl) and sl[idx][1] else "<missing>"
            if ls[0] != ref:
                return {"index": idx, "event": ev, "impl": ls[0], "reference": ref, "what": "decision differs from the declarative policy"}
        if k == "denyrun" and ls[0] == "Z deny":
            if len(ls) < 2 or ls[1] != "R -":
                return {"index": idx, "event": ev, "impl": ls, "reference": "a denied command replies an error"}
            before = dict(last)
            after = {}
            for ev2, ls2 in al[idx + 1: idx + 4]:
                if ev2[0] in ("digest", "acldigest", "pubsub") and ls2:
                    after[ev2[0]] = ls2[0]
            for kind, val in after.items():
                if kind in before and before[kind] != val:
                    return {"index": idx, "event": ev, "impl": {"before": before[kind], "after": val},
                            "reference": "a denied command leaves %s unchanged" % kind}
        if k in ("digest", "acldigest", "pubsub") and ls:
            last[k] = ls[0]
        elif k not in ("gate", "denyrun", "newconn"):
            last = {}
    if script.id.startswith("kx"):
        return keyed_oracle(script, al)
    return None

def _unhex(h):
    return "" if h == "-" else bytes.fromhex(h).decode("latin-1")

def kx_patterns(script):
    """(read patterns, write patterns) of user u1 from the script's own ACL SETUSER event (the kx stream gives the
    user explicit key rules, so the defaults of Normalise never apply)"""
    import fnmatch
    rd, wr = [], []
    for ev in script.events:
        if ev[0] == "cmd" and [str(x).upper() for x in ev[2:4]] == ["ACL", "SETUSER"] and ev[4] == "u1":
            for t in ev[5:]:
                if t.startswith("~"): rd.append(t[1:]); wr.append(t[1:])
                elif t.upper().startswith("%RW~"): rd.append(t[4:]); wr.append(t[4:])
                elif t.upper().startswith("%R~"): rd.append(t[3:])
                elif t.upper().startswith("%W~"): wr.append(t[3:])
    return rd, wr

def keyed_oracle(script, al):
    """kx stream: around every command executed on connection 2, only keys of database 0 matched by a write pattern of
    the user may differ between the data digest before and the one after (value, deadline, presence)"""
    import fnmatch
    rd, wr = kx_patterns(script)
    prev = None
    for idx, (ev, ls) in enumerate(al):
        if ev[0] == "digest" and ls and ls[0].startswith("G "):
            cur = parse_digest(ls[0])["dbs"]
            if prev is not None and prev[1] is not None:
                before, cmd_idx, cmd_ev = prev[0], prev[1], prev[2]
                for db in set(before) | set(cur):
                    b, a = before.get(db, {}), cur.get(db, {})
                    for k in set(b) | set(a):
                        if b.get(k) != a.get(k):
                            key = _unhex(k)
                            if db != 0 or not any(fnmatch.fnmatchcase(key, p) for p in wr):
                                return {"index": cmd_idx, "event": cmd_ev, "impl": {"db": db, "key": key, "before": b.get(k), "after": a.get(k)},
                                        "reference": "an allowed command changes only keys of its database matched by the user's write patterns %r" % (wr,),
                                        "what": "key outside the write patterns changed"}
            prev = (cur, None, None)
        elif ev[0] == "cmd" and ev[1] == 2 and prev is not None:
            prev = (prev[0], idx, ev)
        elif ev[0] == "cmd":
            prev = None
    return None

def kx_changed(script, impl_lines):
    ds = [l for l in impl_lines if l.startswith("G ")]
    return any(norm_digest(a, with_mem=False) != norm_digest(b, with_mem=False) for a, b in zip(ds, ds[1:]))

class C06(PropertyCheck):
    prop = "C06"
    theorem_file = "Properties/C06.py".replace(".py", ".v")
    spec_mode = "spec06"
    model_mode = "acl"
    digest_opts = {"with_mem": False}

    def __init__(self, tier, seed):
        super().__init__(tier, seed)
        framework.run_model = _acl_run_model
        framework.compare_lines = _compare
        self.table = gen_acl.command_table()

    def per_script_timeout(self):
        return 3.0

    def streams(self):
        q = self.tier == "quick"
        rng = self.rng
        t = self.table
        return {
            "exhaustive": gen_acl.exhaustive(self.tier, t),
            "random_users": gen_acl.random_users(rng, 40 if q else 1500, t),
            "histories": gen_acl.histories(rng, 150 if q else 4000, t, 40, "h"),
            "malformed": gen_acl.histories(rng, 60 if q else 1500, t, 25, "m", malformed=True),
            "files": gen_acl.file_histories(rng, 40 if q else 1000, t, 30, "f"),
            "lifecycle": [gen_acl.lifecycle(rng, "l%d" % i, t, i) for i in range(12 if q else 200)],
            "keyed_exec": gen_acl.keyed_exec(rng, 36 if q else 1500, 25 if q else 40),
        }

    def spec_script(self, script, impl_lines):
        sp = Script(script.id + "_spec", script.cfg)
        sp.lines, sp.events = list(script.lines), list(script.events)
        return sp

    def spec_compare(self, script, impl_lines, spec_lines):
        return oracle(script, impl_lines, spec_lines)

    def corr_name(self, script, idx):
        return "corr:%s:line%d" % (self.prop, idx)

    def nontrivial(self, script, impl_lines):
        if script.id.startswith("kx"):
            return "R -" in impl_lines and kx_changed(script, impl_lines)
        return "Z allow" in impl_lines and "Z deny" in impl_lines

    def in_known_trigger(self, script):
        # key-less commands that touch every key: recorded, never generated by keyed_exec
        if script.id.startswith("kx") and any(e[0] == "cmd" and str(e[2]).upper() in ("FLUSHDB", "FLUSHALL") for e in script.events):
            return "KF-C06-flush-keyless"
        return None

    def replay_known(self, kf):
        if kf["id"] == "KF-C06-randomkey-keyless":
            # still there when some RANDOMKEY issued by the user who may read a* only names a key outside a*
            c = gen_acl.kx_randomkey_witness()
            im = run_impl([c], self.per_script_timeout()).get(c.id, [])
            names = [l[3:] for l in im[-41:] if l.startswith("R $")]
            return any(not _unhex(h).startswith("a") for h in names if h)
        if kf["id"] != "KF-C06-flush-keyless":
            return False
        hits = 0
        for w in ("FLUSHDB", "FLUSHALL"):
            c = gen_acl.kx_flush_witness(w)
            im = run_impl([c], self.per_script_timeout()).get(c.id, [])
            v = keyed_oracle(c, align(c, im))
            hits += bool(v)
        return hits == 2

    def exhaustive_note(self):
        n = len(gen_acl.RULES)
        return ("every registered command and sub-command (%d rows of the regenerated table) x %d argument vectors over keys {a1,b1,zz} "
                "(single key, multi-key with one permitted and one forbidden key in both orders, option words) as a user built from every "
                "rule subset of size <= %d over %d rule tokens, plus unauthenticated and no-password-required configurations"
                % (len(self.table), len(gen_acl.ARGS), 1 if self.tier == "quick" else 2, n))

    def rule(self):
        return ("Q events compare the decision of the real gate (getCommand + GetSubCommand + AuthorizeConnection) with model and policy; "
                "D events also run a denied command through handleCommand between data/ACL+connection/pub-sub digests; histories interleave "
                "SETUSER/DELUSER edits, AUTH/HELLO attempts and probes on 3 connections. non-trivial = at least one allow and one deny. "
                "keyed_exec: a user with +@all and restrictive read/write key patterns executes data commands of every module (single- and "
                "multi-key, store forms, option words) through the gate on connection 2 with a data digest before and after each; oracle: "
                "only keys of database 0 matched by a write pattern differ between the two digests (value, deadline, presence); "
                "non-trivial there = at least one command refused and at least one digest changed")

    def assumptions(self):
        return ["glob patterns restricted to the fragment * ? literal (executable instance of glob_match); gobwas/glob is trusted beyond it",
                "the policy quantifies over the keys/channels the command's KeyExtractionFunc reports (Gen/KeyExtract.v ties the model's "
                "extraction to the code's); that the reported keys cover the keys a handler touches is proved for every modelled handler "
                "(C06_keys_cover, C06_gate_keys_cover); FLUSHDB / FLUSHALL (key-less, touch everything) are the recorded finding KF-C06-flush-keyless; "
                "RANDOMKEY (key-less, its reply names a key of the database whatever the user may read) is the recorded finding KF-C06-randomkey-keyless",
                "categories are those declared in the command table (Gen/CmdTable.v)",
                "QUIT is answered with EOF before the gate (it closes the connection); it is not a registered command"]

    trusted_extra = ["harness/tabledump + sugardb/verif_acl_on.go (VerifCommandTable, VerifKeyExtract, VerifAuthorize, VerifAclDigest)",
                     "table obligations (Proofs/TableObligations.v) re-checked over the regenerated Gen/*.v of this run"]

    def run(self):
        try:
            return super().run()
        finally:
            shutil.rmtree(gen_acl.ACLDIR, ignore_errors=True)
