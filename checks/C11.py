"""C11 — Authentication and user lifecycle follow the stored credentials.
Histories of SETUSER / DELUSER / LOAD / SAVE / AUTH / HELLO AUTH / WHOAMI / probe commands on three
connections, user tables from JSON and YAML config files; the model (coq/Model/Acl.v: AuthenticateConnection,
UpdateUser, Normalise, Merge/Replace, DeleteUser with pointer sharing) against the implementation, ACL +
connection digest after every step; the oracle checks that a failed attempt changes nothing."""
from common import *
import framework
from framework import *
import gen_acl, C06

def auth_oracle(script, impl_lines):
    al = C06.align(script, impl_lines)
    lastU = None
    for idx, (ev, ls) in enumerate(al):
        lastU = al[idx - 1][1][0] if idx > 0 and al[idx - 1][0][0] == "acldigest" and al[idx - 1][1] else None
        if ev[0] == "cmd" and str(ev[2]).upper() in ("AUTH", "HELLO") and ls and ls[0] == "R -" and lastU is not None:
            nxt = al[idx + 1] if idx + 1 < len(al) else None
            if nxt and nxt[0][0] == "acldigest" and nxt[1] and nxt[1][0] != lastU:
                return {"index": idx, "event": ev, "impl": {"before": lastU, "after": nxt[1][0]},
                        "reference": "a failed authentication attempt leaves users and connections unchanged"}
        if ev[0] == "cmd" and [str(x).upper() for x in ev[2:5]] in (["ACL", "LOAD", "REPLACE"],) and ls and ls[0] != "R -":
            pass
    return None

class C11(C06.C06):
    prop = "C11"
    theorem_file = "Properties/C11.v"

    def streams(self):
        q = self.tier == "quick"
        rng = self.rng
        t = self.table
        return {
            "histories": gen_acl.histories(rng, 250 if q else 6000, t, 50, "h"),
            "files": gen_acl.file_histories(rng, 120 if q else 3000, t, 40, "f"),
            "malformed": gen_acl.histories(rng, 100 if q else 3000, t, 30, "m", malformed=True),
            "lifecycle": [gen_acl.lifecycle(rng, "l%d" % i, t, i) for i in range(30 if q else 420)],
        }

    def spec_compare(self, script, impl_lines, spec_lines):
        return auth_oracle(script, impl_lines) or C06.oracle(script, impl_lines, spec_lines)

    def nontrivial(self, script, impl_lines):
        al = C06.align(script, impl_lines)
        ok = any(e[0] == "cmd" and str(e[2]).upper() in ("AUTH", "HELLO") and ls and ls[0] not in ("R -", "R !") for e, ls in al)
        bad = any(e[0] == "cmd" and str(e[2]).upper() in ("AUTH", "HELLO") and ls and ls[0] == "R -" for e, ls in al)
        return ok and bad

    def exhaustive_note(self):
        return None

    def rule(self):
        return ("random histories over 3 connections and users {default,u1,u2,u3}: SETUSER with rule/password tokens (documented spellings, empty "
                "token, malformed prefixes), DELUSER, AUTH user pw / AUTH pw / HELLO n AUTH user pw [SETNAME], wrong arities, ACL SAVE / LOAD "
                "MERGE|REPLACE with JSON / YAML config files and initial file users; ACL+connection digest after every step. "
                "non-trivial = at least one successful and one failed authentication")

    def assumptions(self):
        return ["sha256 is supplied to the model as a table computed by the driver (hashlib) for the passwords it generates",
                "encoding/json and yaml.v3 are trusted as faithful serialisers of the User records (the model stores the records)",
                "config files hold users with distinct names",
                "DELUSER's SetReadDeadline on the socket is not observable in the socket-free harness; the de-authentication of the "
                "connection record is"]
