"""C03 - snapshot round trip.  Streams: corpus; datasets over all value types / databases / deadlines, SAVE, clock
advance, restart, digest + LASTSAVE; histories of commands of all modules with SAVE / restart interleaved; malformed
(wrong-arity and wrong-type commands between snapshots); the automatic trigger with thresholds 1, 2, 5 and a real
20 ms ticker (the ticker only runs during Z windows of 70 ms)."""
from snapcheck import *

def rand_cmd(rng, s, now):
    k = rng.choice(["a", "b", "k1", "l", "h"])
    c = rng.randrange(12)
    if c == 0: s.cmd(0, "SET", k, rng.choice(["v", "12", "1.5", "x y"]))
    elif c == 1: s.cmd(0, "DEL", k)
    elif c == 2: s.cmd(0, "LPUSH", "l", "x", "y")
    elif c == 3: s.cmd(0, "HSET", "h", "f", rng.choice(["1", "v"]))
    elif c == 4: s.cmd(0, "SADD", "st", "m", rng.choice(["n", "o"]))
    elif c == 5: s.cmd(0, "ZADD", "z", rng.choice(["1", "2.5"]), rng.choice(["m", "n"]))
    elif c == 6: s.cmd(0, "EXPIRE", k, rng.choice(["1", "100"]))
    elif c == 7: s.cmd(0, "INCR", "n")
    elif c == 8: s.cmd(0, "PERSIST", k)
    elif c == 9: s.preset(rng.choice([1, 2]), k, rand_value(rng), rng.choice([0, now + 700]))
    elif c == 10: s.cmd(0, "APPEND", "a", "z")
    else: s.cmd(0, "RPUSH", "l", "q")

class C03(SnapCheck):
    prop = "C03"
    theorem_file = "Properties/C03.v"
    design_ref = "DESIGN.md §8 C03"
    check_c10 = False
    compare_mem = False
    def streams(self):
        rng = self.rng
        quick = self.tier == "quick"
        now = framework.DEFAULT_NOW
        out = {"datasets": [], "histories": [], "malformed": [], "trigger": [], "write-during-snapshot": [], "trigger-after-write-during-snapshot": []}
        # writes served while a snapshot is being written are not in it: they still count towards the next automatic
        # snapshot (threshold reached by writes of which some or all landed between the state copy and the end of the attempt)
        for i in range(12 if quick else 120):
            thr = [1, 2, 3, 4][i % 4]
            s = Script("tw%d" % i, {"snapthreshold": thr, "snapinterval": 20})
            # the counter stays under the threshold until the attempt is over (also with the write served during it): a
            # tick that falls into the explicit snapshot must find nothing to do, the trigger is judged in the window Z
            for j in range(rng.randrange(0, max(1, thr - 1))):
                s.cmd(0, "SET", "p%d" % j, str(rng.randrange(100)))
            later = thr - 1 if (i // 4) % 3 else max(0, thr - 2)      # with the late write: threshold reached / one short
            s.digest().raw("KW 0 %s" % " ".join(hx(a) for a in ["SET", "late", str(i)]), ["raw", "KW"])
            for j in range(later):
                s.cmd(0, "SET", "after%d" % j, "2")
            s.digest().raw("Z 70", ["raw", "Z 70"]).cmd(0, "LASTSAVE").advance(3)
            s.raw("T").digest().cmd(0, "LASTSAVE")
            out["trigger-after-write-during-snapshot"].append(s)
        # a client served between the state copy and the encoding of a snapshot: the snapshot must hold the dataset of
        # the instant of the copy, whatever the command does to values the copy refers to (sets, sorted sets, hashes, lists)
        during = [["SADD", "s", "late"], ["SREM", "s", "m1"], ["SREM", "s", "m2", "m3"], ["SMOVE", "s", "t", "m1"], ["ZADD", "z", "9", "late"],
                  ["ZINCRBY", "z", "5", "m"], ["ZREM", "z", "m"], ["HSET", "h", "late", "1"], ["HDEL", "h", "f"], ["HINCRBY", "h", "n", "2"],
                  ["RPUSH", "l", "late"], ["LPOP", "l"], ["LSET", "l", "0", "q"], ["APPEND", "a", "+"], ["DEL", "s"], ["FLUSHDB"],
                  ["SET", "new", "1"], ["EXPIRE", "a", "100"], ["RENAME", "a", "b"], ["SUNIONSTORE", "s", "s", "t"]]
        for i, argv in enumerate(during if quick else during * 6):
            s = Script("ws%d" % i, {})
            db = [0, 0, 1][i % 3]
            s.preset(db, "s", vset(["m1", "m2", "m3"]), 0).preset(db, "t", vset(["x"]), 0).preset(db, "z", vzset({"m": "1/1", "n": "2/1"}), 0)
            s.preset(db, "h", vhash({"f": vstr("v"), "n": vint(1)}), 0).preset(db, "l", vlist(["x", "y"]), 0).preset(db, "a", vstr("txt"), now + 50000)
            conn = 0 if db == 0 else 1
            if conn: s.raw("N 1").cmd(1, "SELECT", str(db))
            s.digest().raw("KW %d %s" % (conn, " ".join(hx(a) for a in argv)), ["raw", "KW"])
            s.digest().raw("T").digest().cmd(0, "LASTSAVE")
            out["write-during-snapshot"].append(s)
        # between two snapshots the only change is a key replaced by another whose name differs in bytes that are not valid
        # UTF-8 (same value, same deadline): the second snapshot is not "nothing new"
        out["binary-key-replaced"] = []
        pairs = [("session:\xff\x01", "session:\xfe\x01"), ("\xffk", "\xfek"), ("a\xc3", "a\xe9"), ("k\x80\x80", "k\x81\x80")]
        for i, (k1, k2) in enumerate(pairs if quick else pairs * 5):
            s = Script("bk%d" % i, {})
            s.cmd(0, "SET", "plain", "1").cmd(0, "SET", k1, "same-value")
            s.digest().raw("V").cmd(0, "LASTSAVE").advance(5)
            if i % 2: s.cmd(0, "RENAME", k1, k2)
            else: s.cmd(0, "DEL", k1).cmd(0, "SET", k2, "same-value")
            s.digest().raw("V").cmd(0, "LASTSAVE").advance(3).raw("T").digest().cmd(0, "LASTSAVE")
            out["binary-key-replaced"].append(s)
        for i in range(60 if quick else 3000):
            s = Script("ds%d" % i, {})
            put_dataset(s, rng, now, rng.randrange(1, 9))
            s.digest().raw("V").cmd(0, "LASTSAVE")
            s.advance(rng.choice([0, 1, 2, 4, 60, 10**7])).raw("T").digest().cmd(0, "LASTSAVE")
            if rng.random() < 0.5:      # a second generation on top of the restored one
                put_dataset(s, rng, now, 2); s.advance(1).digest().raw("V").advance(rng.choice([0, 3])).raw("T").digest().cmd(0, "LASTSAVE")
            out["datasets"].append(s)
        for i in range(60 if quick else 2000):
            s = Script("hi%d" % i, {})
            for _ in range(rng.randrange(3, 14)):
                r = rng.random()
                if r < 0.6: rand_cmd(rng, s, now)
                elif r < 0.7: s.advance(rng.choice([1, 500, 1500]))
                elif r < 0.85: s.digest().raw("V")
                elif r < 0.93: s.raw("T").digest().cmd(0, "LASTSAVE")
                else: s.cmd(0, "LASTSAVE")
            s.digest().raw("V").advance(rng.choice([0, 2000])).raw("T").digest().cmd(0, "LASTSAVE")
            out["histories"].append(s)
        for i in range(20 if quick else 400):
            s = Script("mf%d" % i, {})
            s.cmd(0, "SET", "a", "1").cmd(0, "LPUSH", "l", "x")
            bad = rng.choice([("SET", "a"), ("LPUSH", "a", "x"), ("INCR", "l"), ("HSET", "h", "f"), ("LASTSAVE", "x"), ("EXPIRE", "a", "soon"), ("ZADD", "z", "x", "m")])
            s.cmd(0, *bad)
            s.digest().raw("V").cmd(0, *bad).advance(1).cmd(0, "SET", "b", "2").digest().raw("V").raw("T").digest().cmd(0, "LASTSAVE")
            out["malformed"].append(s)
        for i in range(16 if quick else 200):
            thr = rng.choice([1, 2, 5])
            s = Script("tr%d" % i, {"snapthreshold": thr, "snapinterval": 20})
            for _ in range(rng.randrange(1, 4)):
                for _ in range(rng.choice([thr - 1, thr, thr + 1, 1])):
                    if rng.random() < 0.5: s.preset(0, rng.choice(["a", "b", "c"]), vint(rng.randrange(100)), 0)
                    else: s.cmd(0, "SET", rng.choice(["a", "b", "c"]), str(rng.randrange(100)))
                s.digest().raw("Z 70", ["raw", "Z 70"]).cmd(0, "LASTSAVE").advance(rng.choice([1, 5]))
            s.raw("T").digest().cmd(0, "LASTSAVE")
            s.digest().raw("Z 70", ["raw", "Z 70"])
            out["trigger"].append(s)
        return out
    def rule(self):
        return ("digest after restart == digest at the last completed SAVE / automatic snapshot minus keys whose deadline passed; "
                "LASTSAVE == time of that snapshot; with >= threshold changes a snapshot exists after one ticker window, with fewer none is taken")
    def assumptions(self):
        return ["sequential histories (SAVE is waited for); the ticker is confined to the Z windows by the harness' schedule controller",
                "trigger oracle counts one change per preset / SET; restored keys count as changes (setValues increments the counter)"]
