"""Generators for C18 (Pub/Sub): histories of (P)SUBSCRIBE / (P)UNSUBSCRIBE / PUBLISH / PUBSUB over several
connections.  Connection kinds: v = socket-free connection (verif hook), t = loopback TCP client,
e = embedded subscriber (sugardb.Subscribe API); connection 0 = the embedded caller (publishes, introspects).
Names and patterns overlap on purpose: "a*" and "?" are used both as channel names and as patterns."""
import itertools
from common import Script

NAMES = ["a", "ab", "b", "a*", "?"]
PATTERNS = ["a*", "*", "?", "a?", "b", "ab", "{a,b}", "{ab,b}*", "a{b,}"]
BAD_PATTERNS = ["[", "a[", "[a"]
ALL_NAMES = sorted(set(NAMES + PATTERNS))

def new_script(sid, kinds):
    s = Script(sid)
    s.kinds = dict(kinds)
    for c, k in sorted(kinds.items()):
        s.raw("N %d %s" % (c, k), ["conn", c, k])
    s.setup_len = len(s.lines)
    return s

def take(s):
    return s.raw("T", ["take"])

def introspect(s):
    s.cmd(0, "PUBSUB", "CHANNELS")
    s.cmd(0, "PUBSUB", "NUMPAT")
    s.cmd(0, "PUBSUB", "NUMSUB", *ALL_NAMES)

CHANNEL_ARGS = ["a*", "*", "?", "b", "zz", "{a,b}*"]

def introspect_full(s):
    """CHANNELS / NUMPAT / NUMSUB and CHANNELS with every kind of argument (a pattern that is also a name, a
    catch-all, one character, a literal, nothing matching)"""
    introspect(s)
    for p in CHANNEL_ARGS:
        s.cmd(0, "PUBSUB", "CHANNELS", p)

UNSUB_SETUPS = [
    # overlapping channels and patterns on two connections
    [(1, "SUBSCRIBE", "a", "ab", "b"), (1, "PSUBSCRIBE", "a*", "?"), (2, "SUBSCRIBE", "a", "a*"), (2, "PSUBSCRIBE", "a*", "b")],
    # one text as channel and as pattern on one connection
    [(1, "SUBSCRIBE", "a*"), (1, "PSUBSCRIBE", "a*"), (2, "PSUBSCRIBE", "a*")],
    # nothing subscribed at all
    [],
    # duplicates inside SUBSCRIBE
    [(1, "SUBSCRIBE", "a", "a", "b", "a"), (2, "SUBSCRIBE", "a"), (1, "PSUBSCRIBE", "b", "b")],
]
UNSUB_ARGS = [(), ("nosuch",), ("a", "a"), ("a*", "nosuch", "a*"), ("b", "a", "ab", "b"), ("?",), ("nosuch", "nosuch")]

def unsub_scripts(prefix):
    """directed: (P)UNSUBSCRIBE with no argument, names never subscribed, names of the other kind, duplicates —
    from tables with overlapping channel / pattern subscriptions, the same command twice (the second time nothing
    is left to drop), every introspection form after every step, then publishes"""
    out = []
    n = 0
    for setup in UNSUB_SETUPS:
        cmds = [(c, w) + a for w in ("UNSUBSCRIBE", "PUNSUBSCRIBE") for c, args in ((1, UNSUB_ARGS), (2, [(), ("a*", "a*")]), (0, [()]))
                for a in args]
        for cmd in cmds:
            s = new_script("%s%d" % (prefix, n), {1: "v", 2: "v"})
            n += 1
            for ev in setup:
                s.cmd(*ev)
            introspect_full(s)
            for _ in range(2):
                s.cmd(*cmd)
                introspect_full(s)
            s.cmd(0, "PUBLISH", "a", "p1")
            s.cmd(2, "PUBLISH", "ab", "p2")
            s.cmd(0, "PUBLISH", "b", "p3")
            s.cmd(1, "PUBLISH", "a*", "p4")
            take(s)
            out.append(s)
    return out

def small_alphabet():
    """commands of the exhaustive stream, over connections 1 and 2"""
    out = []
    for c in (1, 2):
        out += [(c, "SUBSCRIBE", "a"), (c, "SUBSCRIBE", "a*", "a"), (c, "PSUBSCRIBE", "a*"), (c, "PSUBSCRIBE", "?", "a*"),
                (c, "UNSUBSCRIBE"), (c, "UNSUBSCRIBE", "a*"), (c, "PUNSUBSCRIBE"), (c, "PUNSUBSCRIBE", "a*")]
    out += [(1, "PUBLISH", "a", "x"), (0, "PUBLISH", "a*", "y")]
    return out

def exhaustive(depth, prefix):
    scripts = []
    alpha = small_alphabet()
    n = 0
    for d in range(1, depth + 1):
        for seq in itertools.product(alpha, repeat=d):
            s = new_script("%s%d" % (prefix, n), {1: "v", 2: "v"})
            n += 1
            for ev in seq:
                s.cmd(*ev)
                introspect(s)
            s.cmd(0, "PUBLISH", "a", "p1")
            s.cmd(2, "PUBLISH", "a*", "p2")
            s.cmd(0, "PUBLISH", "b", "p3")
            take(s)
            scripts.append(s)
    return scripts

def random_scripts(rng, count, length, prefix, malformed=False, kinds_pool="vte", burst=True):
    scripts = []
    for i in range(count):
        nconn = rng.choice([2, 3, 3, 4])
        kinds = {c: rng.choice(kinds_pool) for c in range(1, nconn + 1)}
        if all(k == "e" for k in kinds.values()):
            kinds[1] = "v"
        s = new_script("%s%d" % (prefix, i), kinds)
        subs = [c for c in kinds]
        pubs = [0] + [c for c, k in kinds.items() if k != "e"]
        msg = [0]
        def publish(p=None, ch=None):
            msg[0] += 1
            s.cmd(p if p is not None else rng.choice(pubs), "PUBLISH", ch or rng.choice(NAMES + ["ab", "a"]), "m%d" % msg[0])
        for _ in range(rng.randint(3, length)):
            r = rng.random()
            c = rng.choice(subs)
            if malformed and r < 0.3 and kinds[c] != "e":
                bad = rng.choice([
                    ("SUBSCRIBE",), ("PSUBSCRIBE",), ("PUBLISH", "a"), ("PUBLISH", "a", "b", "c"), ("PUBSUB",),
                    ("PUBSUB", "FOO"), ("PUBSUB", "CHANNELS", "a", "b"), ("PSUBSCRIBE", rng.choice(BAD_PATTERNS)),
                    ("PSUBSCRIBE", "a*", rng.choice(BAD_PATTERNS)), ("PUBSUB", "CHANNELS", rng.choice(BAD_PATTERNS)),
                    ("subscribe", "a"), ("PubSub", "numsub", "a"), ("PUBSUB", "NUMPAT", "x"), ("PUBSUB", "CHANNELS", ""),
                    ("PUNSUBSCRIBE", rng.choice(BAD_PATTERNS)), ("UNSUBSCRIBE", "nosuch")])
                s.cmd(rng.choice([0, c]), *bad)
            elif r < 0.22:
                s.cmd(c, "SUBSCRIBE", *[rng.choice(NAMES) for _ in range(rng.randint(1, 3))])
            elif r < 0.42:
                s.cmd(c, "PSUBSCRIBE", *[rng.choice(PATTERNS) for _ in range(rng.randint(1, 3))])
            elif r < 0.52:
                s.cmd(c, "UNSUBSCRIBE", *[rng.choice(NAMES) for _ in range(rng.randint(0, 2))])
            elif r < 0.62:
                s.cmd(c, "PUNSUBSCRIBE", *[rng.choice(PATTERNS) for _ in range(rng.randint(0, 2))])
            elif r < 0.66 and burst:
                # a burst of 100 publishes by one or two publishers on one or two channels, with a change of
                # subscription in the middle: races the delivery goroutines
                chs = rng.sample(NAMES, rng.choice([1, 2]))
                ps = [rng.choice(pubs) for _ in range(rng.choice([1, 2]))]
                cut = rng.randint(0, 99)
                for k in range(100):
                    if k == cut:
                        c2 = rng.choice(subs)
                        if rng.random() < 0.5:
                            s.cmd(c2, rng.choice(["UNSUBSCRIBE", "PUNSUBSCRIBE"]))
                        else:
                            s.cmd(c2, "SUBSCRIBE", chs[0])
                    publish(ps[k % len(ps)], chs[k % len(chs)])
            elif r < 0.9:
                publish()
            else:
                s.cmd(0, "PUBSUB", "CHANNELS", rng.choice(PATTERNS))
            introspect(s)
            if rng.random() < 0.15:
                take(s)
        take(s)
        scripts.append(s)
    return scripts

def close_scripts(prefix):
    """a TCP client subscribes and goes away (known finding: the table keeps it)"""
    out = []
    for i, extra in enumerate([[], [("PSUBSCRIBE", "a*")]]):
        s = new_script("%s%d" % (prefix, i), {1: "t", 2: "v"})
        s.cmd(1, "SUBSCRIBE", "a")
        for e in extra:
            s.cmd(1, *e)
        s.cmd(2, "SUBSCRIBE", "a")
        take(s)
        s.raw("K 1", ["close", 1])
        introspect(s)
        s.cmd(0, "PUBLISH", "a", "x")
        take(s)
        out.append(s)
    return out
