"""C13 — read-only commands are pure; failing commands change nothing; STORE results do not alias sources."""
import json, subprocess
from common import *
from framework import *
import gen_kv, gen_mixed, gen_set, gen_zset

NOW = gen_kv.NOW
KEYS = ["a", "b", "c"]

def read_only_commands():
    out = subprocess.run([os.path.join(BUILD, "cmdtable")], capture_output=True, text=True, timeout=60).stdout
    rows = [json.loads(l) for l in out.splitlines() if l.startswith("{")]
    ro = [r["command"] for r in rows if not r["sub"] and "read" in r["categories"] and "write" not in r["categories"]]
    wr = [r["command"] for r in rows if not r["sub"] and "write" in r["categories"]]
    return ro, wr

def argvs_for(rng, cmd):
    """a few argument vectors for a command word: plausible ones by arity guess, plus malformed ones"""
    k = lambda: rng.choice(KEYS + ["zz"])
    n = lambda: rng.choice(["0", "1", "-1", "2", "-inf", "+inf", "x", ""])
    C = cmd.upper()
    table = {
        "GET": [[k()]], "MGET": [[k(), k()]], "TTL": [[k()]], "PTTL": [[k()]], "EXPIRETIME": [[k()]], "PEXPIRETIME": [[k()]],
        "TYPE": [[k()]], "RANDOMKEY": [[]], "TOUCH": [[k(), k()]], "OBJECTFREQ": [[k()]], "OBJECTIDLETIME": [[k()]],
        "STRLEN": [[k()]], "SUBSTR": [[k(), n(), n()]], "GETRANGE": [[k(), n(), n()]],
        "LLEN": [[k()]], "LRANGE": [[k(), n(), n()]], "LINDEX": [[k(), n()]],
        "HGET": [[k(), "f"]], "HMGET": [[k(), "f", "n"]], "HSTRLEN": [[k(), "f"]], "HVALS": [[k()]], "HRANDFIELD": [[k(), n()], [k(), "2", "WITHVALUES"]],
        "HLEN": [[k()]], "HKEYS": [[k()]], "HGETALL": [[k()]], "HEXISTS": [[k(), "f"]],
        "SCARD": [[k()]], "SDIFF": [[k(), k()]], "SINTER": [[k(), k()]], "SINTERCARD": [[k(), k()], [k(), k(), "LIMIT", n()]],
        "SISMEMBER": [[k(), "m1"]], "SMEMBERS": [[k()]], "SMISMEMBER": [[k(), "m1", "x"]], "SRANDMEMBER": [[k()], [k(), n()]],
        "SUNION": [[k(), k()], [k(), k(), k()]],
        "ZCARD": [[k()]], "ZCOUNT": [[k(), n(), n()]], "ZDIFF": [[k(), k()], [k(), k(), "WITHSCORES"]],
        "ZINTER": [[k(), k()], [k(), k(), "WEIGHTS", "1", "2", "AGGREGATE", "MAX", "WITHSCORES"]],
        "ZUNION": [[k(), k()], [k(), k(), "WITHSCORES"]], "ZMSCORE": [[k(), "m1", "x"]], "ZRANDMEMBER": [[k()], [k(), n(), "WITHSCORES"]],
        "ZRANK": [[k(), "m1"]], "ZREVRANK": [[k(), "m1", "WITHSCORES"]], "ZSCORE": [[k(), "m1"]], "ZLEXCOUNT": [[k(), "a", "z"]],
        "ZRANGE": [[k(), n(), n()], [k(), "-inf", "+inf", "WITHSCORES"], [k(), "0", "5", "REV", "LIMIT", "0", "1"]],
    }
    out = [[cmd] + a for a in table.get(C, [[k()], [k(), k()], [k(), n(), n()]])]
    out.append([cmd])                       # too short
    out.append([cmd, k(), "x", "y", "z", "w", "v", "u", "t", "s", "r"])   # too long / junk
    return out

def split_digest(line, now):
    dg = parse_digest(line)
    live = {}; dead = set()
    for db, ents in dg["dbs"].items():
        for k, (v, dl) in ents.items():
            (dead.add((db, k)) if dl != 0 and dl < now else live.__setitem__((db, k), (v, dl)))
    return dg, live, dead

class C13(PropertyCheck):
    prop = "C13"
    theorem_file = "Properties/C13.v"
    spec_mode = None
    digest_opts = {"with_mem": False}     # also for the framework's shrinker (in-place set mutation is C19's topic)

    def fixed_probe(self, sid, presets, argv, cfg=None):
        s = Script(sid, dict({"now": NOW}, **(cfg or {})))
        for k, v in presets:
            s.preset(0, k, v, 0)
        s.digest(); s.cmd(0, *argv); s.digest()
        s.probe = True
        return s

    def directed(self):
        """(1) the algebra commands without destination on 1..7 operands that all exist (a divide-and-conquer or in-place
        fold shows only for some operand counts); (2) multi-key writers whose second key has the wrong type while the first
        is fine: the command must fail and change nothing (a handler that edits the source before checking the destination)."""
        out, n = [], 0
        sets = [("k%d" % i, vset(["m%d" % i, "m%d" % (i + 1), "c"])) for i in range(1, 8)]
        zsets = [("k%d" % i, vzset({"m%d" % i: "%d/1" % i, "m%d" % (i + 1): "1/2", "c": "3/1"})) for i in range(1, 8)]
        for cnt in range(1, 8):
            keys = ["k%d" % i for i in range(1, cnt + 1)]
            for w in ("SUNION", "SINTER", "SDIFF", "SINTERCARD"):
                out.append(self.fixed_probe("dir%d" % n, sets, [w] + keys)); n += 1
            for w in ("ZUNION", "ZINTER", "ZDIFF"):
                out.append(self.fixed_probe("dir%d" % n, zsets, [w] + keys)); n += 1
                out.append(self.fixed_probe("dir%d" % n, zsets, [w] + keys + ["WITHSCORES"])); n += 1
            for w in ("ZUNION", "ZINTER"):
                out.append(self.fixed_probe("dir%d" % n, zsets, [w] + keys + ["WEIGHTS"] + ["1"] * cnt + ["AGGREGATE", "MAX"])); n += 1
        base = [("s", vset(["m1", "m2"])), ("l", vlist(["x", "y"])), ("h", vhash({"f": vstr("v")})), ("z", vzset({"m1": "1/1"})),
                ("str", vstr("hello")), ("i", vint(7))]
        wrong = {"s": ["l", "h", "z", "str"], "l": ["s", "h", "z", "str"], "z": ["s", "l", "h", "str"]}
        for dst in wrong["s"]:
            out.append(self.fixed_probe("dir%d" % n, base, ["SMOVE", "s", dst, "m1"])); n += 1
            for w in ("SUNIONSTORE", "SINTERSTORE", "SDIFFSTORE"):
                out.append(self.fixed_probe("dir%d" % n, base, [w, "d", "s", dst])); n += 1
                out.append(self.fixed_probe("dir%d" % n, base, [w, "s", "s", dst])); n += 1
        for dst in wrong["l"]:
            for a, b in (("LEFT", "RIGHT"), ("RIGHT", "LEFT")):
                out.append(self.fixed_probe("dir%d" % n, base, ["LMOVE", "l", dst, a, b])); n += 1
        for dst in wrong["z"]:
            for w in ("ZUNIONSTORE", "ZINTERSTORE", "ZDIFFSTORE"):
                out.append(self.fixed_probe("dir%d" % n, base, [w, "d", "z", dst])); n += 1
                out.append(self.fixed_probe("dir%d" % n, base, [w, "z", "z", dst])); n += 1
            out.append(self.fixed_probe("dir%d" % n, base, ["ZRANGESTORE", dst, "z", "0", "5"])); n += 1
            out.append(self.fixed_probe("dir%d" % n, base, ["ZMPOP", dst, "z", "MIN"])); n += 1
        # (3) every read-only word on a key of ITS type holding several elements, with every count / index of the small
        # alphabet (a randomised read that edits a cached member list needs 0 < count < cardinality on a real collection)
        rich = [("s", vset(["m1", "m2", "m3", "m4"])), ("s2", vset(["m2", "m3", "x"])), ("l", vlist(["x", "y", "z", "x"])),
                ("h", vhash({"f": vstr("v"), "n": vint(3), "g": vstr("w")})), ("z", vzset({"m1": "1/1", "m2": "2/1", "m3": "2/1", "a": "5/2"})),
                ("z2", vzset({"m2": "1/1", "q": "3/1"})), ("str", vstr("hello")), ("i", vint(7))]
        class Typed:
            def __init__(self, word, j): self.word, self.j, self.calls = word, j, 0
            def choice(self, seq):
                self.calls += 1
                if "zz" in seq:      # the key alphabet
                    w = self.word.upper()
                    first = {"S": "s", "Z": "z", "H": "h", "L": "l"}.get(w[0], "str")
                    if w in ("STRLEN", "SUBSTR"): first = "str"
                    second = {"s": "s2", "z": "z2"}.get(first, first)
                    return first if self.calls == 1 else second
                return seq[self.j % len(seq)]
        for w in getattr(self, "ro", []):
            seen = set()
            for j in range(8):
                for argv in argvs_for(Typed(w, j), w)[:-2]:
                    if tuple(argv) in seen: continue
                    seen.add(tuple(argv))
                    out.append(self.fixed_probe("dir%d" % n, rich, argv)); n += 1
        # (4) a memory limit (policy noeviction) reached part-way through a multi-key write: the write is admitted or
        # refused as a whole — a refused one has written nothing
        small = [("p", vstr("x" * 20))]
        for limit in range(80, 520, 40):
            for argv in (["MSET"] + [a for i in range(5) for a in ("n%d" % i, "y" * 30)], ["MSET", "p", "z" * 60, "q", "w" * 60, "r", "1"]):
                out.append(self.fixed_probe("dir%d" % n, small, argv, {"maxmem": limit, "policy": "noeviction"})); n += 1
        for k in ("s", "l", "h", "z"):
            out += [self.fixed_probe("dir%d" % (n + j), base, argv) for j, argv in enumerate(
                [["MSET", "x", "1", k], ["RENAME", "nosuch", k], ["INCR", k], ["APPEND", k, "x"], ["SETRANGE", k, "0", "x"],
                 ["GETDEL", k], ["GETEX", k, "EX", "10"], ["LPUSH", k, "x"] if k != "l" else ["SADD", k, "x"],
                 ["HINCRBY", k, "f", "1"] if k != "h" else ["ZADD", k, "1", "m"]])]
            n += 9
        return out

    def probe(self, sid, argv, conn=0):
        s = Script(sid, {"now": NOW})
        gen_kv.rand_preset(self.rng, s, (0, 1), p=0.8)
        s.digest()
        s.cmd(conn, *argv)
        s.digest()
        s.probe = True
        return s

    def streams(self):
        q = self.tier == "quick"
        rng = self.rng
        self.ro, self.wr = read_only_commands()
        reps = 6 if q else 120
        ro_scripts, n = [], 0
        for cmd in self.ro:
            for _ in range(reps):
                for argv in argvs_for(rng, cmd):
                    ro_scripts.append(self.probe("ro%d" % n, argv)); n += 1
        fail_scripts = []
        for i in range(400 if q else 10000):
            argv = gen_mixed.rand_cmd(rng, inplace_ok=True, malformed=True, keyspace=True)
            fail_scripts.append(self.probe("f%d" % i, argv))
        alias = gen_set.alias_probes(rng, 0, "als") + gen_zset.alias_scripts("alz")
        for s in alias:
            s.probe = False
        return {"read_only": ro_scripts, "failing_invocations": fail_scripts, "alias_probes": alias, "directed": self.directed()}

    def rule(self):
        return ("read_only: every command of the code's own table whose categories say read and not write (%d words now) x plausible, "
                "too-short and junk argument vectors x random datasets of all types in two databases with deadlines (some already passed): "
                "digest, command, digest — the second digest must equal the first except that entries whose deadline had passed may be gone. "
                "failing_invocations: random commands of every module incl. malformed ones; when the reply is an error the same must hold. "
                "alias_probes: X...STORE dst srcs; write to dst or a source; re-read all (compared with the model, where values cannot alias). "
                "non-trivial = the command got a non-error reply on a non-empty dataset (read_only), resp. an error reply (failing)") % len(getattr(self, "ro", []))

    def nontrivial(self, script, impl_lines):
        r = [l for l in impl_lines if l.startswith("R ")]
        return bool(r) and "=" in " ".join(l for l in impl_lines if l.startswith("G "))

    def evaluate(self, scripts):
        impl = run_impl(scripts, self.per_script_timeout())
        model = run_model(scripts)
        div, rej = [], []
        self.oracle_comparisons = 0
        ro_set = set(w.upper() for w in getattr(self, "ro", []))
        for s in scripts:
            a = impl.get(s.id, ["<no output>"]); b = model.get(s.id, ["<no output>"])
            if not getattr(s, "probe", False):
                d = compare_lines(s, a, b, self.reply_opts, {"with_mem": False})
                if d:
                    div.append((s, d))
                continue
            cmd = next(e for e in s.events if e[0] == "cmd")
            word = str(cmd[2]).upper()
            modelled = b and not any(l.startswith("BAD") for l in b)
            # RANDOMKEY / ZRANDMEMBER: compare_lines keeps the shape of the random reply only (common.RANDOM_WORDS);
            # TOUCH / OBJECTFREQ / OBJECTIDLETIME are deterministic without a memory limit and compared strictly
            if word not in ("HRANDFIELD", "SRANDMEMBER", "SPOP"):
                d = compare_lines(s, a, b, self.reply_opts, {"with_mem": False})
                if d:
                    div.append((s, d))
            g = [l for l in a if l.startswith("G ")]
            r = [l for l in a if l.startswith("R ")]
            if len(g) != 2 or len(r) != 1:
                if "DIED" in a or "HUNG" in a or not r:
                    rej.append((s, {"what": "the server died or hung", "trace": a}))
                continue
            if word == "RANDOMKEY" and r[0] not in ("R -", "R !"):
                # allowed outcomes (Proofs/KeyspaceCmds.v randomkey_outcome): a live key of the selected database, or the
                # empty bulk string exactly when the database has no live key
                self.oracle_comparisons += 1
                _, live0, _ = split_digest(g[0], NOW)
                livekeys = sorted(k for (db, k) in live0 if db == 0)
                ok = r[0].startswith("R $") and ((r[0][3:] in livekeys) if livekeys else r[0] == "R $")
                if livekeys and r[0] == "R $" and "" in livekeys:
                    ok = True
                if not ok:
                    rej.append((s, {"what": "RANDOMKEY replied something that is not a live key of the selected database "
                                            "(or not the empty string on a database without live keys)",
                                    "command": cmd[2:], "reply": r[0], "live_keys": livekeys, "before": g[0]}))
                    continue
            must_be_pure = word in ro_set or r[0] == "R -" or r[0] == "R !"
            if r[0] == "R !":
                rej.append((s, {"what": "the handler panicked", "command": cmd[2:]}))
                continue
            if not must_be_pure:
                continue
            self.oracle_comparisons += 1
            _, live0, dead0 = split_digest(g[0], NOW)
            dg1, live1, dead1 = split_digest(g[1], NOW)
            if live1 != live0 or not dead1 <= dead0:
                diff = {str(k): (live0.get(k), live1.get(k)) for k in set(live0) | set(live1) if live0.get(k) != live1.get(k)}
                rej.append((s, {"what": "a read-only or failing command changed the dataset", "command": cmd[2:], "reply": r[0],
                                "changed": diff, "before": g[0], "after": g[1]}))
        return impl, model, div, rej

    def assumptions(self):
        return ["removal of entries whose deadline had already passed is allowed (lazy expiry)",
                "eviction bookkeeping touched by reads (TOUCH, access stamps) is not part of what a later command can observe under C13; it belongs to C08"]
