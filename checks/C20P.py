"""C20 (part 2) — the database of every key is preserved by the append-only log across restarts: multi-database
crash-recover-write-restart chains (several lives over one data directory, FLUSHDB / SELECT on connections, rewrites),
driven through harness/crash, compared with the model (runner mode aof) and judged by the reference spec02.
Run by checks/C20.py as a sub-process (`bin/check C20P <tier>`); it reports under property C20."""
from aofcheck import *
import gen_aof
import C02 as _c02
install()

class C20P(_c02.C02):
    prop = "C20P"          # replay files C20P_*.json, evidence/C20P.json (merged into C20's by checks/C20.py)
    theorem_file = "Properties/C20.v"

    def streams(self):
        q = self.tier == "quick"
        rng = self.rng
        out = [gen_aof.chain(rng, "pc%d" % i, 3, rng.randrange(2, 6), rewrite=0.15 if i % 3 == 0 else 0.0) for i in range(36 if q else 600)]
        # directed: a life that ends in a non-zero database, a next life that starts in database 0 (and the other way round),
        # FLUSHDB on a connection that selected a non-zero database, then restarts
        for i in range(12 if q else 120):
            s = Script("pd%d" % i, {"aofsync": gen_aof.POLICIES[i % 3], "images": "0"})
            d1 = [12, 1, 7, 10][i % 4]
            s.raw("O", ["open"])
            s.raw("D 0 0", ["select", 0, 0]); gen_aof.add_cmd(s, 0, ["SET", "a", "zero"])
            s.raw("D 1 %d" % d1, ["select", 1, d1]); gen_aof.add_cmd(s, 1, ["SET", "a", "n"]); gen_aof.add_cmd(s, 1, ["RPUSH", "l", "x"])
            if i % 2:
                gen_aof.add_cmd(s, 1, ["FLUSHDB"]); gen_aof.add_cmd(s, 1, ["SET", "k", "after-flush"])
            s.raw("G", ["digest"]); s.raw("Q" if i % 3 else "K", ["stop"]); s.raw("O", ["open"]); s.raw("G", ["digest"])
            s.raw("D 0 0", ["select", 0, 0]); gen_aof.add_cmd(s, 0, ["SET", "b", "second-life"]); gen_aof.add_cmd(s, 0, ["INCR", "n"])
            s.raw("G", ["digest"]); s.raw("K", ["kill"]); s.raw("O", ["open"]); s.raw("G", ["digest"])
            s.raw("D 1 %d" % d1, ["select", 1, d1]); gen_aof.add_cmd(s, 1, ["APPEND", "a", "+"])
            s.raw("G", ["digest"]); s.raw("Q", ["shutdown"]); s.raw("O", ["open"]); s.raw("G", ["digest"])
            out.append(s)
        return {"placement_chains": out}

    def exhaustive_note(self):
        return None

    def rule(self):
        return ("multi-database chains of three lives over one data directory (kill / kill with a torn tail / clean stop between "
                "them, rewrites in a third of them) and directed chains whose lives end and start in different databases, with "
                "FLUSHDB on a connection that selected a non-zero database; after every restart the per-database digest must be "
                "the model's and a dataset the reference allows (every key in the database it was written to)")
