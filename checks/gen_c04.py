"""Generators for C04 (expiry): histories that interleave writes of every value type, every expiry command and
option, reads of every module and clock advances placed just before, at and just after each pending deadline.
A history is generated once *without* sampler passes (and without digests); `instrument` then derives the two
runs that are compared: lazy only, and with sampler passes inserted at random positions (a digest after every
event in both, which is what the acceptance oracle reads)."""
import itertools, random
from common import *
import gen_kv, gen_mixed

NOW = gen_kv.NOW
KEYS = ["a", "b"]
DBS = (0, 1)
POLICIES = ["noeviction", "allkeys-lfu", "allkeys-lru", "volatile-lfu", "volatile-lru", "allkeys-random", "volatile-random"]
VALUES = ["v", "", "12", "1.5", "hello\r\nworld", "\x00\xff"]
PRESET_VALUES = gen_kv.ALL_VALUES
COND = ["NX", "XX", "GT", "LT", "nx", "gt"]

class Hist:
    """a history under construction: the script plus a simulated clock and the deadlines that may be pending"""
    def __init__(self, sid, cfg):
        self.s = Script(sid, cfg)
        self.now = int(cfg["now"])
        self.deadlines = set()
        self.db = 0
    def note(self, t):
        if t is not None and abs(t - self.now) < 10**7:
            self.deadlines.add(t)
    def cmd(self, *argv):
        self.s.cmd(0, *argv)
        self.track(argv)
    def track(self, argv):
        """record the deadline a command may have set (a superset is fine: it only steers the advances)"""
        u = [str(a).upper() for a in argv]
        def num(x):
            try: return int(x)
            except ValueError: return None
        if u[0] in ("EXPIRE", "PEXPIRE", "EXPIREAT", "PEXPIREAT") and len(argv) >= 3 and num(argv[2]) is not None:
            n = num(argv[2])
            self.note({"EXPIRE": self.now + 1000 * n, "PEXPIRE": self.now + n, "EXPIREAT": 1000 * n, "PEXPIREAT": n}[u[0]])
        for i, w in enumerate(u[:-1]):
            n = num(argv[i + 1])
            if n is None: continue
            if w == "EX": self.note(self.now + 1000 * n)
            elif w == "PX": self.note(self.now + n)
            elif w == "EXAT": self.note(1000 * n)
            elif w == "PXAT": self.note(n)
    def preset(self, db, k, v, dl):
        self.s.preset(db, k, v, dl)
        if dl: self.note(dl)
    def select(self, db):
        self.s.select_embedded(db); self.db = db
    def advance(self, ms):
        if ms > 0:
            self.s.advance(ms); self.now += ms
    def advance_near_deadline(self, rng):
        pend = sorted(t for t in self.deadlines if t >= self.now - 1)
        if not pend or rng.random() < 0.15:
            self.advance(rng.choice([1, 2, 9, 10, 11, 999, 1000, 1001])); return
        t = rng.choice(pend[:3])
        self.advance(max(1, t - self.now + rng.choice([-1, 0, 1, 1, 2])))

def expire_cmd(rng, h, k, malformed=False):
    c = rng.choice(["EXPIRE", "PEXPIRE", "EXPIREAT", "PEXPIREAT", "pexpire", "Expire"])
    u = c.upper()
    # a relative or absolute target around "now" and around the pending deadlines (so that GT / LT meet <, =, >)
    targets = [h.now + d for d in (-5, 0, 1, 10, 20, 1000, 1500, 2000, 5000)] + [t + d for t in list(h.deadlines)[:4] for d in (-1, 0, 1)]
    t = rng.choice(targets)
    if u == "EXPIRE": v = (t - h.now) // 1000
    elif u == "PEXPIRE": v = t - h.now
    elif u == "EXPIREAT": v = t // 1000
    else: v = t
    argv = [c, k, str(v)]
    if malformed and rng.random() < 0.3: argv[2] = rng.choice(gen_kv.BADNUM)
    if rng.random() < 0.65: argv.append(rng.choice(COND + (["ZZ", ""] if malformed else [])))
    if malformed and rng.random() < 0.2: argv.append(rng.choice(["GT", "XX", "1"]))
    return argv

def time_opt(rng, h, malformed=False):
    o = rng.choice(["EX", "PX", "EXAT", "PXAT", "px", "ex"])
    u = o.upper()
    t = h.now + rng.choice([-5, 0, 1, 10, 20, 1000, 1500, 2000])
    v = {"EX": (t - h.now) // 1000, "PX": t - h.now, "EXAT": t // 1000, "PXAT": t}[u]
    return [o, rng.choice(gen_kv.BADNUM) if malformed and rng.random() < 0.3 else str(v)]

def set_cmd(rng, h, k, malformed=False):
    argv = ["SET", k, rng.choice(VALUES)]
    opts = []
    if rng.random() < 0.4: opts.append([rng.choice(["NX", "XX", "nx", "xx"])])
    if rng.random() < 0.25: opts.append([rng.choice(["GET", "get"])])
    if rng.random() < 0.5: opts.append(time_opt(rng, h, malformed))
    if malformed and rng.random() < 0.4: opts.append([rng.choice(["KEEPTTL", "NX", "EX", "PX", "7"])])
    rng.shuffle(opts)
    return argv + [x for o in opts for x in o]

def getex_cmd(rng, h, k, malformed=False):
    r = rng.random()
    if r < 0.15: return ["GETEX", k]
    if r < 0.35: return ["GETEX", k, rng.choice(["PERSIST", "persist"])]
    if r < 0.85: return ["GETEX", k] + time_opt(rng, h, malformed)
    return ["GETEX", k, rng.choice(["EX", "KEEP", "PERSIST"])] + (["9"] if rng.random() < 0.5 else [])

def write_cmd(rng, k):
    """writes of every value type, including the existence-conditional ones"""
    c = rng.choice(["SET", "SETNX", "SETXX", "MSET", "HSET", "HSETNX", "LPUSH", "RPUSH", "LPUSHX", "SADD", "ZADD", "ZADDXX", "INCR",
                    "APPEND", "SETRANGE", "RENAME", "DEL", "GETDEL", "INCRBY", "HINCRBY", "LPOP", "SREM", "ZINCRBY", "HDEL", "LSET", "SMOVE"])
    v = lambda: rng.choice(VALUES)
    if c == "SET": return ["SET", k, v()]
    if c == "SETNX": return ["SET", k, v(), "NX"]
    if c == "SETXX": return ["SET", k, v(), "XX"]
    if c == "MSET": return ["MSET", k, v()] + ([rng.choice(KEYS), v()] if rng.random() < 0.4 else [])
    if c in ("HSET", "HSETNX"): return [c, k, rng.choice(["f", "g"]), v()]
    if c in ("LPUSH", "RPUSH", "LPUSHX"): return [c, k, rng.choice(["x", "y"])]
    if c == "SADD": return ["SADD", k, rng.choice(["m1", "m2"])]
    if c == "ZADD": return ["ZADD", k, rng.choice(["1", "2.5"]), rng.choice(["m", "n"])]
    if c == "ZADDXX": return ["ZADD", k, "XX", "3", rng.choice(["m", "n"])]
    if c == "INCR": return ["INCR", k]
    if c == "INCRBY": return ["INCRBY", k, "5"]
    if c == "APPEND": return ["APPEND", k, "zz"]
    if c == "SETRANGE": return ["SETRANGE", k, "1", "q"]
    if c == "RENAME": return ["RENAME", k, rng.choice(KEYS)]
    if c == "DEL": return ["DEL", k] + ([rng.choice(KEYS)] if rng.random() < 0.3 else [])
    if c == "GETDEL": return ["GETDEL", k]
    if c == "HINCRBY": return ["HINCRBY", k, "n", "2"]
    if c == "LPOP": return ["LPOP", k]
    if c == "SREM": return ["SREM", k, "m1"]
    if c == "ZINCRBY": return ["ZINCRBY", k, "1", "m"]
    if c == "HDEL": return ["HDEL", k, "f"]
    if c == "LSET": return ["LSET", k, "0", "w"]
    return ["SMOVE", k, rng.choice(KEYS), "m1"]

READS = [lambda k: ["GET", k], lambda k: ["MGET", k, "a", "b"], lambda k: ["TYPE", k], lambda k: ["TTL", k], lambda k: ["PTTL", k],
         lambda k: ["EXPIRETIME", k], lambda k: ["PEXPIRETIME", k], lambda k: ["STRLEN", k], lambda k: ["GETRANGE", k, "0", "-1"],
         lambda k: ["HGET", k, "f"], lambda k: ["HGETALL", k], lambda k: ["HLEN", k], lambda k: ["HEXISTS", k, "f"],
         lambda k: ["LLEN", k], lambda k: ["LRANGE", k, "0", "-1"], lambda k: ["LINDEX", k, "0"],
         lambda k: ["SCARD", k], lambda k: ["SMEMBERS", k], lambda k: ["SISMEMBER", k, "m1"],
         lambda k: ["ZCARD", k], lambda k: ["ZSCORE", k, "m"], lambda k: ["ZRANGE", k, "-inf", "+inf"], lambda k: ["ttl", k], lambda k: ["pttl", k]]

def read_cmd(rng, k):
    return rng.choice(READS)(k)

def rand_event(rng, h, malformed=False):
    k = rng.choice(KEYS)
    r = rng.random()
    if r < 0.20: h.advance_near_deadline(rng)
    elif r < 0.36: h.cmd(*expire_cmd(rng, h, k, malformed))
    elif r < 0.41: h.cmd("PERSIST", k)
    elif r < 0.50: h.cmd(*set_cmd(rng, h, k, malformed))
    elif r < 0.56: h.cmd(*getex_cmd(rng, h, k, malformed))
    elif r < 0.72: h.cmd(*write_cmd(rng, k))
    elif r < 0.95: h.cmd(*read_cmd(rng, k))
    elif r < 0.98: h.select(rng.choice(DBS))
    else: h.cmd(rng.choice(["FLUSHDB", "FLUSHALL"]))

def config(rng, policy=None):
    return {"now": NOW + rng.choice([0, 0, 250, 999]), "policy": policy or rng.choice(POLICIES), "maxmem": 0,
            "sample": rng.choice([1, 2, 3, 20])}

def random_history(rng, sid, length, malformed=False, policy=None):
    h = Hist(sid, config(rng, policy))
    for db in DBS:
        for k in KEYS:
            if rng.random() < 0.5:
                dl = rng.choice([0, 0, h.now + 10, h.now + 20, h.now + 1500, h.now - 5, h.now])
                h.preset(db, k, rng.choice(PRESET_VALUES), dl)
    for _ in range(rng.randint(2, length)):
        rand_event(rng, h, malformed)
    # final observation of every key of every database
    for db in DBS:
        h.select(db)
        for k in KEYS:
            h.cmd("TYPE", k); h.cmd("PTTL", k)
    return h.s

# ---- exhaustive small scope ---------------------------------------------------------------------------------
def alphabet():
    k = "k"
    return [("SETPX", lambda h: h.cmd("SET", k, "v", "PX", "10")),
            ("A9", lambda h: h.advance(9)), ("A10", lambda h: h.advance(10)), ("A11", lambda h: h.advance(11)),
            ("GET", lambda h: h.cmd("GET", k)), ("PTTL", lambda h: h.cmd("PTTL", k)), ("TYPE", lambda h: h.cmd("TYPE", k)),
            ("SETNX", lambda h: h.cmd("SET", k, "w", "NX")), ("SETXX", lambda h: h.cmd("SET", k, "w", "XX", "GET")),
            ("PEXGT", lambda h: h.cmd("PEXPIRE", k, "5", "GT")), ("PEXLT", lambda h: h.cmd("PEXPIRE", k, "15", "LT")),
            ("PEXNX", lambda h: h.cmd("PEXPIRE", k, "10", "NX")), ("PERSIST", lambda h: h.cmd("PERSIST", k)),
            ("HSET", lambda h: h.cmd("HSET", k, "f", "x")), ("LLEN", lambda h: h.cmd("LLEN", k)),
            ("GETEXPX", lambda h: h.cmd("GETEX", k, "PX", "10"))]

STARTS = [("empty", None, 0), ("str10", vstr("old"), 10), ("list10", vlist(["x"]), 10), ("set", vset(["m1"]), 0)]

def exhaustive(depth, tag, policies=("noeviction", "volatile-lru")):
    out = []
    alpha = alphabet()
    n = 0
    for pol in policies:
        for sname, sval, sdl in STARTS:
            for d in range(1, depth + 1):
                for combo in itertools.product(alpha, repeat=d):
                    if all(nm.startswith("A") for nm, _ in combo):
                        continue
                    h = Hist("%s%d" % (tag, n), {"now": NOW, "policy": pol, "maxmem": 0, "sample": 20}); n += 1
                    if sval is not None:
                        h.preset(0, "k", sval, NOW + sdl if sdl else 0)
                    for _, f in combo:
                        f(h)
                    h.cmd("TYPE", "k"); h.cmd("PEXPIRETIME", "k")
                    out.append(h.s)
    return out

# ---- the largest relative times Go's time.Duration carries exactly ---------------------------------------------
MAX_REL_S, MAX_REL_MS = 9223372036, 9223372036854      # beyond: KF-C04-duration-overflow (not generated)

def boundary_histories(tag="b"):
    """EXPIRE / PEXPIRE / SET EX|PX / GETEX EX|PX with the largest relative times in either direction that
    time.Duration(n)*unit carries without wrapping, and one below: the model computes in unbounded integers,
    C04_go_duration_exact says the Go arithmetic is exact up to here, these histories check the code agrees."""
    out = []
    n = 0
    forms = []
    for sign in (1, -1):
        for off in (0, 1, 1000):
            s_, ms_ = str(sign * (MAX_REL_S - off)), str(sign * (MAX_REL_MS - off))
            forms += [("EXPIRE", "k", s_), ("PEXPIRE", "k", ms_), ("EXPIRE", "k", s_, "GT"), ("PEXPIRE", "k", ms_, "LT"),
                      ("SET", "k", "w", "EX", s_), ("SET", "k", "w", "PX", ms_), ("SET", "k", "w", "px", ms_, "GET"),
                      ("GETEX", "k", "EX", s_), ("GETEX", "k", "PX", ms_)]
    for form in forms:
        for start_dl in (0, 1500):
            for start_ms in (0, 250):
                h = Hist("%s%d" % (tag, n), {"now": NOW + start_ms, "policy": "noeviction", "maxmem": 0, "sample": 20}); n += 1
                h.preset(0, "k", vstr("old"), h.now + start_dl if start_dl else 0)
                h.cmd(*form)
                for rd in (("TTL", "k"), ("PTTL", "k"), ("EXPIRETIME", "k"), ("PEXPIRETIME", "k"), ("GET", "k")):
                    h.cmd(*rd)
                h.advance(1001)
                h.cmd("PTTL", "k"); h.cmd("TYPE", "k"); h.cmd("PERSIST", "k"); h.cmd("PTTL", "k")
                out.append(h.s)
    return out

# ---- instrumentation ----------------------------------------------------------------------------------------
def instrument(base, rng=None, sweep_p=0.0, suffix=""):
    """copy of a history with a digest after every event and, with probability sweep_p before each event, a
    sampler pass over a random database (each followed by its own digest); a leading digest records the start."""
    s = Script(base.id + suffix, base.cfg)
    s.base_id = base.id
    s.digest()
    started = False
    for line, ev in zip(base.lines, base.events):
        if ev[0] != "preset" and not started:
            started = True
        if started and rng is not None and rng.random() < sweep_p:
            for _ in range(rng.choice([1, 1, 2])):
                s.sweep(rng.choice(DBS)); s.digest()
        s.lines.append(line); s.events.append(ev)
        s.digest()
    if rng is not None:
        for db in DBS:
            s.sweep(db); s.digest()
    return s
