"""bin/check Cxx --replay <file>: re-run the script of a replay file on the implementation, the model and
the property's reference, and print the three traces."""
import json, sys
from common import *

def replay(cls, path):
    if hasattr(cls, "replay_file"):
        r = cls.replay_file(path)
        if r is not None:
            return r
    j = json.load(open(path))
    if "script" not in j:
        print(json.dumps(j, indent=1)); return 0
    ensure_built()
    chk = cls("quick", 0)
    s = script_from_json(j["script"]); s.setup_len = j["script"].get("setup_len", 0)
    # the check's own runners (several checks drive their own harness program / runner mode)
    try:
        impl, model, div, rej = chk.evaluate([s])
    except Exception as e:
        import framework
        impl, model = framework.run_impl([s]), framework.run_model([s])
        div, rej = [], []
        print("note: the check's evaluate() could not be used for a single script (%s); generic runners used" % e)
    print("script:"); [print("  ", e) for e in s.events]
    print("implementation:", impl.get(s.id)); print("model:         ", model.get(s.id))
    if div:
        print("model/implementation difference:", json.dumps(div[0][1], default=str))
    rep = {"verdict": rej[0][1]} if rej else None
    if rep is None:
        try:
            rep = chk.oracle_report(s)
        except Exception:
            rep = None
    print("reference verdict:", json.dumps(rep, indent=1, default=str) if rep else "accepted")
    return 1 if (rep or div) else 0
