"""bin/check Cxx --replay <file>: re-run the script of a replay file on the implementation, the model and
the property's reference, and print the three traces."""
import json, sys
from common import *

def replay(cls, path):
    j = json.load(open(path))
    if "script" not in j:
        print(json.dumps(j, indent=1)); return 0
    ensure_built()
    chk = cls("quick", 0)
    s = script_from_json(j["script"]); s.setup_len = j["script"].get("setup_len", 0)
    im = run_impl([s]); mo = run_model([s])
    print("script:"); [print("  ", e) for e in s.events]
    print("implementation:", im.get(s.id)); print("model:         ", mo.get(s.id))
    rc = 0
    if chk.spec_mode:
        sp = chk.spec_script(s, im.get(s.id, []))
        if sp:
            so = run_model([sp], chk.spec_mode)
            v = chk.spec_compare(s, im.get(s.id, []), so.get(sp.id, []))
            print("reference:     ", so.get(sp.id)); print("verdict:", v or "accepted")
            rc = 1 if v else 0
    return rc
