"""bin/check Cxx --replay <file>: re-run the script of a replay file on the implementation, the model and
the property's reference, and print the three traces."""
import json, sys
from common import *

def replay(cls, path):
    if hasattr(cls, "replay_file"):
        return cls.replay_file(path)
    j = json.load(open(path))
    if "script" not in j:
        print(json.dumps(j, indent=1)); return 0
    ensure_built()
    chk = cls("quick", 0)
    s = script_from_json(j["script"]); s.setup_len = j["script"].get("setup_len", 0)
    im = run_impl([s]); mo = run_model([s])
    print("script:"); [print("  ", e) for e in s.events]
    print("implementation:", im.get(s.id)); print("model:         ", mo.get(s.id))
    rep = chk.oracle_report(s)
    print("reference verdict:", json.dumps(rep, indent=1) if rep else "accepted")
    return 1 if rep else 0
