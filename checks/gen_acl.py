"""Generators for C06 / C11: users built from rule subsets, every registered command and sub-command
(read from the regenerated coq/Gen/CmdTable.v) with argument vectors over the keys {a1,b1,zz},
all authentication states, rule edits between commands, several connections, ACL config files."""
import hashlib, itertools, json, os, re
from common import *

ROOT_PW = "root"
ACLDIR = os.path.join(os.path.dirname(VERIF), "aclfiles")

def command_table():
    """[(name, sub, cats)] from the generated Coq table"""
    rows = []
    path = os.path.join(COQ, "Gen", "CmdTable.v")
    for m in re.finditer(r'CmdRow "([^"]*)" "([^"]*)" "([^"]*)" \[([^\]]*)\] (true|false) (true|false) (true|false)', open(path).read()):
        cats = [c.strip().strip('"') for c in m.group(4).split(";") if c.strip()]
        rows.append((m.group(1), m.group(2), cats, m.group(6) == "true"))
    return rows

# argument vectors: single key, multi-key with one permitted + one forbidden key in both orders, option words
ARGS = [[], ["a1"], ["b1"], ["zz"], ["a1", "b1"], ["b1", "a1"], ["a1", "a1"], ["a1", "zz", "b1"],
        ["a1", "1", "2"], ["b1", "1", "2"], ["a1", "b1", "1", "2"], ["b1", "a1", "LEFT", "RIGHT"],
        ["a1", "b1", "WITHSCORES"], ["b1", "a1", "weights", "1", "1"], ["a1", "zz", "limit", "1"],
        ["a1", "f", "v"], ["zz", "f", "v"], ["a1", "b1", "zz", "a1", "1"], ["cx"], ["c1", "m"], ["cx", "m"]]

RULES = ["+@read", "+@write", "+@fast", "+@slow", "-@dangerous", "+@keyspace", "+get", "-set", "+mget", "%R~a*", "%W~b*",
         "~*", "~a?", "nokeys", "+&c*", "-&cx", "off", "+@all", "-@all", "+all", "-all", "allcommands", "nocommands",
         "+acl|whoami", "-acl|setuser", "+@pubsub", "+@set", "+@sortedset", "+@list", "+@hash", "+@connection",
         "allkeys", "resetchannels", "allchannels", "%RW~z*", "+del", "-mget"]

def sha_hex(pw):
    return hashlib.sha256(pw.encode("latin-1")).hexdigest()

def sha_cfg(pws):
    return ",".join("%s:%s" % (hx(p), sha_hex(p)) for p in sorted(set(pws)))

# sha_hex("pw2") as a *password*: a stored digest is not itself a credential; ">" + sha_hex("pwx") as a stored plaintext:
# a password that merely hashes to a plaintext entry is not a credential either
PWS = [ROOT_PW, "pw1", "pw2", "bad", "pwx", "", sha_hex("pw2")]

def base_cfg(extra=None):
    cfg = {"requirepass": "1", "password": hx(ROOT_PW), "sha": sha_cfg(PWS)}
    cfg.update(extra or {})
    return cfg

def Q(s, conn, argv): s.raw("AQ %d %s" % (conn, " ".join(hx(a) for a in argv)), ["gate", conn] + list(argv))
def D(s, conn, argv):
    s.raw("G", ["digest"]); s.raw("AU", ["acldigest"]); s.raw("AB", ["pubsub"])
    s.raw("AD %d %s" % (conn, " ".join(hx(a) for a in argv)), ["denyrun", conn] + list(argv))
    s.raw("G", ["digest"]); s.raw("AU", ["acldigest"]); s.raw("AB", ["pubsub"])
def N(s, conn): s.raw("N %d" % conn, ["newconn", conn])
def U(s): s.raw("AU", ["acldigest"])

def preset_data(s):
    s.preset(0, "a1", "s7631"); s.preset(0, "b1", "l[78]"); s.preset(0, "zz", "S{6d}")

def walk_table(sid, rules, table, deny_run_every=7, authed=True, cfg=None):
    """one user built from `rules`; the whole command table as that user"""
    s = Script(sid, base_cfg(cfg))
    preset_data(s)
    N(s, 1); N(s, 2)
    s.cmd(1, "AUTH", ROOT_PW)
    s.cmd(1, "ACL", "SETUSER", "u1", "on", ">pw1", *rules)
    U(s)
    if authed:
        s.cmd(2, "AUTH", "u1", "pw1")
    i = 0
    for name, sub, cats, has_sub in table:
        head = [name.upper()] + ([sub.upper()] if sub else [])
        for args in ARGS:
            i += 1
            argv = head + args
            if i % deny_run_every == 0:
                D(s, 2, argv)
            else:
                Q(s, 2, argv)
    U(s); s.digest()
    return s

def exhaustive(tier, table):
    out = []
    subsets = [()] + [(r,) for r in RULES]
    if tier != "quick":
        subsets += list(itertools.combinations(RULES, 2))
    for i, rs in enumerate(subsets):
        out.append(walk_table("x%d" % i, list(rs), table))
    out.append(walk_table("xunauth", ["+@all"], table, authed=False))
    out.append(walk_table("xnoreq", ["-@all"], table, cfg={"requirepass": "0"}))
    return out

def random_users(rng, n, table, maxrules=4):
    out = []
    for i in range(n):
        k = rng.randint(2, maxrules)
        rs = [rng.choice(RULES) for _ in range(k)]
        sub = rng.sample(table, min(len(table), 40))
        out.append(walk_table("ru%d" % i, rs, sub, deny_run_every=5))
    return out

EXEC_OK = [["GET", "a1"], ["GET", "b1"], ["SET", "a1", "v"], ["SET", "b1", "v"], ["MGET", "a1", "b1"], ["MGET", "b1", "a1"],
           ["DEL", "a1", "b1"], ["DEL", "zz"], ["LPUSH", "b1", "x"], ["LRANGE", "b1", "0", "-1"], ["SADD", "zz", "m"],
           ["SMEMBERS", "zz"], ["PING"], ["ECHO", "hi"], ["ACL", "WHOAMI"], ["ACL", "USERS"], ["SELECT", "1"], ["SELECT", "0"],
           ["RENAME", "a1", "b1"], ["MSET", "a1", "1", "b1", "2"], ["INCR", "a1"], ["TTL", "a1"], ["TYPE", "zz"]]

USERS = ["u1", "u2", "default"]
TOKENS = RULES + [">pw1", ">pw2", "<pw1", "#" + sha_hex("pw2"), "#" + sha_hex("pw2"), "!" + sha_hex("pw2"), ">" + sha_hex("pwx"), "nopass", "resetpass", "on", "off", "on",
                  "resetkeys", "", "+@*", "-@*", "+SET", "%r~b*", "~", "allCategories", "+&*", "-&*", "x"]

def history(rng, sid, table, n=40, malformed=False, cfg=None, with_file=None):
    """rule edits between commands, several connections, all authentication states"""
    s = Script(sid, base_cfg(cfg))
    preset_data(s)
    for c in (1, 2, 3):
        N(s, c)
    s.cmd(1, "AUTH", ROOT_PW)
    U(s)
    for _ in range(n):
        r = rng.random()
        c = rng.choice((1, 1, 2, 2, 3))
        if r < 0.18:
            user = rng.choice(USERS[:2] if rng.random() < 0.9 else USERS)
            toks = [rng.choice(TOKENS) for _ in range(rng.randint(0, 3))]
            if malformed and rng.random() < 0.3:
                toks.append(rng.choice(["", ">", "#", "%R~", "%RW~", "+@", "+", "-", "+&", "~"]))
            s.cmd(rng.choice((1, 1, 1, c)), "ACL", "SETUSER", user, *toks); U(s)
        elif r < 0.24:
            s.cmd(rng.choice((1, 1, c)), "ACL", "DELUSER", *[rng.choice(USERS + ["nobody"]) for _ in range(rng.randint(1, 2))]); U(s)
        elif r < 0.40:
            form = rng.random()
            user, pw = rng.choice(USERS + ["nobody"]), rng.choice(PWS)
            U(s)
            if form < 0.5:
                s.cmd(c, "AUTH", user, pw)
            elif form < 0.7:
                s.cmd(c, "AUTH", pw)
            elif form < 0.9:
                pv = rng.choice(["2", "3", "3", "x", "4"])
                o = rng.random()      # every order of the two options the grammar admits (4, 5 and 7 words)
                if o < 0.45: s.cmd(c, "HELLO", pv, "AUTH", user, pw)
                elif o < 0.65: s.cmd(c, "HELLO", pv, "AUTH", user, pw, "SETNAME", "nm")
                elif o < 0.9: s.cmd(c, "HELLO", pv, rng.choice(["SETNAME", "setname"]), "nm", rng.choice(["AUTH", "auth"]), user, pw)
                else: s.cmd(c, "HELLO", pv, "SETNAME", "nm")
            else:
                s.cmd(c, *rng.choice([["AUTH"], ["AUTH", "a", "b", "c"], ["HELLO", "3", "AUTH", user], ["HELLO", "3", "SETNAME"], ["HELLO", "3", "FOO", "x"]]))
            U(s)
        elif r < 0.46 and with_file:
            s.cmd(1, "ACL", rng.choice(["SAVE", "SAVE", "LOAD"]), *([] if rng.random() < 0.5 else [rng.choice(["MERGE", "REPLACE", "replace", "x"])])); U(s)
        elif r < 0.75:
            s.cmd(c, *rng.choice(EXEC_OK))
        elif r < 0.9:
            name, sub, cats, has_sub = rng.choice(table)
            Q(s, c, [name.upper()] + ([sub] if sub else []) + rng.choice(ARGS))
        else:
            name, sub, cats, has_sub = rng.choice(table)
            D(s, c, [name] + ([sub.upper()] if sub else []) + rng.choice(ARGS))
    U(s); s.digest()
    return s

def histories(rng, n, table, length, prefix, malformed=False):
    return [history(rng, "%s%d" % (prefix, i), table, length, malformed) for i in range(n)]

# ---- ACL config files (JSON is also valid YAML flow style, so the same text serves both formats)
def file_user(name, enabled=True, nopass=False, nokeys=False, pws=(), ic=("*",), xc=(), im=("*",), xm=(), rk=("*",), wk=("*",), ip=("*",), xp=()):
    return {"Username": name, "Enabled": enabled, "NoPassword": nopass, "NoKeys": nokeys,
            "Passwords": [{"PasswordType": t, "PasswordValue": v} for t, v in pws],
            "IncludedCategories": list(ic), "ExcludedCategories": list(xc), "IncludedCommands": list(im), "ExcludedCommands": list(xm),
            "IncludedReadKeys": list(rk), "IncludedWriteKeys": list(wk), "IncludedPubSubChannels": list(ip), "ExcludedPubSubChannels": list(xp)}

def users_cfg(users):
    def lst(l): return ",".join(hx(x) for x in l)
    out = []
    for u in users:
        pws = ",".join(("p" if p["PasswordType"] == "plaintext" else "s") + hx(p["PasswordValue"]) for p in u["Passwords"])
        out.append(":".join([hx(u["Username"]), "%d%d%d" % (u["Enabled"], u["NoPassword"], u["NoKeys"]), pws,
                             lst(u["IncludedCategories"]), lst(u["ExcludedCategories"]), lst(u["IncludedCommands"]), lst(u["ExcludedCommands"]),
                             lst(u["IncludedReadKeys"]), lst(u["IncludedWriteKeys"]), lst(u["IncludedPubSubChannels"]), lst(u["ExcludedPubSubChannels"])]))
    return ";".join(out) if out else "-"

def write_acl_file(sid, ext, users):
    os.makedirs(ACLDIR, exist_ok=True)
    path = os.path.join(ACLDIR, "%s.%s" % (sid, ext))
    with open(path, "w") as f:
        json.dump(users, f)
    return path

FILE_USERS = [
    lambda: file_user("u1", pws=[("plaintext", "pw1")], ic=["read", "fast"], rk=["a*"]),
    lambda: file_user("u2", nopass=True, ic=["*"], xc=["dangerous"], wk=["b*"]),
    lambda: file_user("u1", enabled=False, pws=[("SHA256", sha_hex("pw2")), ("plaintext", "pw1")], im=["get", "set"], xm=["del"]),
    lambda: file_user("u3", nokeys=True, rk=[], wk=[], pws=[("plaintext", "pw2")], ip=["c*"], xp=["cx"]),
    lambda: file_user("default", nopass=False, pws=[("plaintext", ROOT_PW)], ic=["*", "read"]),
    lambda: file_user("u2", pws=[("plaintext", "pw1"), ("plaintext", "pw1")], ic=["allCategories"], im=["allCommands"], rk=["allKeys", "a*"]),
    # a default user in the file is taken as it stands, whatever the server's requirepass / password settings say
    lambda: file_user("default", nopass=True),
    lambda: file_user("default", nopass=False, pws=[("plaintext", "pw2")], ic=["*"]),
    # a hand-written file may flag a user nokeys and still list patterns (SETUSER never produces that): nokeys wins
    lambda: file_user("u1", nokeys=True, pws=[("plaintext", "pw1")], rk=["a*"], wk=["*"]),
    lambda: file_user("u2", nopass=True, nokeys=True, rk=["*"], wk=["b*"]),
]

def file_histories(rng, n, table, length, prefix):
    out = []
    for i in range(n):
        sid = "%s%d" % (prefix, i)
        ext = rng.choice(["json", "yaml", "yml", "JSON"])
        users = []
        names = set()
        for mk in rng.sample(FILE_USERS, rng.randint(0, 3)):
            u = mk()
            if u["Username"] not in names:
                names.add(u["Username"]); users.append(u)
        path = write_acl_file(sid, ext, users)
        cfg = {"aclconfig": path, "aclusers": users_cfg(users)}
        if any(u["Username"] == "default" for u in users) and rng.random() < 0.5:
            cfg["requirepass"] = "1"
        out.append(history(rng, sid, table, length, cfg=cfg, with_file=True))
    return out


def lifecycle(rng, sid, table, variant):
    """Directed: connections authenticated BEFORE an edit (SETUSER, DELUSER, ACL LOAD MERGE / REPLACE of the config file)
    must be governed by the edited table afterwards — and by edits made after the reload."""
    ext = ["json", "yaml"][variant % 2]
    restrictive = [file_user("u1", pws=[("plaintext", "pw1")], ic=["read"] if variant % 4 < 2 else ["read", "fast"],
                             rk=["a*"] if variant % 5 < 3 else ["*"], wk=["b*"]),
                   file_user("u2", pws=[("SHA256", sha_hex("pw2"))], ic=["*"], xc=["dangerous"])]
    path = write_acl_file(sid, ext, restrictive)
    s = Script(sid, base_cfg({"aclconfig": path, "aclusers": users_cfg(restrictive)}))
    preset_data(s)
    for c in (1, 2, 3):
        N(s, c)
    s.cmd(1, "AUTH", ROOT_PW); U(s)
    s.cmd(2, "AUTH", "u1", "pw1"); s.cmd(3, "AUTH", "u2", rng.choice(["pw2", "pw2", sha_hex("pw2")])); U(s)
    probes = [["SET", "a1", "v"], ["SET", "b1", "v"], ["GET", "a1"], ["GET", "zz"], ["FLUSHALL"], ["DEL", "b1"], ["ACL", "WHOAMI"], ["PING"],
              ["MGET", "a1", "zz"], ["LPUSH", "b1", "x"]]
    def probe():
        for c in (2, 3):
            for a in rng.sample(probes, 5):
                Q(s, c, a)
        U(s)
    probe()
    if variant % 2:
        s.cmd(1, "ACL", "SAVE"); U(s)
    # in-memory edit: u1 may do everything now
    s.cmd(1, "ACL", "SETUSER", "u1", "on", "+@all", "allkeys", "%RW~*", "allchannels"); U(s)
    s.cmd(1, "ACL", "SETUSER", "u2", rng.choice(["off", "-@all", "nokeys"])); U(s)
    probe()
    # the reload puts the file's (restrictive) rules back: they must bind the connections opened before it
    s.cmd(1, "ACL", "LOAD", ["REPLACE", "MERGE", "replace"][variant % 3]); U(s)
    probe()
    s.cmd(2, "AUTH", "u1", rng.choice(["pw1", "bad", sha_hex("pw2")])); U(s)
    probe()
    # an edit after the reload must reach the connections that authenticated before it
    s.cmd(1, "ACL", "SETUSER", "u1", *rng.choice([["off"], ["-@read"], ["nokeys"], ["resetkeys", "%R~zz"], ["on", "+@all", "allkeys"]])); U(s)
    probe()
    s.cmd(1, "ACL", "DELUSER", rng.choice(["u2", "u1"])); U(s)
    probe()
    if variant % 3 == 0:
        # a user saved as nokeys gets patterns in memory; the merge of the file puts the flag back next to the patterns
        s.cmd(1, "ACL", "SETUSER", "u1", "on", ">pw1", "+@all", "nokeys"); s.cmd(1, "ACL", "SETUSER", "u2", "on", "nopass", "+@all", "nokeys"); U(s)
        s.cmd(1, "ACL", "SAVE"); U(s)
        s.cmd(1, "ACL", "SETUSER", "u1", "~a*"); s.cmd(1, "ACL", "SETUSER", "u2", "%R~*", "%W~b*"); U(s)
        s.cmd(2, "AUTH", "u1", "pw1"); s.cmd(3, "AUTH", "u2", "x"); U(s)
        probe()
        s.cmd(1, "ACL", "LOAD", ["MERGE", "REPLACE"][(variant // 3) % 2]); U(s)
        probe()
    s.digest()
    return s


# ---- allowed commands really executed through the gate as a user with restrictive key patterns (C06 key coverage)
KX_RULESETS = [["%R~a*", "%W~b*"], ["~a?"], ["%RW~z*", "%R~a*"], ["%W~b?", "%R~*"], ["~b*", "%R~z*"], ["%R~a*", "%W~b*", "%W~zz"]]
KX_KEYS = ["a1", "a2", "a3", "a4", "a5", "b1", "b2", "b3", "b4", "b5", "zz", "z1", "z2", "n1", "bn"]

def kx_preset(s):
    from common import vstr, vlist, vset, vzset, vhash, vint
    data = {"a1": vstr("v1"), "a2": vlist(["x", "y", "x"]), "a3": vset(["m1", "m2"]), "a4": vzset({"m1": "1/1", "m2": "2/1"}),
            "a5": vhash({"f": vstr("v")}), "b1": vlist(["p", "q"]), "b2": vset(["m2", "m3"]), "b3": vzset({"m2": "3/1", "m4": "1/2"}),
            "b4": vhash({"g": vint(4)}), "b5": vint(7), "zz": vset(["m1"]), "z1": vzset({"m1": "5/1"}), "z2": vlist(["e"])}
    for k, v in data.items():
        s.preset(0, k, v)
    s.preset(1, "a1", vstr("other-db")); s.preset(1, "b1", vlist(["other-db"]))

# templates: W = a key the command writes, R = a key it only reads, X = both (the gate checks it against both lists); the generator
# fills them mostly with keys the user may use that way (so that most commands are allowed and many change something), otherwise
# with any key (permitted / forbidden / absent keys and wrong types all occur)
KX_CMDS = [
    ["SET", "W", "v"], ["SET", "W", "v", "NX"], ["SET", "W", "v", "XX", "GET"], ["SET", "W", "v", "EX", "100"], ["MSET", "W", "1", "W", "2"],
    ["GET", "R"], ["MGET", "R", "R"], ["DEL", "W", "W"], ["DEL", "W"], ["GETDEL", "X"], ["GETEX", "X", "PERSIST"], ["GETEX", "X", "EX", "50"],
    ["EXPIRE", "W", "100"], ["PEXPIRE", "W", "5000", "NX"], ["EXPIREAT", "W", "1900000000"], ["PERSIST", "W"], ["TTL", "R"], ["TYPE", "R"],
    ["INCR", "W"], ["DECR", "W"], ["INCRBY", "W", "5"], ["DECRBY", "W", "2"], ["INCRBYFLOAT", "W", "1.5"], ["RENAME", "W", "W"],
    ["APPEND", "W", "x"], ["SETRANGE", "W", "1", "zz"], ["STRLEN", "R"], ["GETRANGE", "R", "0", "1"],
    ["LPUSH", "W", "e"], ["RPUSH", "W", "e", "f"], ["LPUSHX", "W", "e"], ["LPOP", "W"], ["RPOP", "W"], ["LSET", "W", "0", "w"],
    ["LTRIM", "W", "0", "0"], ["LREM", "W", "0", "x"], ["LMOVE", "W", "W", "LEFT", "RIGHT"], ["LRANGE", "R", "0", "-1"], ["LLEN", "R"],
    ["HSET", "W", "f", "v"], ["HSETNX", "W", "f", "v"], ["HDEL", "W", "f"], ["HINCRBY", "W", "n", "2"], ["HGETALL", "R"], ["HGET", "R", "f"],
    ["SADD", "W", "m9"], ["SREM", "W", "m1"], ["SMOVE", "W", "W", "m2"], ["SDIFFSTORE", "W", "R", "R"], ["SINTERSTORE", "W", "R", "R"],
    ["SUNIONSTORE", "W", "R", "R"], ["SDIFF", "R", "R"], ["SINTER", "R", "R"], ["SUNION", "R", "R"], ["SINTERCARD", "R", "R", "LIMIT", "1"],
    ["SINTERCARD", "R", "R"], ["SMEMBERS", "R"], ["SCARD", "R"],
    ["ZADD", "W", "1", "m7"], ["ZADD", "W", "NX", "2", "m1"], ["ZREM", "W", "m1"], ["ZINCRBY", "W", "2", "m1"], ["ZPOPMIN", "W"], ["ZPOPMAX", "W", "1"],
    ["ZREMRANGEBYRANK", "W", "0", "0"], ["ZREMRANGEBYSCORE", "W", "0", "1"], ["ZRANGESTORE", "W", "R", "0", "-1"], ["ZMPOP", "W", "W", "MIN"],
    ["ZMPOP", "W", "MAX", "COUNT", "1"], ["ZUNIONSTORE", "W", "R", "R"], ["ZUNIONSTORE", "W", "R", "R", "WEIGHTS", "1", "2"],
    ["ZINTERSTORE", "W", "R", "R", "AGGREGATE", "MAX"], ["ZINTERSTORE", "W", "R"], ["ZDIFFSTORE", "W", "R", "R"], ["ZDIFF", "R", "R", "WITHSCORES"],
    ["ZUNION", "R", "R", "WITHSCORES"], ["ZINTER", "R", "R"], ["ZRANGE", "R", "0", "-1"], ["ZCARD", "R"], ["ZSCORE", "R", "m1"], ["ZRANK", "R", "m1"],
    # whole-set forms of ZRANDMEMBER (|count| >= cardinality: the reply is determined up to order), and the commands that
    # go through the keyspace functions (no memory limit here: TOUCH replies 0, OBJECTFREQ / OBJECTIDLETIME an error)
    ["ZRANDMEMBER", "R", "99", "WITHSCORES"], ["ZRANDMEMBER", "R", "-99"], ["TOUCH", "R", "R"], ["TOUCH", "R"],
    ["OBJECTFREQ", "R"], ["OBJECTIDLETIME", "R"],
]

def kx_match(rules, prefixes, key):
    import fnmatch
    for r in rules:
        for p in prefixes:
            if r.upper().startswith(p) and fnmatch.fnmatchcase(key, r[len(p):]):
                return True
    return False

KX_TYPES = {"a1": "str", "a2": "list", "a3": "set", "a4": "zset", "a5": "hash", "b1": "list", "b2": "set", "b3": "zset", "b4": "hash",
            "b5": "str", "zz": "set", "z1": "zset", "z2": "list"}          # n1, bn: absent
def kx_type(word):
    w = word.upper()
    if w in ("SET", "MSET", "SETRANGE", "STRLEN"): return "str"
    if w[0] == "Z": return "zset"
    if w[0] == "H": return "hash"
    if w[0] == "L" or w in ("RPUSH", "RPOP"): return "list"
    if w[0] == "S": return "set"
    if w in ("GET", "MGET", "GETDEL", "GETEX", "INCR", "DECR", "INCRBY", "DECRBY", "INCRBYFLOAT", "APPEND", "GETRANGE"): return "str"
    return None

def kx_fill(rng, tmpl, pools, aimed):
    """aimed: keys the user may use in that position, of the type the command expects (or absent)"""
    t = kx_type(tmpl[0])
    out = []
    for a in tmpl:
        if a in ("R", "W", "X"):
            pool = [k for k in pools[a] if t is None or KX_TYPES.get(k, t) == t] if aimed else []
            out.append(rng.choice(pool or KX_KEYS))
        else:
            out.append(a)
    return out

def keyed_exec(rng, n, length):
    """user u1 = +@all with restrictive key patterns on connection 2; every command is executed through the gate with a data
    digest before and after (the oracle of checks/C06.py checks that only keys matched by the write patterns changed)"""
    out = []
    for i in range(n):
        rules = KX_RULESETS[i % len(KX_RULESETS)]
        s = Script("kx%d" % i, base_cfg())
        kx_preset(s)
        N(s, 1); N(s, 2)
        s.cmd(1, "AUTH", ROOT_PW)
        s.cmd(1, "ACL", "SETUSER", "u1", "on", ">pw1", "+@all", *rules)
        s.cmd(2, "AUTH", "u1", "pw1")
        rd = [k for k in KX_KEYS if kx_match(rules, ("~", "%R~", "%RW~"), k)]
        wr = [k for k in KX_KEYS if kx_match(rules, ("~", "%W~", "%RW~"), k)]
        pools = {"R": rd, "W": wr, "X": [k for k in rd if k in wr]}
        s.digest()
        for _ in range(length):
            s.cmd(2, *kx_fill(rng, rng.choice(KX_CMDS), pools, rng.random() < 0.7))
            s.digest()
        out.append(s)
    return out

def kx_flush_witness(word="FLUSHDB"):
    """KF-C06-flush-keyless: u1 may write b* only; FLUSHDB / FLUSHALL report no key and empty the database"""
    s = Script("kxflush_" + word.lower(), base_cfg())
    kx_preset(s)
    N(s, 1); N(s, 2)
    s.cmd(1, "AUTH", ROOT_PW)
    s.cmd(1, "ACL", "SETUSER", "u1", "on", ">pw1", "+@all", "%R~a*", "%W~b*")
    s.cmd(2, "AUTH", "u1", "pw1")
    s.digest(); s.cmd(2, word); s.digest()
    return s

def kx_randomkey_witness(n=40):
    """KF-C06-randomkey-keyless: u1 may read a* only; RANDOMKEY reports no key and names keys of the whole database"""
    s = Script("kxrandomkey", base_cfg())
    kx_preset(s)
    N(s, 1); N(s, 2)
    s.cmd(1, "AUTH", ROOT_PW)
    s.cmd(1, "ACL", "SETUSER", "u1", "on", ">pw1", "+@all", "%R~a*", "%W~b*")
    s.cmd(2, "AUTH", "u1", "pw1")
    s.digest()
    for _ in range(n):
        s.cmd(2, "RANDOMKEY")
    s.digest()
    return s
