"""Generators for list-command scripts (C15)."""
import itertools, random
from common import *

KEYS = ["a", "b"]
ELEMS = ["x", "y", "", "x\r\n\x00\xff", "12", "%d"]
IDX = ["-5", "-4", "-3", "-2", "-1", "0", "1", "2", "3", "4", "5", "-0", "+1"]
BADINT = ["zz", "", "1.5", " 1", "9223372036854775808", "1_0"]
SIDES = ["LEFT", "RIGHT", "left", "Right"]

def alphabet(keys=("a",), small=True):
    """A concrete command alphabet with boundary arguments."""
    cmds = []
    idx = ["-4", "-3", "-1", "0", "1", "2", "3"] if small else IDX
    for k in keys:
        cmds += [("LLEN", k), ("LPOP", k), ("RPOP", k), ("LPOP", k, "2"), ("RPOP", k, "0"), ("RPOP", k, "-5"),
                 ("LPUSH", k, "x"), ("LPUSH", k, "y", "x"), ("RPUSH", k, "x", ""), ("RPUSH", k, "y"),
                 ("LPUSHX", k, "y"), ("RPUSHX", k, "x")]
        cmds += [("LINDEX", k, i) for i in idx]
        cmds += [("LRANGE", k, s, e) for s in ("-4", "-1", "0", "1", "3") for e in ("-4", "-2", "-1", "0", "2", "3")]
        cmds += [("LSET", k, i, "z") for i in ("-4", "-1", "0", "2", "3")]
        cmds += [("LTRIM", k, s, e) for s in ("-4", "-1", "0", "1") for e in ("-2", "-1", "1", "3")]
        cmds += [("LREM", k, c, "x") for c in ("-2", "-1", "0", "1", "2")]
    ks = list(keys) + ["b"] if "b" not in keys else list(keys)
    for s in ks:
        for d in ks:
            cmds += [("LMOVE", s, d, f, t) for f in ("LEFT", "RIGHT") for t in ("LEFT", "RIGHT")]
    return cmds

PRESETS = [
    [],                                             # nothing
    [("a", vlist(["x", "y", "x"]))],
    [("a", vlist(["x", "x", "y", "x", "x"]))],
    [("a", vlist(["x"])), ("b", vlist(["y", ""]))],
    [("a", vstr("str"))],
    [("a", vlist([]))],                             # emptied list
    [("a", vset(["m"])), ("b", vlist(["x", "y"]))],
]

def finish(s, keys):
    for k in keys:
        s.cmd(0, "LRANGE", k, "0", "-1")
        s.cmd(0, "LLEN", k)
    s.digest()
    return s

def exhaustive(depth, tag="x"):
    out, n = [], 0
    alpha = alphabet()
    for pi, preset in enumerate(PRESETS):
        for d in range(1, depth + 1):
            for seq in itertools.product(alpha, repeat=d):
                s = Script("%s%d" % (tag, n)); n += 1
                for k, v in preset:
                    s.preset(0, k, v)
                s.digest()
                s.setup_len = len(preset)
                for c in seq:
                    s.cmd(0, *c)
                finish(s, ["a", "b"])
                out.append(s)
    return out

def rand_cmd(rng, malformed=False):
    k = rng.choice(KEYS + ["c"])
    e = lambda: rng.choice(ELEMS)
    i = lambda: rng.choice(BADINT) if malformed and rng.random() < 0.3 else rng.choice(IDX)
    c = rng.choice(["LLEN", "LINDEX", "LRANGE", "LSET", "LTRIM", "LREM", "LMOVE", "LPUSH", "RPUSH", "LPUSHX",
                    "RPUSHX", "LPOP", "RPOP", "lpush", "rPop", "LPUSH", "RPUSH"])
    u = c.upper()
    if u == "LLEN": argv = [c, k]
    elif u == "LINDEX": argv = [c, k, i()]
    elif u in ("LRANGE", "LTRIM"): argv = [c, k, i(), i()]
    elif u == "LSET": argv = [c, k, i(), e()]
    elif u == "LREM": argv = [c, k, i(), e()]
    elif u == "LMOVE": argv = [c, k, rng.choice(KEYS + ["c"]), rng.choice(SIDES + (["UP"] if malformed else [])), rng.choice(SIDES)]
    elif u in ("LPUSH", "RPUSH", "LPUSHX", "RPUSHX"): argv = [c, k] + [e() for _ in range(rng.randint(1, 3))]
    else: argv = [c, k] + ([i()] if rng.random() < 0.5 else [])
    if malformed and rng.random() < 0.3:
        if rng.random() < 0.5 and len(argv) > 1: argv = argv[:-1]
        else: argv = argv + [e()]
    return argv

OTHER_VALUES = [vstr("v"), vint(12), vfloat(3, 2), vset(["m1", "m2"]), vhash({"f": vstr("v")}), vzset({"m": "1/1"})]

def rand_preset(rng, s):
    n = 0
    now = 1700000000000
    for k in KEYS + ["c"]:
        r = rng.random()
        dl = rng.choice([0, 0, 0, now + 5000, now - 5])   # none / future / already passed
        if r < 0.5:
            s.preset(0, k, vlist([rng.choice(ELEMS) for _ in range(rng.randint(0, 5))]), dl); n += 1
        elif r < 0.75:
            s.preset(0, k, rng.choice(OTHER_VALUES), dl); n += 1
    if rng.random() < 0.2:
        s.preset(1, "a", vlist(["other-db"])); n += 1
    return n

def random_scripts(rng, count, length, malformed=False, tag="r"):
    out = []
    for n in range(count):
        s = Script("%s%d" % (tag, n))
        s.setup_len = rand_preset(rng, s)
        s.digest()
        for _ in range(rng.randint(1, length)):
            s.cmd(0, *rand_cmd(rng, malformed))
        finish(s, KEYS + ["c"])
        out.append(s)
    return out
