"""Generators for C01 (the keyspace is a sequential typed map): an exhaustive small-scope alphabet over the
commands of the property statement, random long histories, malformed streams, embedded-API scripts."""
import itertools, random
from common import *

NOW = 1700000000000
KEYS = ["a", "b", "c"]
# "", plain, numeric-looking but not canonical, canonical int, negative int, float, CR LF inside, bytes >= 0x80
VALUES = ["", "x", "007", "12", "-3", "1.5", "a\r\nb", "\x00\xff\x80z", "0.00001", "%d"]
MORE_VALUES = ["hello", "+5", "1.50", "10", "-0", "0", "0.5", "-0.25", "0.00001", "-0.00002", "0.0001", "1e3", " 1", "9223372036854775807",
               "9223372036854775808", "-9223372036854775808", "\xe2\x82\xac", "12abc", ".5", "5."]
INTS = ["1", "-1", "0", "5", "-7", "100", "9223372036854775807", "-9223372036854775808", "+3", "007"]
FLOATS = ["1.5", "-0.25", "2", "0.5", "-3", "0.125", "10"]
BADNUM = ["zz", "", "1.5x", " 1", "--1", "1_0", "9223372036854775808"]
IDX = ["-10", "-4", "-2", "-1", "0", "1", "2", "3", "5", "10"]
BADIDX = ["zz", "", "1.5x", " 1", "--1"]       # (AdaptType saturates integers beyond int64 and reads 1e2 / 5.0 as integers: not generated)
BIGS = ["9223372036854775807", "9223372036854775808", "-9223372036854775808", "9223372036854775806"]
EXPO = ["1e3", "1_0"]

# every one of the seven stored types (+ int and float scalars), with and without deadlines
PRESET_VALUES = [vstr("v"), vstr(""), vstr("hello"), vstr("\x00\xffbin"), vstr("007"), vint(12), vint(-3), vfloat(3, 2),
                 vlist(["x", "y"]), vset(["m1", "m2"]), vhash({"f": vstr("v"), "n": vint(3)}), vzset({"m": "1/1", "n": "-1/2"})]
SEVEN = [("string", vstr("hey")), ("integer", vint(12)), ("float", vfloat(3, 2)), ("list", vlist(["x", "y"])),
         ("hash", vhash({"f": vstr("v")})), ("set", vset(["m1"])), ("zset", vzset({"m": "1/1"}))]

def set_option_combos():
    """all SET option combinations: {-,NX,XX} x {-,GET} x {-,EX,PX,EXAT,PXAT}"""
    out = []
    for cond in ([], ["NX"], ["XX"]):
        for get in ([], ["GET"]):
            for ex in ([], ["EX", "10"], ["PX", "1500"], ["EXAT", str(NOW // 1000 + 10)], ["PXAT", str(NOW + 1500)]):
                out.append(cond + get + ex)
    return out

def alphabet(small=False):
    """Concrete command alphabet with boundary arguments; key a is the subject, b the second key."""
    k = "a"
    cmds = [("SET", k, v) for v in VALUES]
    cmds += [tuple(["SET", k, "x"] + o) for o in set_option_combos() if o]
    cmds += [("SET", k, "12", "get", "px", "20", "xx"), ("SET", k, "x", "PXAT", str(NOW - 5)), ("SET", k, "x", "EX", "-1"),
             ("SET", k, "x", "NX", "XX"), ("SET", k, "x", "EX", "1", "PX", "5"), ("SET", k, "x", "EX"),
             ("SET", k, "x", "EX", "zz"), ("SET", k, "x", "KEEPTTL"), ("SET", k), ("SET", k, "x", "GET", "GET", "NX", "EX", "1")]
    cmds += [("GET", k), ("GET", "b"), ("GET",), ("GET", k, "b")]
    cmds += [("MSET", k, "x", "b", "12"), ("MSET", k, "007", k, "1.5"), ("MSET", k), ("MSET", "b", "\x00\xff\x80z")]
    cmds += [("MGET", k, "b"), ("MGET", k, k, "zz"), ("MGET",)]
    cmds += [("DEL", k), ("DEL", k, "b", k), ("DEL", "zz"), ("DEL",)]
    cmds += [("INCR", k), ("DECR", k), ("INCRBY", k, "5"), ("INCRBY", k, "-7"), ("INCRBY", k, "zz"), ("DECRBY", k, "5"),
             ("DECRBY", k, "-9223372036854775808"), ("INCRBY", k, "9223372036854775807"), ("INCR", k, "1"),
             ("DECRBY", k, "9223372036854775807")]
    cmds += [("INCRBYFLOAT", k, "1.5"), ("INCRBYFLOAT", k, "-0.25"), ("INCRBYFLOAT", k, "zz"), ("INCRBYFLOAT", k, "2")]
    cmds += [("APPEND", k, "x"), ("APPEND", k, "7"), ("APPEND", k, ""), ("APPEND", k, "\xff\r\n"), ("APPEND", k)]
    cmds += [("SETRANGE", k, "0", "y"), ("SETRANGE", k, "1", "zz"), ("SETRANGE", k, "5", "y"), ("SETRANGE", k, "-1", "y"),
             ("SETRANGE", k, "zz", "y"), ("SETRANGE", k, "0", "12"), ("SETRANGE", k, "1", "\xff")]
    cmds += [("GETRANGE", k, "0", "-1"), ("GETRANGE", k, "1", "1"), ("GETRANGE", k, "2", "0"), ("GETRANGE", k, "-2", "5"),
             ("SUBSTR", k, "0", "0"), ("GETRANGE", k, "zz", "1"), ("SUBSTR", k, "-1", "-3"), ("GETRANGE", k, "3", "10")]
    cmds += [("STRLEN", k), ("STRLEN", "b")]
    cmds += [("RENAME", k, "b"), ("RENAME", k, k), ("RENAME", "b", k), ("RENAME", k)]
    cmds += [("GETDEL", k), ("GETDEL", "b")]
    cmds += [("GETEX", k), ("GETEX", k, "PERSIST"), ("GETEX", k, "EX", "10"), ("GETEX", k, "PXAT", str(NOW + 1500)),
             ("GETEX", k, "pxat", str(NOW - 5)), ("GETEX", k, "EX", "zz"), ("GETEX", k, "FOO", "1"), ("GETEX", k, "EX"),
             ("GETEX", k, "persist", "5")]
    cmds += [("TYPE", k), ("TYPE", "b"), ("FLUSHDB",), ("FLUSHDB", "x"), ("flushdb",), ("get", k), ("sEt", k, "007")]
    if small:
        drop = {("GET",), ("GET", k, "b"), ("MSET", k), ("MGET",), ("DEL",), ("INCR", k, "1"), ("APPEND", k), ("RENAME", k),
                ("SET", k), ("FLUSHDB", "x"), ("flushdb",), ("get", k), ("DEL", "zz")}
        cmds = [c for c in cmds if c not in drop]
    return cmds

def core_alphabet():
    """the alphabet of the depth-2 enumeration of the quick tier: every command, every value, every SET option at least once"""
    k = "a"
    keep_set = [("SET", k, "x", "NX"), ("SET", k, "x", "XX", "GET"), ("SET", k, "x", "GET"), ("SET", k, "x", "EX", "10"),
                ("SET", k, "x", "NX", "GET", "PX", "1500"), ("SET", k, "x", "XX", "EXAT", str(NOW // 1000 + 10)),
                ("SET", k, "x", "GET", "PXAT", str(NOW + 1500)), ("SET", k, "x", "PXAT", str(NOW - 5)), ("SET", k, "x", "NX", "XX")]
    out = []
    for c in alphabet(True):
        if c[0] == "SET" and len(c) > 3:
            if c in keep_set: out.append(c)
        else:
            out.append(c)
    drop = {("GET", "b"), ("STRLEN", "b"), ("GETDEL", "b"), ("TYPE", "b"), ("sEt", k, "007"), ("INCRBY", k, "zz"), ("INCRBYFLOAT", k, "zz"),
            ("SETRANGE", k, "zz", "y"), ("GETRANGE", k, "zz", "1"), ("GETEX", k, "EX", "zz"), ("GETEX", k, "persist", "5"),
            ("MGET", k, k, "zz"), ("INCRBYFLOAT", k, "2"), ("GETRANGE", k, "3", "10"), ("SUBSTR", k, "0", "0"), ("SETRANGE", k, "1", "\xff"),
            ("DECRBY", k, "9223372036854775807"), ("MSET", "b", "\x00\xff\x80z"), ("APPEND", k, "")}
    return [c for c in out if c not in drop]

# preset datasets of the exhaustive stream: (key, value, deadline)
def presets():
    out = [[]]
    for _, v in SEVEN:
        out.append([("a", v, 0)])
    out += [[("a", vstr("hey"), NOW + 5000), ("b", vint(7), 0)],         # a live deadline on a, a number on b
            [("a", vstr("007"), 0), ("b", vstr("old"), NOW + 900)],       # numeric-looking string; deadline on b
            [("a", vstr("gone"), NOW - 5), ("b", vlist(["x"]), 0)],       # a has expired and is still in the store
            [("a", vint(9223372036854775807), 0)], [("a", vint(-9223372036854775808), NOW + 77)],
            [("a", vstr(""), 0)], [("a", vstr("\x00\xff\x80z\r\n"), 0)], [("a", vstr("-3"), 0)]]
    return out

def float_safe(seq, preset=()):
    """INCRBYFLOAT is exact in binary64 and inside the modelled float text only away from the int64 limits and from
    exponent notation: a sequence that has both an INCRBYFLOAT and such a token is not generated."""
    if not any(str(c[0]).upper() == "INCRBYFLOAT" for c in seq):
        return True
    toks = [str(a) for c in seq for a in c[1:]] + [str(v) for p in preset for v in p[1:2]]
    return not any(t in BIGS or t in EXPO or "9223372036854775" in t for t in toks)

def finish(s, keys=("a", "b")):
    for k in keys:
        s.cmd(0, "GET", k); s.cmd(0, "TYPE", k)
    s.digest()
    return s

def mk(sid, preset, seq):
    s = Script(sid, {"now": NOW})
    for k, v, dl in preset:
        s.preset(0, k, v, dl)
    s.preset(1, "a", vstr("other-db"), NOW + 60000)      # another database: must never be touched
    s.digest()
    s.setup_len = len(preset) + 1
    for c in seq:
        s.cmd(0, *c)
        s.digest()
    return finish(s)

def exhaustive(depth, tag="x", budget=None):
    """depth 1: every command x every preset.  depth 2: every pair over the alphabet x every preset (thorough) or over
    three presets (quick).  depth 3 (thorough): every triple over the reduced alphabet from the empty dataset and one mixed."""
    out, n = [], 0
    alpha, ps = alphabet(), presets()
    for p in ps:
        for c in alpha:
            if float_safe([c], p):
                out.append(mk("%s1_%d" % (tag, n), p, [c])); n += 1
    if depth >= 2:
        small = alphabet(True) if depth >= 3 else core_alphabet()
        pp = ps if depth >= 3 else [ps[0], ps[8]]
        for p in pp:
            for seq in itertools.product(small, repeat=2):
                if float_safe(seq, p):
                    out.append(mk("%s2_%d" % (tag, n), p, seq)); n += 1
    if depth >= 3:
        core = [c for i, c in enumerate(core_alphabet()) if i % 2 == 0]
        for p in (ps[0], ps[8]):
            for seq in itertools.product(core, repeat=3):
                if float_safe(seq, p):
                    out.append(mk("%s3_%d" % (tag, n), p, seq)); n += 1
    return out

# ---------------------------------------------------------------------------------------------
def rand_preset(rng, s):
    n = 0
    for k in KEYS:
        if rng.random() < 0.6:
            dl = rng.choice([0, 0, 0, NOW + 5000, NOW + 20, NOW - 5, NOW + 1500])
            s.preset(0, k, rng.choice(PRESET_VALUES), dl); n += 1
    s.preset(1, "a", vstr("other-db"), 0); n += 1
    return n

def set_cmd(rng, k, vals, malformed=False):
    argv = ["SET", k, rng.choice(vals)]
    opts = []
    if rng.random() < 0.3: opts.append([rng.choice(["NX", "XX", "nx", "xx"])])
    if rng.random() < 0.3: opts.append([rng.choice(["GET", "get"])])
    if rng.random() < 0.4:
        o = rng.choice(["EX", "PX", "EXAT", "PXAT", "ex", "px"])
        if o.upper() == "EX": v = rng.choice(["1", "2", "10", "-1", "0"])
        elif o.upper() == "PX": v = rng.choice(["10", "20", "1500", "5000", "-5", "0"])
        elif o.upper() == "EXAT": v = str(NOW // 1000 + rng.choice([-1, 0, 1, 2, 10]))
        else: v = str(NOW + rng.choice([-5, 1, 20, 1500, 5000]))
        if malformed and rng.random() < 0.4: v = rng.choice(BADNUM)
        opts.append([o, v])
    if malformed and rng.random() < 0.3:
        opts.append([rng.choice(["NX", "XX", "EX", "KEEPTTL", "PX", "GET"])])
    rng.shuffle(opts)
    return argv + [t for o in opts for t in o]

def rand_cmd(rng, malformed=False, big=False):
    k = rng.choice(KEYS)
    vals = VALUES + MORE_VALUES
    num = lambda pool: rng.choice(BADNUM) if malformed and rng.random() < 0.3 else rng.choice(pool)
    idx = lambda: rng.choice(BADIDX) if malformed and rng.random() < 0.3 else rng.choice(IDX)
    c = rng.choice(["SET", "SET", "SET", "GET", "GET", "MSET", "MGET", "DEL", "INCR", "DECR", "INCRBY", "DECRBY", "INCRBYFLOAT",
                    "APPEND", "SETRANGE", "GETRANGE", "SUBSTR", "STRLEN", "RENAME", "GETDEL", "GETEX", "TYPE", "get", "Set",
                    "FLUSHDB", "incrby", "Append"])
    if big and c.upper() == "INCRBYFLOAT": c = "INCRBY"
    u = c.upper()
    if u == "SET": argv = set_cmd(rng, k, vals, malformed); argv[0] = c
    elif u in ("GET", "STRLEN", "GETDEL", "TYPE", "INCR", "DECR"): argv = [c, k]
    elif u == "MSET":
        argv = [c]
        for _ in range(rng.randint(1, 3)): argv += [rng.choice(KEYS), rng.choice(vals)]
        if malformed and rng.random() < 0.5: argv.append("odd")
    elif u == "MGET": argv = [c] + [rng.choice(KEYS + ["zz"]) for _ in range(rng.randint(1, 4))]
    elif u == "DEL": argv = [c] + [rng.choice(KEYS + ["zz"]) for _ in range(rng.randint(1, 3))]
    elif u in ("INCRBY", "DECRBY"): argv = [c, k, num(INTS if big else INTS[:6] + INTS[8:])]
    elif u == "INCRBYFLOAT": argv = [c, k, num(FLOATS)]
    elif u == "APPEND": argv = [c, k, rng.choice(vals)]
    elif u == "SETRANGE": argv = [c, k, idx(), rng.choice(vals)]
    elif u in ("GETRANGE", "SUBSTR"): argv = [c, k, idx(), idx()]
    elif u == "RENAME": argv = [c, k, rng.choice(KEYS)]
    elif u == "GETEX":
        argv = [c, k]
        r = rng.random()
        if r < 0.25: argv += [rng.choice(["PERSIST", "persist"])]
        elif r < 0.8:
            o = rng.choice(["EX", "PX", "EXAT", "PXAT", "px"])
            v = {"EX": rng.choice(["1", "2", "-1"]), "PX": rng.choice(["10", "1500", "-5"]),
                 "EXAT": str(NOW // 1000 + rng.choice([-1, 1, 2])), "PXAT": str(NOW + rng.choice([-5, 20, 1500]))}[o.upper()]
            argv += [o, num([v])]
        elif malformed: argv += [rng.choice(["KEEP", "EX"])]
    elif u == "FLUSHDB": argv = [c] if rng.random() < 0.15 else ["GET", k]
    else: argv = [c, k]
    if malformed and rng.random() < 0.2:
        argv = argv[:-1] if rng.random() < 0.5 and len(argv) > 1 else argv + ["extra"]
    return argv

def random_scripts(rng, count, length, malformed=False, tag="r"):
    out = []
    for n in range(count):
        s = Script("%s%d" % (tag, n), {"now": NOW})
        s.setup_len = rand_preset(rng, s)
        s.digest()
        big = rng.random() < 0.2
        seq = []
        for _ in range(rng.randint(1, length)):
            argv = rand_cmd(rng, malformed, big)
            if big and argv[0].upper() in ("SET", "MSET") and len(argv) > 2 and rng.random() < 0.5:
                argv[2] = rng.choice(["9223372036854775807", "-9223372036854775808", "9223372036854775806"])
            seq.append(argv)
        if not float_safe(seq):
            seq = [a for a in seq if a[0].upper() != "INCRBYFLOAT"] or [["GET", "a"]]
        for argv in seq:
            s.cmd(0, *argv)
            s.digest()
        finish(s, KEYS)
        out.append(s)
    return out

# ---------------------------------------------------------------------------------------------
# Embedded API: scripts of ("api", op, args...) events; the worker gets "M" lines, the model / reference the equivalent
# command (the argv the wrapper builds).

def api_to_argv(op, a):
    if op == "SET":
        key, value, w, x, t, g = a
        argv = ["SET", key, value]
        if w != "-": argv.append(w)
        if x != "-": argv += [x, str(int(t))]
        if g == "1": argv.append("GET")
        return argv
    if op == "GETEX":
        key, o, t = a
        argv = ["GETEX", key]
        if o != "-": argv.append(o)
        if int(t) != 0: argv.append(str(int(t)))
        return argv
    return [op] + list(a)

def api_cmd(s, op, *a):
    s.lines.append("M %s %s" % (op, " ".join(hx(x) for x in a)))
    s.events.append(["api", op] + list(a))

def rand_api(rng):
    k = rng.choice(KEYS)
    vals = VALUES + MORE_VALUES
    op = rng.choice(["SET", "SET", "SET", "GET", "GET", "MSET", "MGET", "DEL", "INCR", "DECR", "INCRBY", "DECRBY", "INCRBYFLOAT",
                     "RENAME", "GETDEL", "GETEX", "TYPE", "SETRANGE", "STRLEN", "SUBSTR", "GETRANGE", "APPEND"])
    if op == "SET":
        x = rng.choice(["-", "-", "EX", "PX", "EXAT", "PXAT"])
        t = {"-": "0", "EX": "10", "PX": "1500", "EXAT": str(NOW // 1000 + 10), "PXAT": str(NOW + rng.choice([-5, 1500]))}[x]
        return op, [k, rng.choice(vals), rng.choice(["-", "-", "NX", "XX"]), x, t, rng.choice(["0", "0", "1"])]
    if op in ("GET", "INCR", "DECR", "GETDEL", "TYPE", "STRLEN"): return op, [k]
    if op == "MSET":
        ks = rng.sample(KEYS, rng.randint(1, 3))
        return op, [t for kk in ks for t in (kk, rng.choice(vals))]
    if op in ("MGET", "DEL"): return op, [rng.choice(KEYS + ["zz"]) for _ in range(rng.randint(1, 3))]
    if op in ("INCRBY", "DECRBY"): return op, [k, rng.choice(INTS[:6] + ["zz"])]
    if op == "INCRBYFLOAT": return op, [k, rng.choice(FLOATS + ["zz"])]
    if op == "RENAME": return op, [k, rng.choice(KEYS)]
    if op == "GETEX":
        o = rng.choice(["-", "PERSIST", "EX", "PX", "EXAT", "PXAT"])
        t = {"-": "0", "PERSIST": "0", "EX": "10", "PX": "1500", "EXAT": str(NOW // 1000 + 10), "PXAT": str(NOW + rng.choice([-5, 1500]))}[o]
        return op, [k, o, t]
    if op == "SETRANGE": return op, [k, rng.choice(IDX), rng.choice(vals)]
    if op in ("SUBSTR", "GETRANGE"): return op, [k, rng.choice(IDX), rng.choice(IDX)]
    return op, [k, rng.choice(vals)]       # APPEND

def api_scripts(rng, count, length, tag="api"):
    out = []
    for n in range(count):
        s = Script("%s%d" % (tag, n), {"now": NOW})
        s.setup_len = rand_preset(rng, s)
        s.digest()
        seq = [rand_api(rng) for _ in range(rng.randint(1, length))]
        if not float_safe([[op] + list(a) for op, a in seq]):
            seq = [(op, a) for op, a in seq if op != "INCRBYFLOAT"] or [("GET", ["a"])]
        for op, a in seq:
            api_cmd(s, op, *a)
            s.digest()
        out.append(s)
    return out

def api_twin(s):
    """the same script with every API call replaced by the command its wrapper sends"""
    t = Script(s.id, s.cfg)
    for line, ev in zip(s.lines, s.events):
        if ev[0] == "api":
            t.cmd(0, *api_to_argv(ev[1], ev[2:]))
        else:
            t.lines.append(line); t.events.append(ev)
    return t
