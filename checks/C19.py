"""C19 — the reported memory figure is a function of the current dataset."""
import re
from common import *
from framework import *
import gen_mixed, gen_kv

INPLACE = {"SADD", "SREM", "SPOP", "SMOVE", "ZADD", "ZINCRBY", "ZREM", "ZPOPMIN", "ZPOPMAX", "ZMPOP",
           "ZREMRANGEBYSCORE", "ZREMRANGEBYRANK", "ZREMRANGEBYLEX"}

def fresh_collections(rng, sid):
    """sets and sorted sets created by one command each on keys nothing has named before (members named twice, several
    pairs, equal members with different scores), then read, copied by the STORE forms, renamed, given deadlines, overwritten,
    deleted, flushed — never changed in place (the recorded finding), so the figure is judged at every digest"""
    s = Script(sid, {})
    ms = ["m", "n", "red-member", "", "m"]
    fresh = ["c%d" % i for i in range(12)]
    rng.shuffle(fresh)
    made = []
    for _ in range(rng.randint(3, 10)):
        r = rng.random()
        db = 0
        if r < 0.3 and fresh:
            k = fresh.pop(); made.append(k)
            s.cmd(db, "SADD", k, *[rng.choice(ms) for _ in range(rng.randint(1, 5))])
        elif r < 0.5 and fresh:
            k = fresh.pop(); made.append(k)
            argv = ["ZADD", k]
            for _ in range(rng.randint(1, 4)): argv += [rng.choice(["1", "2", "-1", "1.5"]), rng.choice(ms)]
            s.cmd(db, *argv)
        elif r < 0.6 and made and fresh:
            d = fresh.pop(); made.append(d)
            s.cmd(db, rng.choice(["SUNIONSTORE", "SDIFFSTORE", "SINTERSTORE"]), d, rng.choice(made), rng.choice(made))
        elif r < 0.68 and made and fresh:
            d = fresh.pop(); made.append(d)
            s.cmd(db, rng.choice(["ZUNIONSTORE", "ZINTERSTORE"]), d, "2", rng.choice(made), rng.choice(made))
        elif r < 0.76 and made: s.cmd(db, "DEL", rng.choice(made))
        elif r < 0.82 and made and fresh:
            d = fresh.pop(); src = rng.choice(made); made.append(d)
            s.cmd(db, "RENAME", src, d)
        elif r < 0.88 and made: s.cmd(db, "SET", rng.choice(made), rng.choice(["v", "12"]))
        elif r < 0.93 and made: s.cmd(db, "EXPIRE", rng.choice(made), "100")
        elif r < 0.96: s.cmd(db, "FLUSHDB")
        elif made: s.cmd(db, rng.choice(["SMEMBERS", "SCARD", "ZCARD", "TYPE"]), rng.choice(made))
        if rng.random() < 0.4: s.digest()
    s.digest()
    return s

class C19(PropertyCheck):
    prop = "C19"
    theorem_file = "Properties/C19.v"
    spec_mode = None
    trusted_extra = ["the reference figure of a dataset is taken from a fresh instance of the implementation loaded with that dataset "
                     "directly (the property's own oracle) and from the Coq definition acct through the model's presets"]

    def streams(self):
        q = self.tier == "quick"
        rng = self.rng
        n = 500 if q else 15000
        return {
            "histories": [gen_mixed.script(rng, "h%d" % i, 30, inplace_ok=False, dbs=(0, 1, 2), conns=(0, 1, 2)) for i in range(n)],
            "malformed": [gen_mixed.script(rng, "m%d" % i, 12, inplace_ok=False, malformed=True) for i in range(n // 4)],
            "inplace": [gen_mixed.script(rng, "p%d" % i, 20, inplace_ok=True) for i in range(n // 5)],
            "fresh_collections": [fresh_collections(rng, "f%d" % i) for i in range(n // 5)],
        }

    def rule(self):
        return ("histories over all value types, three databases, overwrites, collection growth, deletes, expiry (clock advances + lazy "
                "deletion), flushes, renames; the memory figure is compared (1) with the model's counter after every digest, (2) with a "
                "fresh implementation instance loaded with the final dataset directly. Stream 'inplace' contains the recorded finding's "
                "trigger class (set / sorted-set mutation through the pointer) and is judged only for *other* deviations. "
                "non-trivial = at least one successful write and a non-empty final dataset")

    def in_known_trigger(self, script):
        """the recorded finding is the mutation of an EXISTING set / sorted set through the stored pointer: a script is in its
        trigger class when one of those commands names a key that an earlier event of the script may have created (any
        database — conservative).  SADD / ZADD on a key no earlier event names creates it through SetValues: judged fully."""
        touched = set()
        for e in script.events:
            if e[0] == "preset":
                touched.add(str(e[2])); continue
            if e[0] != "cmd":
                continue
            name, args = str(e[2]).upper(), [str(a) for a in e[3:]]
            if name in INPLACE:
                if name == "SMOVE": targets = args[:2]
                elif name == "ZMPOP": targets = args[1:]
                else: targets = args[:1]
                if any(t in touched for t in targets):
                    return "KF-C19-inplace"
            touched.update(args)
        return None

    def nontrivial(self, script, impl_lines):
        d = [l for l in impl_lines if l.startswith("G ")]
        return bool(d) and "=" in d[-1].split(" ", 2)[-1]

    def evaluate(self, scripts):
        impl = run_impl(scripts, self.per_script_timeout())
        model = run_model(scripts)
        div, rej = [], []
        fresh = []
        for s in scripts:
            a = impl.get(s.id, ["<no output>"]); b = model.get(s.id, ["<no output>"])
            opts = {"with_mem": self.in_known_trigger(s) is None}
            d = compare_lines(s, a, b, self.reply_opts, opts)
            if d:
                div.append((s, d))
            dg = [l for l in a if l.startswith("G ")]
            if dg and "DIED" not in a and "HUNG" not in a:
                fs = self.fresh_script(s, dg[-1])
                fresh.append((s, fs, parse_digest(dg[-1])["mem"]))
        out = run_impl([fs for _, fs, _ in fresh], self.per_script_timeout())
        outm = run_model([fs for _, fs, _ in fresh])
        self.oracle_comparisons = 0
        for s, fs, mem in fresh:
            g = [l for l in out.get(fs.id, []) if l.startswith("G ")]
            gm = [l for l in outm.get(fs.id, []) if l.startswith("G ")]
            if not g or not gm:
                continue
            self.oracle_comparisons += 1
            want = parse_digest(g[-1])["mem"]; want_coq = parse_digest(gm[-1])["mem"]
            if want != want_coq:
                rej.append((s, {"what": "fresh implementation instance and Coq acct disagree on the accounted size of the dataset",
                                "fresh_impl": want, "coq_acct": want_coq}))
            elif mem != want:
                rej.append((s, {"what": "memory figure differs from that of a fresh server holding the same dataset",
                                "reported": mem, "fresh_server_with_same_dataset": want, "final_digest": g[-1]}))
        return impl, model, div, rej

    def fresh_script(self, s, digest_line):
        dg = parse_digest(digest_line)
        fs = Script(s.id + "_fresh", {"now": s.cfg.get("now", DEFAULT_NOW)})
        # the clock of the original run may have advanced: start the fresh instance at the same final time
        adv = sum(e[1] for e in s.events if e[0] == "advance")
        fs.cfg["now"] = int(fs.cfg["now"]) + adv
        for db, ents in sorted(dg["dbs"].items()):
            for k, (v, dl) in sorted(ents.items()):
                fs.raw("P %d %s %s %d" % (db, k, v, dl), ["preset", db, k, v, dl])
        fs.digest()
        return fs

    def replay_known(self, kf):
        s = Script("kf", {"now": gen_kv.NOW})
        for k, v in kf["witness"]["preset"]:
            s.preset(0, k, v)
        for c in kf["witness"]["commands"]:
            s.cmd(0, *c)
        s.digest()
        im = run_impl([s])
        g = [l for l in im.get("kf", []) if l.startswith("G ")]
        if not g:
            return False
        fs = self.fresh_script(s, g[-1])
        out = run_impl([fs])
        g2 = [l for l in out.get(fs.id, []) if l.startswith("G ")]
        return bool(g2) and parse_digest(g[-1])["mem"] != parse_digest(g2[-1])["mem"]

    def assumptions(self):
        return ["expired entries that have not been removed yet are 'currently stored' and are accounted (they leave the figure when "
                "they are removed, lazily or by the sampler)",
                "known finding KF-C19-inplace: set / sorted-set commands that mutate the stored object through its pointer do not move the figure"]
