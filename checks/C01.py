"""C01 — the keyspace is a sequential typed map: reads return the last write."""
import re
from fractions import Fraction
from common import *
import framework
from framework import *
import gen_c01

NOW = gen_c01.NOW

# ---------------------------------------------------------------------------------------------
# Floats: binary64 arithmetic and float text are "modelled, not verified" (DESIGN §4).  A stored float is shown in a digest
# as the exact rational of the binary64 (implementation) resp. of the decimal text (model): both are brought to the value
# rounded to 12 significant digits.  A float printed in a reply with 16+ significant digits is rounded the same way.

_FL = re.compile(r"(?<=[=:])f(-?\d+)/(\d+)")
def _round_frac(fr):
    if fr == 0:
        return fr
    return Fraction("%.12g" % float(fr))
def norm_digest_floats(line):
    def sub(m):
        fr = _round_frac(Fraction(int(m.group(1)), int(m.group(2))))
        return "f%d/%d" % (fr.numerator, fr.denominator)
    return _FL.sub(sub, line)

_NUM = re.compile(rb"^-?\d+\.\d+(e[+-]?\d+)?$")
def _norm_bulk_tok(tok):
    if isinstance(tok, str) and tok[:1] == "$" and len(tok) >= 1 + 2 * 16:
        try:
            b = bytes.fromhex(tok[1:])
        except ValueError:
            return tok
        if _NUM.match(b):
            return "$" + ("%.12g" % float(b)).encode().hex()
    return tok
def _norm_reply_floats(line):
    if not line.startswith("R ") or "$" not in line:
        return line
    return "R " + " ".join(_norm_bulk_tok(t) for t in line[2:].split(" "))

# ---------------------------------------------------------------------------------------------
# Embedded API scripts: the worker runs "M" lines (sugardb.Set/Get/...), the model and the reference run the command the
# wrapper sends; their reply is translated into what the wrapper must return for it.

def has_api(script):
    return any(e[0] == "api" for e in script.events)

def _api_expect(op, args, line):
    """reply line of the command -> result line of the API call"""
    if not line.startswith("R ") or line in ("R -", "R !"):
        return line
    r = line[2:]
    def as_str(tok):
        if tok == "_": return "$"
        if tok[:1] == "+": return "$" + tok[1:]
        return tok
    if op == "SET":
        prev = as_str(r) if args[5] == "1" else "$"
        return "R [%s :1]" % prev
    if op == "MSET":
        return "R :1" if r == "+4f4b" else line
    if op == "MGET" and r.startswith("["):
        return "R [" + " ".join(as_str(t) for t in r[1:-1].split()) + "]"
    if op in ("GET", "GETDEL", "GETEX", "SUBSTR", "GETRANGE", "RENAME", "TYPE", "INCRBYFLOAT"):
        return "R " + as_str(r)
    return line

def api_translate(script, lines):
    evs = [e for e in script.events if e[0] in ("cmd", "digest", "sweep", "api")]
    out = list(lines)
    for i, e in enumerate(evs):
        if e[0] == "api" and i < len(out):
            out[i] = _api_expect(e[1], e[2:], out[i])
    return out

_orig_run_model = framework.run_model
def _run_model(scripts, mode="model"):
    return _orig_run_model([gen_c01.api_twin(s) if has_api(s) else s for s in scripts], mode)
framework.run_model = _run_model

_orig_compare = framework.compare_lines
def _compare(script, impl_lines, model_lines, reply_opts=None, digest_opts=None):
    if has_api(script):
        model_lines = api_translate(script, model_lines)
        script = gen_c01.api_twin(script)
    if "R !" in model_lines and "R !" not in impl_lines:
        # a float with more decimals than the modelled float text ([Adapt.show_decimal]) was reached: the comparison stops there
        cut = model_lines.index("R !")
        impl_lines, model_lines = impl_lines[:cut], model_lines[:cut]
    a = [norm_digest_floats(l) if l.startswith("G ") else _norm_reply_floats(l) for l in impl_lines]
    b = [norm_digest_floats(l) if l.startswith("G ") else _norm_reply_floats(l) for l in model_lines]
    return _orig_compare(script, a, b, reply_opts, digest_opts)
framework.compare_lines = _compare

WRITES = ("SET", "MSET", "DEL", "INCR", "DECR", "INCRBY", "DECRBY", "INCRBYFLOAT", "APPEND", "SETRANGE", "RENAME", "GETDEL",
          "GETEX", "FLUSHDB")

def live_db0(digest_line, now):
    """'G ...' of the implementation -> canonical text of the live entries of database 0 (what the reference prints)"""
    dg = parse_digest(digest_line)
    ents = dg["dbs"].get(0, {})
    items = []
    for k in sorted(ents, key=lambda h: unhex(h)):
        v, dl = ents[k]
        if dl != 0 and dl < now:
            continue
        items.append("%s=%s@%d" % (k, v, dl))
    return "G db0{" + " ".join(items) + "}"

class C01(PropertyCheck):
    prop = "C01"
    theorem_file = "Properties/C01.v"
    spec_mode = "spec01"
    digest_opts = {"with_mem": False}       # the memory figure is C19's business

    def streams(self):
        q = self.tier == "quick"
        rng = self.rng
        return {
            "exhaustive": gen_c01.exhaustive(2 if q else 3, "x"),
            "random": gen_c01.random_scripts(rng, 400 if q else 20000, 30, False, "r"),
            "malformed": gen_c01.random_scripts(rng, 200 if q else 8000, 12, True, "m"),
            "embedded_api": gen_c01.api_scripts(rng, 200 if q else 8000, 20, "api"),
        }

    def per_script_timeout(self):
        return 0.3

    def exhaustive_note(self):
        d = 2 if self.tier == "quick" else 3
        return ("every command sequence of length 1 over a %d-command alphabet x %d preset datasets (all seven stored types, "
                "live / passed deadlines, int64 limits); every sequence of length 2 over %d commands x %d datasets%s" % (
                    len(gen_c01.alphabet()), len(gen_c01.presets()), len(gen_c01.alphabet(True)),
                    3 if d == 2 else len(gen_c01.presets()),
                    "" if d == 2 else "; every sequence of length 3 over a core alphabet x 2 datasets"))

    def rule(self):
        return ("scripts = preset dataset (all seven value types, deadlines, a key in another database) + commands of the C01 "
                "alphabet with a digest after every command + final GET/TYPE reads; four streams: exhaustive small scope, random "
                "histories over 3 keys, malformed (wrong arity, bad numbers, unknown / repeated options), embedded API calls "
                "(sugardb.Set/Get/...). Implementation vs model: every reply and every digest; reference (spec01) judges the "
                "implementation's replies and the live dataset of database 0 after every command. "
                "distinct = distinct canonical script text; non-trivial = at least one successful write")

    def nontrivial(self, script, impl_lines):
        evs = [e for e in script.events if e[0] in ("cmd", "digest", "api")]
        for e, l in zip(evs, impl_lines):
            w = str(e[2]).upper() if e[0] == "cmd" else (e[1] if e[0] == "api" else "")
            if w in WRITES and l.startswith("R ") and l not in ("R -", "R !", "R _"):
                return True
        return False

    # ---- reference
    def _outs(self, script):
        return [(l, e) for l, e in zip(script.lines, script.events) if e[0] in ("cmd", "digest", "sweep", "api")]

    def spec_script(self, script, impl_lines):
        api = has_api(script)
        tw = gen_c01.api_twin(script) if api else script
        outs = self._outs(tw)
        i0 = next((i for i, (_, e) in enumerate(outs) if e[0] == "digest"), None)
        if i0 is None or len(impl_lines) <= i0 or not impl_lines[i0].startswith("G "):
            return None
        now = int(script.cfg.get("now", DEFAULT_NOW))
        dg = parse_digest(impl_lines[i0])
        sp = Script(script.id + "_spec", {"now": now})
        for k, (v, dl) in dg["dbs"].get(0, {}).items():
            if dl != 0 and dl < now:
                continue
            sp.raw("V %s %s %d" % (k, v, dl))
        for line, ev in outs[i0 + 1:]:
            sp.raw(line, ev)
        return sp

    def spec_compare(self, script, impl_lines, spec_lines):
        api = has_api(script)
        outs = self._outs(script)
        i0 = next((i for i, (_, e) in enumerate(outs) if e[0] == "digest"), None)
        if i0 is None:
            return None
        now = int(script.cfg.get("now", DEFAULT_NOW))
        rest = outs[i0 + 1:]
        a = impl_lines[i0 + 1:]
        for i in range(max(len(rest), len(spec_lines))):
            if i < len(spec_lines) and spec_lines[i] == "R !" and i < len(a) and a[i] != "R !":
                return None          # outside the modelled float text: the reference says nothing from here on
            x = a[i] if i < len(a) else "<missing>"
            y = spec_lines[i] if i < len(spec_lines) else "<missing>"
            ev = rest[i][1] if i < len(rest) else None
            if ev and ev[0] == "api":
                y = _api_expect(ev[1], ev[2:], y)
            what = (ev[2:] if ev[0] == "cmd" else ev[1:]) if ev and ev[0] in ("cmd", "api") else "dataset"
            if x.startswith("G ") and y.startswith("G "):
                xx = norm_digest_floats(live_db0(x, now))
                yy = norm_digest_floats(re.sub(r"\}v\[[0-9a-f,\-]*\]", "}", y))
                if xx != yy:
                    return {"index": i, "after": rest[i - 1][1][1:] if i > 0 else None, "impl_dataset": xx, "reference_dataset": yy}
                # another database must be exactly as it was
                d0 = parse_digest(impl_lines[i0]); d1 = parse_digest(x)
                for db in set(d0["dbs"]) | set(d1["dbs"]):
                    if db != 0 and d0["dbs"].get(db) != d1["dbs"].get(db):
                        return {"index": i, "after": rest[i - 1][1][1:] if i > 0 else None,
                                "why": "database %d changed" % db, "before": d0["dbs"].get(db), "impl": d1["dbs"].get(db)}
                continue
            x, y = _norm_reply_floats(x), _norm_reply_floats(y)
            if x == y:
                continue
            if x.startswith("R ") and y.startswith("R "):
                p, q = norm_tree(parse_reply(x[2:]), parse_reply(y[2:]))
                if p == q:
                    continue
            return {"index": i, "command": what, "impl": x, "reference": y}
        return None

    def assumptions(self):
        return ["no memory limit configured (st_maxmem = 0): refusals at the limit belong to C08",
                "no clock advance inside a C01 script (expiry over time is C04); keys may carry live or passed deadlines",
                "tokens on which AdaptValue is modelled exactly (Adapt.simple_token and the extra values of gen_c01); float increments "
                "are short dyadic decimals; floats are compared after rounding to 12 significant digits (binary64 rounding and "
                "float text are modelled, not verified); 'inf'/'nan' increments, exponents and integer spellings such as 1e2 / 5.0 "
                "for offsets are not generated",
                "the reference adopts, where statement and docs are silent: a value is typed by its bytes (canonical int64 numeral = "
                "integer, canonical plain decimal = float, anything else = string); STRLEN/APPEND/SETRANGE/GETRANGE refuse integers "
                "and floats; overwriting a live key (SET without expiry option, MSET, APPEND, SETRANGE, INCR..) keeps its deadline; "
                "SET NX/XX whose condition fails is an error; GET/TYPE... of other types: GET errors, MGET gives nil; TYPE and "
                "GETRANGE of an absent key are errors; SETRANGE never pads (offset past the end appends, negative offset prepends, an "
                "absent key takes the value); GETRANGE with start behind end gives the reversed bytes; GETEX with an option word but "
                "no time changes nothing; DEL counts each distinct key once"]

if __name__ == "__main__":
    pass
