"""Generators for hash-command scripts (C14)."""
import itertools, random
from common import *

KEYS = ["a", "b"]
FIELDS = ["f", "g", "", "f\r\n\x00\xff", "12", "new", "big", "%s"]
# binary64 arithmetic must stay exact (brief §7): integers beyond 2^31 live only in field "big", which never holds a float and is
# never the target of HINCRBYFLOAT; every other field only meets small numbers.
# value tokens satisfy Adapt.simple_token (on these AdaptValue is modelled exactly), plus "1.50" and "+Inf" (outside the
# predicate, but adapt_value's answer for them was confirmed against the implementation and is re-checked by every run)
VALUES = ["v", "", "x\r\n\x00\xff", "12", "-3", "0", "007", "1.50", "+5", "1.5", "-0.25", "0.5", "3", "-0",
          "+Inf", "9223372036854775808"]
BIG_VALUES = ["9223372036854775807", "-9223372036854775808", "9223372036854775806", "5", "v", "9223372036854775808"]
INT_INCR = ["1", "-1", "5", "0", "+2", "-7"]
BIG_INCR = INT_INCR + ["9223372036854775807", "-9223372036854775808", "9223372036854775802"]
BAD_INT = ["zz", "", "1.5", " 1", "9223372036854775808", "1_0"]
# ParseFloat is modelled on: [+-]digits[.digits] | .digits | digits. | [+-]inf|infinity; only dyadic values
FLOAT_INCR = ["1.5", "-0.25", "2", "0.5", "+2.5", ".5", "5.", "-3", "0", "inf", "+Infinity", "0.125", "100.75", "0.00001"]
BAD_FLOAT = ["zz", "", "1.5x", "0x10", ".", "+", "1..5"]
COUNTS = ["-3", "-2", "-1", "0", "1", "2", "3", "5", "+1", "-0"]
BAD_COUNT = ["zz", "", "1.5", "9223372036854775808"]

def alphabet(k="a"):
    """A concrete command alphabet with boundary arguments."""
    c = [("HSET", k, "f", "v"), ("HSET", k, "f", "12", "g", ""), ("HSET", k, "f", "1.5"), ("HSET", k, "f", "007", "f", "1.50"),
         ("HSET", k, "", "+5", "12", "x\r\n\x00\xff"), ("HSET", k, "f", "v", "g"), ("HSET", k, "f"),
         ("HSETNX", k, "f", "z"), ("HSETNX", k, "new", "5", "f", "6"), ("HSETNX", k, "new", "1", "new", "2"), ("hsetnx", k, "g", "7", "g"),
         ("HGET", k, "f"), ("HGET", k, "f", "nope", ""), ("HMGET", k, "g", "f"), ("HMGET", k), ("HSTRLEN", k, "f", "g", "nope", "12", ""),
         ("HVALS", k), ("HKEYS", k), ("HLEN", k), ("HGETALL", k), ("HGETALL", k, "x"), ("HEXISTS", k, "f"), ("HEXISTS", k, "nope"),
         ("HEXISTS", k), ("HDEL", k, "f"), ("HDEL", k, "f", "f", "nope"), ("HDEL", k, "f", "g", "", "12", "new"), ("HDEL", k),
         ("HINCRBY", k, "f", "1"), ("HINCRBY", k, "g", "-5"), ("HINCRBY", k, "new", "3"), ("HINCRBY", k, "big", "9223372036854775807"),
         ("HINCRBY", k, "big", "-9223372036854775808"), ("HINCRBY", k, "big", "1"), ("HINCRBY", k, "big", "-1"), ("HSET", k, "big", "9223372036854775807"), ("HINCRBY", k, "f", "zz"), ("HINCRBY", k, "f", "1.5"),
         ("HINCRBYFLOAT", k, "f", "0.5"), ("HINCRBYFLOAT", k, "g", "-0.25"), ("HINCRBYFLOAT", k, "new", "2"), ("HINCRBYFLOAT", k, "f", "x"),
         ("hincrbyfloat", k, "f", "inf"),
         ("HRANDFIELD", k), ("HRANDFIELD", k, "2", "WITHVALUES"), ("HRANDFIELD", k, "-2", "withvalues"),
         ("HRANDFIELD", k, "1", "nope"), ("HRANDFIELD", k, "0", "nope"), ("HRANDFIELD", k, "zz"), ("HRANDFIELD", k, "1", "withvalues", "x")]
    c += [("HRANDFIELD", k, n) for n in ("-3", "-1", "0", "1", "2", "5")]
    return c

BIG = 9223372036854775807
PRESETS = [
    [],
    [("a", vhash({"f": vstr("v"), "g": vint(12)}))],
    [("a", vhash({"f": vfloat(3, 2), "": vstr(""), "12": vstr("007"), "g": vstr("x\r\n\x00\xff")}))],
    [("a", vhash({}))],                                   # a hash emptied by HDEL
    [("a", vstr("str"))],
    [("a", vlist(["x"])), ("b", vhash({"f": vstr("v")}))],
    [("a", vhash({"big": vint(BIG), "g": vint(-7), "new": vfloat(-1, 4)}))],
    [("a", vhash({"big": vint(-BIG - 1), "f": vint(5)}))],
    [("a", vset(["m"]))],
]

def finish(s, keys):
    for k in keys:
        s.cmd(0, "HGETALL", k)
        s.cmd(0, "HLEN", k)
    s.digest()
    return s

def exhaustive(depth, tag="x"):
    out, n = [], 0
    alpha = alphabet()
    for preset in PRESETS:
        for d in range(1, depth + 1):
            for seq in itertools.product(alpha, repeat=d):
                s = Script("%s%d" % (tag, n)); n += 1
                for k, v in preset:
                    s.preset(0, k, v)
                s.digest()
                s.setup_len = len(preset)
                for c in seq:
                    s.cmd(0, *c)
                finish(s, ["a", "b"])
                out.append(s)
    return out

def rand_cmd(rng, malformed=False):
    k = rng.choice(KEYS + ["c"])
    f = lambda: rng.choice(FIELDS)
    v = lambda: rng.choice(VALUES)
    c = rng.choice(["HSET", "HSET", "HSETNX", "HGET", "HMGET", "HSTRLEN", "HVALS", "HRANDFIELD", "HRANDFIELD", "HLEN", "HKEYS",
                    "HINCRBY", "HINCRBY", "HINCRBYFLOAT", "HINCRBYFLOAT", "HGETALL", "HEXISTS", "HDEL", "HDEL", "hset", "hDel", "HincrBy"])
    u = c.upper()
    if u in ("HSET", "HSETNX"):
        argv = [c, k]
        for _ in range(rng.randint(1, 3)):
            fld = f()
            argv += [fld, rng.choice(BIG_VALUES) if fld == "big" else v()]
    elif u in ("HGET", "HMGET", "HSTRLEN", "HDEL"):
        argv = [c, k] + [f() for _ in range(rng.randint(1, 4))]
    elif u in ("HVALS", "HLEN", "HKEYS", "HGETALL"):
        argv = [c, k]
    elif u == "HEXISTS":
        argv = [c, k, f()]
    elif u == "HINCRBY":
        fld = f()
        argv = [c, k, fld, rng.choice(BAD_INT) if malformed and rng.random() < 0.4 else rng.choice(BIG_INCR if fld == "big" else INT_INCR)]
    elif u == "HINCRBYFLOAT":
        argv = [c, k, rng.choice([x for x in FIELDS if x != "big"]), rng.choice(BAD_FLOAT) if malformed and rng.random() < 0.4 else rng.choice(FLOAT_INCR)]
    else:  # HRANDFIELD
        argv = [c, k]
        if rng.random() < 0.85:
            argv.append(rng.choice(BAD_COUNT) if malformed and rng.random() < 0.3 else rng.choice(COUNTS))
            if rng.random() < 0.4:
                argv.append(rng.choice(["WITHVALUES", "withvalues", "WithValues"] + (["VALUES", ""] if malformed else [])))
    if malformed and rng.random() < 0.3:
        if rng.random() < 0.5 and len(argv) > 1: argv = argv[:-1]
        elif u not in ("HSET", "HSETNX"): argv = argv + [v()]
        else: argv = argv + ["g"]
    return argv

def rand_scalar(rng, big=False):
    if big:
        return rng.choice([vint(BIG), vint(-BIG - 1), vint(BIG - 1), vint(7), vstr("v")])
    r = rng.random()
    if r < 0.45: return vstr(rng.choice(["v", "", "x\r\n\x00\xff", "007", "1.50", "12", "abc"]))
    if r < 0.8: return vint(rng.choice([0, 1, -3, 12, 1000]))
    num, den = rng.choice([(3, 2), (-1, 4), (5, 1), (0, 1), (1, 8), (403, 4)])
    return vfloat(num, den)

OTHER_VALUES = [vstr("v"), vint(12), vfloat(3, 2), vset(["m1", "m2"]), vlist(["x", "y"]), vzset({"m": "1/1"})]

def rand_preset(rng, s):
    n = 0
    now = 1700000000000
    for k in KEYS + ["c"]:
        r = rng.random()
        dl = rng.choice([0, 0, 0, now + 5000, now - 5])   # none / future / already passed
        if r < 0.5:
            h = {}
            for _ in range(rng.randint(0, 4)):
                fld = rng.choice(FIELDS)
                h[fld] = rand_scalar(rng, fld == "big")
            s.preset(0, k, vhash(h), dl); n += 1
        elif r < 0.75:
            s.preset(0, k, rng.choice(OTHER_VALUES), dl); n += 1
    if rng.random() < 0.2:
        s.preset(1, "a", vhash({"other": vstr("db")})); n += 1
    return n

def random_scripts(rng, count, length, malformed=False, tag="r"):
    out = []
    for n in range(count):
        s = Script("%s%d" % (tag, n))
        s.setup_len = rand_preset(rng, s)
        s.digest()
        for _ in range(rng.randint(1, length)):
            s.cmd(0, *rand_cmd(rng, malformed))
        finish(s, KEYS + ["c"])
        out.append(s)
    return out
